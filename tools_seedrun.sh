#!/bin/bash
# tools_seedrun.sh <seed_dir> <check ids...>
# Run checks against a seeded change WITHOUT touching /repo or /verif's evidence: the patch is applied in a
# scratch worktree of /repo (VERIF_REPO) and the checks run from a private copy of /verif (VERIF_ROOT) that
# shares the Go build cache.  Several of these may run concurrently.  Prints one summary line per check and
# keeps the full log in <seed_dir>/run_<check>.log (first 400 lines).
set -u
export GOFLAGS=-mod=mod GOPROXY=off
dir=$(cd "$1" && pwd); shift
tag=$(basename "$dir")_$$
wt=/tmp/seedrun_wt_$tag; vr=/tmp/seedrun_vr_$tag
patch=$dir/patch.diff
for f in "$dir"/patch_rebased*.diff; do [ -f "$f" ] && patch=$f; done
git -C /repo worktree add -q "$wt" HEAD || exit 2
if ! git -C "$wt" apply "$patch"; then echo "$(basename $dir) PATCH-DOES-NOT-APPLY"; git -C /repo worktree remove --force "$wt"; exit 2; fi
mkdir -p "$vr"
rsync -a --exclude .git --exclude .cache --exclude replays --exclude evidence --exclude seeded /verif/ "$vr/"
mkdir -p "$vr/.cache/bin" "$vr/evidence"
cp /verif/.cache/bin/verifcheck /verif/.cache/bin/protoc-gen-go "$vr/.cache/bin/"
ln -s /verif/.cache/gocache "$vr/.cache/gocache"
for id in "$@"; do
  s=$(date +%s)
  VERIF_REPO="$wt" "$vr/check" "$id" --tier "${TIER:-quick}" > "$vr/run_$id.log" 2>&1; rc=$?
  v=$(grep -c '^VIOLATION' "$vr/run_$id.log"); nf=$(grep '^VIOLATION' "$vr/run_$id.log" | grep -c 'no-failing-input-found')
  verdict=MISSED; [ "$v" -gt 0 ] && verdict=CAUGHT; [ "$rc" -ne 0 ] && [ "$rc" -ne 1 ] && verdict="HARNESS-FAILURE(rc=$rc)"
  echo "$(basename $dir) $id $verdict exit=$rc violations=$v no_failing_input=$nf $(( $(date +%s)-s ))s"
  grep -v '^KNOWN-FINDING' "$vr/run_$id.log" | cut -c1-400 | head -400 > "$dir/run_$id.log"
  # keep the first replay for the record
  f=$(grep -m1 '^VIOLATION' "$vr/run_$id.log" | sed 's/.*replay=\([^ ]*\).*/\1/'); [ -n "$f" ] && [ -f "$f" ] && head -c 6000 "$f" > "$dir/first_replay_$id.json"
done
git -C /repo worktree remove --force "$wt"; rm -rf "$vr"
