#!/bin/bash
# tools_seedsweep.sh <seeds...> : every quick check under each seed on the unchanged tree; prints one line per (seed, check)
cd "$(dirname "$0")"
[ -x .cache/bin/verifcheck ] || ./setup.sh > setup.log 2>&1
for seed in "$@"; do
  for id in C01 C02 C03 C04 C05 C06 C07 C08 C09 C10 C11 C12 C13 C14 C15 C16 C17 C18 C19 C20; do
    s=$(date +%s); VERIF_SEED=$seed ./check $id --tier quick > sweep_${seed}_$id.log 2>&1; rc=$?
    echo "seed=$seed $id exit=$rc $(( $(date +%s)-s ))s viol=$(grep -c '^VIOLATION' sweep_${seed}_$id.log) $(grep -m1 '^VIOLATION\|^HARNESS' sweep_${seed}_$id.log | cut -c1-160)"
  done
done
