#!/bin/bash
# tools_seed.sh verify <seed_dir> <demo_rel_path>   : confirm a seeded change in a scratch worktree
# tools_seed.sh run <seed_dir> <check ids...>       : apply to /repo, run checks, undo
set -u
export GOFLAGS=-mod=mod GOPROXY=off
mode=$1; dir=$2; shift 2
case $mode in
verify)
  demo=$1
  wt=/tmp/seedwt_$$
  git -C /repo worktree add -q $wt HEAD || exit 2
  (cd $wt && mkdir -p $(dirname $demo) && cp $dir/demo_test.go $demo && echo "--- demo WITHOUT patch:" && (SEED_DEMO_SKIP_E2E=${SKIP_E2E:-1} go test -count=1 ./$(dirname $demo)/ 2>&1 | tail -3))
  (cd $wt && git apply $dir/patch.diff && echo "--- patch applied; build:" && go build ./... && echo build-ok && echo "--- demo WITH patch:" && (SEED_DEMO_SKIP_E2E=${SKIP_E2E:-1} go test -count=1 ./$(dirname $demo)/ 2>&1 | tail -5); rm -f $demo; echo "--- baseline:"; python3 /verif/tools_baseline.py $wt | head -5)
  git -C /repo worktree remove --force $wt
  ;;
run)
  git -C /repo apply $dir/patch.diff || exit 2
  for id in "$@"; do
    echo "== $id"; /verif/check $id 2>&1 | grep -v KNOWN-FINDING | cut -c1-220 | head -8
  done
  git -C /repo checkout -- . ; git -C /repo status --short | head
  ;;
esac
