#!/usr/bin/env python3
# Runs the repository's test suite (guard off) and compares the set of passing tests with BASELINE.json's stable_pass.
import json, subprocess, sys, os
repo = sys.argv[1] if len(sys.argv) > 1 else "/repo"
base = json.load(open("/root/.vp/BASELINE.json"))
want = set(base["stable_pass"])
env = dict(os.environ, GOFLAGS="-mod=mod", GOPROXY="off")
p = subprocess.run(["go", "test", "-json", "-vet=off", "-count=1", "-timeout", "25m", "./..."], cwd=repo, env=env, capture_output=True, text=True)
passed = set()
for line in p.stdout.splitlines():
    try:
        e = json.loads(line)
    except Exception:
        continue
    if e.get("Action") == "pass" and e.get("Test"):
        passed.add(e["Package"] + "::" + e["Test"])
missing = sorted(want - passed)
print("stable_pass:", len(want), "passing now:", len(passed & want), "missing:", len(missing))
for m in missing[:40]:
    print("  MISSING", m)
sys.exit(1 if missing else 0)
