#!/bin/bash
# tools_seed_regress.sh [parallelism] : every seeded change against the check of the property it breaks (and the
# extra checks listed below), each in a scratch worktree + private copy of /verif (tools_seedrun.sh); writes seeded/RESULTS.txt
cd /verif
par=${1:-4}
out=seeded/RESULTS.txt
declare -A extra=( [C06e]="C19" [C07e]="C05" [C08f]="C15" [C18e]="C15" [C06b]="C05" [C08b]="C17" [C07a]="C05" [C04a]="C14" [C17c]="C09" )
jobs=/tmp/seed_regress_jobs.txt; : > $jobs
for d in seeded/*/; do
  k=$(basename $d); [ -f $d/meta.json ] || continue
  prop=$(python3 -c "import json,re;print(re.match(r'C\d\d', json.load(open('$d/meta.json'))['breaks_property']).group(0))")
  echo "$k $prop ${extra[$k]:-}" | sed "s/ *$//" >> $jobs
done
run1() { k=$1; shift; /verif/tools_seedrun.sh /verif/seeded/$k "$@"; }
export -f run1
echo "# seeded-change regression: /repo $(git -C /repo rev-parse --short HEAD), /verif $(git rev-parse --short HEAD), $(date -u +%FT%TZ)" > $out.tmp
echo "# <seed> <check> CAUGHT|MISSED exit violations no_failing_input(=how many of them are no-failing-input-found) wall" >> $out.tmp
xargs -P $par -L 1 bash -c 'run1 "$@"' _ < $jobs | sort >> $out.tmp
mv $out.tmp $out
echo "# summary: $(grep -c ' CAUGHT ' $out) caught lines, $(grep -c ' MISSED ' $out) missed lines" >> $out
cat $out
