#!/bin/bash
# tools_seedimport.sh <PROP> [checks...] : import /tmp/sw_<PROP>/out/<PROP>{x,y} as the next free seeded/<PROP><letter>,
# verify each in a scratch worktree and run the property's check (plus extra checks) against it.
P=$1; shift; extra="$@"
cd /verif
for s in x y; do
  src=/tmp/sw_$P/out/$P$s
  [ -f $src/patch.diff ] || { echo "$P$s: no patch"; continue; }
  for l in a b c d e f g h i j; do [ -d seeded/$P$l ] || break; done
  d=seeded/$P$l; mkdir -p $d; cp $src/patch.diff $src/demo_test.go $d/; cp $src/notes.md $d/ 2>/dev/null
  ( SKIP_E2E=0 ./tools_seed.sh verify /verif/$d internal/seeddemo/demo_test.go > $d/verify.log 2>&1 )
  echo "$P$l verify: $(grep -E '^ok|^FAIL|build-ok|stable_pass' $d/verify.log | tr '\n' ' ' | cut -c1-200)"
  ./tools_seedrun.sh $d $P $extra
done
