#!/bin/bash
# tools_thorough_all.sh : every thorough check once on the unchanged tree (each under a 90-minute cap); one line per check
cd "$(dirname "$0")"
[ -x .cache/bin/verifcheck ] || ./setup.sh > setup.log 2>&1
for id in ${@:-C03 C16 C15 C14 C12 C18 C19 C20 C13 C17 C09 C10 C11 C02 C01 C06 C07 C08 C05 C04}; do
  s=$(date +%s); timeout 5400 ./check $id --tier thorough > thorough_$id.log 2>&1; rc=$?
  echo "$id exit=$rc $(( $(date +%s)-s ))s viol=$(grep -c '^VIOLATION' thorough_$id.log) $(grep -m1 '^VIOLATION\|^HARNESS\|^OK' thorough_$id.log | cut -c1-200)"
done
