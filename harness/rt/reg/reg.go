// Package reg is the registry through which per-package shims expose emitted servers, clients and
// message types to the scenario runner.
package reg

import (
	"context"
	"net/http"
	"sync"

	"google.golang.org/protobuf/proto"
)

// HandlerFunc is what a shim server implementation calls for every dispatched RPC:
// it receives the request exactly as the emitted server passed it (wire bytes) and returns the
// scripted response (wire bytes of the output type) or an error value.
type HandlerFunc func(ctx context.Context, service, method string, reqWire []byte) (respWire []byte, err error)

// HookFunc is the body of a scripted ErrorHandler.
type HookFunc func(w http.ResponseWriter, r *http.Request, err error) proto.Message

type CallOpts struct {
	ContentType     string            // client-level content type ("" = default)
	CallContentType string            // per-call content type
	DefaultHeaders  [][2]string       // With<Svc>DefaultHeader in order
	CallHeaders     [][2]string       // With<Svc>Header in order
	HelperClient    map[string]string // typed helper (client option) funcName -> value
	HelperCall      map[string]string // typed helper (call option) funcName -> value
}

type Service struct {
	Name string
	// Register mounts the emitted server on mux, backed by h; hook == nil means no WithErrorHandler.
	Register func(mux *http.ServeMux, h HandlerFunc, hook HookFunc) error
	// Call invokes the emitted client method; returns response wire bytes or the client's error value.
	Call map[string]func(ctx context.Context, baseURL string, hc *http.Client, o CallOpts, reqWire []byte) ([]byte, error)
	// NewClient constructs ONE emitted client (client-level options from o) and returns its methods;
	// each method takes per-call options only (CallContentType, CallHeaders, HelperCall).
	NewClient func(baseURL string, hc *http.Client, o CallOpts) map[string]func(ctx context.Context, o CallOpts, reqWire []byte) ([]byte, error)
	// Mock returns the emitted mock implementation wrapped as a HandlerFunc (nil when no mock was generated).
	Mock HandlerFunc
}

type Package struct {
	ID       string
	Services map[string]*Service
	// Messages: full proto name -> constructor of the generated Go type.
	Messages map[string]func() proto.Message
	// ErrorTypes: full proto names of generated messages that implement error.
	ErrorTypes map[string]func() proto.Message
}

var (
	mu   sync.Mutex
	pkgs = map[string]*Package{}
)

func Register(p *Package) {
	mu.Lock()
	defer mu.Unlock()
	pkgs[p.ID] = p
}

func Get(id string) *Package {
	mu.Lock()
	defer mu.Unlock()
	return pkgs[id]
}

func IDs() []string {
	mu.Lock()
	defer mu.Unlock()
	var out []string
	for k := range pkgs {
		out = append(out, k)
	}
	return out
}
