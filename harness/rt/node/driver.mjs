// Node driver for emitted TypeScript (protoc-gen-ts-client / protoc-gen-ts-server output).
// Run with:  node --experimental-strip-types --no-warnings driver.mjs   (node >= 22.6)
// Reads one JSON scenario per line on stdin, writes one JSON observation per line on stdout.
// No network: the TS client is given a custom `fetch` that records the request and answers with a
// scripted Response; the TS server's route handlers are called directly with a `Request`.
//
// kinds
//   load            {file}                                   -> {ok, exports | error_class, error_msg}
//   ts_client_call  {file, service, method, req, client_options?, call_options?, response?}
//   ts_server_call  {file, service, request:{method,url,headers,body|body_hex}, script?, options?}
//   ts_ts_call      {client_file, server_file, service, method, req, client_options?, call_options?, script?, options?}
//   js              {fn, args}                               -> library conformance probes
import { createInterface } from "node:readline";
import { pathToFileURL } from "node:url";

// ---- faithful JSON encoding of JS values (NaN, -0, undefined survive) ---------------------------
function enc(v, depth = 0) {
  if (depth > 40) return { $deep: true };
  if (v === undefined) return { $undef: true };
  if (v === null) return null;
  switch (typeof v) {
    case "number":
      if (Number.isNaN(v)) return { $num: "NaN" };
      if (v === Infinity) return { $num: "Infinity" };
      if (v === -Infinity) return { $num: "-Infinity" };
      if (Object.is(v, -0)) return { $num: "-0" };
      return v;
    case "bigint":
      return { $bigint: v.toString() };
    case "string":
    case "boolean":
      return v;
    case "function":
      return { $fn: true };
    case "object":
      if (Array.isArray(v)) return v.map((e) => enc(e, depth + 1));
      {
        const out = {};
        for (const k of Object.keys(v)) out[k] = enc(v[k], depth + 1);
        return out;
      }
  }
  return { $other: String(v) };
}
// inverse for scenario inputs (so that a caller-side -0 or NaN can be passed in)
function dec(v) {
  if (v === null || typeof v !== "object") return v;
  if (Array.isArray(v)) return v.map(dec);
  const ks = Object.keys(v);
  if (ks.length === 1) {
    if (ks[0] === "$num") return Number(v.$num);
    if (ks[0] === "$undef") return undefined;
    if (ks[0] === "$bigint") return BigInt(v.$bigint);
  }
  const out = {};
  for (const k of ks) out[k] = dec(v[k]);
  return out;
}

function hexToBytes(h) {
  const out = new Uint8Array(h.length / 2);
  for (let i = 0; i < out.length; i++) out[i] = parseInt(h.substr(2 * i, 2), 16);
  return out;
}
function bytesToHex(b) {
  let s = "";
  for (const x of b) s += x.toString(16).padStart(2, "0");
  return s;
}
const te = new TextEncoder();

function errInfo(e) {
  if (e === null || typeof e !== "object") return { class: typeof e, value: enc(e) };
  const out = { class: e.constructor ? e.constructor.name : "?", name: e.name, message: String(e.message) };
  if ("statusCode" in e) out.statusCode = e.statusCode;
  if ("body" in e) out.body = e.body;
  if ("violations" in e) out.violations = enc(e.violations);
  return out;
}

const modules = new Map();
async function load(file) {
  if (!modules.has(file)) {
    try {
      modules.set(file, { mod: await import(pathToFileURL(file).href) });
    } catch (e) {
      modules.set(file, { err: { error_class: e && e.constructor ? e.constructor.name : typeof e, error_msg: String(e && e.message).slice(0, 300) } });
    }
  }
  return modules.get(file);
}

const lowerFirst = (s) => (s ? s[0].toLowerCase() + s.slice(1) : s);

// ---- what a standards-compliant fetch would put on the wire ---------------------------------------
function describeFetch(input, init) {
  const o = { url: String(input), method: (init && init.method) || "GET" };
  o.raw_headers = init && init.headers ? enc(init.headers) : {};
  o.body = init && init.body !== undefined && init.body !== null ? String(init.body) : null;
  try {
    const r = new Request(input, { method: o.method, headers: init && init.headers, body: init ? init.body : undefined });
    const u = new URL(r.url);
    o.wire = { method: r.method, path: u.pathname, search: u.search, host: u.host, headers: [...r.headers.entries()] };
  } catch (e) {
    o.wire_error = errInfo(e);
  }
  return o;
}

function scriptedResponse(spec) {
  spec = spec || { status: 200, headers: { "Content-Type": "application/json" }, body: "{}" };
  let body = spec.body_hex !== undefined ? hexToBytes(spec.body_hex) : spec.body;
  const status = spec.status || 200;
  if (status === 204 || status === 205 || status === 304) body = null;
  const h = new Headers();
  if (Array.isArray(spec.headers)) for (const [k, v] of spec.headers) { try { h.append(k, v); } catch (_) {} }
  else for (const k of Object.keys(spec.headers || {})) { try { h.append(k, spec.headers[k]); } catch (_) {} }
  return new Response(body === undefined ? null : body, { status, headers: h });
}

async function tsClientCall(sc, fetchImpl) {
  const o = { id: sc.id, requests: [] };
  const m = await load(sc.file || sc.client_file);
  if (m.err) return { ...o, load_error: m.err };
  const Cls = m.mod[sc.service + "Client"];
  if (typeof Cls !== "function") return { ...o, error: "no export " + sc.service + "Client" };
  const fetchFn = async (input, init) => {
    const d = describeFetch(input, init);
    o.requests.push(d);
    if (sc.fetch_throws) throw new TypeError("fetch failed");
    return fetchImpl ? fetchImpl(input, init, d) : scriptedResponse(sc.response);
  };
  let client;
  try {
    client = new Cls(sc.base_url || "http://verif.test", { ...dec(sc.client_options || {}), fetch: fetchFn });
  } catch (e) {
    return { ...o, construct_error: errInfo(e) };
  }
  const fn = client[sc.method];
  if (typeof fn !== "function") return { ...o, error: "no client method " + sc.method };
  try {
    const res = await fn.call(client, dec(sc.req), sc.call_options ? dec(sc.call_options) : undefined);
    o.result = enc(res);
  } catch (e) {
    o.client_error = errInfo(e);
  }
  return o;
}

// ---- template router: "/a/{id}" segments; a variable matches one non-empty segment; at the first
// differing position a literal beats a variable (net/http's precedence); ties: first declared ----
function matchRoute(routes, method, pathname) {
  const segs = pathname.split("/");
  let best = null;
  routes.forEach((r, idx) => {
    if (r.method !== method) return;
    const t = r.path.split("/");
    if (t.length !== segs.length) return;
    const kinds = [];
    for (let i = 0; i < t.length; i++) {
      const isVar = /^\{[^{}]+\}$/.test(t[i]);
      if (isVar) { if (segs[i] === "") return; kinds.push("v"); }
      else { if (t[i] !== segs[i]) return; kinds.push("l"); }
    }
    if (best === null) { best = { r, idx, kinds }; return; }
    for (let i = 0; i < kinds.length; i++) {
      if (kinds[i] !== best.kinds[i]) { if (kinds[i] === "l") best = { r, idx, kinds }; return; }
    }
  });
  return best;
}

async function serveTs(sc, serverFile, request /* Request */, o) {
  const m = await load(serverFile);
  if (m.err) { o.server_load_error = m.err; return null; }
  const mk = m.mod["create" + sc.service + "Routes"];
  if (typeof mk !== "function") { o.error = "no export create" + sc.service + "Routes"; return null; }
  o.handler_calls = [];
  const script = sc.script || {};
  const handler = new Proxy({}, {
    get(_t, prop) {
      if (typeof prop !== "string" || prop === "then") return undefined;
      return async (ctx, req) => {
        o.handler_calls.push({ method: prop, req: enc(req), path_params: enc(ctx && ctx.pathParams), ctx_headers: enc(ctx && ctx.headers) });
        if (script.throw) {
          const t = script.throw;
          if (t.class === "ValidationError") throw new m.mod.ValidationError(t.violations || []);
          if (t.class === "ApiError") throw new m.mod.ApiError(t.statusCode || 500, t.message || "api", t.body || "");
          if (t.class === "Error") throw new Error(t.message || "boom");
          if (t.class === "TypeError") throw new TypeError(t.message || "boom");
          throw dec(t.value);
        }
        return dec(script.result === undefined ? {} : script.result);
      };
    },
  });
  let options;
  if (sc.options) {
    options = {};
    if (sc.options.onError) options.onError = (err, _req) => new Response(JSON.stringify({ hooked: err instanceof Error ? err.name : typeof err }), { status: sc.options.onError.status || 599, headers: { "Content-Type": "application/json" } });
    if (sc.options.validateRequest) options.validateRequest = (_name, _body) => sc.options.validateRequest;
  }
  let routes;
  try { routes = mk(handler, options); } catch (e) { o.routes_error = errInfo(e); return null; }
  if (sc.want_routes) o.routes = routes.map((r) => ({ method: r.method, path: r.path }));
  const u = new URL(request.url);
  const hit = matchRoute(routes, request.method, u.pathname);
  if (!hit) { o.matched = null; return new Response("Not Found", { status: 404, headers: { "Content-Type": "text/plain" } }); }
  o.matched = { index: hit.idx, method: hit.r.method, path: hit.r.path };
  try {
    return await hit.r.handler(request);
  } catch (e) {
    o.route_handler_threw = errInfo(e);
    return new Response("route handler threw", { status: 500, headers: { "Content-Type": "text/plain" } });
  }
}

async function describeResponse(resp) {
  const buf = new Uint8Array(await resp.clone().arrayBuffer());
  return { status: resp.status, headers: [...resp.headers.entries()], body_hex: bytesToHex(buf), body: new TextDecoder("utf-8", { fatal: false }).decode(buf) };
}

function buildRequest(rq) {
  const init = { method: rq.method };
  const h = new Headers();
  const hs = Array.isArray(rq.headers) ? rq.headers : Object.entries(rq.headers || {});
  for (const [k, v] of hs) { try { h.append(k, v); } catch (_) {} }
  init.headers = h;
  if (rq.body_hex !== undefined && rq.body_hex !== null) init.body = hexToBytes(rq.body_hex);
  else if (rq.body !== undefined && rq.body !== null) init.body = rq.body;
  if (init.body !== undefined && (rq.method === "GET" || rq.method === "HEAD")) delete init.body;
  return new Request(rq.url, init);
}

async function tsServerCall(sc) {
  const o = { id: sc.id };
  let request;
  try { request = buildRequest(sc.request); } catch (e) { return { ...o, request_error: errInfo(e) }; }
  const u = new URL(request.url);
  o.request_seen = { method: request.method, path: u.pathname, search: u.search };
  const resp = await serveTs(sc, sc.file || sc.server_file, request, o);
  if (resp) o.response = await describeResponse(resp);
  return o;
}

async function tsTsCall(sc) {
  const so = {};
  const o = await tsClientCall(sc, async (input, init, d) => {
    let request;
    try { request = new Request(input, { method: init.method, headers: init.headers, body: init.body }); }
    catch (e) { so.request_error = errInfo(e); throw e; }
    const resp = await serveTs(sc, sc.server_file, request, so);
    if (!resp) return new Response("server module unavailable", { status: 503 });
    so.response = await describeResponse(resp);
    return resp;
  });
  return { ...o, server: so };
}

// ---- library conformance probes (the JS built-ins the model transcribes) --------------------------
function jsProbe(sc) {
  const o = { id: sc.id };
  const a = (sc.args || []).map(dec);
  try {
    switch (sc.fn) {
      case "encodeURIComponent": o.out = encodeURIComponent(a[0]); break;
      case "decodeURIComponent": o.out = decodeURIComponent(a[0]); break;
      case "String": o.out = String(a[0]); break;
      case "Number": o.out = enc(Number(a[0])); break;
      case "form_encode": { const p = new URLSearchParams(); for (const [k, v] of a[0]) p.set(k, v); o.out = p.toString(); break; }
      case "form_decode": { o.out = [...new URLSearchParams(a[0]).entries()]; break; }
      case "url": { const u = new URL(a[0]); o.out = { path: u.pathname, search: u.search, query: [...u.searchParams.entries()] }; break; }
      case "json_roundtrip": o.out = JSON.stringify(JSON.parse(a[0])); break;
      default: o.error = "unknown fn";
    }
  } catch (e) { o.threw = errInfo(e); }
  return o;
}

async function run(sc) {
  switch (sc.kind) {
    case "load": {
      const m = await load(sc.file);
      if (m.err) return { id: sc.id, ok: false, ...m.err };
      return { id: sc.id, ok: true, exports: Object.keys(m.mod).sort() };
    }
    case "ts_client_call": return tsClientCall(sc, null);
    case "ts_server_call": return tsServerCall(sc);
    case "ts_ts_call": return tsTsCall(sc);
    case "js": return jsProbe(sc);
  }
  return { id: sc.id, error: "unknown kind " + sc.kind };
}

const rl = createInterface({ input: process.stdin, crlfDelay: Infinity, terminal: false });
const out = [];
for await (const line of rl) {
  if (!line.trim()) continue;
  let sc;
  try { sc = JSON.parse(line); } catch (e) { process.stdout.write(JSON.stringify({ error: "bad scenario: " + e.message }) + "\n"); continue; }
  let obs;
  try {
    obs = await Promise.race([run(sc), new Promise((res) => setTimeout(() => res({ id: sc.id, timeout: true }), 10000).unref())]);
  } catch (e) {
    obs = { id: sc.id, driver_error: errInfo(e) };
  }
  process.stdout.write(JSON.stringify(obs) + "\n");
}
