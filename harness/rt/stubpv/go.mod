module buf.build/go/protovalidate

go 1.24.7

require (
	buf.build/gen/go/bufbuild/protovalidate/protocolbuffers/go v1.36.11-20260209202127-80ab13bee0bf.1
	google.golang.org/protobuf v1.36.11
)
