// Package protovalidate is a stand-in for buf.build/go/protovalidate (absent from this sandbox).
// It exposes exactly the API the emitted binding code uses. Rule evaluation is NOT implemented:
// Validate returns whatever the verification harness scripted (nil by default).
package protovalidate

import (
	"strings"
	"sync/atomic"

	validate "buf.build/gen/go/bufbuild/protovalidate/protocolbuffers/go/buf/validate"
	"google.golang.org/protobuf/proto"
)

type Validator interface {
	Validate(msg proto.Message, options ...ValidationOption) error
}

type ValidationOption interface{}
type ValidatorOption interface{}

type Violation struct {
	Proto *validate.Violation
}

type ValidationError struct {
	Violations []*Violation
}

func (e *ValidationError) Error() string {
	var b strings.Builder
	b.WriteString("validation error:")
	for _, v := range e.Violations {
		b.WriteString(" - ")
		b.WriteString(v.Proto.GetMessage())
	}
	return b.String()
}

// Script is consulted by every Validate call; the harness sets it.
var Script atomic.Pointer[func(msg proto.Message) error]

// NewCalls counts constructions (C17: the emitted code must build the validator once).
var NewCalls atomic.Int64

type stub struct{}

func (stub) Validate(msg proto.Message, _ ...ValidationOption) error {
	if f := Script.Load(); f != nil {
		return (*f)(msg)
	}
	return nil
}

func New(_ ...ValidatorOption) (Validator, error) {
	NewCalls.Add(1)
	return stub{}, nil
}
