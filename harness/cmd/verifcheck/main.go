// verifcheck <property> [--tier quick|thorough] [--replay file] — one check of one property.
package main

import (
	"fmt"
	"os"

	"verifharness/lib"
)

var checks = map[string]func(*lib.Run){
	"C01": lib.CheckC01,
	"C02": lib.CheckC02,
	"C03": lib.CheckC03,
	"C04": lib.CheckC04,
	"C05": lib.CheckC05,
	"C06": lib.CheckC06,
	"C07": lib.CheckC07,
	"C08": lib.CheckC08,
	"C11": lib.CheckC11,
	"C12": lib.CheckC12,
	"C13": lib.CheckC13,
	"C14": lib.CheckC14,
	"C15": lib.CheckC15,
	"C16": lib.CheckC16,
	"C09": lib.CheckC09,
	"C10": lib.CheckC10,
	"C17": lib.CheckC17,
	"C18": lib.CheckC18,
	"C19": lib.CheckC19,
	"C20": lib.CheckC20,
}

func main() {
	if len(os.Args) < 2 {
		fmt.Println("usage: verifcheck <property> [--tier quick|thorough] [--replay file]")
		os.Exit(2)
	}
	id := os.Args[1]
	if id == "warm" {
		if _, _, err := lib.BuildPlugins(); err != nil {
			fmt.Println(err)
			os.Exit(1)
		}
		if _, err := lib.ProtocGenGo(); err != nil {
			fmt.Println(err)
			os.Exit(1)
		}
		return
	}
	fn, ok := checks[id]
	if !ok {
		fmt.Printf("HARNESS-FAILURE property=%s: no check registered\n", id)
		os.Exit(2)
	}
	fn(lib.NewRun(id, os.Args[2:]))
}
