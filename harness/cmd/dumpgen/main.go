package main

import (
	"fmt"
	"os"
	"path/filepath"

	. "verifharness/lib"
)

func main() {
	run := NewRun("DUMP", nil)
	run.Prepare()
	reqs := FeatureCatalogue()
	if len(os.Args) > 2 && os.Args[2] == "c04" {
		reqs = CodecCatalogue()
	}
	s := NewSession(run, reqs)
	out := os.Args[1]
	for i, r := range reqs {
		g := s.Gens[i]
		for _, p := range []string{"go-http", "go-client"} {
			x := g.Results[p]
			fmt.Println(r.ID, p, x.Exit, x.Error)
			for n, c := range x.Files {
				fn := filepath.Join(out, p, n)
				os.MkdirAll(filepath.Dir(fn), 0o755)
				os.WriteFile(fn, []byte(c), 0o644)
			}
		}
		if g.PB != nil {
			for n, c := range g.PB.Files {
				fn := filepath.Join(out, "pb", n)
				os.MkdirAll(filepath.Dir(fn), 0o755)
				os.WriteFile(fn, []byte(c), 0o644)
			}
		}
	}
	run.Cleanup()
}
