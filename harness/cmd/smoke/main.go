package main

import (
	"fmt"
	"path/filepath"
	"time"

	. "verifharness/lib"
)

func main() {
	bin, _, err := BuildPlugins()
	if err != nil {
		panic(err)
	}
	pkg := "rec.v1"
	f := &File{Messages: []*Message{M("Node", F("v", 1, "string"), F("next", 2, "", Msg(pkg+".Node"))), M("Req", F("id", 1, "string"))}}
	f.Services = []*Service{Svc("S", "/s", RPC("Get", pkg+".Req", pkg+".Node", "POST", "/g"))}
	r := OneFile("rec", pkg, f)
	b, err := BuildDescriptors(r)
	if err != nil {
		panic(err)
	}
	for _, mem := range []int{1024, 4096} {
		t := time.Now()
		res := RunPlugin(filepath.Join(bin, "protoc-gen-go-http"), "go-http", MakeCGR(b.All, ToGenerate(r), "paths=source_relative,generate_mock=true"), 15*time.Second, mem)
		fmt.Println(mem, res.Exit, res.Error, time.Since(t), res.MaxRSSKB, len(res.Stderr), res.Stderr[:min(300, len(res.Stderr))])
	}
}
