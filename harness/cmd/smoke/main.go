package main

import (
	"encoding/json"
	"fmt"
	"math/rand"
	"os"

	. "verifharness/lib"
)

func main() {
	run := NewRun("SMOKE", nil)
	run.Prepare()
	r := OneFile("smoke", "smoke.v1", &File{
		Enums: []*Enum{E("Status", "STATUS_UNSPECIFIED", "STATUS_ACTIVE")},
		Messages: []*Message{
			M("GetReq", F("user_id", 1, "string"), F("page", 2, "int32", Query("page", false))),
			M("User", F("id", 1, "string"), F("big", 2, "int64", I64("NUMBER")), F("st", 3, "", EnumT("smoke.v1.Status")),
				F("tags", 5, "string", MapOf("string"))),
		},
		Services: []*Service{Svc("Users", "/api/v1",
			RPC("GetUser", "smoke.v1.GetReq", "smoke.v1.User", "GET", "/users/{user_id}"),
			RPC("MakeUser", "smoke.v1.User", "smoke.v1.User", "", "/make"))},
	})
	s := NewSession(run, []*Request{r})
	s.BuildRuntime(true)
	for d, v := range s.Verdict {
		fmt.Println(d, v.Build, v.Vet, v.Output)
	}
	g := s.Gens[0]
	vg := &ValueGen{Rng: rand.New(rand.NewSource(1))}
	req := vg.Random(g.Built.MessageDesc("smoke.v1.GetReq"), 1.0)
	resp := vg.Random(g.Built.MessageDesc("smoke.v1.User"), 1.0)
	j, c := MsgCanon(req)
	fmt.Println(j, c)
	rh := WireHex(resp)
	sc := map[string]any{"id": "1", "kind": "call", "pkg": "smoke", "service": "Users", "method": "GetUser", "req": WireHex(req), "script": map[string]any{"resp": rh}}
	sc2 := map[string]any{"id": "2", "kind": "call", "pkg": "smoke", "service": "Users", "method": "MakeUser", "req": rh, "script": map[string]any{"resp": rh}, "opts": map[string]any{"ContentType": "application/x-protobuf"}}
	obs, err := RunScenarios(s.Runner, []any{sc, sc2}, 1)
	fmt.Println(err)
	for _, o := range obs {
		var v any
		json.Unmarshal(o, &v)
		b, _ := json.MarshalIndent(v, "", " ")
		os.Stdout.Write(b)
		fmt.Println()
	}
	run.Cleanup()
}
