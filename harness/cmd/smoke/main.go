package main

import (
	"fmt"
	"os"

	. "verifharness/lib"
)

func main() {
	run := NewRun("SMOKE", nil)
	run.Prepare()
	for _, r := range FeatureCatalogue() {
		if r.ID != os.Args[1] {
			continue
		}
		s := NewSession(run, []*Request{r})
		for n, c := range s.Gens[0].Results[os.Args[2]].Files {
			if len(os.Args) < 4 || os.Args[3] == n {
				fmt.Println("=====", n)
				fmt.Println(c)
			}
		}
	}
	run.Cleanup()
}
