package main

import (
	"fmt"

	. "verifharness/lib"
)

func main() {
	run := NewRun("SMOKE", nil)
	run.Prepare()
	reqs := FeatureCatalogue()
	s := NewSession(run, reqs)
	for i, r := range reqs {
		g := s.Gens[i]
		fmt.Print(r.ID, ": ")
		for _, p := range Plugins {
			x := g.Results[p]
			fmt.Print(p, "=", x.Exit, "(", len(x.Names), ") ")
			if x.Exit != "ok" {
				fmt.Print(x.Error, " ")
			}
		}
		fmt.Println()
	}
	s.BuildRuntime(true)
	for _, r := range reqs {
		if v := s.Verdict[r.ID]; v != nil {
			o := v.Output
			if len(o) > 400 {
				o = o[:400]
			}
			fmt.Println(r.ID, "build", v.Build, "vet", v.Vet, o)
		} else {
			fmt.Println(r.ID, "not built")
		}
	}
	run.Cleanup()
}
