package main

import (
	"fmt"
	"os"

	. "verifharness/lib"
)

func main() {
	bin, th, err := BuildPlugins()
	if err != nil {
		fmt.Println(err)
		os.Exit(2)
	}
	fmt.Println("plugins", bin, th)
	r := OneFile("smoke", "smoke.v1", &File{
		Enums: []*Enum{E("Status", "STATUS_UNSPECIFIED", "STATUS_ACTIVE")},
		Messages: []*Message{
			M("GetReq", F("user_id", 1, "string"), F("page", 2, "int32", Query("page", false))),
			M("User", F("id", 1, "string"), F("big", 2, "int64", I64("NUMBER")), F("st", 3, "", EnumT("smoke.v1.Status")),
				F("at", 4, "", Msg(Timestamp), TsFmt("UNIX_MILLIS")), F("tags", 5, "string", MapOf("string"))),
		},
		Services: []*Service{Svc("Users", "/api/v1",
			RPC("GetUser", "smoke.v1.GetReq", "smoke.v1.User", "GET", "/users/{user_id}"),
			RPC("MakeUser", "smoke.v1.User", "smoke.v1.User", "", ""))},
	})
	out := GenAll(bin, r)
	if out.BuildErr != "" {
		fmt.Println("builderr", out.BuildErr)
		os.Exit(1)
	}
	fmt.Println("pb", out.PB.Exit, out.PB.Names, out.PB.Error, out.PB.Stderr)
	for _, p := range Plugins {
		x := out.Results[p]
		fmt.Println(p, x.Exit, x.Names, x.Error, x.WallMs, x.MaxRSSKB, x.Stderr)
	}
	if len(os.Args) > 1 {
		for _, p := range Plugins {
			for n, c := range out.Results[p].Files {
				if n == os.Args[1] {
					fmt.Println(c)
				}
			}
		}
	}
}
