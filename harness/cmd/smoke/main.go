package main

import (
	"fmt"
	"math/rand"

	. "verifharness/lib"
)

func main() {
	run := NewRun("SMOKE", nil)
	run.Prepare()
	reqs := RandomSchemas(rand.New(rand.NewSource(5)), 30, true)
	s := NewSession(run, reqs)
	bad := 0
	for i, r := range reqs {
		g := s.Gens[i]
		for _, p := range Plugins {
			x := g.Results[p]
			if x.Exit != "ok" {
				fmt.Println(r.ID, p, x.Exit, x.Error)
				bad++
			}
		}
	}
	s.BuildRuntime(true)
	for _, r := range reqs {
		if v := s.Verdict[r.ID]; v != nil && (!v.Build || !v.Vet) {
			o := v.Output
			if len(o) > 300 {
				o = o[:300]
			}
			fmt.Println(r.ID, "build", v.Build, "vet", v.Vet, o)
			bad++
		}
	}
	fmt.Println("bad", bad, "of", len(reqs))
	run.Cleanup()
}
