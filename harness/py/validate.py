#!/usr/bin/env python3
"""Reference JSON Schema 2020-12 validation of instances against component/parameter schemas of an
OpenAPI document (jsonschema 4.x + referencing, python3-vt).  JSON lines on stdin:
  {"type":"doc","id":"d1","doc":{...openapi document...}}
  {"type":"check","id":"c1","doc":"d1","schema":{"$ref":"#/components/schemas/X"} | {...inline...},"instance":...}
one JSON line out per check: {"id","valid":bool,"errors":[...],"undescribed":[json paths of properties no schema describes]}"""
import json, sys
from jsonschema import Draft202012Validator
from referencing import Registry, Resource
from referencing.jsonschema import DRAFT202012

docs = {}

def registry_for(doc_id):
    d = docs[doc_id]
    if "_reg" not in d:
        res = Resource(contents=d["doc"], specification=DRAFT202012)
        d["_reg"] = Registry().with_resource("urn:doc:" + doc_id, res)
    return d["_reg"]

def wrap(doc_id, schema):
    # make relative refs ("#/components/...") resolve against the document
    def fix(x):
        if isinstance(x, dict):
            return {k: (("urn:doc:" + doc_id + v) if k == "$ref" and isinstance(v, str) and v.startswith("#") else fix(v)) for k, v in x.items()}
        if isinstance(x, list):
            return [fix(e) for e in x]
        return x
    return fix(schema)

def resolve(doc, schema, depth=0):
    while isinstance(schema, dict) and "$ref" in schema and depth < 50:
        ref = schema["$ref"]
        if not ref.startswith("#/"):
            return {}
        cur = doc
        for part in ref[2:].split("/"):
            part = part.replace("~1", "/").replace("~0", "~")
            cur = cur.get(part, {}) if isinstance(cur, dict) else {}
        schema = cur
        depth += 1
    return schema if isinstance(schema, dict) else {}

def valid_against(doc_id, schema, inst):
    v = Draft202012Validator(wrap(doc_id, schema), registry=registry_for(doc_id))
    return v.is_valid(inst)

def undescribed(doc_id, schema, inst, path, out, depth=0):
    doc = docs[doc_id]["doc"]
    if depth > 40:
        return
    schema = resolve(doc, schema)
    branches = [schema]
    for sub in schema.get("allOf", []) or []:
        branches.append(resolve(doc, sub))
    for sub in schema.get("oneOf", []) or []:
        if valid_against(doc_id, sub, inst):
            r = resolve(doc, sub)
            branches.append(r)
            for s2 in r.get("allOf", []) or []:
                branches.append(resolve(doc, s2))
    if isinstance(inst, dict):
        for k, v in inst.items():
            described = None
            for b in branches:
                props = b.get("properties") or {}
                if k in props:
                    described = props[k]
                    break
            if described is None:
                for b in branches:
                    ap = b.get("additionalProperties")
                    if isinstance(ap, dict):
                        described = ap
                        break
            if described is None:
                out.append(path + "." + k)
            else:
                undescribed(doc_id, described, v, path + "." + k, out, depth + 1)
    elif isinstance(inst, list):
        items = None
        for b in branches:
            if isinstance(b.get("items"), dict):
                items = b["items"]
                break
        if items is not None:
            for i, v in enumerate(inst):
                undescribed(doc_id, items, v, "%s[%d]" % (path, i), out, depth + 1)

def main():
    for line in sys.stdin:
        line = line.strip()
        if not line:
            continue
        m = json.loads(line)
        if m["type"] == "doc":
            docs[m["id"]] = {"doc": m["doc"]}
            continue
        res = {"id": m["id"], "valid": False, "errors": [], "undescribed": []}
        try:
            v = Draft202012Validator(wrap(m["doc"], m["schema"]), registry=registry_for(m["doc"]))
            errs = sorted(v.iter_errors(m["instance"]), key=lambda e: list(e.absolute_path))
            res["valid"] = not errs
            def kind(e):
                k = str(e.validator)
                if k == "type":
                    return "type(" + (e.validator_value if isinstance(e.validator_value, str) else "|".join(e.validator_value)) + ")"
                if k == "oneOf":
                    return "oneOf-ambiguous" if "is valid under each of" in e.message else "oneOf-none"
                return k
            res["errors"] = [("/".join(str(p) for p in e.absolute_path))[:80] + ": KIND=" + kind(e) for e in errs[:6]]
            if m.get("check_undescribed", True):
                und = []
                undescribed(m["doc"], m["schema"], m["instance"], "$", und)
                res["undescribed"] = und[:8]
        except Exception as ex:  # unresolvable ref, malformed schema ...
            res["errors"] = ["validator exception: " + repr(ex)[:200]]
        sys.stdout.write(json.dumps(res) + "\n")
        sys.stdout.flush()

if __name__ == "__main__":
    main()
