module verifharness

go 1.24.7

require (
	buf.build/gen/go/bufbuild/protovalidate/protocolbuffers/go v1.36.11-20260209202127-80ab13bee0bf.1
	github.com/SebastienMelki/sebuf v0.0.0
	go.yaml.in/yaml/v4 v4.0.0-rc.4
	google.golang.org/protobuf v1.36.11
)

replace github.com/SebastienMelki/sebuf => /repo
