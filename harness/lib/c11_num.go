package lib

import (
	"encoding/json"
	"fmt"
	"math/big"
	"regexp"
	"strconv"
	"strings"

	"google.golang.org/protobuf/reflect/protoreflect"
	"google.golang.org/protobuf/types/dynamicpb"
)

// ---- C11, family "numeric-boundary" ------------------------------------------------------------
// Numeric literals at and just beyond the range of every integer kind, in every spelling JSON allows
// (integer, fraction .0, exponent, E+, shifted negative exponent, quoted, minus zero), for plain and
// int64_encoding=NUMBER fields, singular and as elements of repeated fields.  The expectation is the
// harness's own exact reading of the literal (big.Rat): a body is decodable iff the value is a whole
// number inside the kind's range, and then the handler must see exactly that number.

// c11NumericCatalogue: every integer kind, singular and repeated, without annotation and (64-bit
// kinds) with int64_encoding = NUMBER.
func c11NumericCatalogue() []*Request {
	kinds := []string{"int32", "sint32", "sfixed32", "uint32", "fixed32", "int64", "sint64", "sfixed64", "uint64", "fixed64"}
	var plain, num []*Field
	n := int32(1)
	for _, k := range kinds {
		plain = append(plain, F("s_"+k, n, k), F("r_"+k, n+1, k, Rep()))
		n += 2
	}
	n = 1
	for _, k := range kinds[5:] {
		num = append(num, F("s_"+k, n, k, I64("NUMBER")), F("r_"+k, n+1, k, Rep(), I64("NUMBER")))
		n += 2
	}
	num = append(num, F("plain32", n, "int32"), F("as_str", n+1, "int64", I64("STRING")), F("name", n+2, "string"))
	a := featureReq("c11nplain", nil, []*Message{M("AllInts", plain...)}, "AllInts")
	b := featureReq("c11nnum", nil, []*Message{M("AllNums", num...)}, "AllNums")
	a.Tags = append(a.Tags, "c11-numeric")
	b.Tags = append(b.Tags, "c11-numeric")
	return []*Request{a, b}
}

var jsonNumberRe = regexp.MustCompile(`^(-?)(0|[1-9][0-9]*)(?:\.([0-9]+))?(?:[eE]([+-]?[0-9]+))?$`)

// exactJSONNumber reads a JSON number literal exactly.  ok = false: not a JSON number literal.
func exactJSONNumber(lit string) (*big.Rat, bool) {
	m := jsonNumberRe.FindStringSubmatch(lit)
	if m == nil {
		return nil, false
	}
	digits := m[2] + m[3]
	mant, _ := new(big.Int).SetString(digits, 10)
	exp := -len(m[3])
	if m[4] != "" {
		e, err := strconv.Atoi(m[4])
		if err != nil || e > 100000 || e < -100000 {
			// beyond anything an integer kind holds: a huge or a vanishing magnitude
			if mant.Sign() == 0 {
				return new(big.Rat), true
			}
			r := big.NewRat(1, 2) // not a whole number
			if err == nil && e > 0 || err != nil && !strings.HasPrefix(m[4], "-") {
				r = new(big.Rat).SetInt(new(big.Int).Exp(big.NewInt(10), big.NewInt(40), nil)) // out of every range
			}
			if m[1] == "-" {
				r.Neg(r)
			}
			return r, true
		}
		exp += e
	}
	r := new(big.Rat).SetInt(mant)
	p := new(big.Int).Exp(big.NewInt(10), big.NewInt(int64(abs(exp))), nil)
	if exp >= 0 {
		r.Mul(r, new(big.Rat).SetInt(p))
	} else {
		r.Quo(r, new(big.Rat).SetInt(p))
	}
	if m[1] == "-" {
		r.Neg(r)
	}
	return r, true
}

func abs(x int) int {
	if x < 0 {
		return -x
	}
	return x
}

// intKindRange: the closed range of a protobuf integer kind.
func intKindRange(kind string) (lo, hi *big.Int, ok bool) {
	p := func(n uint) *big.Int { return new(big.Int).Lsh(big.NewInt(1), n) }
	one := big.NewInt(1)
	switch kind {
	case "int32", "sint32", "sfixed32":
		return new(big.Int).Neg(p(31)), new(big.Int).Sub(p(31), one), true
	case "uint32", "fixed32":
		return big.NewInt(0), new(big.Int).Sub(p(32), one), true
	case "int64", "sint64", "sfixed64":
		return new(big.Int).Neg(p(63)), new(big.Int).Sub(p(63), one), true
	case "uint64", "fixed64":
		return big.NewInt(0), new(big.Int).Sub(p(64), one), true
	}
	return nil, nil, false
}

// exactIntOfKind: the whole number a bare JSON number literal denotes, when it lies in the kind's range.
func exactIntOfKind(kind string, raw []byte) (*big.Int, bool) {
	r, ok := exactJSONNumber(strings.TrimSpace(string(raw)))
	if !ok || !r.IsInt() {
		return nil, false
	}
	lo, hi, ok := intKindRange(kind)
	if !ok {
		return nil, false
	}
	v := new(big.Int).Set(r.Num())
	if v.Cmp(lo) < 0 || v.Cmp(hi) > 0 {
		return nil, false
	}
	return v, true
}

// numberConv: the harness's strict reading of a value of an int64_encoding = NUMBER field: a JSON number
// (not a string) that denotes a whole number in range; repeated: an array of such.  Returns the
// proto3-JSON replacement.  A JSON null stands for the default, as in proto3 JSON.
func numberConv(f *Field, raw json.RawMessage) (json.RawMessage, bool) {
	t := strings.TrimSpace(string(raw))
	switch f.Card {
	case "singular":
		if t == "null" {
			return json.RawMessage(`"0"`), true
		}
		v, ok := exactIntOfKind(f.Kind, raw)
		if !ok {
			return nil, false
		}
		out, _ := json.Marshal(v.String())
		return out, true
	case "repeated":
		if t == "null" {
			return json.RawMessage(`[]`), true
		}
		var els []json.RawMessage
		if json.Unmarshal(raw, &els) != nil {
			return nil, false
		}
		strs := make([]string, 0, len(els))
		for _, e := range els {
			v, ok := exactIntOfKind(f.Kind, e)
			if !ok {
				return nil, false
			}
			strs = append(strs, v.String())
		}
		out, _ := json.Marshal(strs)
		return out, true
	}
	return nil, false
}

// c11Expect: the exact-reading expectation of a numeric-boundary case.
type c11Expect struct {
	field  *Field
	accept bool
	vals   []*big.Int // the field's expected content (one element for a singular field)
	lit    string
}

// spellings of a whole number
func numSpellings(v *big.Int, all bool) []string {
	neg := v.Sign() < 0
	d := new(big.Int).Abs(v).String()
	sign := ""
	if neg {
		sign = "-"
	}
	frac := strings.TrimRight(d[1:], "0")
	mant := d[:1]
	if frac != "" {
		mant += "." + frac
	}
	e := len(d) - 1
	exp := fmt.Sprintf("%s%se%d", sign, mant, e)
	out := []string{sign + d, exp}
	if all {
		shifted := sign + d + "0e-1"
		if d == "0" {
			shifted = sign + "0e-1"
		}
		out = append(out, sign+d+".0", fmt.Sprintf("%s%sE+%d", sign, mant, e), shifted, `"`+sign+d+`"`, `"`+exp+`"`)
	}
	return out
}

// c11NumericCases: bodies + expectations for one target.
func c11NumericCases(t *c11Target) []*c11Case {
	var out []*c11Case
	p := func(n uint) *big.Int { return new(big.Int).Lsh(big.NewInt(1), n) }
	add := func(a *big.Int, k int64) *big.Int { return new(big.Int).Add(a, big.NewInt(k)) }
	ten := func(n int64) *big.Int { return new(big.Int).Exp(big.NewInt(10), big.NewInt(n), nil) }
	for _, f := range t.msg.Fields {
		lo, hi, ok := intKindRange(f.Kind)
		if !ok || (f.Card != "singular" && f.Card != "repeated") || f.Oneof != "" || f.Unwrap || f.Nullable != nil {
			continue
		}
		number := f.Int64Encoding == "NUMBER"
		is64 := hi.BitLen() > 32
		type pv struct {
			v   *big.Int
			all bool
		}
		var vals []pv
		seen := map[string]bool{}
		push := func(v *big.Int, all bool) {
			if !seen[v.String()] {
				seen[v.String()] = true
				vals = append(vals, pv{v, all})
			}
		}
		// the kind's own boundaries, in every spelling
		for _, v := range []*big.Int{add(lo, -1), lo, hi, add(hi, 1)} {
			push(v, true)
		}
		if is64 {
			// the zone a float64 rounds onto the boundary
			push(add(hi, 1025), true)
			push(add(hi, 2049), true)
			push(add(lo, -1025), true)
			push(add(hi, -1024), true)
		}
		// the other widths' boundaries and far values
		for _, v := range []*big.Int{p(31), new(big.Int).Neg(add(p(31), 1)), p(32), add(p(53), 1), p(63), new(big.Int).Neg(add(p(63), 1)), p(64), add(p(64), 2048),
			ten(19), ten(25), new(big.Int).Neg(ten(25)), big.NewInt(0), big.NewInt(1), big.NewInt(-1), big.NewInt(1000)} {
			push(v, false)
		}
		jn := JSONName(f.Name)
		mk := func(lit string, v *big.Rat, quoted bool) {
			c := &c11Case{t: t, ct: 0, family: "numeric-boundary"}
			if len(out)%7 == 3 {
				c.ct = 4
			}
			inRange := v != nil && v.IsInt() && v.Num().Cmp(lo) >= 0 && v.Num().Cmp(hi) <= 0
			ex := &c11Expect{field: f, accept: inRange, lit: lit}
			if f.Card == "singular" {
				c.body = []byte(fmt.Sprintf(`{%q: %s}`, jn, lit))
				if inRange {
					ex.vals = []*big.Int{v.Num()}
				}
			} else {
				c.body = []byte(fmt.Sprintf(`{%q: [1, %s]}`, jn, lit))
				if inRange {
					ex.vals = []*big.Int{big.NewInt(1), v.Num()}
				}
			}
			// a quoted number on a NUMBER-annotated field is the known swallowed-conversion case: no exact expectation
			if !(quoted && number) {
				c.expect = ex
			}
			out = append(out, c)
		}
		for _, x := range vals {
			for _, lit := range numSpellings(x.v, x.all) {
				quoted := strings.HasPrefix(lit, `"`)
				mk(lit, new(big.Rat).SetInt(x.v), quoted)
			}
		}
		// leading minus zero and zero with exponent / fraction
		for _, lit := range []string{"-0", "-0.0", "-0e0", "0e0", "0.0", "-0E-5"} {
			mk(lit, new(big.Rat), false)
		}
		// not whole numbers
		for _, lit := range []string{hi.String() + ".5", "1.5", "5e-1", "-1.5e0", "1e-400", "1e400", "-1e400"} {
			r, _ := exactJSONNumber(lit)
			mk(lit, r, false)
		}
	}
	return out
}

// c11CheckExpect: the exact-reading oracle of a numeric-boundary case (implementation observables only).
func c11CheckExpect(ex *c11Expect, class string, saw *dynamicpb.Message) (bool, string) {
	if !ex.accept {
		if class == "dispatched" {
			got := ""
			if saw != nil {
				got = " (handler saw " + c11FieldText(saw, ex.field) + ")"
			}
			return false, fmt.Sprintf("the literal %s is not a whole number in the range of %s, yet the request was dispatched%s", ex.lit, ex.field.Kind, got)
		}
		return true, ""
	}
	if class != "dispatched" {
		return false, fmt.Sprintf("the literal %s is a whole number in the range of %s, yet the request was %s", ex.lit, ex.field.Kind, class)
	}
	if saw == nil {
		return false, "the handler's request could not be read back"
	}
	want := make([]string, len(ex.vals))
	for i, v := range ex.vals {
		want[i] = v.String()
	}
	if got := c11FieldText(saw, ex.field); got != strings.Join(want, ",") {
		return false, fmt.Sprintf("the literal %s was dispatched as %s (expected %s)", ex.lit, got, strings.Join(want, ","))
	}
	return true, ""
}

func c11FieldText(m *dynamicpb.Message, f *Field) string {
	fd := m.Descriptor().Fields().ByName(protoreflect.Name(f.Name))
	if fd == nil {
		return "?"
	}
	one := func(v protoreflect.Value) string {
		switch fd.Kind() {
		case protoreflect.Uint32Kind, protoreflect.Fixed32Kind, protoreflect.Uint64Kind, protoreflect.Fixed64Kind:
			return strconv.FormatUint(v.Uint(), 10)
		}
		return strconv.FormatInt(v.Int(), 10)
	}
	if fd.IsList() {
		l := m.Get(fd).List()
		parts := make([]string, l.Len())
		for i := range parts {
			parts[i] = one(l.Get(i))
		}
		return strings.Join(parts, ",")
	}
	return one(m.Get(fd))
}
