package lib

import (
	"fmt"
	"strings"
)

// Printing the schema spec as Coq terms of coq/theories/Schema.v.

func coqKind(kind, tn string) string {
	switch kind {
	case "enum":
		return "(KEnum " + CoqStr(tn) + ")"
	case "message":
		return "(KMessage " + CoqStr(tn) + ")"
	}
	return "K" + strings.ToUpper(kind[:1]) + kind[1:]
}

func coqOptEnum(prefix, v string) string {
	if v == "" {
		return "None"
	}
	// UNIX_SECONDS -> UnixSeconds ; BASE64URL_RAW -> Base64urlRaw : use explicit tables
	m := map[string]string{
		"UNSPECIFIED": "Unspecified", "STRING": "String", "NUMBER": "Number",
		"PRESERVE": "Preserve", "NULL": "Null", "OMIT": "Omit",
		"RFC3339": "Rfc3339", "UNIX_SECONDS": "UnixSeconds", "UNIX_MILLIS": "UnixMillis", "DATE": "Date",
		"BASE64": "Base64", "BASE64_RAW": "Base64Raw", "BASE64URL": "Base64Url", "BASE64URL_RAW": "Base64UrlRaw", "HEX": "Hex",
	}
	return "(Some " + prefix + m[v] + ")"
}

func coqOptBool(b *bool) string {
	if b == nil {
		return "None"
	}
	return "(Some " + CoqBool(*b) + ")"
}
func coqOptStr(s *string) string {
	if s == nil {
		return "None"
	}
	return "(Some " + CoqStr(*s) + ")"
}

func CoqField(f *Field) string {
	card := map[string]string{"singular": "Singular", "optional": "Optional", "repeated": "Repeated"}[f.Card]
	if f.Card == "map" {
		card = "(MapOf " + coqKind(f.MapKey, "") + ")"
	}
	oneof := "None"
	if f.Oneof != "" {
		oneof = "(Some " + CoqStr(f.Oneof) + ")"
	}
	q := "None"
	if f.Query != nil {
		n := f.Query.Name
		if n == "" {
			n = f.Name
		}
		q = fmt.Sprintf("(Some {| q_name := %s; q_required := %s |})", CoqStr(n), CoqBool(f.Query.Required))
	}
	return fmt.Sprintf("{| f_name := %s; f_number := %d; f_kind := %s; f_card := %s; f_oneof := %s; f_query := %s; f_unwrap := %s; f_int64 := %s; f_enumenc := %s; f_nullable := %s; f_empty := %s; f_tsfmt := %s; f_bytesenc := %s; f_oneof_value := %s; f_flatten := %s; f_flatten_prefix := %s |}",
		CoqStr(f.Name), f.Number, coqKind(f.Kind, f.TypeName), card, oneof, q, CoqBool(f.Unwrap),
		coqOptEnum("I64", f.Int64Encoding), coqOptEnum("EE", f.EnumEncoding), coqOptBool(f.Nullable),
		coqOptEnum("EB", f.EmptyBehavior), coqOptEnum("TF", f.TimestampFormat), coqOptEnum("BE", f.BytesEncoding),
		coqOptStr(f.OneofValue), coqOptBool(f.Flatten), coqOptStr(f.FlattenPrefix))
}

func coqMessages(pkg string, prefix []string, ms []*Message, out *[]string) {
	for _, m := range ms {
		path := append(append([]string{}, prefix...), m.Name)
		var fs, os []string
		for _, f := range m.Fields {
			fs = append(fs, CoqField(f))
		}
		for _, o := range m.Oneofs {
			os = append(os, fmt.Sprintf("{| o_name := %s; o_has_cfg := %s; o_discriminator := %s; o_flatten := %s |}",
				CoqStr(o.Name), CoqBool(o.HasConfig), CoqStr(o.Discriminator), CoqBool(o.Flatten)))
		}
		*out = append(*out, fmt.Sprintf("{| m_name := %s; m_path := %s; m_fields := [%s]; m_oneofs := [%s] |}",
			CoqStr(qual(pkg, strings.Join(path, "."))), CoqStrList(path), strings.Join(fs, ";\n      "), strings.Join(os, "; ")))
		coqMessages(pkg, path, m.Nested, out)
	}
}

func coqEnums(pkg string, f *File) []string {
	var out []string
	emit := func(prefix string, e *Enum) {
		var vs []string
		for _, v := range e.Values {
			vs = append(vs, fmt.Sprintf("{| ev_name := %s; ev_number := %d; ev_custom := %s |}", CoqStr(v.Name), v.Number, coqOptStr(v.EnumValue)))
		}
		out = append(out, fmt.Sprintf("{| e_name := %s; e_values := [%s] |}", CoqStr(qual(prefix, e.Name)), strings.Join(vs, "; ")))
	}
	for _, e := range f.Enums {
		emit(pkg, e)
	}
	var walk func(prefix string, ms []*Message)
	walk = func(prefix string, ms []*Message) {
		for _, m := range ms {
			p := qual(prefix, m.Name)
			for _, e := range m.Enums {
				emit(p, e)
			}
			walk(p, m.Nested)
		}
	}
	walk(pkg, f.Messages)
	return out
}

func coqHeaders(hs []*Header) string {
	var out []string
	for _, h := range hs {
		out = append(out, fmt.Sprintf("{| h_name := %s; h_type := %s; h_required := %s; h_format := %s |}",
			CoqStr(h.Name), CoqStr(h.Type), CoqBool(h.Required), CoqStr(h.Format)))
	}
	return "[" + strings.Join(out, "; ") + "]"
}

var verbNum = map[string]int{"GET": 1, "POST": 2, "PUT": 3, "DELETE": 4, "PATCH": 5}

func CoqFile(f *File) string {
	var ms []string
	coqMessages(f.Package, nil, f.Messages, &ms)
	var ss []string
	for _, s := range f.Services {
		var mds []string
		for _, m := range s.Methods {
			v := "None"
			if m.Verb != "" {
				v = fmt.Sprintf("(Some %d%%nat)", verbNum[m.Verb])
			}
			mds = append(mds, fmt.Sprintf("{| md_name := %s; md_in := %s; md_out := %s; md_has_cfg := %s; md_path := %s; md_verb := %s; md_headers := %s |}",
				CoqStr(m.Name), CoqStr(m.In), CoqStr(m.Out), CoqBool(m.HasConfig), CoqStr(m.Path), v, coqHeaders(m.Headers)))
		}
		ss = append(ss, fmt.Sprintf("{| sv_name := %s; sv_base := %s; sv_headers := %s; sv_methods := [%s] |}",
			CoqStr(s.Name), CoqStr(s.BasePath), coqHeaders(s.Headers), strings.Join(mds, ";\n     ")))
	}
	return fmt.Sprintf("{| fl_path := %s; fl_package := %s; fl_gopkg := %s; fl_generate := %s;\n  fl_messages := [%s];\n  fl_enums := [%s];\n  fl_services := [%s] |}",
		CoqStr(f.Path), CoqStr(f.Package), CoqStr(GoPkgName(f.GoPackage)), CoqBool(f.Generate),
		strings.Join(ms, ";\n    "), strings.Join(coqEnums(f.Package, f), ";\n    "), strings.Join(ss, ";\n    "))
}

// CoqSchema renders the request as a Coq `schema` term.
func CoqSchema(r *Request) string {
	var fs []string
	for _, f := range r.Files {
		fs = append(fs, CoqFile(f))
	}
	return "[" + strings.Join(fs, ";\n ") + "]"
}
