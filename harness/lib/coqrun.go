package lib

import (
	"bytes"
	"crypto/sha256"
	"encoding/hex"
	"syscall"
	"time"
	"encoding/json"
	"fmt"
	"os"
	"os/exec"
	"path/filepath"
	"regexp"
	"sort"
	"strings"
	"sync"
)

// ---- printing Go values as Coq terms -------------------------------------------------------

// CoqStr renders a byte string as a Coq term of type str (list ascii).
func CoqStr(x string) string {
	if x == "" {
		return "[]"
	}
	plain := true
	for i := 0; i < len(x); i++ {
		c := x[i]
		if c < 32 || c > 126 || c == '"' {
			plain = false
			break
		}
	}
	if plain {
		return `(s "` + x + `")`
	}
	var b strings.Builder
	b.WriteString("[")
	for i := 0; i < len(x); i++ {
		if i > 0 {
			b.WriteString(";")
		}
		fmt.Fprintf(&b, "ch %d", x[i])
	}
	b.WriteString("]")
	return b.String()
}

func CoqStrList(xs []string) string {
	parts := make([]string, len(xs))
	for i, x := range xs {
		parts[i] = CoqStr(x)
	}
	return "[" + strings.Join(parts, "; ") + "]"
}

func CoqBool(b bool) string {
	if b {
		return "true"
	}
	return "false"
}

func CoqList(xs []string) string { return "[" + strings.Join(xs, ";\n  ") + "]" }

func CoqOpt(x *string) string {
	if x == nil {
		return "None"
	}
	return "(Some " + *x + ")"
}

// ---- running the model inside Coq ------------------------------------------------------------

var coqOutRe = regexp.MustCompile(`(?s)^\s*= "(.*)"%string\s*:\s*string\s*$`)

// CoqEval evaluates `render_lines (map <fn> [cases...])` with vm_compute inside coqc, sharded over
// `par` processes, and returns one JSON document per case (same order).
// CoqCase is one correspondence case: the model input as a Coq term and the canonical observation.
type CoqCase struct {
	Term string
	Obs  any
}

// CoqVerdict is what the model said about one case.
type CoqVerdict struct {
	Unmodelled string
	Agree bool
	Tags  []string
	Pred  any // only when !Agree
}

// CoqRun evaluates `run_case <fn>` on every case (model prediction compared with the observation
// inside Coq by json_eqb) and returns the verdicts.
func CoqRun(workdir, name, imports, defs, caseType, fn string, cases []CoqCase, par int) ([]CoqVerdict, error) {
	terms := make([]string, len(cases))
	for i, c := range cases {
		terms[i] = "(" + c.Term + ",\n   " + CoqJSON(Canon(c.Obs)) + ")"
	}
	raws, err := CoqEval(workdir, name, imports+"\n"+defs, "list ("+caseType+" * json)", "(run_case "+fn+")", terms, par)
	if err != nil {
		return nil, err
	}
	out := make([]CoqVerdict, len(raws))
	for i, raw := range raws {
		v, err := DecodeModelJSON(raw)
		if err != nil {
			return nil, err
		}
		m, ok := v.(map[string]any)
		if !ok {
			return nil, fmt.Errorf("bad verdict %s", string(raw))
		}
		if u, ok := m["unmodelled"].(string); ok {
			out[i].Unmodelled = u
			if u == "" {
				out[i].Unmodelled = "unmodelled"
			}
			continue
		}
		out[i].Agree, _ = m["agree"].(bool)
		if ts, ok := m["tags"].([]any); ok {
			for _, t := range ts {
				out[i].Tags = append(out[i].Tags, fmt.Sprint(t))
			}
		}
		out[i].Pred = m["pred"]
	}
	return out, nil
}

// CoqJSON renders a canonical JSON value (as produced by Canon) as a Coq term of type json.
func CoqJSON(v any) string {
	var b strings.Builder
	coqJSON(&b, v)
	return b.String()
}

func coqJSON(b *strings.Builder, v any) {
	switch x := v.(type) {
	case nil:
		b.WriteString("JNull")
	case bool:
		if x {
			b.WriteString("(JBool true)")
		} else {
			b.WriteString("(JBool false)")
		}
	case json.Number:
		s := x.String()
		if strings.ContainsAny(s, ".eE") {
			b.WriteString("(JStr " + CoqStr("float:"+s) + ")")
		} else {
			b.WriteString("(JNum (" + s + ")%Z)")
		}
	case float64:
		b.WriteString(fmt.Sprintf("(JNum (%d)%%Z)", int64(x)))
	case int:
		b.WriteString(fmt.Sprintf("(JNum (%d)%%Z)", x))
	case string:
		b.WriteString("(JStr " + CoqStr(x) + ")")
	case []any:
		b.WriteString("(JArr [")
		for i, e := range x {
			if i > 0 {
				b.WriteString("; ")
			}
			coqJSON(b, e)
		}
		b.WriteString("])")
	case map[string]any:
		keys := make([]string, 0, len(x))
		for k := range x {
			keys = append(keys, k)
		}
		sort.Strings(keys)
		b.WriteString("(JObj [")
		for i, k := range keys {
			if i > 0 {
				b.WriteString("; ")
			}
			b.WriteString("(" + CoqStr(k) + ", ")
			coqJSON(b, x[k])
			b.WriteString(")")
		}
		b.WriteString("])")
	default:
		b.WriteString("(JStr " + CoqStr(fmt.Sprintf("?%T", v)) + ")")
	}
}

func CoqEval(workdir, name, imports, listType, fn string, cases []string, par int) ([]json.RawMessage, error) {
	if len(cases) == 0 {
		return nil, nil
	}
	minPerShard := 40
	total := 0
	for _, c := range cases {
		total += len(c)
	}
	if total/len(cases) > 2000 { // heavy cases: smaller shards
		minPerShard = 4
	}
	if par < 1 {
		par = 1
	}
	per := (len(cases) + par - 1) / par
	if per < minPerShard {
		per = minPerShard
	}
	if per > 1500 { // large list literals cost coqc super-linear time and memory: more, smaller shards
		per = 1500
	}
	type shard struct {
		lo, hi int
		out    []json.RawMessage
		err    error
	}
	var shards []*shard
	for lo := 0; lo < len(cases); lo += per {
		hi := lo + per
		if hi > len(cases) {
			hi = len(cases)
		}
		shards = append(shards, &shard{lo: lo, hi: hi})
	}
	if err := os.MkdirAll(workdir, 0o755); err != nil {
		return nil, err
	}
	coqdir := filepath.Join(VerifRoot(), "coq")
	var wg sync.WaitGroup
	sem := make(chan struct{}, par)
	for i, sh := range shards {
		wg.Add(1)
		go func(i int, sh *shard) {
			defer wg.Done()
			sem <- struct{}{}
			defer func() { <-sem }()
			mod := fmt.Sprintf("cases_%s_%d", name, i)
			file := filepath.Join(workdir, mod+".v")
			var b strings.Builder
			body := strings.Join(cases[sh.lo:sh.hi], ";\n  ")
			b.WriteString(pruneDefs(imports, body))
			b.WriteString("\nDefinition cases : " + listType + " := [\n  ")
			b.WriteString(body)
			b.WriteString("\n].\nEval vm_compute in render_lines (map " + fn + " cases).\n")
			if err := os.WriteFile(file, []byte(b.String()), 0o644); err != nil {
				sh.err = err
				return
			}
			release := acquireCoqSlot()
			defer release()
			var stdout, stderr bytes.Buffer
			// A coqc process killed from outside (the kernel's out-of-memory killer when the machine is shared
			// with other work) says nothing about the model: the evaluation is deterministic, so the shard is
			// simply evaluated again, after a pause, up to three times.
			for attempt := 0; ; attempt++ {
				cmd := exec.Command("/bin/sh", "-c", fmt.Sprintf("ulimit -s 4000000 2>/dev/null || ulimit -s unlimited; exec timeout 900 coqc -Q %q Sebuf -w -all %q", filepath.Join(coqdir, "theories"), file))
				cmd.Dir = workdir
				stdout.Reset()
				stderr.Reset()
				cmd.Stdout = &stdout
				cmd.Stderr = &stderr
				err := cmd.Run()
				if err == nil {
					break
				}
				if attempt < 3 && strings.Contains(err.Error(), "signal: killed") {
					time.Sleep(time.Duration(20*(attempt+1)) * time.Second)
					continue
				}
				sh.err = fmt.Errorf("coqc %s: %v\n%s\n%s", file, err, tail(stdout.String(), 2000), tail(stderr.String(), 4000))
				return
			}
			m := coqOutRe.FindStringSubmatch(stdout.String())
			if m == nil {
				sh.err = fmt.Errorf("coqc %s: unparsable output: %s", file, tail(stdout.String(), 500))
				return
			}
			text := strings.ReplaceAll(m[1], `""`, `"`)
			lines := strings.Split(strings.TrimRight(text, "\n"), "\n")
			if len(lines) != sh.hi-sh.lo {
				sh.err = fmt.Errorf("coqc %s: %d lines for %d cases", file, len(lines), sh.hi-sh.lo)
				return
			}
			for _, l := range lines {
				sh.out = append(sh.out, json.RawMessage(l))
			}
		}(i, sh)
	}
	wg.Wait()
	var out []json.RawMessage
	for _, sh := range shards {
		if sh.err != nil {
			return nil, sh.err
		}
		out = append(out, sh.out...)
	}
	return out, nil
}

var defHeadRe = regexp.MustCompile(`(?m)^Definition\s+([A-Za-z_][A-Za-z0-9_']*)`)
var identRe = regexp.MustCompile(`[A-Za-z_][A-Za-z0-9_']*`)

// pruneDefs keeps, of the top-level `Definition <name> ...` blocks in preamble, only those that the
// shard's cases mention (transitively); everything before the first Definition is kept as it is.
// Parsing unused schema definitions used to dominate coqc's time per shard.
func pruneDefs(preamble, body string) string {
	locs := defHeadRe.FindAllStringSubmatchIndex(preamble, -1)
	if len(locs) < 4 {
		return preamble
	}
	type block struct {
		name, text string
		idents     map[string]bool
	}
	var blocks []*block
	for i, l := range locs {
		end := len(preamble)
		if i+1 < len(locs) {
			end = locs[i+1][0]
		}
		blocks = append(blocks, &block{name: preamble[l[2]:l[3]], text: preamble[l[0]:end]})
	}
	byName := map[string]*block{}
	for _, b := range blocks {
		byName[b.name] = b
	}
	need := map[string]bool{}
	var visit func(text string)
	visit = func(text string) {
		for _, id := range identRe.FindAllString(text, -1) {
			if b := byName[id]; b != nil && !need[id] {
				need[id] = true
				visit(b.text)
			}
		}
	}
	visit(body)
	var out strings.Builder
	out.WriteString(preamble[:locs[0][0]])
	for _, b := range blocks {
		if need[b.name] {
			out.WriteString(b.text)
		}
	}
	return out.String()
}

func tail(s string, n int) string {
	if len(s) > n {
		return s[len(s)-n:]
	}
	return s
}

// DecodeModelJSON parses a model-rendered JSON document. Model strings are byte strings whose
// non-ASCII bytes were written as \u00XX; after json decoding they are Latin-1 code points and
// are mapped back to bytes here.
func DecodeModelJSON(raw json.RawMessage) (any, error) {
	var v any
	dec := json.NewDecoder(bytes.NewReader(raw))
	dec.UseNumber()
	if err := dec.Decode(&v); err != nil {
		return nil, fmt.Errorf("%v in %s", err, tail(string(raw), 300))
	}
	return latin1ToBytes(v), nil
}

func latin1ToBytes(v any) any {
	switch x := v.(type) {
	case string:
		bs := make([]byte, 0, len(x))
		for _, r := range x {
			bs = append(bs, byte(r))
		}
		return string(bs)
	case []any:
		for i := range x {
			x[i] = latin1ToBytes(x[i])
		}
		return x
	case map[string]any:
		out := make(map[string]any, len(x))
		for k, e := range x {
			out[latin1ToBytes(k).(string)] = latin1ToBytes(e)
		}
		return out
	}
	return v
}

// ---- the proof obligation check ---------------------------------------------------------------

type ProofStatus struct {
	Obligations int      `json:"obligations"`
	Discharged  int      `json:"discharged"`
	Theorems    []string `json:"theorems"`
	Axioms      []string `json:"axioms"`
	Cmd         string   `json:"cmd"`
	Err         string   `json:"err,omitempty"`
}

var thmRe = regexp.MustCompile(`(?m)^(Theorem|Example)\s+([A-Za-z0-9_']+)`)

// CheckProofs makes the Coq development current (full .vo build) and re-compiles props/<id>.v,
// counting theorems stated vs. theorems that compiled, and collecting Print Assumptions output.
func CheckProofs(id string) *ProofStatus {
	coqdir := filepath.Join(VerifRoot(), "coq")
	st := &ProofStatus{Cmd: "make -C coq && coqc props/" + id + ".v (Print Assumptions under every theorem)"}
	mk := exec.Command("timeout", "1800", "make", "-C", coqdir, "-j16")
	if out, err := mk.CombinedOutput(); err != nil {
		st.Err = "make failed: " + tail(string(out), 3000)
	}
	src, err := os.ReadFile(filepath.Join(coqdir, "props", id+".v"))
	if err != nil {
		st.Err += " no props file: " + err.Error()
		return st
	}
	for _, m := range thmRe.FindAllStringSubmatch(string(src), -1) {
		st.Theorems = append(st.Theorems, m[2])
	}
	st.Obligations = len(st.Theorems)
	for _, bad := range []string{"Admitted", "admit.", "Axiom ", "Parameter ", "Conjecture "} {
		if strings.Contains(string(src), bad) {
			st.Err += " forbidden token in props file: " + bad
		}
	}
	if st.Err != "" {
		return st
	}
	cmd := exec.Command("timeout", "900", "coqc", "-Q", "theories", "Sebuf", "-Q", "proofs", "SebufProofs", "-Q", "props", "SebufProps", "props/"+id+".v")
	cmd.Dir = coqdir
	out, err := cmd.CombinedOutput()
	if err != nil {
		st.Err = "props/" + id + ".v does not compile: " + tail(string(out), 3000)
		return st
	}
	// every theorem compiled (coqc succeeded)
	st.Discharged = st.Obligations
	// collect axioms
	txt := string(out)
	for _, blk := range strings.Split(txt, "Axioms:")[1:] {
		for _, l := range strings.Split(blk, "\n") {
			l = strings.TrimSpace(l)
			if l == "" || strings.HasPrefix(l, "Closed under") {
				break
			}
			if i := strings.Index(l, " :"); i > 0 {
				st.Axioms = append(st.Axioms, l[:i])
			}
		}
	}
	return st
}

// ForbiddenScan greps the whole development for constructs the brief forbids.
func ForbiddenScan() []string {
	var hits []string
	coqdir := filepath.Join(VerifRoot(), "coq")
	re := regexp.MustCompile(`\b(Admitted|admit|Axiom|Parameter|Conjecture|Unset Guard|bypass_check|Admit Obligations)\b`)
	filepath.Walk(coqdir, func(p string, info os.FileInfo, err error) error {
		if err != nil || info.IsDir() || !strings.HasSuffix(p, ".v") {
			return nil
		}
		b, _ := os.ReadFile(p)
		// strip comments (non-nested approximation is enough: we never write those words in comments)
		for i, l := range strings.Split(string(b), "\n") {
			if re.MatchString(l) {
				hits = append(hits, fmt.Sprintf("%s:%d: %s", p, i+1, strings.TrimSpace(l)))
			}
		}
		return nil
	})
	return hits
}

// CoqChk re-checks every compiled property module (and everything it depends on) with the
// independent checker coqchk and returns its context summary. Cached per hash of the Coq sources.
func CoqChk() (string, error) {
	coqdir := filepath.Join(VerifRoot(), "coq")
	h := sha256.New()
	var mods []string
	for _, d := range []string{"theories", "proofs", "props"} {
		ents, _ := os.ReadDir(filepath.Join(coqdir, d))
		for _, e := range ents {
			if strings.HasSuffix(e.Name(), ".v") {
				b, _ := os.ReadFile(filepath.Join(coqdir, d, e.Name()))
				h.Write([]byte(e.Name()))
				h.Write(b)
				if d == "props" {
					mods = append(mods, "SebufProps."+strings.TrimSuffix(e.Name(), ".v"))
				}
			}
		}
	}
	key := hex.EncodeToString(h.Sum(nil))[:16]
	cache := filepath.Join(CacheRoot(), "coqchk-"+key+".txt")
	if b, err := os.ReadFile(cache); err == nil {
		return string(b), nil
	}
	lock, err := os.OpenFile(filepath.Join(CacheRoot(), "coqchk.lock"), os.O_CREATE|os.O_RDWR, 0o644)
	if err == nil {
		defer lock.Close()
		syscall.Flock(int(lock.Fd()), syscall.LOCK_EX)
		defer syscall.Flock(int(lock.Fd()), syscall.LOCK_UN)
		if b, err := os.ReadFile(cache); err == nil {
			return string(b), nil
		}
	}
	args := append([]string{"3000", "coqchk", "-silent", "-o", "-Q", "theories", "Sebuf", "-Q", "proofs", "SebufProofs", "-Q", "props", "SebufProps"}, mods...)
	cmd := exec.Command("timeout", args...)
	cmd.Dir = coqdir
	out, err := cmd.CombinedOutput()
	txt := string(out)
	if i := strings.Index(txt, "CONTEXT SUMMARY"); i >= 0 {
		txt = txt[i:]
	}
	if err != nil {
		return txt, fmt.Errorf("coqchk: %v: %s", err, tail(txt, 1500))
	}
	os.WriteFile(cache, []byte(txt), 0o644)
	return txt, nil
}

// acquireCoqSlot takes one of 16 machine-wide slots (flock on files under the cache) so that
// checks started concurrently never run more than 16 coqc processes in total.
func acquireCoqSlot() func() {
	dir := filepath.Join(CacheRoot(), "coqslots")
	os.MkdirAll(dir, 0o755)
	for {
		for k := 0; k < 16; k++ {
			f, err := os.OpenFile(filepath.Join(dir, fmt.Sprintf("slot%d", k)), os.O_CREATE|os.O_RDWR, 0o644)
			if err != nil {
				continue
			}
			if syscall.Flock(int(f.Fd()), syscall.LOCK_EX|syscall.LOCK_NB) == nil {
				return func() { syscall.Flock(int(f.Fd()), syscall.LOCK_UN); f.Close() }
			}
			f.Close()
		}
		time.Sleep(200 * time.Millisecond)
	}
}
