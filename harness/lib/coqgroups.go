package lib

// coqgroups.go — CoqRun for cases that come in groups with their own definitions (one group per
// request): every coqc process parses only the definitions of the groups it evaluates.

import (
	"fmt"
	"sort"
	"sync"
)

type CoqGroup struct {
	Defs  string
	Cases []CoqCase
}

// CoqRunGroups evaluates `run_case fn` on every case of every group and returns the verdicts per group.
func CoqRunGroups(workdir, name, imports, caseType, fn string, groups []CoqGroup, par int) ([][]CoqVerdict, error) {
	if par < 1 {
		par = 1
	}
	type bin struct {
		size   int
		groups []int
	}
	idx := make([]int, 0, len(groups))
	sizes := make([]int, len(groups))
	for i, g := range groups {
		if len(g.Cases) == 0 {
			continue
		}
		sz := len(g.Defs)
		for _, c := range g.Cases {
			sz += len(c.Term) + 4*len(fmt.Sprint(c.Obs))/3
		}
		sizes[i] = sz
		idx = append(idx, i)
	}
	sort.Slice(idx, func(a, b int) bool { return sizes[idx[a]] > sizes[idx[b]] })
	nb := par * 2
	if nb > len(idx) {
		nb = len(idx)
	}
	bins := make([]*bin, nb)
	for i := range bins {
		bins[i] = &bin{}
	}
	for _, gi := range idx { // longest-processing-time first
		best := bins[0]
		for _, b := range bins {
			if b.size < best.size {
				best = b
			}
		}
		best.groups = append(best.groups, gi)
		best.size += sizes[gi]
	}
	out := make([][]CoqVerdict, len(groups))
	var mu sync.Mutex
	var firstErr error
	var wg sync.WaitGroup
	sem := make(chan struct{}, par)
	for bi, b := range bins {
		if len(b.groups) == 0 {
			continue
		}
		wg.Add(1)
		go func(bi int, b *bin) {
			defer wg.Done()
			sem <- struct{}{}
			defer func() { <-sem }()
			defs := ""
			var cases []CoqCase
			for _, gi := range b.groups {
				defs += groups[gi].Defs
				cases = append(cases, groups[gi].Cases...)
			}
			vs, err := CoqRun(workdir, fmt.Sprintf("%s_b%d", name, bi), imports, defs, caseType, fn, cases, 1)
			mu.Lock()
			defer mu.Unlock()
			if err != nil {
				if firstErr == nil {
					firstErr = err
				}
				return
			}
			k := 0
			for _, gi := range b.groups {
				out[gi] = vs[k : k+len(groups[gi].Cases)]
				k += len(groups[gi].Cases)
			}
		}(bi, b)
	}
	wg.Wait()
	return out, firstErr
}
