package lib

import (
	"encoding/hex"
	"encoding/json"
	"fmt"
	"strings"
)

// c10TS: the catch block of the emitted TS server (ValidationError -> 400, onError, 500 {message}) on
// scripted handler throws, validateRequest results, a missing required header and a malformed body.
type c10TSCase struct {
	family  string
	throw   map[string]any // driver spec
	coq     string         // ts_thrown term
	onError int
	valid   [][2]string // validateRequest violations
	noHdr   bool        // Guarded without X-Token
	badBody bool
	wantVs  [][2]string // violations the property demands (400)
	wantMsg *string     // message the property demands (500)
}

func c10TS(run *Run, s *Session) (string, []*CaseResult) {
	if _, ok := NodeUsable(); !ok {
		return "node (>= 22.6) not available: TS error mapping is covered by the model and its theorems only", nil
	}
	// (since cbe68e9 the module of the full catalogue loads: GET routes with path variables and query
	// parameters no longer declare `const url` twice)
	src := tsServerFile(s.Gens[0])
	if src == "" {
		return "protoc-gen-ts-server produced no server module for the error catalogue", nil
	}
	var cases []*c10TSCase
	vsets := [][][2]string{{{"a.b", "bad"}}, {{"a.b", "bad"}, {"c", "worse"}}, {}, {{"", ""}}}
	msgs := []string{"boom", "", "ünï \"q\" \\ <tag>", "not found"}
	for _, oe := range []int{0, 418, 503} {
		for _, vs := range vsets {
			var jv []map[string]string
			for _, v := range vs {
				jv = append(jv, map[string]string{"field": v[0], "description": v[1]})
			}
			if jv == nil {
				jv = []map[string]string{}
			}
			cases = append(cases, &c10TSCase{family: "ts-handler-validation", throw: map[string]any{"kind": "validation", "violations": jv},
				coq: "TValidation " + coqPairs(vs), onError: oe, wantVs: vs})
			if len(vs) > 0 {
				cases = append(cases, &c10TSCase{family: "ts-validate-request", valid: vs, coq: "TValidation " + coqPairs(vs), onError: oe, wantVs: vs})
			}
		}
		for _, m := range msgs {
			m := m
			cases = append(cases, &c10TSCase{family: "ts-handler-error", throw: map[string]any{"kind": "error", "message": m}, coq: "TError " + CoqStr(m), onError: oe, wantMsg: &m})
			cases = append(cases, &c10TSCase{family: "ts-handler-throws-value", throw: map[string]any{"kind": "string", "message": m}, coq: "TValue " + CoqStr(m), onError: oe, wantMsg: &m})
			cases = append(cases, &c10TSCase{family: "ts-handler-api-error", throw: map[string]any{"kind": "api", "status": 404, "message": m, "body": "{}"}, coq: "TError " + CoqStr(m), onError: oe, wantMsg: &m})
		}
		cases = append(cases, &c10TSCase{family: "ts-header-missing", noHdr: true, coq: "TValidation [(" + CoqStr("X-Token") + ", " + CoqStr("required header is missing") + ")]", onError: oe,
			wantVs: [][2]string{{"X-Token", "required header is missing"}}})
		cases = append(cases, &c10TSCase{family: "ts-body-malformed", badBody: true, coq: "TBadBody", onError: oe, wantVs: [][2]string{{"body", ""}}})
	}
	// size classes (c10_size.go): a violation list and a message beyond 4 KiB, default error path
	{
		vs := c10GenViols(60)
		var jv []map[string]string
		for _, v := range vs {
			jv = append(jv, map[string]string{"field": v[0], "description": v[1]})
		}
		cases = append(cases, &c10TSCase{family: "ts-handler-validation", throw: map[string]any{"kind": "validation", "violations": jv}, coq: "TValidation (gen_viols 60)", wantVs: vs})
		m := c10SizedText(80)
		cases = append(cases, &c10TSCase{family: "ts-handler-error", throw: map[string]any{"kind": "error", "message": m}, coq: "TError (sized_text 80)", wantMsg: &m})
	}
	var scen []any
	for i, c := range cases {
		sc := map[string]any{"id": fmt.Sprint(i), "service": "Errs", "verb": "POST", "path": "/e/items",
			"headers": [][2]string{{"Content-Type", hex.EncodeToString([]byte("application/json"))}}, "body": hex.EncodeToString([]byte(`{"name":"n"}`)), "result": map[string]any{"ok": true}}
		if c.throw != nil {
			sc["throw"] = c.throw
		}
		if c.onError != 0 {
			sc["on_error"] = map[string]any{"status": c.onError}
		}
		if c.valid != nil {
			var jv []map[string]string
			for _, v := range c.valid {
				jv = append(jv, map[string]string{"field": v[0], "description": v[1]})
			}
			sc["validate"] = jv
		}
		if c.noHdr {
			sc["path"] = "/e/guarded"
		}
		if c.badBody {
			sc["body"] = hex.EncodeToString([]byte(`{"name":`))
		}
		scen = append(scen, sc)
	}
	obs, err := RunTSServer(run.WorkDir, "c10", src, scen)
	if err != nil {
		run.Fatal("TS server: %v", err)
	}
	var ccs []CoqCase
	var results []*CaseResult
	for i, c := range cases {
		o := obs[i]
		if o.Error != "" || o.Refused != "" {
			run.Fatal("TS driver error on %s: %s%s", c.family, firstLine(o.Error), o.Refused)
		}
		var body any
		dec := json.NewDecoder(strings.NewReader(o.Body))
		dec.UseNumber()
		if err := dec.Decode(&body); err != nil {
			body = map[string]any{"undecodable": o.Body}
		}
		if c.badBody { // the SyntaxError text is the JS engine's wording
			if m, ok := body.(map[string]any); ok {
				for _, k := range []string{"message", "hooked"} {
					if _, has := m[k]; has {
						m[k] = proseMark
					}
				}
			}
		}
		ob := map[string]any{"status": o.Status, "body": body, "hooked": o.XHook == "v"}
		// oracle: validation failures are 400 with the violations, other failures 500 with the message,
		// unless the onError hook (non-validation errors only, as documented in ServerOptions) answers
		holds, note := true, ""
		bm, _ := body.(map[string]any)
		switch {
		case c.wantVs != nil:
			if o.Status != 400 {
				holds, note = false, fmt.Sprintf("TS server: request/validation failure answered %d, not 400", o.Status)
				break
			}
			got, _ := bm["violations"].([]any)
			if len(got) != len(c.wantVs) {
				holds, note = false, "TS server: violation list differs"
				break
			}
			for k, g := range got {
				gm, _ := g.(map[string]any)
				if gm["field"] != c.wantVs[k][0] || (!c.badBody && gm["description"] != c.wantVs[k][1]) {
					holds, note = false, "TS server: violation list differs"
				}
			}
		case c.onError != 0:
			if o.Status != c.onError || o.XHook != "v" {
				holds, note = false, "TS server: onError response not used"
			}
		default:
			if o.Status != 500 || bm["message"] != *c.wantMsg {
				holds, note = false, fmt.Sprintf("TS server: handler error answered %d %s", o.Status, short(body))
			}
		}
		oe := "None"
		if c.onError != 0 {
			oe = fmt.Sprintf("(Some (%d)%%Z)", c.onError)
		}
		cr := &CaseResult{ID: fmt.Sprintf("%s#%d", c.family, i), Family: c.family, Input: map[string]any{"scenario": scen[i]},
			Obs: ob, OracleHolds: holds, OracleNote: note, NonTrivial: true, Features: []string{"ts-server", fmt.Sprintf("on_error:%d", c.onError)}}
		results = append(results, cr)
		ccs = append(ccs, CoqCase{Term: "(" + c.coq + ", " + oe + ")", Obs: ob})
	}
	vs, err := CoqRun(run.WorkDir, "c10ts", "From Sebuf Require Import Text Json Schema Value Headers Errors.\n", "", "(ts_thrown * option Z)", "predict_C10_ts", ccs, 2)
	if err != nil {
		run.Fatal("model evaluation (TS): %v", err)
	}
	for i, cr := range results {
		cr.Apply(vs[i])
	}
	return fmt.Sprintf("node %s drove the catch block of the emitted *_server.ts on %d scripted failures (the TS client's handleError: family ts-client-error, c10_tsclient.go)", nodeBin, len(results)), results
}
