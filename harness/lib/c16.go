package lib

import (
	"fmt"
	"math/rand"
	"path/filepath"
	"strings"
	"sync"
	"time"

	"google.golang.org/protobuf/reflect/protoreflect"
)

// graphOf builds the message graph (Traverse.v) from the real descriptors: every message reachable
// from the user files, library types included; returns the Coq term, the indices of the response
// types of the RPCs in generated files, and the node count.
func graphOf(r *Request, b *Built) (string, []int, int) {
	idx := map[string]int{}
	var order []protoreflect.MessageDescriptor
	var visit func(md protoreflect.MessageDescriptor)
	visit = func(md protoreflect.MessageDescriptor) {
		if md.IsMapEntry() {
			return
		}
		if _, ok := idx[string(md.FullName())]; ok {
			return
		}
		idx[string(md.FullName())] = len(order)
		order = append(order, md)
		fs := md.Fields()
		for i := 0; i < fs.Len(); i++ {
			fd := fs.Get(i)
			if fd.IsMap() {
				if fd.MapValue().Message() != nil {
					visit(fd.MapValue().Message())
				}
			} else if fd.Message() != nil {
				visit(fd.Message())
			}
		}
	}
	for _, mr := range collectMsgs(r) {
		if md := b.MessageDesc(mr.Full); md != nil {
			visit(md)
		}
	}
	var nodes []string
	for _, md := range order {
		var es []string
		fs := md.Fields()
		for i := 0; i < fs.Len(); i++ {
			fd := fs.Get(i)
			switch {
			case fd.IsMap():
				if vm := fd.MapValue().Message(); vm != nil {
					es = append(es, fmt.Sprintf("(%d%%nat, true)", idx[string(vm.FullName())]))
				}
			case fd.Message() != nil:
				es = append(es, fmt.Sprintf("(%d%%nat, %s)", idx[string(fd.Message().FullName())], CoqBool(!fd.IsList())))
			}
		}
		nodes = append(nodes, "{| mn_edges := ["+strings.Join(es, "; ")+"] |}")
	}
	var roots []int
	for _, f := range r.Files {
		if !f.Generate {
			continue
		}
		for _, s := range f.Services {
			for _, m := range s.Methods {
				if i, ok := idx[m.Out]; ok {
					roots = append(roots, i)
				}
			}
		}
	}
	return "[" + strings.Join(nodes, "; ") + "]", roots, len(nodes)
}

func stressRequests(rng *rand.Rand, nRandom int) []*Request {
	var out []*Request
	mk := func(id string, msgs []*Message, outT string, extra func(f *File, r *Request)) {
		pkg := id + ".v1"
		f := &File{Messages: append([]*Message{M("Req", F("id", 1, "string"))}, msgs...)}
		f.Services = []*Service{Svc("S", "/s", RPC("Call", pkg+".Req", pkg+"."+outT, "POST", "/c"))}
		r := OneFile(id, pkg, f)
		if extra != nil {
			extra(f, r)
		}
		out = append(out, r)
	}
	p := func(id, t string) string { return id + ".v1." + t }
	mk("c16self", []*Message{M("Node", F("v", 1, "string"), F("next", 2, "", Msg(p("c16self", "Node"))))}, "Node", nil)
	mk("c16mutual", []*Message{M("A", F("b", 1, "", Msg(p("c16mutual", "B")))), M("B", F("a", 1, "", Msg(p("c16mutual", "A"))), F("n", 2, "int32"))}, "A", nil)
	mk("c16rep", []*Message{M("Tree", F("v", 1, "string"), F("kids", 2, "", Msg(p("c16rep", "Tree")), Rep()))}, "Tree", nil)
	mk("c16map", []*Message{M("Dir", F("name", 1, "string"), F("sub", 2, "", Msg(p("c16map", "Dir")), MapOf("string")))}, "Dir", nil)
	mk("c16oneof", []*Message{M("Expr", F("lit", 1, "int64", InOneof("e")), F("neg", 2, "", Msg(p("c16oneof", "Expr")), InOneof("e"))).WithOneofs(&Oneof{Name: "e"})}, "Expr", nil)
	mk("c16opt", []*Message{M("L", F("v", 1, "int32", Opt()), F("next", 2, "", Msg(p("c16opt", "L")), Opt()))}, "L", nil)
	mk("c16reqrec", []*Message{M("Out", F("ok", 1, "bool"))}, "Out", func(f *File, r *Request) {
		f.Messages[0].Fields = append(f.Messages[0].Fields, F("parent", 2, "", Msg(p("c16reqrec", "Req"))))
	})
	{ // deep chain
		var ms []*Message
		for i := 0; i < 40; i++ {
			m := M(fmt.Sprintf("D%d", i), F("v", 1, "string"))
			if i < 39 {
				m.Fields = append(m.Fields, F("next", 2, "", Msg(p("c16deep", fmt.Sprintf("D%d", i+1)))))
			}
			ms = append(ms, m)
		}
		mk("c16deep", ms, "D0", nil)
	}
	{ // nested declarations, depth 10, with enums
		inner := M("N9", F("v", 1, "string")).WithEnums(E("E9", "E9_ZERO", "E9_ONE"))
		for i := 8; i >= 0; i-- {
			inner = M(fmt.Sprintf("N%d", i), F("v", 1, "string")).WithNested(inner).WithEnums(E(fmt.Sprintf("E%d", i), fmt.Sprintf("E%d_ZERO", i)))
		}
		mk("c16nest", []*Message{inner}, "N0", nil)
	}
	{ // wide
		m := M("Wide")
		kinds := []string{"string", "int32", "int64", "bool", "double", "bytes", "uint64", "float"}
		for i := 0; i < 300; i++ {
			m.Fields = append(m.Fields, F(fmt.Sprintf("f%d", i), int32(i+1), kinds[i%len(kinds)]))
		}
		mk("c16wide", []*Message{m}, "Wide", nil)
	}
	mk("c16empty", []*Message{M("Nothing")}, "Nothing", func(f *File, r *Request) {
		f.Services = append(f.Services, &Service{Name: "NoMethods"})
	})
	mk("c16nopkg", []*Message{M("Out", F("ok", 1, "bool"))}, "Out", func(f *File, r *Request) {
		f.Package = ""
		f.Services[0].Methods[0].In, f.Services[0].Methods[0].Out = "Req", "Out"
	})
	mk("c16nogopkg", []*Message{M("Out", F("ok", 1, "bool"))}, "Out", func(f *File, r *Request) { f.GoPackage = "" })
	mk("c16shared", []*Message{M("Out", F("ok", 1, "bool"))}, "Out", func(f *File, r *Request) {
		pkg := "c16shared.v1"
		f.Services[0].Methods = append(f.Services[0].Methods, RPC("Again", pkg+".Req", pkg+".Out", "PUT", "/c2"), RPC("Swap", pkg+".Out", pkg+".Req", "PATCH", "/c3"))
	})
	{
		long := strings.Repeat("VeryLongName", 40)
		mk("c16long", []*Message{M(long, F(strings.ToLower(long), 1, "string"))}, long, nil)
	}
	mk("c16wkt", []*Message{M("W", F("at", 1, "", Msg(Timestamp)), F("d", 2, "", Msg("google.protobuf.Duration")), F("any", 3, "", Msg("google.protobuf.Any")),
		F("s", 4, "", Msg("google.protobuf.Struct")), F("e", 5, "", Msg("google.protobuf.Empty")), F("w", 6, "", Msg("google.protobuf.StringValue")),
		F("fm", 7, "", Msg("google.protobuf.FieldMask")), F("vals", 8, "", Msg("google.protobuf.Value"), Rep()), F("by", 9, "", Msg(Timestamp), MapOf("string")))}, "W", nil)
	// annotation-driven recursions: flatten cycles and chains, flattened-oneof cycles, unwrap cycles
	mk("c16flatcycle", []*Message{
		M("Folder", F("name", 1, "string"), F("owner", 2, "", Msg(p("c16flatcycle", "Owner")), Flatten(true))),
		M("Owner", F("login", 1, "string"), F("home", 2, "", Msg(p("c16flatcycle", "Folder")), Flatten(true)))}, "Folder", nil)
	mk("c16flatcycle3", []*Message{
		M("A", F("a", 1, "string"), F("b", 2, "", Msg(p("c16flatcycle3", "B")), Flatten(true), FlattenPrefix("b_"))),
		M("B", F("x", 1, "string"), F("c", 2, "", Msg(p("c16flatcycle3", "C")), Flatten(true), FlattenPrefix("c_"))),
		M("C", F("y", 1, "string"), F("a", 2, "", Msg(p("c16flatcycle3", "A")), Flatten(true), FlattenPrefix("a_")))}, "A", nil)
	mk("c16flatchain", []*Message{
		M("L0", F("v0", 1, "string"), F("n", 2, "", Msg(p("c16flatchain", "L1")), Flatten(true))),
		M("L1", F("v1", 1, "string"), F("n", 2, "", Msg(p("c16flatchain", "L2")), Flatten(true))),
		M("L2", F("v2", 1, "string"), F("n", 2, "", Msg(p("c16flatchain", "L3")), Flatten(true))),
		M("L3", F("v3", 1, "string"))}, "L0", nil)
	mk("c16flatself", []*Message{M("SelfFlat", F("v", 1, "string"), F("again", 2, "", Msg(p("c16flatself", "SelfFlat")), Flatten(true), FlattenPrefix("again_")))}, "SelfFlat", nil)
	mk("c16oneofcycle", []*Message{
		M("Node", F("id", 1, "string"), F("leaf", 2, "", Msg(p("c16oneofcycle", "Leaf")), InOneof("kind")), F("branch", 3, "", Msg(p("c16oneofcycle", "Branch")), InOneof("kind"))).WithOneofs(&Oneof{Name: "kind", HasConfig: true, Discriminator: "type", Flatten: true}),
		M("Leaf", F("v", 1, "string")), M("Branch", F("left", 1, "", Msg(p("c16oneofcycle", "Node"))), F("right", 2, "", Msg(p("c16oneofcycle", "Node"))))}, "Node", nil)
	mk("c16unwrapcycle", []*Message{
		M("Tree", F("kids", 1, "", Msg(p("c16unwrapcycle", "Tree")), Rep(), Unwrap())),
		M("Forest", F("by_name", 1, "", Msg(p("c16unwrapcycle", "Tree")), MapOf("string")), F("n", 2, "int32"))}, "Forest", nil)
	// the same short message name in several packages / scopes, all reachable from one service
	{
		id := "c16names"
		mkFile := func(pkgSuffix string) *File {
			pkg := "acme." + pkgSuffix + ".v1"
			return &File{Path: id + "/" + pkgSuffix + ".proto", Package: pkg, GoPackage: "verifgen/" + id + "/" + pkgSuffix + ";" + pkgSuffix, Generate: true,
				Messages: []*Message{M("Status", F("code_"+pkgSuffix, 1, "int32")).WithNested(M("Detail", F("d", 1, "string")))}}
		}
		orders, billing, shipping := mkFile("orders"), mkFile("billing"), mkFile("shipping")
		api := &File{Path: id + "/api.proto", Package: "acme.api.v1", GoPackage: "verifgen/" + id + "/api;api", Generate: true,
			Imports: []string{orders.Path, billing.Path, shipping.Path},
			Messages: []*Message{M("Req", F("id", 1, "string")), M("Status", F("o", 1, "", Msg("acme.orders.v1.Status")), F("b", 2, "", Msg("acme.billing.v1.Status")), F("s", 3, "", Msg("acme.shipping.v1.Status")),
				F("od", 4, "", Msg("acme.orders.v1.Status.Detail")), F("bd", 5, "", Msg("acme.billing.v1.Status.Detail")))},
			Services: []*Service{Svc("Api", "/a", RPC("Get", "acme.api.v1.Req", "acme.api.v1.Status", "POST", "/g"))}}
		out = append(out, &Request{ID: id, Files: []*File{orders, billing, shipping, api}})
	}
	// seeded random graphs
	for i := 0; i < nRandom; i++ {
		id := fmt.Sprintf("c16rand%d", i)
		n := 2 + rng.Intn(7)
		var ms []*Message
		for a := 0; a < n; a++ {
			m := M(fmt.Sprintf("M%d", a), F("v", 1, "string"))
			ne := rng.Intn(4)
			for e := 0; e < ne; e++ {
				t := p(id, fmt.Sprintf("M%d", rng.Intn(n)))
				var opt FieldOpt
				switch rng.Intn(4) {
				case 0:
					opt = Rep()
				case 1:
					opt = MapOf("string")
				case 2:
					opt = Opt()
				default:
					opt = func(*Field) {}
				}
				m.Fields = append(m.Fields, F(fmt.Sprintf("e%d", e), int32(e+2), "", Msg(t), opt))
			}
			ms = append(ms, m)
		}
		mk(id, ms, "M0", nil)
	}
	return out
}

type c16Variant struct {
	plugin, param string
	mock          bool
}

var c16Variants = []c16Variant{
	{"go-http", "paths=source_relative", false}, {"go-http", "paths=source_relative,generate_mock=true", true},
	{"go-http", "paths=import", false}, {"go-client", "paths=source_relative", false},
	{"ts-client", "", false}, {"ts-server", "", false},
	{"openapiv3", "", false}, {"openapiv3", "format=json", false}, {"openapiv3", "format=yaml", false}, {"openapiv3", "format=bogus", false},
}

func CheckC16(run *Run) {
	run.Proof = CheckProofs("C16")
	run.Prepare()
	nRandom := 6
	if run.Tier == "thorough" {
		nRandom = 120
	}
	reqs := stressRequests(rand.New(rand.NewSource(run.Seed+16)), nRandom)
	type res struct {
		guarded, mock bool
		detail        []string
		maxMs         int64
		maxRSS        int64
	}
	results := make([]*res, len(reqs))
	builts := make([]*Built, len(reqs))
	var wg sync.WaitGroup
	sem := make(chan struct{}, 6)
	for i, r := range reqs {
		wg.Add(1)
		go func(i int, r *Request) {
			defer wg.Done()
			sem <- struct{}{}
			defer func() { <-sem }()
			out := &res{guarded: true, mock: true}
			results[i] = out
			b, err := BuildDescriptors(r)
			if err != nil {
				out.detail = append(out.detail, "descriptor build: "+err.Error())
				out.guarded = false
				return
			}
			builts[i] = b
			for _, v := range c16Variants {
				mem := 6144
				if v.mock {
					mem = 1024 // the known divergence dies quickly under a small address space
				}
				pr := RunPlugin(filepath.Join(run.BinDir, "protoc-gen-"+v.plugin), v.plugin, MakeCGR(b.All, ToGenerate(r), v.param), 10*time.Second, mem)
				answered := pr.Exit == "ok" || pr.Exit == "error-response"
				if pr.Exit == "crash" && pr.Error == "exit status 1" && !strings.Contains(pr.Stderr, "panic:") && !strings.Contains(pr.Stderr, "fatal error:") && !strings.Contains(pr.Stderr, "goroutine ") {
					answered = true // protogen's way of refusing a request: one diagnostic line on stderr, exit 1
				}
				if pr.WallMs > out.maxMs {
					out.maxMs = pr.WallMs
				}
				if pr.MaxRSSKB > out.maxRSS {
					out.maxRSS = pr.MaxRSSKB
				}
				if !answered {
					out.detail = append(out.detail, fmt.Sprintf("%s[%s]: %s %s %s", v.plugin, v.param, pr.Exit, firstLine(pr.Error), firstLine(pr.Stderr)))
					if v.mock {
						out.mock = false
					} else {
						out.guarded = false
					}
				}
			}
		}(i, r)
	}
	wg.Wait()
	var ccs []CoqCase
	var crs []*CaseResult
	for i, r := range reqs {
		if builts[i] == nil {
			run.Fatal("descriptor build failed for %s: %s", r.ID, strings.Join(results[i].detail, "; "))
		}
		g, roots, n := graphOf(r, builts[i])
		rs := make([]string, len(roots))
		for k, x := range roots {
			rs[k] = fmt.Sprintf("%d%%nat", x)
		}
		o := results[i]
		obs := map[string]any{"guarded_walk_terminates": o.guarded, "mock_walk_terminates": o.mock}
		cr := &CaseResult{ID: r.ID, Family: "plugin-termination",
			Input: map[string]any{"schema": r.ID, "messages": n, "variants": len(c16Variants), "max_wall_ms": o.maxMs, "max_rss_kb": o.maxRSS},
			Obs:   obs, OracleHolds: o.guarded && o.mock, OracleNote: strings.Join(o.detail, " | "), NonTrivial: true, Features: []string{"stress"}}
		crs = append(crs, cr)
		ccs = append(ccs, CoqCase{Term: fmt.Sprintf("(%s, [%s])", g, strings.Join(rs, "; ")), Obs: obs})
	}
	vs, err := CoqRun(run.WorkDir, "c16", "From Sebuf Require Import Text Json Traverse.\n", "", "(graph * list nat)", "predict_C16", ccs, 8)
	if err != nil {
		run.Fatal("model evaluation: %v", err)
	}
	for i, cr := range crs {
		cr.Apply(vs[i])
		if strings.Contains(cr.OracleNote, "unable to determine Go import path") {
			// the request is refused by protogen itself (no go_package): outside the graph model
			cr.Unmodelled = "request refused by protogen (no Go import path)"
			cr.Agree, cr.Diff, cr.Tags = false, "", nil
			if strings.Contains(cr.OracleNote, "openapiv3") && strings.Contains(cr.OracleNote, "panic:") {
				cr.Tags = []string{"z3:openapi-panics-on-request-error"}
			}
		}
		run.Results = append(run.Results, cr)
	}
	run.Extra["plugin_runs"] = len(reqs) * len(c16Variants)
	run.Extra["bounds"] = "each plugin process: 10 s wall clock, 1 GiB address space"
	run.Finish()
}
