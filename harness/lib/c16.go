package lib

import (
	"fmt"
	"math/rand"
	"path/filepath"
	"strings"
	"sync"
	"time"

	"google.golang.org/protobuf/reflect/protoreflect"
)

// graphOf builds the message graph (Traverse.v) from the real descriptors: every message reachable
// from the user files, library types included; returns the Coq term, the indices of the response
// types of the RPCs in generated files, and the node count.
func graphOf(r *Request, b *Built) (string, []int, int) {
	idx := map[string]int{}
	var order []protoreflect.MessageDescriptor
	var visit func(md protoreflect.MessageDescriptor)
	visit = func(md protoreflect.MessageDescriptor) {
		if md.IsMapEntry() {
			return
		}
		if _, ok := idx[string(md.FullName())]; ok {
			return
		}
		idx[string(md.FullName())] = len(order)
		order = append(order, md)
		fs := md.Fields()
		for i := 0; i < fs.Len(); i++ {
			fd := fs.Get(i)
			if fd.IsMap() {
				if fd.MapValue().Message() != nil {
					visit(fd.MapValue().Message())
				}
			} else if fd.Message() != nil {
				visit(fd.Message())
			}
		}
	}
	for _, mr := range collectMsgs(r) {
		if md := b.MessageDesc(mr.Full); md != nil {
			visit(md)
		}
	}
	var nodes []string
	for _, md := range order {
		var es []string
		fs := md.Fields()
		for i := 0; i < fs.Len(); i++ {
			fd := fs.Get(i)
			switch {
			case fd.IsMap():
				if vm := fd.MapValue().Message(); vm != nil {
					es = append(es, fmt.Sprintf("(%d%%nat, true)", idx[string(vm.FullName())]))
				}
			case fd.Message() != nil:
				es = append(es, fmt.Sprintf("(%d%%nat, %s)", idx[string(fd.Message().FullName())], CoqBool(!fd.IsList())))
			}
		}
		nodes = append(nodes, "{| mn_edges := ["+strings.Join(es, "; ")+"] |}")
	}
	var roots []int
	for _, f := range r.Files {
		if !f.Generate {
			continue
		}
		for _, s := range f.Services {
			for _, m := range s.Methods {
				if i, ok := idx[m.Out]; ok {
					roots = append(roots, i)
				}
			}
		}
	}
	return "[" + strings.Join(nodes, "; ") + "]", roots, len(nodes)
}

func stressRequests(rng *rand.Rand, nRandom int) []*Request {
	var out []*Request
	mk := func(id string, msgs []*Message, outT string, extra func(f *File, r *Request)) {
		pkg := id + ".v1"
		f := &File{Messages: append([]*Message{M("Req", F("id", 1, "string"))}, msgs...)}
		f.Services = []*Service{Svc("S", "/s", RPC("Call", pkg+".Req", pkg+"."+outT, "POST", "/c"))}
		r := OneFile(id, pkg, f)
		if extra != nil {
			extra(f, r)
		}
		out = append(out, r)
	}
	p := func(id, t string) string { return id + ".v1." + t }
	mk("c16self", []*Message{M("Node", F("v", 1, "string"), F("next", 2, "", Msg(p("c16self", "Node"))))}, "Node", nil)
	mk("c16mutual", []*Message{M("A", F("b", 1, "", Msg(p("c16mutual", "B")))), M("B", F("a", 1, "", Msg(p("c16mutual", "A"))), F("n", 2, "int32"))}, "A", nil)
	mk("c16rep", []*Message{M("Tree", F("v", 1, "string"), F("kids", 2, "", Msg(p("c16rep", "Tree")), Rep()))}, "Tree", nil)
	mk("c16map", []*Message{M("Dir", F("name", 1, "string"), F("sub", 2, "", Msg(p("c16map", "Dir")), MapOf("string")))}, "Dir", nil)
	mk("c16oneof", []*Message{M("Expr", F("lit", 1, "int64", InOneof("e")), F("neg", 2, "", Msg(p("c16oneof", "Expr")), InOneof("e"))).WithOneofs(&Oneof{Name: "e"})}, "Expr", nil)
	mk("c16opt", []*Message{M("L", F("v", 1, "int32", Opt()), F("next", 2, "", Msg(p("c16opt", "L")), Opt()))}, "L", nil)
	mk("c16reqrec", []*Message{M("Out", F("ok", 1, "bool"))}, "Out", func(f *File, r *Request) {
		f.Messages[0].Fields = append(f.Messages[0].Fields, F("parent", 2, "", Msg(p("c16reqrec", "Req"))))
	})
	{ // deep chain
		var ms []*Message
		for i := 0; i < 40; i++ {
			m := M(fmt.Sprintf("D%d", i), F("v", 1, "string"))
			if i < 39 {
				m.Fields = append(m.Fields, F("next", 2, "", Msg(p("c16deep", fmt.Sprintf("D%d", i+1)))))
			}
			ms = append(ms, m)
		}
		mk("c16deep", ms, "D0", nil)
	}
	{ // nested declarations, depth 10, with enums
		inner := M("N9", F("v", 1, "string")).WithEnums(E("E9", "E9_ZERO", "E9_ONE"))
		for i := 8; i >= 0; i-- {
			inner = M(fmt.Sprintf("N%d", i), F("v", 1, "string")).WithNested(inner).WithEnums(E(fmt.Sprintf("E%d", i), fmt.Sprintf("E%d_ZERO", i)))
		}
		mk("c16nest", []*Message{inner}, "N0", nil)
	}
	{ // wide
		m := M("Wide")
		kinds := []string{"string", "int32", "int64", "bool", "double", "bytes", "uint64", "float"}
		for i := 0; i < 300; i++ {
			m.Fields = append(m.Fields, F(fmt.Sprintf("f%d", i), int32(i+1), kinds[i%len(kinds)]))
		}
		mk("c16wide", []*Message{m}, "Wide", nil)
	}
	mk("c16empty", []*Message{M("Nothing")}, "Nothing", func(f *File, r *Request) {
		f.Services = append(f.Services, &Service{Name: "NoMethods"})
	})
	mk("c16nopkg", []*Message{M("Out", F("ok", 1, "bool"))}, "Out", func(f *File, r *Request) {
		f.Package = ""
		f.Services[0].Methods[0].In, f.Services[0].Methods[0].Out = "Req", "Out"
	})
	mk("c16nogopkg", []*Message{M("Out", F("ok", 1, "bool"))}, "Out", func(f *File, r *Request) { f.GoPackage = "" })
	mk("c16shared", []*Message{M("Out", F("ok", 1, "bool"))}, "Out", func(f *File, r *Request) {
		pkg := "c16shared.v1"
		f.Services[0].Methods = append(f.Services[0].Methods, RPC("Again", pkg+".Req", pkg+".Out", "PUT", "/c2"), RPC("Swap", pkg+".Out", pkg+".Req", "PATCH", "/c3"))
	})
	{
		long := strings.Repeat("VeryLongName", 40)
		mk("c16long", []*Message{M(long, F(strings.ToLower(long), 1, "string"))}, long, nil)
	}
	mk("c16wkt", []*Message{M("W", F("at", 1, "", Msg(Timestamp)), F("d", 2, "", Msg("google.protobuf.Duration")), F("any", 3, "", Msg("google.protobuf.Any")),
		F("s", 4, "", Msg("google.protobuf.Struct")), F("e", 5, "", Msg("google.protobuf.Empty")), F("w", 6, "", Msg("google.protobuf.StringValue")),
		F("fm", 7, "", Msg("google.protobuf.FieldMask")), F("vals", 8, "", Msg("google.protobuf.Value"), Rep()), F("by", 9, "", Msg(Timestamp), MapOf("string")))}, "W", nil)
	// buf.validate string rules whose values are hostile as YAML scalars: the empty string (const "" made
	// protoc-gen-openapiv3 dereference nil inside libopenapi while the nodes were untagged), words and digits that a
	// YAML resolver reads as null / boolean / number; singular, optional, repeated and map fields
	mk("c16strconst", []*Message{M("Out",
		F("c_empty", 1, "string", WithRules(&Rules{StrConst: Str("")})),
		F("in_empty", 2, "string", WithRules(&Rules{StrIn: []string{""}})),
		F("in_empty_more", 3, "string", WithRules(&Rules{StrIn: []string{"", "x", ""}})),
		F("c_and_in_empty", 4, "string", WithRules(&Rules{StrConst: Str(""), StrIn: []string{""}, StrNotIn: []string{""}})),
		F("c_empty_opt", 5, "string", Opt(), WithRules(&Rules{StrConst: Str("")})),
		F("c_null", 6, "string", WithRules(&Rules{StrConst: Str("null")})),
		F("c_tilde", 7, "string", WithRules(&Rules{StrConst: Str("~")})),
		F("c_num", 8, "string", WithRules(&Rules{StrConst: Str("123")})),
		F("in_words", 9, "string", WithRules(&Rules{StrIn: []string{"true", "null", "1.5", "yes", " ", "- x", "a: b", "#"}})),
		F("c_blank", 10, "string", WithRules(&Rules{StrConst: Str(" ")})),
		F("c_newline", 11, "string", WithRules(&Rules{StrConst: Str("a\nb")})),
		F("r_empty", 12, "string", Rep(), WithRules(&Rules{StrConst: Str(""), StrIn: []string{""}, MinItems: U(1)})),
		F("m_empty", 13, "string", MapOf("string"), WithRules(&Rules{StrConst: Str(""), StrIn: []string{""}, MinPairs: U(1)})))}, "Out", func(f *File, r *Request) {
		// the same rules on the request side (request body schema and, on a GET route, query parameters)
		f.Messages[0].Fields = append(f.Messages[0].Fields, F("tag", 2, "string", WithRules(&Rules{StrConst: Str("")})), F("pick", 3, "string", Query("pick", false), WithRules(&Rules{StrIn: []string{""}})))
		f.Services[0].Methods = append(f.Services[0].Methods, RPC("Find", "c16strconst.v1.Req", "c16strconst.v1.Out", "GET", "/f/{id}"))
	})
	// annotation-driven recursions: flatten cycles and chains, flattened-oneof cycles, unwrap cycles
	mk("c16flatcycle", []*Message{
		M("Folder", F("name", 1, "string"), F("owner", 2, "", Msg(p("c16flatcycle", "Owner")), Flatten(true))),
		M("Owner", F("login", 1, "string"), F("home", 2, "", Msg(p("c16flatcycle", "Folder")), Flatten(true)))}, "Folder", nil)
	mk("c16flatcycle3", []*Message{
		M("A", F("a", 1, "string"), F("b", 2, "", Msg(p("c16flatcycle3", "B")), Flatten(true), FlattenPrefix("b_"))),
		M("B", F("x", 1, "string"), F("c", 2, "", Msg(p("c16flatcycle3", "C")), Flatten(true), FlattenPrefix("c_"))),
		M("C", F("y", 1, "string"), F("a", 2, "", Msg(p("c16flatcycle3", "A")), Flatten(true), FlattenPrefix("a_")))}, "A", nil)
	mk("c16flatchain", []*Message{
		M("L0", F("v0", 1, "string"), F("n", 2, "", Msg(p("c16flatchain", "L1")), Flatten(true))),
		M("L1", F("v1", 1, "string"), F("n", 2, "", Msg(p("c16flatchain", "L2")), Flatten(true))),
		M("L2", F("v2", 1, "string"), F("n", 2, "", Msg(p("c16flatchain", "L3")), Flatten(true))),
		M("L3", F("v3", 1, "string"))}, "L0", nil)
	mk("c16flatself", []*Message{M("SelfFlat", F("v", 1, "string"), F("again", 2, "", Msg(p("c16flatself", "SelfFlat")), Flatten(true), FlattenPrefix("again_")))}, "SelfFlat", nil)
	mk("c16oneofcycle", []*Message{
		M("Node", F("id", 1, "string"), F("leaf", 2, "", Msg(p("c16oneofcycle", "Leaf")), InOneof("kind")), F("branch", 3, "", Msg(p("c16oneofcycle", "Branch")), InOneof("kind"))).WithOneofs(&Oneof{Name: "kind", HasConfig: true, Discriminator: "type", Flatten: true}),
		M("Leaf", F("v", 1, "string")), M("Branch", F("left", 1, "", Msg(p("c16oneofcycle", "Node"))), F("right", 2, "", Msg(p("c16oneofcycle", "Node"))))}, "Node", nil)
	mk("c16unwrapcycle", []*Message{
		M("Tree", F("kids", 1, "", Msg(p("c16unwrapcycle", "Tree")), Rep(), Unwrap())),
		M("Forest", F("by_name", 1, "", Msg(p("c16unwrapcycle", "Tree")), MapOf("string")), F("n", 2, "int32"))}, "Forest", nil)
	// the same short message name in several packages / scopes, all reachable from one service
	{
		id := "c16names"
		mkFile := func(pkgSuffix string) *File {
			pkg := "acme." + pkgSuffix + ".v1"
			return &File{Path: id + "/" + pkgSuffix + ".proto", Package: pkg, GoPackage: "verifgen/" + id + "/" + pkgSuffix + ";" + pkgSuffix, Generate: true,
				Messages: []*Message{M("Status", F("code_"+pkgSuffix, 1, "int32")).WithNested(M("Detail", F("d", 1, "string")))}}
		}
		orders, billing, shipping := mkFile("orders"), mkFile("billing"), mkFile("shipping")
		api := &File{Path: id + "/api.proto", Package: "acme.api.v1", GoPackage: "verifgen/" + id + "/api;api", Generate: true,
			Imports: []string{orders.Path, billing.Path, shipping.Path},
			Messages: []*Message{M("Req", F("id", 1, "string")), M("Status", F("o", 1, "", Msg("acme.orders.v1.Status")), F("b", 2, "", Msg("acme.billing.v1.Status")), F("s", 3, "", Msg("acme.shipping.v1.Status")),
				F("od", 4, "", Msg("acme.orders.v1.Status.Detail")), F("bd", 5, "", Msg("acme.billing.v1.Status.Detail")))},
			Services: []*Service{Svc("Api", "/a", RPC("Get", "acme.api.v1.Req", "acme.api.v1.Status", "POST", "/g"))}}
		out = append(out, &Request{ID: id, Files: []*File{orders, billing, shipping, api}})
	}
	// seeded random graphs
	for i := 0; i < nRandom; i++ {
		id := fmt.Sprintf("c16rand%d", i)
		n := 2 + rng.Intn(7)
		var ms []*Message
		for a := 0; a < n; a++ {
			m := M(fmt.Sprintf("M%d", a), F("v", 1, "string"))
			ne := rng.Intn(4)
			for e := 0; e < ne; e++ {
				t := p(id, fmt.Sprintf("M%d", rng.Intn(n)))
				var opt FieldOpt
				switch rng.Intn(4) {
				case 0:
					opt = Rep()
				case 1:
					opt = MapOf("string")
				case 2:
					opt = Opt()
				default:
					opt = func(*Field) {}
				}
				m.Fields = append(m.Fields, F(fmt.Sprintf("e%d", e), int32(e+2), "", Msg(t), opt))
			}
			ms = append(ms, m)
		}
		mk(id, ms, "M0", nil)
	}
	return out
}

// danglingRequests: well-formed descriptors whose annotations refer to something that is not there —
// a path variable without a request field of that name, a query annotation that names nothing usable,
// unwrap / flatten / oneof_config / enum annotations over types that are not part of the generated
// files (imported and not generated, well-known types, other packages), RPCs whose request or
// response type lives elsewhere. A plugin has to answer such a request with files or with an error
// message; it must not crash. One dangling reference per request, so that a plugin that refuses one
// shape does not hide what it does with the next. tier quick: two verbs per path shape.
func danglingRequests(tier string) []*Request {
	var out []*Request
	n := 0
	one := func(tag string, build func(id, pkg string, f *File, r *Request)) {
		n++
		id := fmt.Sprintf("c16dg%d", n)
		pkg := id + ".v1"
		f := &File{Messages: []*Message{M("Res", F("ok", 1, "bool"))}}
		r := OneFile(id, pkg, f)
		r.Tags = []string{"c16", "dangling", tag}
		build(id, pkg, f, r)
		out = append(out, r)
	}
	verbs := []string{"GET", "POST", "PUT", "DELETE", "PATCH"}
	bodyVerb := func(v string) bool { return v == "POST" || v == "PUT" || v == "PATCH" }

	// ---- (A) path variables -------------------------------------------------------------------
	type pathShape struct {
		tag, path, base string
		fields          func(pkg string) []*Field
		aux             func(pkg string) []*Message
	}
	user := func(pkg string) []*Message { return []*Message{M("User", F("id", 1, "string"), F("name", 2, "string"))} }
	shapes := []pathShape{
		{"path-typo", "/users/{user_id}", "/api", func(string) []*Field { return []*Field{F("id", 1, "string")} }, nil},
		{"path-json-name", "/users/{userId}", "/api", func(string) []*Field { return []*Field{F("user_id", 1, "string")} }, nil},
		{"path-go-name", "/users/{UserId}", "", func(string) []*Field { return []*Field{F("user_id", 1, "string")} }, nil},
		{"path-dotted", "/users/{user.id}", "/api", func(pkg string) []*Field { return []*Field{F("user", 1, "", Msg(pkg+".User"))} }, user},
		{"path-nested-field", "/users/{name}", "/api", func(pkg string) []*Field { return []*Field{F("user", 1, "", Msg(pkg+".User"))} }, user},
		{"path-no-fields-at-all", "/users/{id}/{name}", "/api", func(string) []*Field { return nil }, nil},
		{"path-second-missing", "/users/{id}/posts/{post_id}", "/api", func(string) []*Field { return []*Field{F("id", 1, "string")} }, nil},
		{"path-first-missing", "/users/{uid}/posts/{id}", "", func(string) []*Field { return []*Field{F("id", 1, "int64")} }, nil},
		{"path-empty-variable", "/users/{}", "/api", func(string) []*Field { return []*Field{F("id", 1, "string")} }, nil},
		{"path-unclosed", "/users/{id", "/api", func(string) []*Field { return []*Field{F("id", 1, "string")} }, nil},
		{"path-stray-close", "/users/id}/x", "/api", func(string) []*Field { return []*Field{F("id", 1, "string")} }, nil},
		{"path-spaces", "/users/{ id }", "/api", func(string) []*Field { return []*Field{F("id", 1, "string")} }, nil},
		{"path-google-style", "/users/{id=*}/x/{name=**}", "/api", func(string) []*Field { return []*Field{F("id", 1, "string"), F("name", 2, "string")} }, nil},
		{"path-regex-style", "/users/{id:[0-9]+}", "/api", func(string) []*Field { return []*Field{F("id", 1, "string")} }, nil},
		{"path-nested-braces", "/users/{{id}}", "/api", func(string) []*Field { return []*Field{F("id", 1, "string")} }, nil},
		{"path-variable-twice", "/users/{id}/again/{id}", "/api", func(string) []*Field { return []*Field{F("id", 1, "string")} }, nil},
		{"path-variable-in-base", "/items/{id}", "/t/{tenant}", func(string) []*Field { return []*Field{F("id", 1, "string")} }, nil},
		{"path-only-in-base", "/items", "/t/{tenant}/{region}", func(string) []*Field { return []*Field{F("id", 1, "string", Query("id", false))} }, nil},
		{"path-partial-segment", "/users/u-{id}.json", "/api", func(string) []*Field { return []*Field{F("id", 1, "string")} }, nil},
		{"path-case-differs", "/users/{ID}", "/api", func(string) []*Field { return []*Field{F("id", 1, "string")} }, nil},
		{"path-names-oneof", "/users/{choice}", "/api", func(string) []*Field {
			return []*Field{F("a", 1, "string", InOneof("choice")), F("b", 2, "int32", InOneof("choice"))}
		}, nil},
		{"path-names-map-entry-field", "/users/{key}", "/api", func(string) []*Field { return []*Field{F("labels", 1, "string", MapOf("string"))} }, nil},
		{"path-unicode", "/users/{идент}", "/api", func(string) []*Field { return []*Field{F("id", 1, "string")} }, nil},
	}
	for si, sh := range shapes {
		sh := sh
		for vi, v := range verbs {
			if tier != "thorough" && vi != si%5 && vi != (si+2)%5 {
				continue
			}
			v := v
			one(sh.tag, func(id, pkg string, f *File, r *Request) {
				fs := sh.fields(pkg)
				if bodyVerb(v) {
					fs = append(fs, F("note", 20, "string"))
				}
				m := M("Req", fs...)
				if sh.tag == "path-names-oneof" {
					m.WithOneofs(&Oneof{Name: "choice"})
				}
				f.Messages = append(f.Messages, m)
				if sh.aux != nil {
					f.Messages = append(f.Messages, sh.aux(pkg)...)
				}
				f.Services = []*Service{Svc("Users", sh.base, RPC("Call", pkg+".Req", pkg+".Res", v, sh.path))}
			})
		}
	}

	// ---- (B) query annotations that name nothing usable -----------------------------------------
	qshapes := []struct {
		tag    string
		fields func(pkg string) []*Field
		aux    func(pkg string) []*Message
		oneofs []*Oneof
	}{
		{"query-empty-name", func(string) []*Field { return []*Field{F("page", 1, "int32", Query("", true))} }, nil, nil},
		{"query-on-message", func(pkg string) []*Field { return []*Field{F("user", 1, "", Msg(pkg+".User"), Query("user", false))} }, user, nil},
		{"query-on-repeated-message", func(pkg string) []*Field { return []*Field{F("users", 1, "", Msg(pkg+".User"), Rep(), Query("u", true))} }, user, nil},
		{"query-on-map", func(string) []*Field { return []*Field{F("labels", 1, "string", MapOf("string"), Query("labels", false))} }, nil, nil},
		{"query-on-timestamp", func(string) []*Field { return []*Field{F("since", 1, "", Msg(Timestamp), Query("since", false))} }, nil, nil},
		{"query-on-bytes-and-enum", func(pkg string) []*Field {
			return []*Field{F("raw", 1, "bytes", Query("raw", false)), F("color", 2, "", EnumT(pkg+".Color"), Rep(), Query("color", true))}
		}, nil, nil},
		{"query-on-oneof-member", func(string) []*Field {
			return []*Field{F("a", 1, "string", InOneof("pick"), Query("a", false)), F("b", 2, "int64", InOneof("pick"), Query("b", true))}
		}, nil, []*Oneof{{Name: "pick"}}},
		{"query-on-optional", func(string) []*Field { return []*Field{F("a", 1, "string", Opt(), Query("a", true)), F("n", 2, "uint64", Opt(), Query("n", false))} }, nil, nil},
		{"query-name-odd", func(string) []*Field {
			return []*Field{F("a", 1, "string", Query("a b&c=d", false)), F("b", 2, "string", Query("{id}", false)), F("c", 3, "string", Query("\"quoted\\", false)), F("d", 4, "string", Query("käse", true))}
		}, nil, nil},
		{"query-name-duplicate", func(string) []*Field { return []*Field{F("a", 1, "string", Query("q", false)), F("b", 2, "int32", Query("q", true))} }, nil, nil},
		{"query-name-is-other-field", func(string) []*Field { return []*Field{F("a", 1, "string", Query("b", false)), F("b", 2, "string", Query("a", false))} }, nil, nil},
	}
	for qi, qs := range qshapes {
		qs := qs
		v := "GET"
		if qi%3 == 1 {
			v = "DELETE"
		} else if qi%3 == 2 {
			v = "POST"
		}
		one(qs.tag, func(id, pkg string, f *File, r *Request) {
			m := M("Req", qs.fields(pkg)...).WithOneofs(qs.oneofs...)
			f.Messages = append(f.Messages, m)
			if qs.aux != nil {
				f.Messages = append(f.Messages, qs.aux(pkg)...)
			}
			f.Enums = append(f.Enums, E("Color", "COLOR_UNSPECIFIED", "COLOR_RED"))
			f.Services = []*Service{Svc("Q", "/q", RPC("Call", pkg+".Req", pkg+".Res", v, "/call"))}
		})
	}
	// a query annotation on a field of the RESPONSE type, and on a message no RPC uses
	one("query-on-response-field", func(id, pkg string, f *File, r *Request) {
		f.Messages = append(f.Messages, M("Req", F("id", 1, "string")), M("Out", F("page", 1, "int32", Query("page", true))), M("Unused", F("x", 1, "string", Query("x", true))))
		f.Services = []*Service{Svc("Q", "/q", RPC("Call", pkg+".Req", pkg+".Out", "GET", "/call/{id}"))}
	})

	// ---- (C) annotations over types that are not in the generated files ---------------------------
	// lib: imported and NOT generated; other: imported, generated, another package
	withLib := func(tag string, generateLib, otherPkg bool, build func(pkg, lib string, f *File)) {
		one(tag, func(id, pkg string, f *File, r *Request) {
			libPkg := pkg
			goPkg := f.GoPackage
			if otherPkg {
				libPkg = id + "lib.v1"
				goPkg = fmt.Sprintf("verifgen/%slib;%slib", id, id)
			}
			status := &Enum{Name: "LibStatus", Values: []*EnumValue{{Name: "LIB_STATUS_UNSPECIFIED", Number: 0}, {Name: "LIB_STATUS_ON", Number: 1, EnumValue: Str("on")}}}
			lib := &File{Path: id + "lib/types.proto", Package: libPkg, GoPackage: goPkg, Generate: generateLib, Enums: []*Enum{status},
				Messages: []*Message{
					M("LibItem", F("sku", 1, "string"), F("qty", 2, "int64", I64("NUMBER")), F("made_at", 3, "", Msg(Timestamp), TsFmt("UNIX_SECONDS"))),
					M("LibList", F("items", 1, "", Msg(libPkg+".LibItem"), Rep(), Unwrap())),
					M("LibMap", F("by_sku", 1, "", Msg(libPkg+".LibList"), MapOf("string"), Unwrap())),
					M("LibNode", F("v", 1, "string"), F("next", 2, "", Msg(libPkg+".LibNode"))),
					M("LibReq", F("id", 1, "string"), F("page", 2, "int32", Query("page", false))),
				}}
			f.Imports = append(f.Imports, lib.Path)
			build(pkg, libPkg, f)
			r.Files = []*File{lib, f}
		})
	}
	for _, mode := range []struct {
		sfx                string
		generate, otherPkg bool
	}{{"imported", false, false}, {"imported-other-package", false, true}, {"generated-other-package", true, true}} {
		mode := mode
		t := func(s string) string { return s + "/" + mode.sfx }
		withLib(t("flatten-foreign-type"), mode.generate, mode.otherPkg, func(pkg, lib string, f *File) {
			f.Messages = append(f.Messages, M("Req", F("id", 1, "string"), F("item", 2, "", Msg(lib+".LibItem"), Flatten(true)), F("other", 3, "", Msg(lib+".LibItem"), Flatten(true), FlattenPrefix("o_"))))
			f.Services = []*Service{Svc("S", "/s", RPC("Call", pkg+".Req", pkg+".Req", "POST", "/c"))}
		})
		withLib(t("unwrap-foreign-element"), mode.generate, mode.otherPkg, func(pkg, lib string, f *File) {
			f.Messages = append(f.Messages, M("Req", F("items", 1, "", Msg(lib+".LibItem"), Rep(), Unwrap())),
				M("Holder", F("by_key", 1, "", Msg(lib+".LibList"), MapOf("string")), F("direct", 2, "", Msg(lib+".LibMap")), F("n", 3, "int32")))
			f.Services = []*Service{Svc("S", "/s", RPC("Call", pkg+".Req", pkg+".Holder", "POST", "/c"))}
		})
		withLib(t("unwrap-map-of-foreign-unwrap"), mode.generate, mode.otherPkg, func(pkg, lib string, f *File) {
			f.Messages = append(f.Messages, M("Req", F("id", 1, "string")), M("Root", F("by_key", 1, "", Msg(lib+".LibList"), MapOf("string"), Unwrap())))
			f.Services = []*Service{Svc("S", "/s", RPC("Call", pkg+".Req", pkg+".Root", "POST", "/c"))}
		})
		withLib(t("oneof-foreign-variants"), mode.generate, mode.otherPkg, func(pkg, lib string, f *File) {
			f.Messages = append(f.Messages,
				M("Req", F("id", 1, "string"), F("item", 2, "", Msg(lib+".LibItem"), InOneof("payload")), F("node", 3, "", Msg(lib+".LibNode"), InOneof("payload"), OneofVal("n"))).WithOneofs(&Oneof{Name: "payload", HasConfig: true, Discriminator: "kind", Flatten: true}),
				M("Plain", F("id", 1, "string"), F("item", 2, "", Msg(lib+".LibItem"), InOneof("payload")), F("list", 3, "", Msg(lib+".LibList"), InOneof("payload"))).WithOneofs(&Oneof{Name: "payload", HasConfig: true, Discriminator: "type"}))
			f.Services = []*Service{Svc("S", "/s", RPC("Call", pkg+".Req", pkg+".Plain", "POST", "/c"))}
		})
		withLib(t("enum-foreign"), mode.generate, mode.otherPkg, func(pkg, lib string, f *File) {
			f.Messages = append(f.Messages, M("Req", F("s", 1, "", EnumT(lib+".LibStatus")), F("n", 2, "", EnumT(lib+".LibStatus"), EnumEnc("STRING")), F("l", 3, "", EnumT(lib+".LibStatus"), Rep()),
				F("m", 4, "", EnumT(lib+".LibStatus"), MapOf("string")), F("o", 5, "", EnumT(lib+".LibStatus"), Opt(), Nullable(true))))
			f.Services = []*Service{Svc("S", "/s", RPC("Call", pkg+".Req", pkg+".Req", "POST", "/c"))}
		})
		withLib(t("rpc-types-foreign"), mode.generate, mode.otherPkg, func(pkg, lib string, f *File) {
			f.Services = []*Service{Svc("S", "/s", RPC("Get", lib+".LibReq", lib+".LibMap", "GET", "/c/{id}"), RPC("Put", lib+".LibItem", lib+".LibNode", "PUT", "/c/{sku}"),
				RPC("Plain", lib+".LibList", lib+".LibList", "", ""))}
		})
		withLib(t("empty-behavior-nullable-foreign"), mode.generate, mode.otherPkg, func(pkg, lib string, f *File) {
			f.Messages = append(f.Messages, M("Req", F("keep", 1, "", Msg(lib+".LibItem"), Empty("PRESERVE")), F("nul", 2, "", Msg(lib+".LibNode"), Empty("NULL")), F("omit", 3, "", Msg(lib+".LibList"), Empty("OMIT"))))
			f.Services = []*Service{Svc("S", "/s", RPC("Call", pkg+".Req", pkg+".Req", "POST", "/c"))}
		})
	}
	// well-known types where a user message is expected
	wkts := []string{Timestamp, "google.protobuf.Duration", "google.protobuf.Empty", "google.protobuf.Any", "google.protobuf.Struct", "google.protobuf.Value", "google.protobuf.ListValue", "google.protobuf.FieldMask", "google.protobuf.StringValue", "google.protobuf.Int64Value"}
	for _, w := range wkts {
		w := w
		short := w[strings.LastIndex(w, ".")+1:]
		one("flatten-wkt/"+short, func(id, pkg string, f *File, r *Request) {
			f.Messages = append(f.Messages, M("Req", F("id", 1, "string"), F("w", 2, "", Msg(w), Flatten(true), FlattenPrefix("w_"))))
			f.Services = []*Service{Svc("S", "/s", RPC("Call", pkg+".Req", pkg+".Req", "POST", "/c"))}
		})
		one("unwrap-and-oneof-wkt/"+short, func(id, pkg string, f *File, r *Request) {
			f.Messages = append(f.Messages, M("Req", F("ws", 1, "", Msg(w), Rep(), Unwrap())), M("ByKey", F("m", 1, "", Msg(w), MapOf("string"), Unwrap())),
				M("Ev", F("id", 1, "string"), F("w", 2, "", Msg(w), InOneof("p")), F("t", 3, "string", InOneof("p"))).WithOneofs(&Oneof{Name: "p", HasConfig: true, Discriminator: "kind"}),
				M("FlatEv", F("id", 1, "string"), F("w", 2, "", Msg(w), InOneof("p"))).WithOneofs(&Oneof{Name: "p", HasConfig: true, Discriminator: "kind", Flatten: true}),
				M("Emp", F("w", 1, "", Msg(w), Empty("NULL")), F("x", 2, "", Msg(w), Empty("OMIT"))))
			f.Services = []*Service{Svc("S", "/s", RPC("A", pkg+".Req", pkg+".ByKey", "POST", "/a"), RPC("B", pkg+".Ev", pkg+".FlatEv", "POST", "/b"), RPC("C", pkg+".Emp", pkg+".Emp", "POST", "/c"))}
		})
	}
	for _, w := range []string{"google.protobuf.Empty", Timestamp, "google.protobuf.Struct", "google.protobuf.Any"} {
		w := w
		short := w[strings.LastIndex(w, ".")+1:]
		one("rpc-types-wkt/"+short, func(id, pkg string, f *File, r *Request) {
			f.Messages = append(f.Messages, M("Req", F("id", 1, "string")))
			f.Imports = append(f.Imports, wktPath(w))
			f.Services = []*Service{Svc("S", "/s", RPC("In", w, pkg+".Res", "POST", "/in"), RPC("Out", pkg+".Req", w, "DELETE", "/out/{id}"), RPC("Both", w, w, "PUT", "/both"), RPC("Get", w, w, "GET", "/get/{seconds}"))}
		})
	}
	// headers that name nothing
	one("headers-degenerate", func(id, pkg string, f *File, r *Request) {
		f.Messages = append(f.Messages, M("Req", F("id", 1, "string")))
		f.Services = []*Service{Svc("S", "/s", RPC("Call", pkg+".Req", pkg+".Res", "POST", "/c").WithHeaders(&Header{Name: "", Type: "string", Required: true}, &Header{Name: "X-1", Type: "no-such-type", Format: "no-such-format", Required: true},
			&Header{Name: "X Bad Name", Type: "integer"}, &Header{Name: "x-dup"}, &Header{Name: "X-Dup", Required: true})).WithHeaders(&Header{Name: "x-dup", Type: "array"}, &Header{Name: "9", Type: "number", Example: "\"", Required: true})}
	})
	return out
}

type c16Variant struct {
	plugin, param string
	mock          bool
}

var c16Variants = []c16Variant{
	{"go-http", "paths=source_relative", false}, {"go-http", "paths=source_relative,generate_mock=true", true},
	{"go-http", "paths=import", false}, {"go-client", "paths=source_relative", false}, {"go-client", "paths=import", false},
	{"ts-client", "", false}, {"ts-server", "", false},
	{"openapiv3", "", false}, {"openapiv3", "format=json", false}, {"openapiv3", "format=yaml", false}, {"openapiv3", "format=bogus", false},
}

func CheckC16(run *Run) {
	run.Proof = CheckProofs("C16")
	run.Prepare()
	nRandom := 6
	if run.Tier == "thorough" {
		nRandom = 120
	}
	reqs := stressRequests(rand.New(rand.NewSource(run.Seed+16)), nRandom)
	nStress := len(reqs)
	reqs = append(reqs, danglingRequests(run.Tier)...)
	nDangling := len(reqs)
	reqs = append(reqs, c16PresentEmptyRequests(run.Tier)...) // c16_empty.go: every annotation present with its zero value
	type res struct {
		guarded, mock bool
		detail        []string
		maxMs         int64
		maxRSS        int64
	}
	results := make([]*res, len(reqs))
	builts := make([]*Built, len(reqs))
	var wg sync.WaitGroup
	var ansMu sync.Mutex
	answers := map[string]map[string]int{} // "<plugin>[<param>]" -> answer class -> count
	sem := make(chan struct{}, 10)
	for i, r := range reqs {
		wg.Add(1)
		go func(i int, r *Request) {
			defer wg.Done()
			sem <- struct{}{}
			defer func() { <-sem }()
			out := &res{guarded: true, mock: true}
			results[i] = out
			b, err := BuildDescriptors(r)
			if err != nil {
				out.detail = append(out.detail, "descriptor build: "+err.Error())
				out.guarded = false
				return
			}
			builts[i] = b
			for _, v := range c16Variants {
				mem := 6144
				if v.mock {
					mem = 1024 // the known divergence dies quickly under a small address space
				}
				pr := RunPlugin(filepath.Join(run.BinDir, "protoc-gen-"+v.plugin), v.plugin, MakeCGR(b.All, ToGenerate(r), v.param), 10*time.Second, mem)
				answered := pr.Exit == "ok" || pr.Exit == "error-response"
				if pr.Exit == "crash" && pr.Error == "exit status 1" && !strings.Contains(pr.Stderr, "panic:") && !strings.Contains(pr.Stderr, "fatal error:") && !strings.Contains(pr.Stderr, "goroutine ") {
					answered = true // protogen's way of refusing a request: one diagnostic line on stderr, exit 1
				}
				cls := pr.Exit
				if answered && pr.Exit == "crash" {
					cls = "refused-by-protogen"
				}
				ansMu.Lock()
				k := v.plugin + "[" + v.param + "]"
				if answers[k] == nil {
					answers[k] = map[string]int{}
				}
				answers[k][cls]++
				ansMu.Unlock()
				if pr.WallMs > out.maxMs {
					out.maxMs = pr.WallMs
				}
				if pr.MaxRSSKB > out.maxRSS {
					out.maxRSS = pr.MaxRSSKB
				}
				if !answered {
					out.detail = append(out.detail, fmt.Sprintf("%s[%s]: %s %s %s", v.plugin, v.param, pr.Exit, firstLine(pr.Error), firstLine(pr.Stderr)))
					if v.mock {
						out.mock = false
					} else {
						out.guarded = false
					}
				}
			}
		}(i, r)
	}
	wg.Wait()
	var ccs []CoqCase
	var crs []*CaseResult
	for i, r := range reqs {
		if builts[i] == nil {
			run.Fatal("descriptor build failed for %s: %s", r.ID, strings.Join(results[i].detail, "; "))
		}
		g, roots, n := graphOf(r, builts[i])
		rs := make([]string, len(roots))
		for k, x := range roots {
			rs[k] = fmt.Sprintf("%d%%nat", x)
		}
		o := results[i]
		obs := map[string]any{"guarded_walk_terminates": o.guarded, "mock_walk_terminates": o.mock}
		fam, feats := "plugin-termination", []string{"stress"}
		input := map[string]any{"schema": r.ID, "messages": n, "variants": len(c16Variants), "max_wall_ms": o.maxMs, "max_rss_kb": o.maxRSS}
		if i >= nDangling {
			fam, feats = "present-empty-annotation", []string{"present-empty"}
			if len(r.Tags) > 2 {
				parts := strings.SplitN(r.Tags[2], "/", 2)
				feats = append(feats, "present-empty:"+parts[0])
				if len(parts) > 1 {
					feats = append(feats, "present-empty-on:"+parts[1])
				}
				input["present_empty"] = r.Tags[2]
			}
			input["request"] = r
		} else if i >= nStress {
			fam, feats = "dangling-reference", []string{"dangling"}
			if len(r.Tags) > 2 {
				feats = append(feats, "dangling:"+strings.SplitN(r.Tags[2], "/", 2)[0])
				input["dangling"] = r.Tags[2]
			}
			input["request"] = r
		}
		cr := &CaseResult{ID: r.ID, Family: fam, Input: input,
			Obs:   obs, OracleHolds: o.guarded && o.mock, OracleNote: strings.Join(o.detail, " | "), NonTrivial: true, Features: feats}
		crs = append(crs, cr)
		ccs = append(ccs, CoqCase{Term: fmt.Sprintf("(%s, [%s])", g, strings.Join(rs, "; ")), Obs: obs})
	}
	vs, err := CoqRun(run.WorkDir, "c16", "From Sebuf Require Import Text Json Traverse.\n", "", "(graph * list nat)", "predict_C16", ccs, 8)
	if err != nil {
		run.Fatal("model evaluation: %v", err)
	}
	for i, cr := range crs {
		cr.Apply(vs[i])
		if strings.Contains(cr.OracleNote, "unable to determine Go import path") {
			// the request is refused by protogen itself (no go_package): outside the graph model
			cr.Unmodelled = "request refused by protogen (no Go import path)"
			cr.Agree, cr.Diff, cr.Tags = false, "", nil
			if strings.Contains(cr.OracleNote, "openapiv3") && strings.Contains(cr.OracleNote, "panic:") {
				cr.Tags = []string{"z3:openapi-panics-on-request-error"}
			}
		}
		run.Results = append(run.Results, cr)
	}
	CheckC16More(run) // c16_more.go: degenerate configs, acyclic DAGs, fan-in
	run.Extra["plugin_runs"] = len(reqs) * len(c16Variants)
	run.Extra["answers_by_variant"] = answers
	run.Extra["bounds"] = "each plugin process: 10 s wall clock, 1 GiB address space"
	run.Finish()
}
