package lib

import "strings"

// HostileTextCatalogue: every place the TEXT of an annotation (not a proto identifier) is printed into
// emitted source — enum_value, oneof_value, discriminator, flatten_prefix, field examples, header
// names/descriptions/examples, base paths — fed with characters that need escaping in a Go or TS
// string literal, a YAML scalar or a comment.  Used where only the plugins' answers are compared
// (C14 parity and file sets, C15 determinism); whether such output builds is C13's subject.
// (texts that keep the emitted Go source parseable: a double quote, or a backslash followed by a
// character that is not a Go escape, makes protogen refuse the file — that is C12/C13's subject)
var hostileTexts = []string{`R&D\test`, "tick`s", `${x}`, `a'b`, `back\\slash`, `*/ end`, "é日本", `\u0041`, `%s %d %%`, " lead", "trail ", `new\nline`}

func HostileTextCatalogue() []*Request {
	var out []*Request
	q := func(id, t string) string { return id + ".v1." + t }
	{ // enum_value
		id := "htxenum"
		vals := []*EnumValue{{Name: "TEAM_UNSPECIFIED", Number: 0}}
		for i, t := range hostileTexts {
			vals = append(vals, &EnumValue{Name: "TEAM_V" + hostileIdent(i), Number: int32(i + 1), EnumValue: Str(t)})
		}
		r := featureReq(id, []*Enum{{Name: "Team", Values: vals}}, []*Message{M("Ticket", F("team", 1, "", EnumT(q(id, "Team"))), F("title", 2, "string"))}, "Ticket")
		r.Tags = append(r.Tags, "hostile-text", "enum")
		out = append(out, r)
	}
	{ // oneof_value + discriminator
		id := "htxoneof"
		ev := M("Event", F("eid", 1, "string")).WithOneofs(&Oneof{Name: "content", HasConfig: true, Discriminator: `kind\tof`})
		msgs := []*Message{M("TextP", F("body", 1, "string"))}
		for i, t := range hostileTexts {
			ev.Fields = append(ev.Fields, F("v"+hostileIdent(i), int32(i+2), "", Msg(q(id, "TextP")), InOneof("content"), OneofVal(t)))
		}
		r := featureReq(id, nil, append(msgs, ev), "Event")
		r.Tags = append(r.Tags, "hostile-text", "oneof")
		out = append(out, r)
	}
	{ // flatten_prefix
		id := "htxflat"
		p := M("Person", F("pid", 1, "string"))
		for i, t := range hostileTexts {
			p.Fields = append(p.Fields, F("a"+hostileIdent(i), int32(i+2), "", Msg(q(id, "Addr")), Flatten(true), FlattenPrefix(t)))
		}
		r := featureReq(id, nil, []*Message{M("Addr", F("street", 1, "string")), p}, "Person")
		r.Tags = append(r.Tags, "hostile-text", "flatten")
		out = append(out, r)
	}
	return out
}

// ---- C13: do the emitted Go packages build / vet and the TS modules load with such texts? -------------------
//
// printfTexts: texts with a percent sign.  They are harmless inside a Go string literal that is used as a
// VALUE (a map key, a struct field) and change the meaning of one that is used as a FORMAT (fmt.Errorf,
// fmt.Sprintf, log.Printf): `go vet`'s printf analyzer, which `go test` runs, rejects the package
// ("format %, has unknown verb", "reads arg #2, but call has 1 arg").  A unit enum ("%", "‰", "°C"), a
// discount label ("50%-off"), a URL-escaped path segment ("/a%20b") are ordinary annotation texts.
var printfTexts = []string{"%", "100% of scale", "%d", "%s", "%v items", "%%", "%!", "50%-off", "% d", "%q: %w", "‰", "°C", "a%20b", "%[2]d", "%*d"}

// quoteTexts: texts that cannot stand unescaped inside a Go interpreted string literal.  A generator that
// prints them raw produces unparsable source, which protogen refuses (an error answer: the definition is
// not accepted, C12's subject); one request per text and site, so that a refusal hides nothing else.
var quoteTexts = []string{`say "hi"`, `C:\dir`, "line\nbreak"}

func buildTexts() []string { return append(append([]string{}, hostileTexts...), printfTexts...) }

// hostileTextSite builds one request that puts every text of `texts` at one annotation site.
func hostileTextSite(site, id string, texts []string) *Request {
	q := func(t string) string { return id + ".v1." + t }
	var r *Request
	switch site {
	case "enum": // top-level enum, nested enum; used singular, repeated and as a map value
		top := []*EnumValue{{Name: "TEAM_UNSPECIFIED", Number: 0}}
		nested := []*EnumValue{{Name: "UNIT_UNSPECIFIED", Number: 0}}
		for i, t := range texts {
			top = append(top, &EnumValue{Name: "TEAM_V" + hostileIdent(i), Number: int32(i + 1), EnumValue: Str(t)})
			nested = append(nested, &EnumValue{Name: "UNIT_V" + hostileIdent(i), Number: int32(i + 1), EnumValue: Str(t)})
		}
		r = featureReq(id, []*Enum{{Name: "Team", Values: top}}, []*Message{
			M("Ticket", F("team", 1, "", EnumT(q("Team"))), F("title", 2, "string"), F("teams", 3, "", EnumT(q("Team")), Rep()), F("by", 4, "", EnumT(q("Team")), MapOf("string")),
				F("unit", 5, "", EnumT(q("Ticket.Unit")))).WithEnums(&Enum{Name: "Unit", Values: nested})}, "Ticket")
	case "enumnosvc": // a file without services: go-http writes the enum encoder for it, go-client does not
		vals := []*EnumValue{{Name: "UNIT_UNSPECIFIED", Number: 0}}
		for i, t := range texts {
			vals = append(vals, &EnumValue{Name: "UNIT_V" + hostileIdent(i), Number: int32(i + 1), EnumValue: Str(t)})
		}
		f := &File{Enums: []*Enum{{Name: "Unit", Values: vals}}, Messages: []*Message{M("Reading", F("unit", 1, "", EnumT(q("Unit"))), F("value", 2, "double"))}}
		r = OneFile(id, id+".v1", f)
		r.Tags = []string{"features"}
	case "oneofval": // oneof_value of a plain and of a flattened discriminated oneof
		ev := M("Event", F("eid", 1, "string")).WithOneofs(&Oneof{Name: "content", HasConfig: true, Discriminator: "kind"})
		fl := M("Flat", F("fid", 1, "string")).WithOneofs(&Oneof{Name: "body", HasConfig: true, Discriminator: "type", Flatten: true})
		msgs := []*Message{M("TextP", F("body_text", 1, "string"))}
		for i, t := range texts {
			ev.Fields = append(ev.Fields, F("v"+strings.ToLower(hostileIdent(i)), int32(i+2), "", Msg(q("TextP")), InOneof("content"), OneofVal(t)))
			fl.Fields = append(fl.Fields, F("w"+strings.ToLower(hostileIdent(i)), int32(i+2), "", Msg(q("TextP")), InOneof("body"), OneofVal(t)))
		}
		r = featureReq(id, nil, append(msgs, ev, fl), "Event", "Flat")
	case "disc": // discriminator: one message per text
		msgs := []*Message{M("TextP", F("body_text", 1, "string")), M("ImageP", F("url", 1, "string"))}
		var tops []string
		for i, t := range texts {
			n := "Ev" + hostileIdent(i)
			msgs = append(msgs, M(n, F("eid", 1, "string"), F("text", 2, "", Msg(q("TextP")), InOneof("content")), F("image", 3, "", Msg(q("ImageP")), InOneof("content"))).
				WithOneofs(&Oneof{Name: "content", HasConfig: true, Discriminator: t, Flatten: i%2 == 1}))
			tops = append(tops, n)
		}
		r = featureReq(id, nil, msgs, tops...)
	case "props": // texts the TS generators print as bare property names: discriminators (even index) and flatten prefixes (odd)
		msgs := []*Message{M("TextP", F("body_text", 1, "string")), M("ImageP", F("url", 1, "string")), M("Addr", F("street", 1, "string"), F("zip_code", 2, "string"))}
		var tops []string
		p := M("Person", F("pid", 1, "string"))
		for i, t := range texts {
			n := "Ev" + hostileIdent(i)
			msgs = append(msgs, M(n, F("eid", 1, "string"), F("text", 2, "", Msg(q("TextP")), InOneof("content")), F("image", 3, "", Msg(q("ImageP")), InOneof("content"))).
				WithOneofs(&Oneof{Name: "content", HasConfig: true, Discriminator: t, Flatten: i%2 == 1}))
			tops = append(tops, n)
			p.Fields = append(p.Fields, F("a"+strings.ToLower(hostileIdent(i)), int32(i+2), "", Msg(q("Addr")), Flatten(true), FlattenPrefix(t)))
		}
		r = featureReq(id, nil, append(msgs, p), append(tops, "Person")...)
	case "flatprefix":
		p := M("Person", F("pid", 1, "string"))
		for i, t := range texts {
			p.Fields = append(p.Fields, F("a"+strings.ToLower(hostileIdent(i)), int32(i+2), "", Msg(q("Addr")), Flatten(true), FlattenPrefix(t)))
		}
		r = featureReq(id, nil, []*Message{M("Addr", F("street", 1, "string")), p}, "Person")
	case "hdr": // header description, example and format (all three carry the text), at service and at method level
		mk := func(i int, t, lvl string) *Header {
			return &Header{Name: "X-" + lvl + "-" + hostileIdent(i), Type: "string", Required: i%2 == 0, Description: t, Example: t, Format: t}
		}
		var sh, mh []*Header
		for i, t := range texts {
			sh = append(sh, mk(i, t, "Svc"))
			mh = append(mh, mk(i, t, "Md"))
		}
		r = featureReq(id, nil, []*Message{M("Ping", F("msg", 1, "string")), M("GetReq", F("id", 1, "string"))}, "Ping")
		svc := r.Files[0].Services[0]
		svc.Headers = sh
		svc.Methods[0].Headers = mh
		svc.Methods = append(svc.Methods, RPC("GetPing", q("GetReq"), q("Ping"), "GET", "/ping/{id}").WithHeaders(mh...))
	case "route": // method paths (literal segments; with and without path variables) and query parameter names
		get := M("GetReq", F("id", 1, "string"))
		for i, t := range texts {
			get.Fields = append(get.Fields, F("q"+strings.ToLower(hostileIdent(i)), int32(i+2), []string{"string", "int32", "bool"}[i%3], Query(t, i%4 == 0)))
		}
		msgs := []*Message{M("Ping", F("msg", 1, "string")), get}
		svc := &Service{Name: "Echo", BasePath: "/" + id, HasConfig: true}
		for i, t := range texts {
			seg := strings.ReplaceAll(strings.TrimSpace(t), " ", "_")
			if i%2 == 0 {
				svc.Methods = append(svc.Methods, RPC("Post"+hostileIdent(i), q("Ping"), q("Ping"), "POST", "/p/"+seg))
			} else {
				svc.Methods = append(svc.Methods, RPC("Get"+hostileIdent(i), q("GetReq"), q("Ping"), "GET", "/g/"+seg+"/{id}"))
			}
		}
		svc.Methods = append(svc.Methods, RPC("DelIt", q("GetReq"), q("Ping"), "DELETE", "/del/{id}"), RPC("PostIt", q("GetReq"), q("Ping"), "POST", "/post"))
		f := &File{Messages: msgs, Services: []*Service{svc}}
		r = OneFile(id, id+".v1", f)
		r.Tags = []string{"features"}
	case "basepath": // one service per text
		msgs := []*Message{M("Ping", F("msg", 1, "string")), M("GetReq", F("id", 1, "string"))}
		f := &File{Messages: msgs}
		for i, t := range texts {
			seg := strings.ReplaceAll(strings.TrimSpace(t), " ", "_")
			f.Services = append(f.Services, &Service{Name: "Svc" + hostileIdent(i), BasePath: "/" + seg, HasConfig: true, Methods: []*Method{
				RPC("Echo"+hostileIdent(i), q("Ping"), q("Ping"), "POST", "/echo"), RPC("Get"+hostileIdent(i), q("GetReq"), q("Ping"), "GET", "/get/{id}")}})
		}
		r = OneFile(id, id+".v1", f)
		r.Tags = []string{"features"}
	case "hdrname": // header names: the Go client derives a helper function name from them, the TS client a property name
		var hs []*Header
		for _, t := range texts {
			hs = append(hs, &Header{Name: t, Type: "string"})
		}
		r = featureReq(id, nil, []*Message{M("Ping", F("msg", 1, "string"))}, "Ping")
		r.Files[0].Services[0].Headers = hs
		r.Files[0].Services[0].Methods[0].Headers = hs
	default:
		panic("unknown hostile text site " + site)
	}
	r.Tags = append(r.Tags, "build", "hostile-text", site)
	return r
}

var hostileTextSites = []string{"enum", "enumnosvc", "oneofval", "disc", "flatprefix", "hdr", "route", "basepath"}

// HostileTextBuildCatalogue (C13): per site one request with all texts that keep Go source parseable
// (hostileTexts + printfTexts), and per site x quoteText one request of its own.
func HostileTextBuildCatalogue() []*Request {
	var out []*Request
	for _, site := range hostileTextSites {
		texts := buildTexts()
		if site == "basepath" { // one service per text: a sample of the texts is enough here
			texts = []string{"%", "100% of scale", "%d", "a%20b", "50%-off", "tick`s", "a'b", "é日本", "${x}"}
		}
		if site == "route" || site == "basepath" { // a brace opens a path variable: such texts get a request of their own
			var plain []string
			k := 0
			for _, t := range texts {
				if strings.ContainsAny(t, "{}") {
					out = append(out, hostileTextSite(site, "htv"+site+string(rune('a'+k)), []string{t}))
					k++
				} else {
					plain = append(plain, t)
				}
			}
			texts = plain
		}
		if site == "disc" || site == "flatprefix" {
			// both TS generators print these two texts as BARE property names (Emit.v ts_prop_ok): the texts that are
			// identifier names (must load) and the others (known finding ts-property-name-not-identifier) go into
			// separate requests, and the shapes people actually write get one request each.  Non-ASCII SYMBOLS and
			// \u escapes are outside the model's approximation of an identifier name.
			var safe, breaking []string
			for _, t := range texts {
				switch {
				case t == "‰" || t == "°C" || strings.Contains(t, `\u`):
				case tsIdentText(t):
					safe = append(safe, t)
				default:
					breaking = append(breaking, t)
				}
			}
			if site == "disc" { // the identifier-like texts of both sites share one request
				out = append(out, hostileTextSite("props", "htsprops", append(safe, "$type", "_kind", "kind_of", "type2", "Ωmega", "home_", "$", "_", "h2", "été_")))
			}
			real := map[string]string{"disc": "@type", "flatprefix": "home-"}[site]
			out = append(out, hostileTextSite(site, "htr"+site, []string{real}))
			breaking = append(breaking, map[string][]string{"disc": {"event.type", "x-kind", "2nd"}, "flatprefix": {"addr.", "2nd_", "home-"}}[site]...)
			texts = breaking
		}
		out = append(out, hostileTextSite(site, "htb"+site, texts))
		for i, t := range quoteTexts {
			out = append(out, hostileTextSite(site, "htq"+site+string(rune('a'+i)), []string{t}))
		}
	}
	// header names (one request per name: a name whose helper identifier is not one is refused by the Go client)
	for i, t := range []string{"X-100%", "X-it's", "X-tick`s", "X-${x}", "X-a b", "X-Ünï", "%s"} {
		out = append(out, hostileTextSite("hdrname", "htn"+string(rune('a'+i)), []string{t}))
	}
	// field examples: printed into the mock file (generate_mock=true), string / int / bool / float selectors
	mock := MockHostileExamples()[0]
	mock.ID = "htbmockex"
	for _, f := range mock.Files {
		f.Path = strings.Replace(f.Path, "mexhostile/", "htbmockex/", 1)
		f.GoPackage = strings.ReplaceAll(f.GoPackage, "mexhostile", "htbmockex")
	}
	mock.Tags = []string{"build", "hostile-text", "examples", "mock"}
	out = append(out, mock)
	return out
}

// tsIdentText mirrors Emit.v ts_prop_ok: not empty, no leading digit, only [A-Za-z0-9_$] and bytes >= 128.
func tsIdentText(t string) bool {
	if t == "" || (t[0] >= '0' && t[0] <= '9') {
		return false
	}
	for i := 0; i < len(t); i++ {
		c := t[i]
		if !(c >= 128 || c == '_' || c == '$' || (c >= '0' && c <= '9') || (c >= 'a' && c <= 'z') || (c >= 'A' && c <= 'Z')) {
			return false
		}
	}
	return true
}
