package lib

// HostileTextCatalogue: every place the TEXT of an annotation (not a proto identifier) is printed into
// emitted source — enum_value, oneof_value, discriminator, flatten_prefix, field examples, header
// names/descriptions/examples, base paths — fed with characters that need escaping in a Go or TS
// string literal, a YAML scalar or a comment.  Used where only the plugins' answers are compared
// (C14 parity and file sets, C15 determinism); whether such output builds is C13's subject.
// (texts that keep the emitted Go source parseable: a double quote, or a backslash followed by a
// character that is not a Go escape, makes protogen refuse the file — that is C12/C13's subject)
var hostileTexts = []string{`R&D\test`, "tick`s", `${x}`, `a'b`, `back\\slash`, `*/ end`, "é日本", `\u0041`, `%s %d %%`, " lead", "trail ", `new\nline`}

func HostileTextCatalogue() []*Request {
	var out []*Request
	q := func(id, t string) string { return id + ".v1." + t }
	{ // enum_value
		id := "htxenum"
		vals := []*EnumValue{{Name: "TEAM_UNSPECIFIED", Number: 0}}
		for i, t := range hostileTexts {
			vals = append(vals, &EnumValue{Name: "TEAM_V" + hostileIdent(i), Number: int32(i + 1), EnumValue: Str(t)})
		}
		r := featureReq(id, []*Enum{{Name: "Team", Values: vals}}, []*Message{M("Ticket", F("team", 1, "", EnumT(q(id, "Team"))), F("title", 2, "string"))}, "Ticket")
		r.Tags = append(r.Tags, "hostile-text", "enum")
		out = append(out, r)
	}
	{ // oneof_value + discriminator
		id := "htxoneof"
		ev := M("Event", F("eid", 1, "string")).WithOneofs(&Oneof{Name: "content", HasConfig: true, Discriminator: `kind\tof`})
		msgs := []*Message{M("TextP", F("body", 1, "string"))}
		for i, t := range hostileTexts {
			ev.Fields = append(ev.Fields, F("v"+hostileIdent(i), int32(i+2), "", Msg(q(id, "TextP")), InOneof("content"), OneofVal(t)))
		}
		r := featureReq(id, nil, append(msgs, ev), "Event")
		r.Tags = append(r.Tags, "hostile-text", "oneof")
		out = append(out, r)
	}
	{ // flatten_prefix
		id := "htxflat"
		p := M("Person", F("pid", 1, "string"))
		for i, t := range hostileTexts {
			p.Fields = append(p.Fields, F("a"+hostileIdent(i), int32(i+2), "", Msg(q(id, "Addr")), Flatten(true), FlattenPrefix(t)))
		}
		r := featureReq(id, nil, []*Message{M("Addr", F("street", 1, "string")), p}, "Person")
		r.Tags = append(r.Tags, "hostile-text", "flatten")
		out = append(out, r)
	}
	return out
}
