package lib

import (
	"encoding/hex"
	"encoding/json"
	"fmt"
	"math/rand"

	"google.golang.org/protobuf/types/dynamicpb"
)

// C05 — the JSON the Go server sends and accepts follows the documented mapping at any depth.
//
// Three-way comparison per case:
//   implementation vs Codec (Impl model)  = correspondence (CoqRun, agree flag)
//   implementation vs Mapping (Spec model) = the property oracle; by the property's own wording the
//                                            oracle is the comparison with the independent executable
//                                            model of the mapping, evaluated in Coq (phase A)
//   Codec vs Mapping                       = the theorems of props/C05.v and the defect tags
//
// Families:
//   response  handler returns m; HTTP body (application/json) compared with Mapping.to_json m
//   request   body = Mapping.to_json m (text); handler-visible request compared with m (up to the
//             documented losses)
//   directed  bodies outside the mapping that the server must not read as values

type c05Case struct {
	req    *Request
	g      *GenOutput
	svc    string
	method string
	path   string
	msg    string
	val    *dynamicpb.Message
	label  string
	mapRes map[string]any // {"ok": J} | {"err":true} | {"unm": why}
}

// MappingJSON evaluates Mapping.to_json in Coq for (schema, message, value) triples.
func MappingJSON(run *Run, name, defs string, terms []string) []map[string]any {
	raws, err := CoqEval(run.WorkDir, name, codecImports+defs, "list c04_case", "map_case", terms, 16)
	if err != nil {
		run.Fatal("mapping evaluation: %v", err)
	}
	out := make([]map[string]any, len(raws))
	for i, raw := range raws {
		v, err := DecodeModelJSON(raw)
		if err != nil {
			run.Fatal("mapping evaluation: %v", err)
		}
		m, ok := v.(map[string]any)
		if !ok {
			run.Fatal("mapping evaluation: bad result %s", string(raw))
		}
		out[i] = m
	}
	return out
}

func rawPost(id, pkg, svc, target string, body []byte, resp *dynamicpb.Message) map[string]any {
	return rawPostCT(id, pkg, svc, target, body, resp, "application/json")
}

// c05ContentTypes: request Content-Type values that are neither binary protobuf nor exactly
// "application/json"; the emitted server treats every one of them as JSON (generator.go
// bindDataBasedOnContentType / marshalResponse: "Default to JSON for unrecognized content types"),
// so the response must have the same mapped form.  "" = no Content-Type header.
var c05ContentTypes = []string{"", "application/json; charset=utf-8", "text/plain", "application/vnd.api+json", "application/x-www-form-urlencoded", "APPLICATION/JSON"}

func rawPostCT(id, pkg, svc, target string, body []byte, resp *dynamicpb.Message, ct string) map[string]any {
	hdrs := [][2]string{}
	if ct != "" {
		hdrs = append(hdrs, [2]string{"Content-Type", ct})
	}
	sc := map[string]any{"id": id, "kind": "raw", "pkg": pkg, "service": svc, "verb": "POST", "target": target,
		"headers": hdrs, "script": map[string]any{}}
	if body != nil {
		sc["body"] = hex.EncodeToString(body)
	}
	if resp != nil {
		sc["script"] = map[string]any{"resp": WireHex(resp)}
	}
	return sc
}

type directedBody struct {
	schema, msg, body, what string
}

func CheckC05(run *Run) {
	run.Proof = CheckProofs("C05")
	run.Prepare()
	reqs := CodecCatalogue()
	rng := rand.New(rand.NewSource(run.Seed + 505))
	nRandom := 3
	if run.Tier == "thorough" {
		nRandom = 60
	}
	s := NewSession(run, reqs)
	s.BuildRuntime(false)
	defs, defIdx := schemaDefs(s, reqs)
	vg := &ValueGen{Rng: rng}

	var cases []*c05Case
	for i, r := range reqs {
		if !s.InRunner[r.ID] {
			run.Notes = append(run.Notes, fmt.Sprintf("%s: emitted package does not build (C13's subject); not driven", r.ID))
			continue
		}
		g := s.Gens[i]
		for _, f := range r.Files {
			for _, svc := range f.Services {
				for _, md := range svc.Methods {
					if md.In != md.Out || md.Verb != "POST" || len(svc.Headers) > 0 || len(md.Headers) > 0 {
						continue // bare POST echo routes only: routes demanding headers are C09's subject
					}
					desc := g.Built.MessageDesc(md.In)
					if desc == nil {
						continue
					}
					vals, labels := codecValues(vg, desc, nRandom, r)
					seen := map[string]bool{}
					for k, v := range vals {
						w := WireHex(v)
						if seen[w] {
							continue
						}
						seen[w] = true
						cases = append(cases, &c05Case{req: r, g: g, svc: svc.Name, method: md.Name, path: svc.BasePath + md.Path, msg: md.In, val: v, label: labels[k]})
					}
				}
			}
		}
	}

	// ---- phase A: the contract form of every value
	terms := make([]string, len(cases))
	for i, c := range cases {
		_, term := MsgCanon(c.val)
		ft := NewFloatTabs()
		ft.AddMessage(c.val)
		p, st := ft.Coq()
		terms[i] = fmt.Sprintf("(sc_%d, %s, %s, %s, %s)", defIdx[c.req.ID], CoqStr(c.msg), term, p, st)
	}
	maps := MappingJSON(run, "c05map", defs, terms)
	for i, c := range cases {
		c.mapRes = maps[i]
	}

	// ---- implementation: response bodies and handler-visible requests
	var scen []any
	type slot struct{ resp, req int }
	slots := make([]slot, len(cases))
	for i, c := range cases {
		slots[i] = slot{resp: len(scen), req: -1}
		scen = append(scen, rawPost(fmt.Sprintf("r%d", i), c.req.ID, c.svc, c.path, nil, c.val))
		if j, ok := c.mapRes["ok"]; ok {
			slots[i].req = len(scen)
			scen = append(scen, rawPost(fmt.Sprintf("q%d", i), c.req.ID, c.svc, c.path, RenderCanonJSON(j), nil))
		}
	}
	type ctSlot struct {
		ci, scen int
		ct       string
	}
	var ctSlots []ctSlot
	for i, c := range cases {
		if c.label != "full" {
			continue
		}
		for k, ct := range c05ContentTypes {
			ctSlots = append(ctSlots, ctSlot{ci: i, scen: len(scen), ct: ct})
			scen = append(scen, rawPostCT(fmt.Sprintf("c%d.%d", i, k), c.req.ID, c.svc, c.path, nil, c.val, ct))
		}
	}
	directed := []directedBody{
		{"ftbytes", "Blob", `{"h":"abc"}`, "HEX field given base64 text of odd length"},
		{"ftbytes", "Blob", `{"h":"q83v"}`, "HEX field given text that is not hexadecimal"},
		{"ftbytes", "Blob", `{"h":"cafe"}`, "HEX field given valid hex (also valid base64)"},
		{"ftbytes", "Blob", `{"u":"+/8="}`, "BASE64URL field given std-alphabet text"},
		{"ftbytes", "Blob", `{"raw":"aGVsbG8="}`, "BASE64_RAW field given padded text"},
		{"ftbytes", "Blob", `{"ur":"__8="}`, "BASE64URL_RAW field given padded text"},
		{"ftbytes", "Blob", `{"h":"zz"}`, "HEX field given text that is neither hex nor base64 of full length"},
		{"ftbytes", "Blob", `{"h":"!!"}`, "HEX field given garbage"},
	}
	dirStart := len(scen)
	var dirKept []directedBody
	for k, d := range directed {
		if !s.InRunner[d.schema] {
			continue
		}
		dirKept = append(dirKept, d)
		scen = append(scen, rawPost(fmt.Sprintf("d%d", k), d.schema, "Echo", "/"+d.schema+"/echo/"+d.msg, []byte(d.body), nil))
	}
	raw, err := RunScenarios(s.Runner, scen, 8)
	if err != nil {
		run.Fatal("runner: %v", err)
	}
	obsOf := func(k int) *RunnerObs {
		var o RunnerObs
		if err := json.Unmarshal(raw[k], &o); err != nil {
			run.Fatal("bad observation: %v", err)
		}
		if o.Error != "" {
			run.Fatal("runner error on scenario %d: %s", k, o.Error)
		}
		return &o
	}

	var respCases, reqCases []CoqCase
	var respRes, reqRes []*CaseResult
	for i, c := range cases {
		canon, term := MsgCanon(c.val)
		feats := append(msgFeatures(c.req, c.msg), "ctx:"+lastSeg(c.msg))
		// ---------- response
		{
			o := obsOf(slots[i].resp)
			ft := NewFloatTabs()
			ft.AddMessage(c.val)
			obs := map[string]any{}
			var body []byte
			var jsrv any
			encoded := false
			switch {
			case o.Panic != "" || o.Timeout:
				obs["resp"] = map[string]any{"panic": true}
			case o.Status == 200:
				body, _ = hex.DecodeString(o.RespBodyHex)
				j, err := CanonJSONText(body)
				if err != nil {
					obs["resp"] = map[string]any{"not_json": true}
					break
				}
				jsrv, encoded = j, true
				ft.AddJSONText(body)
				obs["resp"] = okObj(j)
			default:
				obs["resp"] = errObj()
			}
			cr := &CaseResult{ID: fmt.Sprintf("%s/%s#%d:%s", c.req.ID, c.msg, i, c.label), Family: "response",
				Input: map[string]any{"schema": c.req.ID, "message": c.msg, "value": canon, "mapping": c.mapRes, "body": string(body)},
				Obs:   obs, NonTrivial: c.label != "default", Features: feats, OracleHolds: true}
			if jm, ok := c.mapRes["ok"]; ok {
				if !encoded {
					cr.OracleHolds, cr.OracleNote = false, "the server cannot encode a value the mapping defines"
				} else if d := Diff(Canon(jsrv), Canon(jm)); d != "" {
					cr.OracleHolds, cr.OracleNote = false, "response body differs from the documented mapping at "+d
				}
			} else if _, isErr := c.mapRes["err"]; isErr {
				if encoded {
					cr.OracleHolds, cr.OracleNote = false, "the mapping rejects the value but the server encodes it"
				}
			}
			p, st := ft.Coq()
			respRes = append(respRes, cr)
			respCases = append(respCases, CoqCase{Term: fmt.Sprintf("(sc_%d, %s, %s, %s, %s)", defIdx[c.req.ID], CoqStr(c.msg), term, p, st), Obs: obs})
		}
		// ---------- request
		if slots[i].req >= 0 {
			o := obsOf(slots[i].req)
			jm := c.mapRes["ok"]
			body := RenderCanonJSON(jm)
			ft := NewFloatTabs()
			ft.AddMessage(c.val)
			ft.AddJSONText(body)
			obs := map[string]any{}
			holds, note := true, ""
			switch {
			case o.Panic != "" || o.Timeout:
				obs["saw"] = map[string]any{"panic": true}
				holds, note = false, "panic or timeout"
			case len(o.HandlerCalls) == 1:
				m, err := c.g.Built.FromWireHex(c.msg, o.HandlerCalls[0].Req)
				if err != nil {
					run.Fatal("undecodable handler request: %v", err)
				}
				mc, _ := MsgCanon(m)
				obs["saw"] = okObj(mc)
				holds, note = EqualUpToLosses(c.req, c.val, m)
				if !holds {
					note = "handler saw a different message for the contract-form body: " + note
				}
			default:
				obs["saw"] = errObj()
				holds, note = false, fmt.Sprintf("the server rejects the contract-form body (status %d)", o.Status)
			}
			cr := &CaseResult{ID: fmt.Sprintf("%s/%s#%d:%s", c.req.ID, c.msg, i, c.label), Family: "request",
				Input: map[string]any{"schema": c.req.ID, "message": c.msg, "value": canon, "body": string(body)},
				Obs:   obs, NonTrivial: c.label != "default", Features: feats, OracleHolds: holds, OracleNote: note}
			p, st := ft.Coq()
			reqRes = append(reqRes, cr)
			reqCases = append(reqCases, CoqCase{Term: fmt.Sprintf("(sc_%d, %s, %s, %s, %s, %s)", defIdx[c.req.ID], CoqStr(c.msg), term, CoqJSON(Canon(jm)), p, st), Obs: obs})
		}
	}
	// ---------- the same response under other request content types
	for _, cs := range ctSlots {
		c := cases[cs.ci]
		canon, term := MsgCanon(c.val)
		o := obsOf(cs.scen)
		ft := NewFloatTabs()
		ft.AddMessage(c.val)
		obs := map[string]any{}
		var body []byte
		var jsrv any
		encoded := false
		switch {
		case o.Panic != "" || o.Timeout:
			obs["resp"] = map[string]any{"panic": true}
		case o.Status == 200:
			body, _ = hex.DecodeString(o.RespBodyHex)
			j, err := CanonJSONText(body)
			if err != nil {
				obs["resp"] = map[string]any{"not_json": true}
				break
			}
			jsrv, encoded = j, true
			ft.AddJSONText(body)
			obs["resp"] = okObj(j)
		default:
			obs["resp"] = errObj()
		}
		cr := &CaseResult{ID: fmt.Sprintf("%s/%s#%d:%s:ct=%q", c.req.ID, c.msg, cs.ci, c.label, cs.ct), Family: "response-content-type",
			Input: map[string]any{"schema": c.req.ID, "message": c.msg, "value": canon, "mapping": c.mapRes, "body": string(body), "request_content_type": cs.ct},
			Obs:   obs, NonTrivial: true, Features: append(msgFeatures(c.req, c.msg), "ct:"+cs.ct), OracleHolds: true}
		if jm, ok := c.mapRes["ok"]; ok {
			if !encoded {
				cr.OracleHolds, cr.OracleNote = false, "the server cannot encode a value the mapping defines"
			} else if d := Diff(Canon(jsrv), Canon(jm)); d != "" {
				cr.OracleHolds, cr.OracleNote = false, "response body differs from the documented mapping at "+d
			}
		} else if _, isErr := c.mapRes["err"]; isErr && encoded {
			cr.OracleHolds, cr.OracleNote = false, "the mapping rejects the value but the server encodes it"
		}
		p, st := ft.Coq()
		respRes = append(respRes, cr)
		respCases = append(respCases, CoqCase{Term: fmt.Sprintf("(sc_%d, %s, %s, %s, %s)", defIdx[c.req.ID], CoqStr(c.msg), term, p, st), Obs: obs})
	}
	vr, err := CoqRun(run.WorkDir, "c05resp", codecImports, defs, "c04_case", "predict_C05_resp", respCases, 16)
	if err != nil {
		run.Fatal("model evaluation: %v", err)
	}
	for i, cr := range respRes {
		cr.Apply(vr[i])
		run.Results = append(run.Results, cr)
	}
	vq, err := CoqRun(run.WorkDir, "c05req", codecImports, defs, "c05_req_case", "predict_C05_req", reqCases, 16)
	if err != nil {
		run.Fatal("model evaluation: %v", err)
	}
	for i, cr := range reqRes {
		cr.Apply(vq[i])
		run.Results = append(run.Results, cr)
	}

	// ---------- directed bodies outside the mapping
	var dirCases []CoqCase
	var dirRes []*CaseResult
	for k, d := range dirKept {
		o := obsOf(dirStart + k)
		full := d.schema + ".v1." + d.msg
		g := s.ByID[d.schema]
		ft := NewFloatTabs()
		ft.AddJSONText([]byte(d.body))
		obs := map[string]any{}
		holds, note := true, ""
		j, _ := CanonJSONText([]byte(d.body))
		switch {
		case len(o.HandlerCalls) == 1:
			m, err := g.Built.FromWireHex(full, o.HandlerCalls[0].Req)
			if err != nil {
				run.Fatal("undecodable handler request: %v", err)
			}
			mc, _ := MsgCanon(m)
			obs["saw"] = okObj(mc)
			// oracle (implementation + the documented encodings only): the text must decode in the annotated encoding
			spec, _ := g.Req.FindMessage(full)
			if bad := undecodableInAnnotatedEncoding(spec, j); bad != "" {
				holds, note = false, "field "+bad+": text invalid in its bytes_encoding was accepted as a value"
			}
		default:
			obs["saw"] = errObj()
		}
		cr := &CaseResult{ID: fmt.Sprintf("%s/%s#directed%d", d.schema, d.msg, k), Family: "directed-request",
			Input: map[string]any{"schema": d.schema, "message": full, "body": d.body, "what": d.what},
			Obs:   obs, NonTrivial: true, Features: []string{"directed"}, OracleHolds: holds, OracleNote: note}
		p, st := ft.Coq()
		dirRes = append(dirRes, cr)
		dirCases = append(dirCases, CoqCase{Term: fmt.Sprintf("(sc_%d, %s, %s, %s, %s)", defIdx[d.schema], CoqStr(full), CoqJSON(Canon(j)), p, st), Obs: obs})
	}
	vd, err := CoqRun(run.WorkDir, "c05dir", codecImports, defs, "c05_raw_case", "predict_C05_raw", dirCases, 4)
	if err != nil {
		run.Fatal("model evaluation: %v", err)
	}
	for i, cr := range dirRes {
		cr.Apply(vd[i])
		run.Results = append(run.Results, cr)
	}

	run.Extra["schemas"] = len(reqs)
	run.Extra["three_way"] = "implementation vs Codec.v = correspondence (agree); implementation vs Mapping.v = oracle; Codec.v vs Mapping.v = props/C05.v + defect tags"
	debugDump(run)
	run.Finish()
}

func lastSeg(full string) string {
	for i := len(full) - 1; i >= 0; i-- {
		if full[i] == '.' {
			return full[i+1:]
		}
	}
	return full
}

// undecodableInAnnotatedEncoding returns the name of a bytes field whose JSON text is not valid in
// the encoding its annotation documents ("" when every annotated bytes field decodes).
func undecodableInAnnotatedEncoding(spec *Message, body any) string {
	obj, ok := body.(map[string]any)
	if !ok || spec == nil {
		return ""
	}
	for _, f := range spec.Fields {
		if f.Kind != "bytes" || f.BytesEncoding == "" {
			continue
		}
		v, ok := obj[JSONName(f.Name)].(string)
		if !ok {
			continue
		}
		if !validInEncoding(f.BytesEncoding, v) {
			return f.Name
		}
	}
	return ""
}
