package lib

import (
	"encoding/hex"
	"encoding/json"
	"fmt"
	"math/rand"
	"sort"
	"strings"

	"google.golang.org/protobuf/reflect/protoreflect"
	"google.golang.org/protobuf/types/dynamicpb"
)

// C04 — generated Go JSON codecs round-trip every message value.
//
// Families:
//   roundtrip     m -> MarshalJSON-or-protojson -> JSON J -> UnmarshalJSON-or-protojson -> m'
//                 observation {custom, json, back}; oracle: m' equals m up to the documented losses
//                 (dynamicpb, implementation outputs only)
//   canonical-in  Mapping.to_json(m) (the contract form another party would send, evaluated in Coq)
//                 -> UnmarshalJSON-or-protojson -> m'; same oracle
//   plugin-parity same-named codec files of protoc-gen-go-http and protoc-gen-go-client are identical
//                 apart from the header line (direct check, no model)

type codecCase struct {
	req   *Request
	g     *GenOutput
	msg   string
	val   *dynamicpb.Message
	label string
	// round 1
	custom  bool
	jsonTxt []byte
	jsonErr bool
	// round 2
	back    *dynamicpb.Message
	backErr bool
	// canonical-in
	mapJSON    any
	mapTxt     []byte
	mapUnm     string
	mapErr     bool
	canBack    *dynamicpb.Message
	canBackErr bool
}

// codecValues: default, fully populated, every single field alone, and random values.
func codecValues(vg *ValueGen, md protoreflect.MessageDescriptor, nRandom int, r *Request) ([]*dynamicpb.Message, []string) {
	var out []*dynamicpb.Message
	var labels []string
	out = append(out, dynamicpb.NewMessage(md))
	labels = append(labels, "default")
	out = append(out, vg.Random(md, 1.0))
	labels = append(labels, "full")
	fds := md.Fields()
	// directed: every enum position (singular, list element, map value; in the message itself and in
	// its message-typed children, two levels down) holds a number the enum does not define
	{
		u := vg.Random(md, 1.0)
		if n := setUnknownEnums(u, 0); n > 0 {
			out = append(out, u)
			labels = append(labels, "undefined-enum-numbers")
		}
		// and the same on an otherwise empty message (no other field can mask the outcome)
		e := dynamicpb.NewMessage(md)
		if n := setUnknownEnums(e, 0); n > 0 {
			out = append(out, e)
			labels = append(labels, "undefined-enum-numbers-only")
		}
	}
	for i := 0; i < fds.Len(); i++ {
		fd := fds.Get(i)
		full := vg.Random(md, 1.0)
		one := dynamicpb.NewMessage(md)
		if full.Has(fd) {
			one.Set(fd, full.Get(fd))
		} else if fd.Kind() == protoreflect.MessageKind && !fd.IsList() && !fd.IsMap() {
			one.Mutable(fd) // present but empty
		} else {
			continue
		}
		out = append(out, one)
		labels = append(labels, "only:"+string(fd.Name()))
		if fd.Kind() == protoreflect.MessageKind && !fd.IsList() && !fd.IsMap() {
			e := dynamicpb.NewMessage(md)
			e.Mutable(fd)
			out = append(out, e)
			labels = append(labels, "empty:"+string(fd.Name()))
		}
	}
	// directed: the value shapes on which encoding/json's reflection parts from protojson (empty optional bytes,
	// bool-keyed maps, non-finite floats inside lists / maps) in every singular message-typed child
	{
		gv, gl := ReflectGapValues(md)
		out = append(out, gv...)
		labels = append(labels, gl...)
	}
	for k := 0; k < nRandom; k++ {
		out = append(out, vg.Random(md, 0.6))
		labels = append(labels, fmt.Sprintf("random#%d", k))
	}
	// directed boundary sweep: every pool value in every scalar position of the message (children one
	// level down in the thorough tier)
	// (context wrappers of the catalogue — In*, TList, Other, Leaf — only carry the construct under test
	// as a child; the construct itself is swept where it is the top-level message)
	// (the nested-declaration packages repeat the feature packages' codecs at other declaration sites)
	if n := string(md.Name()); nRandom > 10 || !(strings.HasPrefix(n, "In") || n == "TList" || n == "Other" || n == "Leaf" || n == "Holder" || hasTag(r, "nested-declarations")) {
		sv, sl := SweepValues(md, nRandom > 10)
		out = append(out, sv...)
		labels = append(labels, sl...)
	}
	return out, labels
}

func buildCodecCases(run *Run, s *Session, reqs []*Request, rng *rand.Rand, nRandom int) []*codecCase {
	vg := &ValueGen{Rng: rng}
	var cases []*codecCase
	for i, r := range reqs {
		if !s.InRunner[r.ID] {
			run.Notes = append(run.Notes, fmt.Sprintf("%s: emitted package does not build (C13's subject); its codecs are not driven", r.ID))
			continue
		}
		g := s.Gens[i]
		for _, full := range allMessages(r) {
			md := g.Built.MessageDesc(full)
			if md == nil {
				continue
			}
			vals, labels := codecValues(vg, md, nRandom, r)
			seen := map[string]bool{}
			for k, v := range vals {
				w := WireHex(v)
				if seen[w] {
					continue
				}
				seen[w] = true
				cases = append(cases, &codecCase{req: r, g: g, msg: full, val: v, label: labels[k]})
			}
		}
	}
	return cases
}

// runCodecRounds: marshal every value, then unmarshal what came out.
func runCodecRounds(run *Run, s *Session, cases []*codecCase) {
	scen := make([]any, len(cases))
	for i, c := range cases {
		scen[i] = codecMarshalScenario(fmt.Sprint(i), c.req.ID, c.msg, c.val)
	}
	raw, err := RunScenarios(s.Runner, scen, 8)
	if err != nil {
		run.Fatal("runner: %v", err)
	}
	var scen2 []any
	var idx []int
	for i, c := range cases {
		var o RunnerObs
		if err := json.Unmarshal(raw[i], &o); err != nil {
			run.Fatal("bad observation: %v", err)
		}
		if o.Error != "" || o.Panic != "" || o.Timeout {
			run.Fatal("runner problem on codec case %d (%s %s): %s %s", i, c.req.ID, c.msg, o.Error, firstLine(o.Panic))
		}
		c.custom = o.Custom
		if o.OutErr != "" {
			c.jsonErr = true
			continue
		}
		c.jsonTxt, _ = hex.DecodeString(o.OutHex)
		scen2 = append(scen2, codecUnmarshalScenario(fmt.Sprint(i), c.req.ID, c.msg, c.jsonTxt))
		idx = append(idx, i)
	}
	raw2, err := RunScenarios(s.Runner, scen2, 8)
	if err != nil {
		run.Fatal("runner: %v", err)
	}
	for k, i := range idx {
		c := cases[i]
		var o RunnerObs
		if err := json.Unmarshal(raw2[k], &o); err != nil {
			run.Fatal("bad observation: %v", err)
		}
		if o.Error != "" || o.Panic != "" || o.Timeout {
			run.Fatal("runner problem on codec case %d (%s %s): %s %s", i, c.req.ID, c.msg, o.Error, firstLine(o.Panic))
		}
		if o.OutErr != "" {
			c.backErr = true
			continue
		}
		m, err := c.g.Built.FromWireHex(c.msg, o.OutHex)
		if err != nil {
			run.Fatal("undecodable wire from runner: %v", err)
		}
		c.back = m
	}
}

func schemaDefs(s *Session, reqs []*Request) (string, map[string]int) {
	var defs strings.Builder
	idx := map[string]int{}
	for i, r := range reqs {
		if s.InRunner[r.ID] {
			idx[r.ID] = i
			fmt.Fprintf(&defs, "Definition sc_%d : schema := %s.\n", i, CoqSchema(r))
		}
	}
	return defs.String(), idx
}

const codecImports = "From Sebuf Require Import Text Json Schema Value CodecText Ext ProtoJson Mapping Codec CodecCases.\n"

// pluginParity: the go-client copies of the codec files must equal the go-http ones (modulo header).
func pluginParity(run *Run, s *Session, reqs []*Request) {
	stripHeader := func(src string) string {
		lines := strings.Split(src, "\n")
		var out []string
		for _, l := range lines {
			if strings.HasPrefix(l, "// Code generated by") || strings.HasPrefix(l, "// source:") {
				continue
			}
			out = append(out, l)
		}
		return strings.Join(out, "\n")
	}
	codecSuffixes := []string{"_encoding.pb.go", "_enum_encoding.pb.go", "_nullable.pb.go", "_empty_behavior.pb.go", "_timestamp_format.pb.go",
		"_bytes_encoding.pb.go", "_flatten.pb.go", "_oneof_discriminator.pb.go", "_unwrap.pb.go"}
	for i, r := range reqs {
		g := s.Gens[i]
		h, c := g.Results["go-http"], g.Results["go-client"]
		if h == nil || c == nil || h.Exit != "ok" || c.Exit != "ok" {
			continue
		}
		hasSvc := false
		for _, f := range r.Files {
			if f.Generate && len(f.Services) > 0 {
				hasSvc = true
			}
		}
		var names []string
		for n := range h.Files {
			for _, suf := range codecSuffixes {
				if strings.HasSuffix(n, suf) {
					names = append(names, n)
				}
			}
		}
		sort.Strings(names)
		for _, n := range names {
			cr := &CaseResult{ID: r.ID + "/" + n, Family: "plugin-parity", Input: map[string]any{"schema": r.ID, "file": n},
				NonTrivial: true, Agree: true, OracleHolds: true, Features: []string{"parity"}}
			csrc, ok := c.Files[n]
			switch {
			case !ok:
				// known, reported by C14: the client emits no unwrap file and nothing for service-less files
				cr.Obs = map[string]any{"client_has_file": false}
				cr.Unmodelled = "go-client does not emit this file (C14's subject)"
				_ = hasSvc
			case stripHeader(csrc) != stripHeader(h.Files[n]):
				cr.Obs = map[string]any{"identical": false}
				cr.OracleHolds = false
				cr.OracleNote = "go-http and go-client emit different codec bodies for the same file"
			default:
				cr.Obs = map[string]any{"identical": true}
			}
			run.Results = append(run.Results, cr)
		}
	}
}

func CheckC04(run *Run) {
	run.Proof = CheckProofs("C04")
	run.Prepare()
	reqs := CodecCatalogue()
	rng := rand.New(rand.NewSource(run.Seed + 404))
	nRandom := 3
	if run.Tier == "thorough" {
		nRandom = 60
	}
	// seeded random schemas: every kind and cardinality, nesting, maps, oneofs, one codec feature per message
	nSchemas := 3
	if run.Tier == "thorough" {
		nSchemas = 40
	}
	for _, r := range RandomSchemas(rand.New(rand.NewSource(run.Seed+4040)), nSchemas, true) {
		reqs = append(reqs, CloneRenamed(r, "c4"+r.ID))
	}
	s := NewSession(run, reqs)
	s.BuildRuntime(false)
	pluginParity(run, s, reqs)
	cases := buildCodecCases(run, s, reqs, rng, nRandom)
	runCodecRounds(run, s, cases)
	defs, defIdx := schemaDefs(s, reqs)

	// ---- roundtrip family
	var ccs []CoqCase
	var results []*CaseResult
	caseTerm := func(c *codecCase, extra ...[]byte) (string, map[string]any) {
		canon, term := MsgCanon(c.val)
		ft := NewFloatTabs()
		ft.AddMessage(c.val)
		if c.jsonTxt != nil {
			ft.AddJSONText(c.jsonTxt)
		}
		for _, e := range extra {
			ft.AddJSONText(e)
		}
		p, st := ft.Coq()
		return fmt.Sprintf("(sc_%d, %s, %s, %s, %s)", defIdx[c.req.ID], CoqStr(c.msg), term, p, st), canon
	}
	for i, c := range cases {
		term, canon := caseTerm(c)
		obs := map[string]any{"custom": c.custom}
		holds, note := true, ""
		switch {
		case c.jsonErr:
			obs["json"] = errObj()
			obs["back"] = "skipped"
			holds, note = false, "encoding a valid message fails"
		default:
			j, err := CanonJSONText(c.jsonTxt)
			if err != nil {
				// the emitted MarshalJSON returned text that is not JSON at all
				obs["json"] = map[string]any{"not_json": true}
				obs["back"] = "skipped"
				holds, note = false, fmt.Sprintf("the codec's output is not JSON (%v)", err)
				break
			}
			obs["json"] = okObj(j)
			if c.backErr {
				obs["back"] = errObj()
				holds, note = false, "the codec cannot decode its own output"
			} else {
				bc, _ := MsgCanon(c.back)
				obs["back"] = okObj(bc)
				holds, note = EqualUpToLosses(c.req, c.val, c.back)
			}
		}
		cr := &CaseResult{ID: fmt.Sprintf("%s/%s#%d:%s", c.req.ID, c.msg, i, c.label), Family: "roundtrip",
			Input:  map[string]any{"schema": c.req.ID, "message": c.msg, "value": canon, "json_text": string(c.jsonTxt)},
			Obs:    obs, OracleHolds: holds, OracleNote: note, NonTrivial: c.label != "default", Features: msgFeatures(c.req, c.msg)}
		results = append(results, cr)
		ccs = append(ccs, CoqCase{Term: term, Obs: obs})
	}
	vs, err := CoqRun(run.WorkDir, "c04", codecImports, defs, "c04_case", "predict_C04", ccs, 16)
	if err != nil {
		run.Fatal("model evaluation: %v", err)
	}
	for i, cr := range results {
		cr.Apply(vs[i])
		run.Results = append(run.Results, cr)
	}

	// ---- canonical-in family: the contract form (Mapping.to_json, evaluated in Coq) fed to the decoder
	terms := make([]string, len(cases))
	for i, c := range cases {
		_, term := MsgCanon(c.val)
		ft := NewFloatTabs()
		ft.AddMessage(c.val)
		p, st := ft.Coq()
		terms[i] = fmt.Sprintf("(sc_%d, %s, %s, %s, %s)", defIdx[c.req.ID], CoqStr(c.msg), term, p, st)
	}
	maps := MappingJSON(run, "c04map", defs, terms)
	var scen3 []any
	var idx3 []int
	for i, c := range cases {
		if j, ok := maps[i]["ok"]; ok {
			c.mapJSON = j
			c.mapTxt = RenderCanonJSON(j)
			scen3 = append(scen3, codecUnmarshalScenario(fmt.Sprint(i), c.req.ID, c.msg, c.mapTxt))
			idx3 = append(idx3, i)
		}
	}
	raw3, err := RunScenarios(s.Runner, scen3, 8)
	if err != nil {
		run.Fatal("runner: %v", err)
	}
	var ccs3 []CoqCase
	var res3 []*CaseResult
	for k, i := range idx3 {
		c := cases[i]
		var o RunnerObs
		if err := json.Unmarshal(raw3[k], &o); err != nil {
			run.Fatal("bad observation: %v", err)
		}
		if o.Error != "" || o.Panic != "" || o.Timeout {
			run.Fatal("runner problem on canonical-in case %d (%s %s): %s %s", i, c.req.ID, c.msg, o.Error, firstLine(o.Panic))
		}
		canon, term := MsgCanon(c.val)
		ft := NewFloatTabs()
		ft.AddMessage(c.val)
		ft.AddJSONText(c.mapTxt)
		obs := map[string]any{}
		holds, note := true, ""
		if o.OutErr != "" {
			obs["in"] = errObj()
			holds, note = false, "the decoder rejects the contract form of the value"
		} else {
			m, err := c.g.Built.FromWireHex(c.msg, o.OutHex)
			if err != nil {
				run.Fatal("undecodable wire from runner: %v", err)
			}
			mc, _ := MsgCanon(m)
			obs["in"] = okObj(mc)
			holds, note = EqualUpToLosses(c.req, c.val, m)
		}
		cr := &CaseResult{ID: fmt.Sprintf("%s/%s#%d:%s", c.req.ID, c.msg, i, c.label), Family: "canonical-in",
			Input:  map[string]any{"schema": c.req.ID, "message": c.msg, "value": canon, "contract_json": string(c.mapTxt)},
			Obs:    obs, OracleHolds: holds, OracleNote: note, NonTrivial: c.label != "default", Features: msgFeatures(c.req, c.msg)}
		p, st := ft.Coq()
		res3 = append(res3, cr)
		ccs3 = append(ccs3, CoqCase{Term: fmt.Sprintf("(sc_%d, %s, %s, %s, %s, %s)", defIdx[c.req.ID], CoqStr(c.msg), term, CoqJSON(Canon(c.mapJSON)), p, st), Obs: obs})
	}
	vs3, err := CoqRun(run.WorkDir, "c04in", codecImports, defs, "c05_req_case", "predict_C04_in", ccs3, 16)
	if err != nil {
		run.Fatal("model evaluation: %v", err)
	}
	for i, cr := range res3 {
		cr.Apply(vs3[i])
		run.Results = append(run.Results, cr)
	}

	run.Extra["schemas"] = len(reqs)
	debugDump(run)
	run.Finish()
}


// setUnknownEnums puts the undefined number 99 into every enum position of m (creating message
// children, one list element and one map entry where needed) and returns how many it set.
func setUnknownEnums(m protoreflect.Message, depth int) int {
	if depth > 2 || m.Descriptor().FullName() == "google.protobuf.Timestamp" {
		return 0
	}
	n := 0
	fds := m.Descriptor().Fields()
	for i := 0; i < fds.Len(); i++ {
		fd := fds.Get(i)
		if o := fd.ContainingOneof(); o != nil && !o.IsSynthetic() {
			continue
		}
		unk := protoreflect.ValueOfEnum(99)
		switch {
		case fd.IsMap():
			vfd := fd.MapValue()
			mp := m.Mutable(fd).Map()
			var key protoreflect.MapKey
			switch fd.MapKey().Kind() {
			case protoreflect.StringKind:
				key = protoreflect.ValueOfString("k").MapKey()
			case protoreflect.BoolKind:
				key = protoreflect.ValueOfBool(true).MapKey()
			case protoreflect.Int32Kind, protoreflect.Sint32Kind, protoreflect.Sfixed32Kind:
				key = protoreflect.ValueOfInt32(1).MapKey()
			case protoreflect.Int64Kind, protoreflect.Sint64Kind, protoreflect.Sfixed64Kind:
				key = protoreflect.ValueOfInt64(1).MapKey()
			case protoreflect.Uint32Kind, protoreflect.Fixed32Kind:
				key = protoreflect.ValueOfUint32(1).MapKey()
			default:
				key = protoreflect.ValueOfUint64(1).MapKey()
			}
			if vfd.Kind() == protoreflect.EnumKind {
				mp.Set(key, unk)
				n++
			} else if vfd.Kind() == protoreflect.MessageKind {
				v := mp.NewValue()
				if k := setUnknownEnums(v.Message(), depth+1); k > 0 {
					mp.Set(key, v)
					n += k
				} else if mp.Len() == 0 {
					m.Clear(fd)
				}
			} else if mp.Len() == 0 {
				m.Clear(fd)
			}
		case fd.IsList():
			l := m.Mutable(fd).List()
			if fd.Kind() == protoreflect.EnumKind {
				l.Append(unk)
				n++
			} else if fd.Kind() == protoreflect.MessageKind {
				v := l.NewElement()
				if k := setUnknownEnums(v.Message(), depth+1); k > 0 {
					l.Append(v)
					n += k
				} else if l.Len() == 0 {
					m.Clear(fd)
				}
			} else if l.Len() == 0 {
				m.Clear(fd)
			}
		case fd.Kind() == protoreflect.EnumKind:
			m.Set(fd, unk)
			n++
		case fd.Kind() == protoreflect.MessageKind:
			had := m.Has(fd)
			if k := setUnknownEnums(m.Mutable(fd).Message(), depth+1); k > 0 {
				n += k
			} else if !had {
				m.Clear(fd)
			}
		}
	}
	return n
}
