package lib

import (
	"bytes"
	"encoding/hex"
	"encoding/json"
	"fmt"
	"math/rand"
	"net/http"
	"strings"
	"unicode/utf8"

	"google.golang.org/protobuf/encoding/protojson"
	"google.golang.org/protobuf/proto"
	"google.golang.org/protobuf/types/dynamicpb"

	sebufhttp "github.com/SebastienMelki/sebuf/http"
)

// ---- C11, families "client-response-header" (Go) and "ts-client-response-header" (TS) ----------------
//
// "For any status, headers and body a server may return, the generated clients return a response or an
// error value and never panic or hang."  The existing client families answer in the content type of the
// request; here the RESPONSE headers are hostile: Content-Type values without "/", with an empty type or
// subtype, made of parameters only, in upper case, very long, with quotes / commas / blanks / bytes
// outside ASCII, absent, empty, duplicated and contradictory — crossed with statuses 200 / 400 / 500,
// JSON and binary clients, and bodies {empty, the expected document in the client's encoding, the same
// document in the OTHER encoding, garbage}.
//
// Go client: two deliveries.  "direct": the header values are put into http.Response.Header as they are
// (what a custom RoundTripper, a mock or a proxy library may hand to the client); "wire": the bytes are
// written by a peer behind a real http.Transport (c11_framing.go's raw_hex), so the values arrive as
// net/http parses them.  The emitted client (internal/clientgen/generator.go:583-640) never looks at the
// response's Content-Type: it decodes under the content type of the request; the model of the existing
// client families (Malformed.v: predict_C11_client / predict_C11_client_framed) therefore applies
// unchanged and the header is not one of its inputs — any dependence on it shows as a disagreement.
//
// TS client (internal/tsclientgen/generator.go:385-425): resp.ok -> resp.json(); otherwise handleError
// (Errors.v: predict_C10_ts_client for statuses 300..599).  Oracle: the call settles (no hang, no driver
// failure) with a value or a thrown Error object; a status >= 400 never settles with a value.

type c11HdrSet struct {
	label string
	cts   []string // the Content-Type header lines of the response, in order (nil = header absent)
	extra [][2]string
}

func c11HostileContentTypes() []c11HdrSet {
	var out []c11HdrSet
	one := func(label string, vs ...string) {
		for _, v := range vs {
			out = append(out, c11HdrSet{label: label, cts: []string{v}})
		}
	}
	out = append(out, c11HdrSet{label: "absent"})
	one("empty", "", " ", "\t")
	one("well-formed", "application/json", "application/x-protobuf", "application/octet-stream", "application/json; charset=utf-8", "application/problem+json",
		"application/vnd.acme.v1+proto", "application/protobuf", "text/html", "text/plain; charset=utf-8", "*/*")
	one("no-slash", "json", "text", "*", "garbage; charset=utf-8", "application", "x-protobuf", "proto", "application json", "application\\json", "a", "+json", "octet-stream ; q=1")
	one("empty-type-or-subtype", "/", "/json", "application/", "//", "/;", "application/;charset=utf-8", "/x-protobuf", "application//json", "/ /", "application/ ")
	one("parameters-only", "; charset=utf-8", ";", ";;", " ; ", ";charset", "; =", "charset=utf-8")
	one("upper-case", "APPLICATION/JSON", "Application/X-Protobuf", "JSON", "TEXT", "APPLICATION/", "APPLICATION/PROBLEM+JSON; CHARSET=UTF-8")
	one("quotes-commas", `application/json; charset="utf-8"`, `"application/json"`, `application/json, text/plain`, `application/json;charset="a,b;c/d"`, ",", `"`, `json, application/json`,
		`application/json, json`, `"json"`, `'json'`, `application/json; a="\"`, `text;q="/"`, `json,`, `,/`)
	one("blanks", " application/json ", "\tjson\t", "application / json", "application/json ;charset=utf-8", " json", "json ")
	one("non-ascii", "application/jsön", "jsön", "テキスト", "\xff\xfe", "json\xff")
	one("very-long", "application/"+strings.Repeat("x", 70000), strings.Repeat("a", 70000), "application/json;"+strings.Repeat(" p=v;", 12000), strings.Repeat("/", 30000),
		strings.Repeat("json,", 9000), "a/b+"+strings.Repeat("+json", 9000))
	dup := func(label string, vs ...string) { out = append(out, c11HdrSet{label: label, cts: vs}) }
	dup("duplicated", "application/json", "application/json")
	dup("duplicated", "application/json", "application/x-protobuf")
	dup("duplicated", "application/x-protobuf", "application/json")
	dup("duplicated", "json", "application/json")
	dup("duplicated", "application/json", "json")
	dup("duplicated", "", "json")
	dup("duplicated", "json", "")
	dup("duplicated", "text", "text")
	dup("duplicated", "/", ";")
	dup("duplicated", "text/plain", "json", "application/x-protobuf", "*")
	// other header lines a client might consult when it classifies the payload
	out = append(out, c11HdrSet{label: "other-headers", cts: []string{"json"}, extra: [][2]string{{"X-Content-Type-Options", "nosniff"}, {"Content-Encoding", "identity"}}})
	out = append(out, c11HdrSet{label: "other-headers", cts: nil, extra: [][2]string{{"Content-Type-Options", "json"}, {"Accept", "json"}, {"Content-Language", "/"}}})
	return out
}

func (h c11HdrSet) headerList() [][2]string {
	hs := [][2]string{}
	for _, v := range h.cts {
		hs = append(hs, [2]string{"Content-Type", v})
	}
	return append(hs, h.extra...)
}

// wireSafe: can the header lines be written on a connection as they are (no CR / LF / NUL)?
func (h c11HdrSet) wireSafe() bool {
	for _, kv := range h.headerList() {
		if strings.ContainsAny(kv[1], "\r\n\x00") {
			return false
		}
	}
	return true
}

func (h c11HdrSet) show() any {
	var vs []string
	for _, v := range h.cts {
		if len(v) > 80 {
			v = fmt.Sprintf("%s…(%d bytes)", v[:60], len(v))
		}
		vs = append(vs, strings.ToValidUTF8(v, "?"))
	}
	return map[string]any{"content_type_lines": vs, "content_type_lines_hex": func() []string {
		var o []string
		for _, v := range h.cts {
			o = append(o, hexShort([]byte(v)))
		}
		return o
	}(), "other": h.extra}
}

type c11HdrBody struct {
	label string
	b     []byte
}

// c11HdrBodies: the bodies of one (status, client encoding): empty, the document the status calls for in
// the client's encoding, the same document in the other encoding, garbage.
func c11HdrBodies(status, ct int, m *dynamicpb.Message) []c11HdrBody {
	var j, w []byte
	switch {
	case status < 400:
		j, _ = protojson.Marshal(m)
		w = Wire(m)
	case status == 400:
		j = []byte(`{"violations":[{"field":"a.b","description":"must not be empty"}]}`)
		w, _ = proto.Marshal(&sebufhttp.ValidationError{Violations: []*sebufhttp.FieldViolation{{Field: "a.b", Description: "must not be empty"}}})
	default:
		j = []byte(`{"message":"backend unavailable"}`)
		w, _ = proto.Marshal(&sebufhttp.Error{Message: "backend unavailable"})
	}
	own, other := j, w
	if ct == 1 {
		own, other = w, j
	}
	return []c11HdrBody{{"empty", []byte{}}, {"own-encoding", own}, {"other-encoding", other}, {"garbage", []byte("<html>\xff\x00 not a document")}}
}

func c11RespHeaders(run *Run, s *Session, reqs []*Request, rng *rand.Rand) {
	type hc struct {
		req    *Request
		g      *GenOutput
		svc    *Service
		md     *Method
		ct     int
		status int
		body   c11HdrBody
		hs     c11HdrSet
		wire   bool
		raw    []byte
	}
	sets := c11HostileContentTypes()
	var cases []*hc
	vg := &ValueGen{Rng: rng}
	var tsReq *Request
	var tsGen *GenOutput
	for i, r := range reqs {
		if !s.InRunner[r.ID] || (r.ID != "ftplain" && r.ID != "fti64") {
			continue
		}
		g := s.Gens[i]
		if r.ID == "ftplain" {
			tsReq, tsGen = r, g
		}
		svc := r.Files[0].Services[0]
		md := svc.Methods[0]
		out := g.Built.MessageDesc(md.Out)
		for _, st := range []int{200, 400, 500} {
			for ct := 0; ct < 2; ct++ {
				m := vg.Random(out, 0.8)
				for bi, bd := range c11HdrBodies(st, ct, m) {
					for hi, hs := range sets {
						// the second schema: a rotating third of the matrix (thorough: all of it)
						if r.ID != "ftplain" && run.Tier != "thorough" && (hi+bi+st/100+ct)%3 != 0 {
							continue
						}
						cases = append(cases, &hc{req: r, g: g, svc: svc, md: md, ct: ct, status: st, body: bd, hs: hs})
						if hs.wireSafe() && (r.ID == "ftplain" || run.Tier == "thorough") {
							var b bytes.Buffer
							fmt.Fprintf(&b, "HTTP/1.1 %d %s\r\n", st, http.StatusText(st))
							for _, kv := range hs.headerList() {
								b.WriteString(kv[0] + ": " + kv[1] + "\r\n")
							}
							fmt.Fprintf(&b, "Content-Length: %d\r\n\r\n", len(bd.b))
							b.Write(bd.b)
							cases = append(cases, &hc{req: r, g: g, svc: svc, md: md, ct: ct, status: st, body: bd, hs: hs, wire: true, raw: b.Bytes()})
						}
					}
				}
			}
		}
	}
	scen := make([]any, len(cases))
	for i, c := range cases {
		canned := map[string]any{"status": c.status, "headers": c.hs.headerList(), "body_hex": hex.EncodeToString(c.body.b)}
		if c.wire {
			canned = map[string]any{"status": c.status, "raw_hex": hex.EncodeToString(c.raw)}
		}
		scen[i] = map[string]any{"id": fmt.Sprint(i), "kind": "call", "pkg": c.req.ID, "service": c.svc.Name, "method": c.md.Name, "req": "",
			"opts": map[string]any{"ContentType": ctNames[c.ct]}, "script": map[string]any{}, "canned_resp": canned}
	}
	raw, err := RunScenarios(s.Runner, scen, 8)
	if err != nil {
		run.Fatal("runner (client response headers): %v", err)
	}
	var direct, wired []CoqCase
	var directRes, wiredRes []*CaseResult
	for i, c := range cases {
		var o RunnerObs
		if err := json.Unmarshal(raw[i], &o); err != nil {
			run.Fatal("bad observation (client response headers): %v", err)
		}
		framing, status, delivered := 0, c.status, c.body.b
		if c.wire {
			framing, status, delivered = readFramed(c.raw)
			if framing != 0 {
				status = c.status
			}
		}
		res := "none"
		holds := true
		note := ""
		switch {
		case o.Panic != "" || o.Timeout || o.Error != "":
			res, holds, note = "crash", false, "client panicked / hung: "+firstLine(o.Panic+o.Error)
			if o.Timeout {
				note = "client hung (no result within the deadline)"
			}
		case o.Client == nil:
			res, holds, note = "nothing", false, "client returned neither a response nor an error"
		case o.Client.Resp != nil:
			res = "response"
			if framing != 0 {
				holds, note = false, "the client returned a response value although the response was not received completely"
			} else if status >= 400 {
				holds, note = false, fmt.Sprintf("the client returned a response value (no error) for HTTP status %d", status)
			}
		case o.Client.ErrType == "ValidationError" || o.Client.ErrType == "Error":
			res = o.Client.ErrType
			if framing != 0 {
				holds, note = false, "the client returned a typed error parsed from a response that was not received completely"
			}
		case c.wire && strings.Contains(o.Client.ErrMsg, "failed to execute request"):
			res = "transport-error"
		case c.wire && strings.Contains(o.Client.ErrMsg, "failed to read response body"):
			res = "read-error"
		case strings.Contains(o.Client.ErrMsg, "failed to unmarshal response"):
			res = "decode-error"
		default:
			res = "other"
		}
		if holds && framing == 0 && status < 400 && (res == "transport-error" || res == "read-error") {
			holds, note = false, "a completely received response was reported as a transport / read failure"
		}
		asRes, asVal, asErr := false, false, false
		if framing == 0 {
			if md := c.g.Built.MessageDesc(c.md.Out); md != nil {
				m := dynamicpb.NewMessage(md)
				if c.ct == 0 {
					asRes = protojson.Unmarshal(delivered, m) == nil
				} else {
					asRes = proto.Unmarshal(delivered, m) == nil
				}
			}
			asVal, asErr = decodesAsSebuf(delivered, c.ct)
		}
		delivery := "direct"
		if c.wire {
			delivery = "wire"
		}
		obs := map[string]any{"result": res}
		cr := &CaseResult{ID: fmt.Sprintf("%s/client-response-header/%s#%d", c.req.ID, delivery, i), Family: "client-response-header",
			Input: map[string]any{"schema": c.req.ID, "status": c.status, "client_content_type": ctNames[c.ct], "response_headers": c.hs.show(), "header_family": c.hs.label,
				"delivery": delivery, "body": c.body.label, "body_text": textShort(c.body.b), "body_hex": hexShort(c.body.b)},
			Obs: obs, OracleHolds: holds, OracleNote: note, NonTrivial: true,
			Features: []string{"client", "resp-header:" + c.hs.label, "delivery:" + delivery, fmt.Sprintf("status:%d", c.status), "body:" + c.body.label, "client-ct:" + ctNames[c.ct]}}
		inner := fmt.Sprintf("(%d%%Z, %s, %s, %s, %s)", status, CoqBool(len(delivered) == 0), CoqBool(asRes), CoqBool(asVal), CoqBool(asErr))
		if c.wire {
			wiredRes = append(wiredRes, cr)
			wired = append(wired, CoqCase{Term: fmt.Sprintf("(%d%%nat, %s)", framing, inner), Obs: obs})
		} else {
			directRes = append(directRes, cr)
			direct = append(direct, CoqCase{Term: inner, Obs: obs})
		}
	}
	vs, err := coqRunDedup(run.WorkDir, "c11hdr", "From Sebuf Require Import Text Json Malformed.\n", "", "c11_client_case", "predict_C11_client", direct, 8)
	if err != nil {
		run.Fatal("model evaluation (client response headers): %v", err)
	}
	for i, cr := range directRes {
		cr.Apply(vs[i])
		run.Results = append(run.Results, cr)
	}
	vw, err := coqRunDedup(run.WorkDir, "c11hdrw", "From Sebuf Require Import Text Json Malformed.\n", "", "c11_framed_case", "predict_C11_client_framed", wired, 8)
	if err != nil {
		run.Fatal("model evaluation (client response headers, wire): %v", err)
	}
	for i, cr := range wiredRes {
		cr.Apply(vw[i])
		run.Results = append(run.Results, cr)
	}
	run.Extra["client_response_header_cases"] = len(cases)
	if tsReq != nil {
		note, trs := c11TSRespHeaders(run, tsReq, tsGen, sets)
		run.Extra["ts_client_response_header"] = note
		run.Results = append(run.Results, trs...)
	}
}

// c11TSRespHeaders: the emitted TS client on the same header sets (through its `fetch` option).
func c11TSRespHeaders(run *Run, req *Request, g *GenOutput, sets []c11HdrSet) (string, []*CaseResult) {
	if _, err := TsNodeBin(); err != nil {
		return "node (>= 22.6) not available: the TS client was not run on hostile response headers", nil
	}
	tsFiles, err := WriteTsFiles(run.WorkDir+"/ts-client-hdr", []*Request{req}, []*GenOutput{g})
	if err != nil {
		run.Fatal("writing the emitted TS client: %v", err)
	}
	svc := req.Files[0].Services[0]
	md := svc.Methods[0]
	clientFile := ""
	for n, p := range tsFiles[req.ID] {
		if strings.HasSuffix(n, "_client.ts") && strings.Contains(g.Results["ts-client"].Files[n], "class "+svc.Name+"Client") {
			clientFile = p
		}
	}
	if clientFile == "" {
		return "protoc-gen-ts-client produced no client module for " + req.ID, nil
	}
	type tc struct {
		status int
		hs     c11HdrSet
		label  string
		body   []byte
	}
	bodies := []c11HdrBody{{"empty", nil}, {"result", []byte(`{"id":"abc","count":3}`)}, {"violations", []byte(`{"violations":[{"field":"a.b","description":"must not be empty"}]}`)},
		{"message", []byte(`{"message":"backend unavailable"}`)}, {"text", []byte("plain text")}, {"not-utf8", []byte("\xff\xfe{}")}, {"truncated-json", []byte(`{"id":`)}}
	var cases []*tc
	for _, st := range []int{200, 400, 500} {
		for _, hs := range sets {
			for _, bd := range bodies {
				cases = append(cases, &tc{status: st, hs: hs, label: bd.label, body: bd.b})
			}
		}
	}
	scen := make([]any, len(cases))
	for i, c := range cases {
		scen[i] = map[string]any{"id": fmt.Sprint(i), "kind": "ts_client_call", "file": clientFile, "service": svc.Name, "method": lowerFirst(md.Name), "req": map[string]any{},
			"response": map[string]any{"status": c.status, "headers": c.hs.headerList(), "body_hex": hex.EncodeToString(c.body)}}
	}
	raw, err := RunNode(scen)
	if err != nil {
		run.Fatal("node (TS client, response headers): %v", err)
	}
	var results []*CaseResult
	var ccs []CoqCase
	for i, c := range cases {
		o, err := decodeNodeObs(raw[i])
		if err != nil {
			run.Fatal("node observation (TS client, response headers): %v: %s", err, tail(string(raw[i]), 300))
		}
		if o.LoadError != nil || o.Construct != nil || o.Error2 != "" {
			run.Fatal("node driver failed on TS client scenario %d: %s", i, tail(string(raw[i]), 400))
		}
		var doc any
		isJSON := false
		if utf8.Valid(c.body) {
			dec := json.NewDecoder(bytes.NewReader(c.body))
			dec.UseNumber()
			if err := dec.Decode(&doc); err == nil && !dec.More() {
				if _, err := dec.Token(); err != nil {
					isJSON = true
				}
			}
		}
		obs := map[string]any{}
		holds, note := true, ""
		e := o.ClientError
		switch {
		case o.Timeout:
			obs["class"] = "hang"
			holds, note = false, "TS client: the call did not settle within the deadline"
		case o.DriverError != nil:
			obs["class"] = "driver-error"
			holds, note = false, "TS client: the call escaped as an uncaught failure of the driver: "+o.DriverError.Class+": "+textShort([]byte(o.DriverError.Message))
		case e == nil && !o.HasResult:
			obs["class"] = "nothing"
			holds, note = false, "TS client: the call settled with neither a value nor a thrown error"
		case e == nil:
			obs["class"] = "no-error"
			if c.status >= 400 {
				holds, note = false, fmt.Sprintf("TS client: HTTP %d did not make the call fail", c.status)
			}
		case e.Class == "ValidationError":
			obs["class"], obs["violations"] = "ValidationError", e.Violations
		case e.Class == "ApiError":
			obs["class"], obs["body_same"] = "ApiError", !utf8.Valid(c.body) || e.Body == string(c.body)
			if e.StatusCode != nil {
				obs["status"] = *e.StatusCode
			}
		case e.Class == "undefined" || e.Class == "string" || e.Class == "number" || e.Class == "boolean" || e.Class == "object" || e.Class == "?":
			obs["class"] = e.Class
			holds, note = false, "TS client: the call threw a value that is not an Error object ("+e.Class+")"
		default:
			// an Error object of another class (resp.json() on a 2xx whose body is not JSON: SyntaxError)
			obs["class"] = e.Class
		}
		bodyTerm := "None"
		if isJSON {
			bodyTerm = "(Some " + CoqJSON(doc) + ")"
		}
		cr := &CaseResult{ID: fmt.Sprintf("%s/ts-client-response-header/%d/%s/%s#%d", req.ID, c.status, c.hs.label, c.label, i), Family: "ts-client-response-header",
			Input: map[string]any{"schema": req.ID, "status": c.status, "response_headers": c.hs.show(), "header_family": c.hs.label, "body": c.label, "body_text": textShort(c.body), "body_hex": hexShort(c.body)},
			Obs:   obs, OracleHolds: holds, OracleNote: note, NonTrivial: true,
			Features: []string{"ts-client", "resp-header:" + c.hs.label, fmt.Sprintf("status:%d", c.status), "body:" + c.label}}
		if c.status < 400 {
			// resp.ok: `return await resp.json()` — the reference reading: a JSON document resolves, anything else
			// rejects with the runtime's SyntaxError; checked here directly (no Coq model of Response.json)
			want := "SyntaxError"
			if isJSON {
				want = "no-error"
			}
			if holds && obs["class"] != want {
				cr.OracleHolds, cr.OracleNote = false, fmt.Sprintf("TS client: a 2xx response whose body %s a JSON document settled as %v (expected %s whatever the response headers say)",
					map[bool]string{true: "is", false: "is not"}[isJSON], obs["class"], want)
			}
			cr.Unmodelled = "2xx: Response.json() of the runtime decides (reference reading checked by the harness)"
		}
		results = append(results, cr)
		ccs = append(ccs, CoqCase{Term: fmt.Sprintf("((%d)%%Z, %s)", c.status, bodyTerm), Obs: obs})
	}
	vs, err := coqRunDedup(run.WorkDir, "c11tshdr", "From Sebuf Require Import Text Json Schema Value Headers Errors.\n", "", "c10_ts_client_case", "predict_C10_ts_client", ccs, 8)
	if err != nil {
		run.Fatal("model evaluation (TS client, response headers): %v", err)
	}
	for i, cr := range results {
		if cr.Unmodelled == "" {
			cr.Apply(vs[i])
		} else {
			cr.Obs = Canon(cr.Obs)
		}
	}
	return fmt.Sprintf("the emitted *_client.ts of %s was given %d responses with hostile Content-Type header lines", req.ID, len(cases)), results
}
