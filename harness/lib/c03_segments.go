package lib

import (
	"fmt"
	"math/rand"
	"regexp"
	"strconv"
	"strings"
)

// ---- which SEGMENT of the request path carries which field ------------------------------------------
//
// Four of the five outputs name the position of a path variable only through the template itself: the
// Go server registers the pattern and asks ServeMux for PathValue(name), both clients substitute
// "{name}" in the template, OpenAPI lists the template and its parameters.  For them "which segment
// carries which field" IS the template, which the route projection already compares.  The TS server is
// the exception: it publishes the template (`path:`) for the router but its handler reads every variable
// by a segment INDEX computed at generation time,
//
//	const pathSegments = url.pathname.split("/");
//	pathParams["user_id"] = decodeURIComponent(pathSegments[4] ?? "");
//
// (internal/tsservergen/generator.go generatePathParamExtraction).  A request that the router matched
// against the published template has its segments exactly where the template has them, so the handler
// reads the right field iff that index equals the index of "{user_id}" in split(published path, "/").
// TsServerSegmentBinding makes that index part of the projection: a variable read from another segment
// than the one the published template puts it in is rendered
//
//	user_id(read from segment 5, published in segment 4)
//
// so that it differs from the other four projections and from the model's prediction.

var reTsSrvSeg = regexp.MustCompile(`pathParams\["([^"]*)"\] = decodeURIComponent\(\s*pathSegments\[(\d+)\]`)

// templateSegmentIndex: index of the segment "{variable}" in split(path, "/"), -1 when the variable is not
// a whole segment of the template.  url.pathname.split("/") of a request matching the template has the
// same indices (both start with the empty string in front of the leading slash).
func templateSegmentIndex(path, variable string) int {
	for i, seg := range strings.Split(path, "/") {
		if seg == "{"+variable+"}" {
			return i
		}
	}
	return -1
}

// TsServerSegments reads, per route entry of an emitted *_server.ts, the segment index each path variable
// is taken from: key = "<Service>.<lowerFirstMethod>" (as TsServerRoutes), value = variable -> index.
func TsServerSegments(ts string) map[string]map[string]int {
	out := map[string]map[string]int{}
	funcs := reTsSrvFunc.FindAllStringSubmatchIndex(ts, -1)
	for fi, fl := range funcs {
		fend := len(ts)
		if fi+1 < len(funcs) {
			fend = funcs[fi+1][0]
		}
		svc := ts[fl[2]:fl[3]]
		fbody := ts[fl[0]:fend]
		locs := reTsSrvEntry.FindAllStringSubmatchIndex(fbody, -1)
		for i, loc := range locs {
			end := len(fbody)
			if i+1 < len(locs) {
				end = locs[i+1][0]
			}
			body := fbody[loc[0]:end]
			name := ""
			if m := reTsSrvCall.FindStringSubmatch(body); m != nil {
				name = m[1]
			}
			segs := map[string]int{}
			for _, m := range reTsSrvSeg.FindAllStringSubmatch(body, -1) {
				n, err := strconv.Atoi(m[2])
				if err != nil {
					continue
				}
				segs[m[1]] = n
			}
			out[svc+"."+name] = segs
		}
	}
	return out
}

// TsServerSegmentBinding refines the PathVars projection of the TS server routes with the segment each
// variable is read from (see above).  Variables whose index equals the template's stay as they are.
func TsServerSegmentBinding(routes map[string]*RouteObs, ts string) {
	for key, segs := range TsServerSegments(ts) {
		r := routes[key]
		if r == nil {
			continue
		}
		for i, pv := range r.PathVars {
			variable := pv
			if j := strings.Index(pv, "("); j >= 0 {
				variable = pv[:j]
			}
			read, ok := segs[variable]
			if !ok {
				continue
			}
			pub := templateSegmentIndex(r.Path, variable)
			switch {
			case pub == read:
			case pub < 0:
				r.PathVars[i] = fmt.Sprintf("%s(read from segment %d, not a segment of the published path)", pv, read)
			default:
				r.PathVars[i] = fmt.Sprintf("%s(read from segment %d, published in segment %d)", pv, read, pub)
			}
		}
	}
}

// SegmentOf: variable -> segment index according to a projection's own template (Go server pattern, client
// URL templates, OpenAPI path).  Used for the oracle note only; agreement of the templates implies
// agreement of these maps.
func SegmentOf(r *RouteObs) map[string]int {
	out := map[string]int{}
	if r == nil {
		return out
	}
	for _, m := range rePathVar.FindAllStringSubmatch(r.Path, -1) {
		out[m[1]] = templateSegmentIndex(r.Path, m[1])
	}
	return out
}

// ---- base_path spellings x method path spellings x variable positions --------------------------------
//
// The full path of an RPC is glued from two user-written strings.  Every generator normalises the seam
// in its own code (BuildHTTPPath, getMethodPath, the TS server's index arithmetic), so the family varies
// both sides of the seam independently of what the path contains:
//   base_path:   absent, "/", one and two segments, each with / without a trailing slash, without a leading
//                slash, with doubled slashes in front / behind
//   method path: with / without leading slash, with / without trailing slash
//   variables:   1-3, at the first / a middle / the last position of the method path, adjacent or not
// and every verb.  Per (base, spelling) the variable names differ so that the glued templates of one
// service stay distinct.

var baseSpellings = []string{"", "/", "/api", "/api/", "/api/v1", "/api/v1/", "api/v1", "//api", "/api/v1//", "api/"}

var segmentShapes = []struct {
	name string
	segs []string // "%1" "%2" "%3" = variables, anything else literal
}{
	{"None", []string{"x", "y"}},
	{"Only", []string{"%1"}},
	{"First", []string{"%1", "x", "y"}},
	{"Middle", []string{"x", "%1", "y"}},
	{"Last", []string{"x", "y", "%1"}},
	{"Pair", []string{"%1", "%2"}},
	{"Ends", []string{"%1", "x", "%2"}},
	{"Tail2", []string{"x", "%1", "%2"}},
	{"Split2", []string{"x", "%1", "y", "%2"}},
	{"Triple", []string{"%1", "%2", "%3"}},
	{"Mixed3", []string{"x", "%1", "%2", "y", "%3"}},
	{"Spread3", []string{"%1", "x", "%2", "y", "%3"}},
}

var segmentVarNames = [][3]string{{"user_id", "post_id", "n"}, {"uid", "pid", "k9"}, {"org", "member_id", "seq"}, {"a", "b", "c"}}

// spellPath: spelling bit 0 = no leading slash, bit 1 = trailing slash.
func spellPath(segs []string, names [3]string, spelling int) string {
	var parts []string
	for _, sg := range segs {
		switch sg {
		case "%1":
			sg = "{" + names[0] + "}"
		case "%2":
			sg = "{" + names[1] + "}"
		case "%3":
			sg = "{" + names[2] + "}"
		}
		parts = append(parts, sg)
	}
	p := strings.Join(parts, "/")
	if spelling&1 == 0 {
		p = "/" + p
	}
	if spelling&2 != 0 {
		p += "/"
	}
	return p
}

func baseSpellingRequest(id, base string, bi int, shapes []int, spellings []int) *Request {
	pkg := id + ".v1"
	f := &File{Messages: []*Message{M("Resp", F("ok", 1, "bool"))}}
	svc := &Service{Name: "Seg", BasePath: base, HasConfig: base != ""}
	idx := 0
	for _, si := range shapes {
		sh := segmentShapes[si]
		for _, sp := range spellings {
			idx++
			verb := routeVerbs[(si+sp+bi)%len(routeVerbs)]
			path := spellPath(sh.segs, segmentVarNames[sp%len(segmentVarNames)], sp)
			nq := 0
			if verb == "GET" && si%2 == 0 {
				nq = 1
			}
			meth, msg := routeRPC(pkg, idx, fmt.Sprintf("%sS%d", sh.name, sp), verb, path, true, nq, []string{"string", "int64", "uint32"})
			svc.Methods = append(svc.Methods, meth)
			f.Messages = append(f.Messages, msg)
		}
	}
	f.Services = []*Service{svc}
	r := OneFile(id, pkg, f)
	r.Tags = []string{"routes", "base-spelling"}
	return r
}

// BaseSpellingRequests: the deterministic cross product, one service per base_path spelling.
func BaseSpellingRequests() []*Request {
	var out []*Request
	var shapes []int
	for i := range segmentShapes {
		shapes = append(shapes, i)
	}
	for bi, base := range baseSpellings {
		out = append(out, baseSpellingRequest(fmt.Sprintf("rtseg%d", bi), base, bi, shapes, []int{0, 1, 2, 3}))
	}
	return out
}

// RandomBaseSpellingRequests: seeded base paths built from 0-2 leading slashes, 0-3 segments joined by one
// or two slashes and 0-2 trailing slashes, each with a random selection of shapes and spellings.
func RandomBaseSpellingRequests(rng *rand.Rand, n int) []*Request {
	var out []*Request
	lits := []string{"api", "v1", "x-y", "u_v", "Z", "b2"}
	for i := 0; i < n; i++ {
		base := strings.Repeat("/", []int{1, 1, 1, 0, 2}[rng.Intn(5)])
		ns := rng.Intn(4)
		for k := 0; k < ns; k++ {
			if k > 0 {
				base += strings.Repeat("/", []int{1, 1, 1, 2}[rng.Intn(4)])
			}
			base += lits[rng.Intn(len(lits))]
		}
		if ns > 0 {
			base += strings.Repeat("/", []int{0, 0, 1, 1, 2}[rng.Intn(5)])
		}
		var shapes []int
		for _, si := range rng.Perm(len(segmentShapes))[:4+rng.Intn(4)] {
			shapes = append(shapes, si)
		}
		spellings := rng.Perm(4)[:2+rng.Intn(3)]
		r := baseSpellingRequest(fmt.Sprintf("rtsegrand%d", i), base, rng.Intn(5), shapes, spellings)
		r.Tags = append(r.Tags, "random")
		out = append(out, r)
	}
	return out
}
