package lib

import (
	"encoding/hex"
	"encoding/json"
	"fmt"
	"math/big"
	"math/rand"
	"os"
	"regexp"
	"sort"
	"strconv"
	"strings"
	"time"
	"unicode/utf8"

	"google.golang.org/protobuf/reflect/protoreflect"
	"google.golang.org/protobuf/types/dynamicpb"
)

// ---- C09: requests are dispatched only when every required header is present and valid --------

// RunnerObsX adds the fields the C09/C10 runner extensions report.
type RunnerObsX struct {
	RunnerObs
	SentHeader map[string][]string `json:"sent_header"`
}

type hdrLine struct{ Name, Value string }

type c09Case struct {
	svc    *Service
	md     *Method
	pub    []*Header // header parameters of the operation as read from the emitted OpenAPI document
	lines  []hdrLine
	body   int // 0 valid JSON, 1 malformed JSON, 2 absent
	family string
}

// ---- value neighbourhoods ------------------------------------------------------------------------

const f64MidpointBelow = "179769313486231580793728971405303415079934132710037826936173778980444968292764750946649017977587207096330286416692887910946555547851940402630657488671505820681908902000708383676273854845817711531764475730270069855571366959622842914819860834936475292719074168444365510704342711559699508093042880177904174497791"
const f64Midpoint = "179769313486231580793728971405303415079934132710037826936173778980444968292764750946649017977587207096330286416692887910946555547851940402630657488671505820681908902000708383676273854845817711531764475730270069855571366959622842914819860834936475292719074168444365510704342711559699508093042880177904174497792"

var corruptAlphabet = []byte{'0', '9', 'g', '-', ':', ' ', 'z'}

// corruptions: every single-character deletion and replacement (small alphabet) of base.
func corruptions(base string) []string {
	seen := map[string]bool{base: true}
	var out []string
	add := func(v string) {
		if !seen[v] {
			seen[v] = true
			out = append(out, v)
		}
	}
	for i := 0; i < len(base); i++ {
		add(base[:i] + base[i+1:])
		for _, c := range corruptAlphabet {
			add(base[:i] + string(c) + base[i+1:])
		}
	}
	for _, c := range []string{"0", "Z", " ", "x"} {
		add(base + c)
		add(c + base)
	}
	return out
}

// headerValuePool: (directed values, dense neighbourhood) for a declared type/format.
func headerValuePool(ty, format string) (directed, dense []string) {
	switch ty {
	case "integer":
		return []string{"0", "7", "-7", "+7", "007", "-0", "9223372036854775807", "9223372036854775808", "-9223372036854775808",
			"-9223372036854775809", "99999999999999999999", "-99999999999999999999", "1.0", "1e3", "abc", "", "1 2", "0x10", "1_0",
			"\xd9\xa3", " 5 ", "\t5", "--5", "+", "-", "5-", "0000000000000000000000000000000000001", "2024-02-29"}, corruptions("-1234567890")
	case "number":
		return []string{"0", "-0", "1.5", "-1.5e-7", "1E5", "1e+5", "1e308", "1.7976931348623157e308", "1.7976931348623158e308", "1.7976931348623159e308",
			"1e309", "-1e400", "1e-400", "0.000001e314", "0.000001e315", f64MidpointBelow, f64Midpoint, f64MidpointBelow + ".999", "-" + f64Midpoint, f64Midpoint + "e0",
			f64MidpointBelow[:300] + "e9", "1e99999999999999999999", "1e-99999999999999999999", "0e99999999999999999999", "00000.0000e999",
			"inf", "-Inf", "+Infinity", "INFINITY", "infinit", "infinityx", "nan", "NaN", "+nan", "-nan", "nanx",
			"1_0", "0x1p-2", "0X1P+2", "-0x1p-2", "0x1", "0x", "1__0", "_1", "1_", "1e1_0", "1_.5",
			".5", "5.", ".", "e5", "1e", "1e+", "1.2.3", "1,5", "", "abc", "\xef\xbc\x91", "+.5e-3", "+-1", "1 ", "007.50", "-", "+"}, corruptions("-12.5e+3")
	case "boolean":
		return []string{"1", "t", "T", "TRUE", "true", "True", "0", "f", "F", "FALSE", "false", "False", "yes", "tRuE", "2", "", "01", "true ", "truee", "no", "on", "\xff"}, nil
	case "array":
		return []string{"a", "a,b", " a , b ", "\xc2\xa0", "\xe3\x80\x80", "\xc2\x85", "\xe2\x80\x8a\xe2\x80\xa8\xe2\x81\x9f\xe1\x9a\x80", "\xa0", "\x85", ",", "\xc2\xa0x",
			"", "  ", "\t", "\xff", "\xe2\x80\x8b", "\xe2\x80\xaf", "\xe2\x80\xa9 \xc2\xa0"}, nil
	}
	// string-typed (declared "string" or unset)
	switch format {
	case "uuid":
		return []string{"123e4567-e89b-12d3-a456-426614174000", "123E4567-E89B-12D3-A456-426614174000", "00000000-0000-0000-0000-000000000000", "",
			"123e4567e89b12d3a456426614174000", "{123e4567-e89b-12d3-a456-426614174000}", "------------------------------------",
			"\xc3\xa9\xc3\xa9\xc3\xa9\xc3\xa9-\xc3\xa9\xc3\xa9-\xc3\xa9\xc3\xa9-\xc3\xa9\xc3\xa9-\xc3\xa9\xc3\xa9\xc3\xa9\xc3\xa9\xc3\xa9\xc3\xa9",
			"123e4567-e89b-12d3-a456-42661417400\xff", "zzzzzzzz-zzzz-zzzz-zzzz-zzzzzzzzzzzz"}, corruptions("123e4567-e89b-12d3-a456-4266141740AF")
	case "email":
		return []string{"a@b", "a@b.c", "a.b@c-d.e", "@b", "a@", "a@@b", "a@b@c", "ab", "a b@c", "\"a@b\"@c", "a@b.", "a@-b.c", "\xc3\xa9@b.c", "", "@", "a@b c",
			"a..b@c.d", ".a@c.d", "a!#$%&'*+-/=?^_`{|}~@x.y", "a@\xff"}, corruptions("user.name@example.com")
	case "date-time":
		return []string{"2024-02-29T10:20:30Z", "2024-02-29t10:20:30Z", "2024-02-29T10:20:30z", "2024-02-29t10:20:30z", "2024-02-29T10:20:30+00:00",
				"2016-12-31T23:59:60Z", "2016-12-31T15:59:60-08:00", "2016-12-31T22:59:60Z", "2016-12-31T23:59:60.5Z", "2016-12-31T23:59:61Z",
				"2024-02-29T1:20:30Z", "2024-02-29T10:20:30,5Z", "2024-02-29T10:20:30.Z", "2024-02-29T10:20:30.123456789012Z",
				"2024-02-29T10:20:30+24:00", "2024-02-29T10:20:30+23:60", "2024-02-29T10:20:30-24:60", "2024-02-29T10:20:30+25:00", "2024-02-29T10:20:30+23:61", "2024-02-29T10:20:30+2400",
				"2024-02-29T10:20:30+0:00", "2024-02-29T10:20:30 00:00", "2023-02-29T10:20:30Z", "1900-02-29T00:00:00Z", "2000-02-29T00:00:00Z", "0000-02-29T00:00:00Z",
				"2024-00-10T00:00:00Z", "2024-13-10T00:00:00Z", "2024-04-31T00:00:00Z", "2024-04-00T00:00:00Z", "2024-01-32T00:00:00Z", "2024-01-01T24:00:00Z",
				"2024-01-01T23:60:00Z", "2024-01-01T23:59:59.999999999Z", "9999-12-31T23:59:59Z", "2024-02-29 10:20:30Z", "2024-02-29T10:20:30", "2024-02-29", "",
				"2024-02-29T1:20:30,5+24:60", "2024-2-29T10:20:30Z", "02024-02-29T10:20:30Z", "+024-02-29T10:20:30Z", "2024-02-29T10:20:30ZZ", "2024-02-29T10:20:30Z\xff"},
			append(corruptions("2024-02-29T10:20:30Z"), corruptions("2023-11-30T23:59:59.125+05:30")...)
	case "date":
		return []string{"2024-02-29", "2023-02-29", "1900-02-29", "2000-02-29", "0000-02-29", "2024-13-01", "2024-00-10", "2024-04-31", "2024-04-00", "2024-4-01", "2024-04-1",
			"20240401", "2024-04-01T00:00:00Z", "", "9999-12-31", "2024-12-32", "24-04-01", "2024-06-31", "2024-09-31", "2024-11-31", "2024-11-30"}, corruptions("2024-02-29")
	case "time":
		return []string{"10:20:30", "10:20:30.5", "10:20:30,5", "1:20:30", "1:20:30,5", "10:20:30Z", "10:20:30z", "10:20:30+01:00", "10:20:30.25-23:59", "23:59:60Z", "23:59:60",
			"15:59:60-08:00", "24:00:00", "10:60:00", "10:20:60", "10:20:3", "10:20", "10:20:30.", "10:20:30.x", "", "00:00:00", "23:59:59.999999999999", "10:20:30+24:00",
			"10:20:30 ", "010:20:30", "10:2:30"}, append(corruptions("10:20:30"), corruptions("23:59:59.5+05:30")...)
	}
	return []string{"x", "", "  ", "\xc3\xa9", "\xff", "\xc0\xaf", "\xed\xa0\x80", "\xf4\x90\x80\x80", "\xe2\x82", "\xe6\x97\xa5\xe6\x9c\xac", "\xf0\x9f\x98\x80", "\xed\x9f\xbf", "\xf4\x8f\xbf\xbf",
		"\xe0\x9f\xbf", "\xf0\x8f\xbf\xbf", "\x80", "a\tb", "~"}, nil
}

// a value every reasonable reading accepts
func headerGoodValue(ty, format string) string {
	switch ty {
	case "integer":
		return "42"
	case "number":
		return "1.5"
	case "boolean":
		return "true"
	case "array":
		return "a,b"
	}
	switch format {
	case "uuid":
		return "123e4567-e89b-12d3-a456-426614174000"
	case "email":
		return "user@example.com"
	case "date-time":
		return "2024-02-29T10:20:30Z"
	case "date":
		return "2024-02-29"
	case "time":
		return "10:20:30"
	}
	return "abc"
}

// ---- the harness's own reading of the contract (independent of the Coq model) ---------------------

var (
	reIntPub   = regexp.MustCompile(`^-?(0|[1-9][0-9]*)$`)
	reIntWf    = regexp.MustCompile(`^[+-]?[0-9]+$`)
	reNumPub   = regexp.MustCompile(`^-?(0|[1-9][0-9]*)(\.[0-9]+)?([eE][+-]?[0-9]+)?$`)
	reNumWf    = regexp.MustCompile(`^[+-]?([0-9]+\.?[0-9]*|\.[0-9]+)([eE][+-]?[0-9]+)?$`)
	reUUID     = regexp.MustCompile(`^[0-9a-fA-F]{8}-[0-9a-fA-F]{4}-[0-9a-fA-F]{4}-[0-9a-fA-F]{4}-[0-9a-fA-F]{12}$`)
	reEmailPub = regexp.MustCompile("^[A-Za-z0-9!#$%&'*+/=?^_`{|}~-]+(\\.[A-Za-z0-9!#$%&'*+/=?^_`{|}~-]+)*@[A-Za-z0-9]([A-Za-z0-9-]*[A-Za-z0-9])?(\\.[A-Za-z0-9]([A-Za-z0-9-]*[A-Za-z0-9])?)*$")
	reDate     = regexp.MustCompile(`^([0-9]{4})-([0-9]{2})-([0-9]{2})$`)
	reFullTime = regexp.MustCompile(`^([0-9]{2}):([0-9]{2}):([0-9]{2})(\.[0-9]+)?([Zz]|([+-])([0-9]{2}):([0-9]{2}))$`)
	reDocTime  = regexp.MustCompile(`^([0-9]{2}):([0-9]{2}):([0-9]{2})(\.[0-9]+)?$`)
)

func specDateOK(v string) bool {
	m := reDate.FindStringSubmatch(v)
	if m == nil {
		return false
	}
	y, _ := strconv.Atoi(m[1])
	mo, _ := strconv.Atoi(m[2])
	d, _ := strconv.Atoi(m[3])
	if mo < 1 || mo > 12 || d < 1 {
		return false
	}
	dim := []int{31, 28, 31, 30, 31, 30, 31, 31, 30, 31, 30, 31}[mo-1]
	if mo == 2 && y%4 == 0 && (y%100 != 0 || y%400 == 0) {
		dim = 29
	}
	return d <= dim
}

func specFullTimeOK(v string) bool {
	m := reFullTime.FindStringSubmatch(v)
	if m == nil {
		return false
	}
	h, _ := strconv.Atoi(m[1])
	mi, _ := strconv.Atoi(m[2])
	se, _ := strconv.Atoi(m[3])
	off := 0
	if m[6] != "" {
		oh, _ := strconv.Atoi(m[7])
		om, _ := strconv.Atoi(m[8])
		if oh > 23 || om > 59 {
			return false
		}
		off = oh*60 + om
		if m[6] == "-" {
			off = -off
		}
	}
	if h > 23 || mi > 59 || se > 60 {
		return false
	}
	if se == 60 {
		utc := ((h*60+mi-off)%1440 + 1440) % 1440
		return utc == 1439
	}
	return true
}

func specDateTimeOK(v string) bool {
	if len(v) < 11 || (v[10] != 'T' && v[10] != 't') {
		return false
	}
	return specDateOK(v[:10]) && specFullTimeOK(v[11:])
}

func specDocTimeOK(v string) bool {
	m := reDocTime.FindStringSubmatch(v)
	if m == nil {
		return false
	}
	h, _ := strconv.Atoi(m[1])
	mi, _ := strconv.Atoi(m[2])
	se, _ := strconv.Atoi(m[3])
	return h < 24 && mi < 60 && se < 60
}

func stringTyped(ty string) bool { return ty == "string" || ty == "" }

// specPublishedOK: the value satisfies the parameter schema the OpenAPI document publishes.
func specPublishedOK(ty, format, v string) bool {
	switch ty {
	case "integer":
		return reIntPub.MatchString(v)
	case "number":
		return reNumPub.MatchString(v)
	case "boolean":
		return v == "true" || v == "false"
	case "array":
		return true
	}
	if !utf8.ValidString(v) {
		return false
	}
	switch format {
	case "uuid":
		return reUUID.MatchString(v)
	case "email":
		return reEmailPub.MatchString(v)
	case "date-time":
		return specDateTimeOK(v)
	case "date":
		return specDateOK(v)
	case "time":
		return specFullTimeOK(v)
	}
	return true
}

// specWellFormed: the lenient reading of "well-formed for its declared type and format".
func specWellFormed(ty, format, v string) bool {
	switch ty {
	case "integer":
		return reIntWf.MatchString(v)
	case "number":
		return reNumWf.MatchString(v)
	case "boolean":
		_, err := strconv.ParseBool(v)
		return err == nil
	case "array":
		return strings.TrimSpace(v) != ""
	}
	if !utf8.ValidString(v) {
		return false
	}
	switch format {
	case "uuid":
		return reUUID.MatchString(v)
	case "email":
		i := strings.IndexByte(v, '@')
		return i > 0 && i < len(v)-1 && strings.Count(v, "@") == 1
	case "date-time":
		return specDateTimeOK(v)
	case "date":
		return specDateOK(v)
	case "time":
		return specFullTimeOK(v) || specDocTimeOK(v)
	}
	return true
}

// specEffectiveRequired: a method-level declaration replaces a service-level one of the same
// (case-insensitive) name; the required ones of the result.
func specEffectiveRequired(svc, mth []*Header) []*Header {
	idx := map[string]int{}
	var all []*Header
	for _, h := range append(append([]*Header{}, svc...), mth...) {
		k := strings.ToLower(h.Name)
		if i, ok := idx[k]; ok {
			all[i] = h
		} else {
			idx[k] = len(all)
			all = append(all, h)
		}
	}
	var out []*Header
	for _, h := range all {
		if h.Required {
			out = append(out, h)
		}
	}
	return out
}

func trimOWS(v string) string { return strings.Trim(v, " \t") }

// firstLine returns (value, present) of the first header line with that name, as HTTP reads it.
func requestHeader(lines []hdrLine, name string) (string, bool) {
	for _, l := range lines {
		if strings.EqualFold(l.Name, name) {
			return trimOWS(l.Value), true
		}
	}
	return "", false
}

type c09Obs struct {
	Status     int      `json:"status"`
	Violations []string `json:"violations"`
	Handler    bool     `json:"handler"`
	BodyRead   bool     `json:"body_read"`
}

// openAPIHeaderParams reads the header parameters of every operation from an emitted OpenAPI document.
func openAPIHeaderParams(doc string) (map[string][]*Header, error) {
	m, err := ParseYAML(doc)
	if err != nil {
		return nil, err
	}
	out := map[string][]*Header{}
	for _, op := range OpenAPIOps(m) {
		hs := []*Header{}
		if ps, ok := op.Raw["parameters"].([]any); ok {
			for _, pv := range ps {
				pm, _ := pv.(map[string]any)
				if pm["in"] != "header" {
					continue
				}
				h := &Header{}
				h.Name, _ = pm["name"].(string)
				h.Required, _ = pm["required"].(bool)
				if sm, ok := pm["schema"].(map[string]any); ok {
					h.Type, _ = sm["type"].(string)
					h.Format, _ = sm["format"].(string)
				}
				hs = append(hs, h)
			}
		}
		out[op.OperationID] = hs
	}
	return out, nil
}

func paramKeys(hs []*Header) []string {
	out := []string{}
	for _, h := range hs {
		ty := h.Type
		if ty == "" {
			ty = "string"
		}
		out = append(out, h.Name+"|"+ty+"|"+h.Format+"|"+map[bool]string{true: "required", false: "optional"}[h.Required])
	}
	sort.Strings(out)
	return out
}

// oracleC09 evaluates the property on what the server did, using only the declarations, the request
// and the observation.
func oracleC09(c *c09Case, o *c09Obs) (bool, string) {
	eff := specEffectiveRequired(c.svc.Headers, c.md.Headers)
	bodyVerb := c.md.Verb == "POST" || c.md.Verb == "PUT" || c.md.Verb == "PATCH"
	anyBad := false
	for _, h := range eff {
		v, present := requestHeader(c.lines, h.Name)
		if !present || !specWellFormed(h.Type, h.Format, v) {
			anyBad = true
			if o.Handler {
				return false, fmt.Sprintf("handler ran although required header %s is %s", h.Name, map[bool]string{true: "not well-formed for " + h.Type + "/" + h.Format, false: "absent"}[present])
			}
		}
	}
	published := true
	for _, p := range c.pub {
		v, present := requestHeader(c.lines, p.Name)
		if (!present && p.Required) || (present && !specPublishedOK(p.Type, p.Format, v)) {
			published = false
		}
	}
	headerRejection := o.Status == 400 && !o.Handler && !(len(o.Violations) == 1 && o.Violations[0] == "body")
	switch {
	case o.Handler:
		if o.Status != 200 {
			return false, fmt.Sprintf("handler ran but status %d", o.Status)
		}
		return true, ""
	case headerRejection:
		if published {
			return false, "request satisfies the published header parameters but was rejected for " + strings.Join(o.Violations, ",")
		}
		if o.BodyRead {
			return false, "header rejection after the body was read"
		}
		seen := map[string]bool{}
		for _, f := range o.Violations {
			if seen[f] {
				return false, "two violations for header " + f
			}
			seen[f] = true
			var decl *Header
			for _, h := range eff {
				if h.Name == f {
					decl = h
				}
			}
			if decl == nil {
				return false, "violation names " + f + ", which is not an effective required header"
			}
			if v, present := requestHeader(c.lines, f); present && specPublishedOK(decl.Type, decl.Format, v) {
				return false, "violation for header " + f + " whose value satisfies the published type/format"
			}
		}
		for _, h := range eff {
			v, present := requestHeader(c.lines, h.Name)
			if (!present || !specWellFormed(h.Type, h.Format, v)) && !seen[h.Name] {
				return false, "offending header " + h.Name + " is not listed"
			}
		}
		return true, ""
	case o.Status == 400:
		// body rejection
		if anyBad {
			return false, "a required header is absent or malformed but the rejection is about the body"
		}
		if !bodyVerb || c.body != 1 {
			return false, "body rejection of a request with a well-formed or absent body"
		}
		return true, ""
	}
	return false, fmt.Sprintf("unexpected status %d", o.Status)
}

// z3TagsC09: classes of failing cases outside the model's domain: ParseFloat accepts literals with
// digit-separating underscores and hexadecimal floats as numbers.
func z3TagsC09(c *c09Case, note string) []string {
	for _, h := range specEffectiveRequired(c.svc.Headers, c.md.Headers) {
		if h.Type != "number" {
			continue
		}
		v, _ := requestHeader(c.lines, h.Name)
		u := strings.TrimLeft(v, "+-")
		if strings.Contains(v, "_") || strings.HasPrefix(strings.ToLower(u), "0x") {
			return []string{"number-go-literal-accepted"}
		}
	}
	return nil
}
func dynamicpbNew(md protoreflect.MessageDescriptor) *dynamicpb.Message {
	return dynamicpb.NewMessage(md)
}

func stamp(run *Run, what string) {
	if os.Getenv("VERIF_TIMING") != "" {
		fmt.Fprintf(os.Stderr, "[%6.1fs] %s\n", time.Since(run.Start).Seconds(), what)
	}
}

func CheckC09(run *Run) {
	run.Proof = CheckProofs("C09")
	stamp(run, "proofs checked")
	run.Prepare()
	stamp(run, "plugins built")
	req := HeaderCatalogue()
	s := NewSession(run, []*Request{req})
	s.BuildRuntime(false)
	stamp(run, "runtime built")
	if !s.InRunner[req.ID] {
		run.BuildFailure(fmt.Errorf("the header catalogue's emitted Go server does not build: %s", s.Verdict[req.ID].Output))
	}
	rng := rand.New(rand.NewSource(run.Seed + 909))
	thorough := run.Tier == "thorough"
	var cases []*c09Case
	for _, svc := range req.Files[0].Services {
		oa := s.Gens[0].Results["openapiv3"]
		var doc string
		for n, c := range oa.Files {
			if strings.HasPrefix(n, svc.Name+".openapi.") && strings.HasSuffix(n, ".yaml") {
				doc = c
			}
		}
		params, err := openAPIHeaderParams(doc)
		if err != nil || doc == "" {
			run.Fatal("OpenAPI document of %s: %v", svc.Name, err)
		}
		for _, md := range svc.Methods {
			pub, ok := params[md.Name]
			if !ok {
				run.Fatal("OpenAPI document of %s has no operation %s", svc.Name, md.Name)
			}
			for _, c := range c09CasesFor(svc, md, rng, thorough) {
				c.pub = pub
				cases = append(cases, c)
			}
		}
	}
	// scenarios
	scen := make([]any, len(cases))
	for i, c := range cases {
		target := svc09Path(c.svc, c.md)
		sc := map[string]any{"id": fmt.Sprint(i), "kind": "raw", "pkg": req.ID, "service": c.svc.Name, "verb": c.md.Verb, "target": target,
			"headers": [][2]string{{"Content-Type", "application/json"}}, "script": map[string]any{}}
		var hh [][2]string
		for _, l := range c.lines {
			hh = append(hh, [2]string{l.Name, hex.EncodeToString([]byte(l.Value))})
		}
		sc["headers_hex"] = hh
		if c.md.Verb == "POST" || c.md.Verb == "PUT" || c.md.Verb == "PATCH" {
			switch c.body {
			case 0:
				sc["body"] = hex.EncodeToString([]byte(`{"note":"n"}`))
			case 1:
				sc["body"] = hex.EncodeToString([]byte(`{"note":`))
			}
		}
		scen[i] = sc
	}
	// the TS server side runs concurrently (node + its own model evaluation)
	type tsOut struct {
		note string
		res  []*CaseResult
	}
	tsCh := make(chan tsOut, 1)
	go func() {
		n, r := c09TS(run, s, req, cases)
		tsCh <- tsOut{n, r}
	}()
	raw, err := RunScenarios(s.Runner, scen, 8)
	if err != nil {
		run.Fatal("runner: %v", err)
	}
	stamp(run, "go server driven")
	var ccs []CoqCase
	var results []*CaseResult
	defs, declName := c09Defs(req)
	for i, c := range cases {
		var o RunnerObsX
		if err := json.Unmarshal(raw[i], &o); err != nil {
			run.Fatal("bad observation: %v", err)
		}
		if o.Error != "" {
			run.Fatal("runner error on case %d: %s", i, o.Error)
		}
		obs := &c09Obs{Status: o.Status, Handler: len(o.HandlerCalls) > 0, BodyRead: o.BodyRead, Violations: []string{}}
		if o.Status == 400 {
			if len(o.RespHeader["X-Verif-Unparsable"]) > 0 {
				run.Fatal("case %d: net/http refused the request line/headers: %v", i, o.RespHeader["X-Verif-Unparsable"])
			}
			fs := violationFields(&o.RunnerObs)
			if fs == nil {
				fs = []string{"<undecodable 400 body>"}
			}
			sort.Strings(fs)
			obs.Violations = fs
		}
		holds, note := true, ""
		if o.Panic != "" {
			holds, note = false, "panic: "+firstLine(o.Panic)
		} else if o.Timeout {
			holds, note = false, "timeout"
		} else {
			holds, note = oracleC09(c, obs)
		}
		bodyVerb := c.md.Verb == "POST" || c.md.Verb == "PUT" || c.md.Verb == "PATCH"
		var lineTerms []string
		var lineJ []any
		for _, l := range c.lines {
			lineTerms = append(lineTerms, "("+CoqStr(l.Name)+", "+CoqStr(l.Value)+")")
			lineJ = append(lineJ, []string{l.Name, hex.EncodeToString([]byte(l.Value)), strconv.QuoteToASCII(l.Value)})
		}
		cr := &CaseResult{ID: fmt.Sprintf("%s.%s#%d", c.svc.Name, c.md.Name, i), Family: c.family,
			Input: map[string]any{"service": c.svc.Name, "method": c.md.Name, "verb": c.md.Verb, "service_headers": c.svc.Headers, "method_headers": c.md.Headers,
				"request_headers_name_hex_quoted": lineJ, "body": []string{"valid", "malformed", "absent"}[c.body]},
			Obs: obs, OracleHolds: holds, OracleNote: note, NonTrivial: len(c.lines) > 0,
			Features: []string{c.family, "verb:" + c.md.Verb, "body:" + []string{"valid", "malformed", "absent"}[c.body]}}
		results = append(results, cr)
		ccs = append(ccs, CoqCase{Term: fmt.Sprintf("(%s, %s, [%s], %s, %s)", declName[c.svc.Name], declName[c.svc.Name+"."+c.md.Name],
			strings.Join(lineTerms, "; "), CoqBool(bodyVerb), CoqBool(c.body != 1)), Obs: obs})
	}
	vs, err := CoqRun(run.WorkDir, "c09", "From Sebuf Require Import Text Json Schema Headers.\n", defs, "c09_case", "predict_C09", ccs, 16)
	if err != nil {
		run.Fatal("model evaluation: %v", err)
	}
	// the published parameter list of every operation: emitted OpenAPI document vs CombineHeaders in the model
	var pcs []CoqCase
	var pres []*CaseResult
	seenOp := map[string]bool{}
	for _, c := range cases {
		k := c.svc.Name + "." + c.md.Name
		if seenOp[k] {
			continue
		}
		seenOp[k] = true
		ob := map[string]any{"published": paramKeys(c.pub)}
		pres = append(pres, &CaseResult{ID: "published:" + k, Family: "published-params", Input: map[string]any{"service_headers": c.svc.Headers, "method_headers": c.md.Headers},
			Obs: ob, OracleHolds: true, NonTrivial: len(c.svc.Headers)+len(c.md.Headers) > 0, Features: []string{"openapi"}})
		pcs = append(pcs, CoqCase{Term: "(" + declName[c.svc.Name] + ", " + declName[k] + ")", Obs: ob})
	}
	pvs, err := CoqRun(run.WorkDir, "c09pub", "From Sebuf Require Import Text Json Schema Headers.\n", defs, "(list header * list header)", "predict_C09_published", pcs, 1)
	if err != nil {
		run.Fatal("model evaluation (published): %v", err)
	}
	for i, cr := range pres {
		cr.Apply(pvs[i])
		run.Results = append(run.Results, cr)
	}
	for i, cr := range results {
		cr.Apply(vs[i])
		if cr.Unmodelled != "" && !cr.OracleHolds {
			cr.Tags = z3TagsC09(cases[i], cr.OracleNote)
		}
		run.Results = append(run.Results, cr)
	}
	stamp(run, "go model evaluated")
	pubByOp := map[string][]*Header{}
	for _, c := range cases {
		pubByOp[c.svc.Name+"."+c.md.Name] = c.pub
	}
	run.Results = append(run.Results, c09ClientHelpers(run, s, req, pubByOp)...)
	ts := <-tsCh
	stamp(run, "ts side done")
	run.Results = append(run.Results, ts.res...)
	run.Extra["ts_runtime"] = ts.note
	run.Extra["declarations"] = len(HeaderCombos)
	dumpResults(run)
	run.Finish()
}

// c09Defs names the declaration lists once so that case terms stay small.
func c09Defs(req *Request) (string, map[string]string) {
	var b strings.Builder
	names := map[string]string{}
	for i, svc := range req.Files[0].Services {
		n := fmt.Sprintf("svc_h%d", i)
		names[svc.Name] = n
		fmt.Fprintf(&b, "Definition %s : list header := %s.\n", n, coqHeaders(svc.Headers))
		for j, md := range svc.Methods {
			m := fmt.Sprintf("mth_h%d_%d", i, j)
			names[svc.Name+"."+md.Name] = m
			fmt.Fprintf(&b, "Definition %s : list header := %s.\n", m, coqHeaders(md.Headers))
		}
	}
	return b.String(), names
}

func svc09Path(svc *Service, md *Method) string {
	p := svc.BasePath + md.Path
	return strings.ReplaceAll(p, "{note}", "n")
}

// c09CasesFor builds the request neighbourhoods of one RPC.
func c09CasesFor(svc *Service, md *Method, rng *rand.Rand, thorough bool) []*c09Case {
	var out []*c09Case
	// distinct declared names (first spelling), with the declarations made under each
	type group struct {
		name  string
		decls []*Header
	}
	var groups []*group
	gi := map[string]*group{}
	for _, h := range append(append([]*Header{}, svc.Headers...), md.Headers...) {
		k := strings.ToLower(h.Name)
		g := gi[k]
		if g == nil {
			g = &group{name: h.Name}
			gi[k] = g
			groups = append(groups, g)
		}
		g.decls = append(g.decls, h)
	}
	// baseline: a value good for the last declaration of every name
	baseline := func(except string) []hdrLine {
		var ls []hdrLine
		for _, g := range groups {
			if strings.EqualFold(g.name, except) {
				continue
			}
			d := g.decls[len(g.decls)-1]
			// when a required service declaration survives an optional method declaration, satisfy the survivor
			for _, x := range g.decls {
				if x.Required {
					d = x
				}
			}
			ls = append(ls, hdrLine{g.name, headerGoodValue(d.Type, d.Format)})
		}
		return ls
	}
	add := func(family string, lines []hdrLine, body int) {
		out = append(out, &c09Case{svc: svc, md: md, lines: lines, body: body, family: family})
	}
	spell := func(n string, k int) string {
		switch k % 4 {
		case 1:
			return strings.ToLower(n)
		case 2:
			return strings.ToUpper(n)
		case 3: // alternating case
			b := []byte(strings.ToLower(n))
			for i := 0; i < len(b); i += 2 {
				b[i] = strings.ToUpper(string(b[i]))[0]
			}
			return string(b)
		}
		return n
	}
	// all good / nothing at all / all bodies
	for body := 0; body < 3; body++ {
		add("baseline", baseline(""), body)
		add("no-headers", nil, body)
	}
	k := 0
	for _, g := range groups {
		// missing
		for body := 0; body < 2; body++ {
			add("missing", baseline(g.name), body)
		}
		for _, d := range g.decls {
			directed, dense := headerValuePool(d.Type, d.Format)
			vals := append([]string{}, directed...)
			if thorough {
				vals = append(vals, dense...)
			} else {
				// quick: a fifth of the dense neighbourhood, rotating with the seed
				off := rng.Intn(5)
				for i, v := range dense {
					if i%5 == off {
						vals = append(vals, v)
					}
				}
			}
			for _, v := range vals {
				k++
				body := 0
				if k%5 == 0 {
					body = 1
				}
				if k%11 == 0 {
					body = 2
				}
				lines := append(baseline(g.name), hdrLine{spell(g.name, k), v})
				if k%3 == 0 { // target first
					lines = append([]hdrLine{{spell(g.name, k), v}}, baseline(g.name)...)
				}
				add("value:"+d.Type+"/"+d.Format, lines, body)
			}
			// duplicated header lines: good then bad, bad then good, under different spellings
			good := headerGoodValue(d.Type, d.Format)
			bad := "\xff?"
			add("duplicate-lines", append(baseline(g.name), hdrLine{g.name, good}, hdrLine{strings.ToLower(g.name), bad}), 0)
			add("duplicate-lines", append(baseline(g.name), hdrLine{strings.ToUpper(g.name), bad}, hdrLine{g.name, good}), 0)
			add("duplicate-lines", append(baseline(g.name), hdrLine{g.name, ""}, hdrLine{g.name, good}), 1)
		}
	}
	// several offenders at once
	if len(groups) >= 2 {
		n := 6
		if thorough {
			n = 60
		}
		for i := 0; i < n; i++ {
			var lines []hdrLine
			for _, g := range groups {
				d := g.decls[rng.Intn(len(g.decls))]
				switch rng.Intn(4) {
				case 0: // absent
				case 1:
					lines = append(lines, hdrLine{spell(g.name, rng.Intn(4)), headerGoodValue(d.Type, d.Format)})
				default:
					dir, _ := headerValuePool(d.Type, d.Format)
					lines = append(lines, hdrLine{spell(g.name, rng.Intn(4)), dir[rng.Intn(len(dir))]})
				}
			}
			rng.Shuffle(len(lines), func(a, b int) { lines[a], lines[b] = lines[b], lines[a] })
			add("multi", lines, rng.Intn(3))
		}
	}
	// random integers / numbers around the boundaries (thorough)
	if thorough {
		for _, g := range groups {
			for _, d := range g.decls {
				if d.Type != "integer" && d.Type != "number" {
					continue
				}
				for i := 0; i < 200; i++ {
					var v string
					if d.Type == "integer" {
						x := new(big.Int).Lsh(big.NewInt(1), 63)
						x.Add(x, big.NewInt(int64(rng.Intn(7)-3)))
						if rng.Intn(2) == 0 {
							x.Neg(x)
						}
						v = x.String()
					} else {
						t, _ := new(big.Int).SetString(f64Midpoint, 10)
						t.Add(t, big.NewInt(int64(rng.Intn(5)-2)))
						v = t.String()
						switch rng.Intn(4) {
						case 0:
							v = v[:1] + "." + v[1:] + "e308"
						case 1:
							v = v + "000e-3"
						case 2:
							v = "0." + v + "E+309"
						}
					}
					add("boundary:"+d.Type, append(baseline(g.name), hdrLine{g.name, v}), 0)
				}
			}
		}
	}
	return out
}

// dumpResults writes every case result to $VERIF_DUMP (debugging aid; no effect otherwise).
func dumpResults(run *Run) {
	p := os.Getenv("VERIF_DUMP")
	if p == "" {
		return
	}
	f, err := os.Create(p)
	if err != nil {
		return
	}
	defer f.Close()
	enc := json.NewEncoder(f)
	for _, r := range run.Results {
		enc.Encode(r)
	}
}

// c09ClientHelpers: the generated Go client (it compiles for repeated header declarations since e425100)
// sets headers through its typed helper options; the request it puts on the wire is fed to the same gate
// model and oracle as the raw requests.
func c09ClientHelpers(run *Run, s *Session, req *Request, pub map[string][]*Header) []*CaseResult {
	type hcase struct {
		c            *c09Case
		client, call map[string]string
		want         []hdrLine // what the options ask the client to send
	}
	var hcs []*hcase
	for _, svc := range req.Files[0].Services {
		svcFn := map[string]bool{}
		for _, h := range svc.Headers {
			svcFn[headerFuncName(h.Name)] = true
		}
		for mi, md := range svc.Methods {
			if svc.Name == "Types" && mi%3 != 1 {
				continue
			}
			// one value per distinct helper function
			type hv struct {
				name, fn string
				decl     *Header
			}
			var hs []hv
			seen := map[string]bool{}
			for _, h := range append(append([]*Header{}, svc.Headers...), md.Headers...) {
				fn := headerFuncName(h.Name)
				if seen[fn] {
					for i := range hs {
						if hs[i].fn == fn {
							hs[i].decl = h // the later declaration decides the value used
						}
					}
					continue
				}
				seen[fn] = true
				hs = append(hs, hv{h.Name, fn, h})
			}
			for variant := 0; variant < 3+len(hs); variant++ {
				hc := &hcase{c: &c09Case{svc: svc, md: md, pub: pub[svc.Name+"."+md.Name], family: "client-helper"}, client: map[string]string{}, call: map[string]string{}}
				for i, h := range hs {
					v := headerGoodValue(h.decl.Type, h.decl.Format)
					switch {
					case variant == 1 && i == 0: // first header left out
						continue
					case variant >= 3 && variant-3 == i: // this one gets a value no reading accepts
						v = "\x7e\x7e"
						if h.decl.Type == "array" || (stringTyped(h.decl.Type) && h.decl.Format == "") {
							continue
						}
					}
					if svcFn[h.fn] && variant != 2 {
						hc.client[h.fn] = v
					} else {
						hc.call[h.fn] = v
					}
					hc.want = append(hc.want, hdrLine{h.name, v})
				}
				hcs = append(hcs, hc)
			}
		}
	}
	scen := make([]any, len(hcs))
	for i, hc := range hcs {
		in := s.Gens[0].Built.MessageDesc("rthdr.v1.Req")
		m := dynamicpbNew(in)
		SetField(m, "note", "n")
		scen[i] = map[string]any{"id": fmt.Sprint(i), "kind": "call", "pkg": req.ID, "service": hc.c.svc.Name, "method": hc.c.md.Name, "req": WireHex(m),
			"script": map[string]any{}, "opts": map[string]any{"ContentType": "application/json", "HelperClient": hc.client, "HelperCall": hc.call}}
	}
	raw, err := RunScenarios(s.Runner, scen, 4)
	if err != nil {
		run.Fatal("runner: %v", err)
	}
	defs, declName := c09Defs(req)
	var ccs []CoqCase
	var results []*CaseResult
	for i, hc := range hcs {
		var o RunnerObsX
		if err := json.Unmarshal(raw[i], &o); err != nil || o.Error != "" {
			run.Fatal("client-helper case %d: %v %s", i, err, o.Error)
		}
		c := hc.c
		declared := map[string]bool{}
		for _, h := range append(append([]*Header{}, c.svc.Headers...), c.md.Headers...) {
			declared[strings.ToLower(h.Name)] = true
		}
		holds, note := true, ""
		if len(o.Requests) == 0 {
			holds, note = false, "the client sent no request"
		} else {
			var names []string
			for k := range o.Requests[0].Header {
				if declared[strings.ToLower(k)] {
					names = append(names, k)
				}
			}
			sort.Strings(names)
			for _, k := range names {
				for _, v := range o.Requests[0].Header[k] {
					c.lines = append(c.lines, hdrLine{k, v})
				}
			}
		}
		obs := &c09Obs{Status: o.Status, Handler: len(o.HandlerCalls) > 0, BodyRead: false, Violations: []string{}}
		if o.Status == 400 {
			fs := violationFields(&o.RunnerObs)
			if fs == nil {
				fs = []string{"<undecodable 400 body>"}
			}
			sort.Strings(fs)
			obs.Violations = fs
		}
		// the runner does not count body reads on the client path: take the model's word structurally
		// (body read iff the gate passed on a body verb), checked on the raw path
		bodyVerb := c.md.Verb == "POST" || c.md.Verb == "PUT" || c.md.Verb == "PATCH"
		obs.BodyRead = obs.Handler && bodyVerb
		if holds {
			// every header asked for through a helper option is on the wire with that value
			// (two declarations that differ in letter case only address the same HTTP header: one of the
			// requested values is sent)
			for _, w := range hc.want {
				v, ok := requestHeader(c.lines, w.Name)
				match := false
				for _, w2 := range hc.want {
					if strings.EqualFold(w2.Name, w.Name) && w2.Value == v {
						match = true
					}
				}
				if !ok || !match {
					holds, note = false, "helper option for "+w.Name+" did not put the value on the wire"
				}
			}
		}
		if holds {
			holds, note = oracleC09(c, obs)
		}
		var lineTerms []string
		var lineJ []any
		for _, l := range c.lines {
			lineTerms = append(lineTerms, "("+CoqStr(l.Name)+", "+CoqStr(l.Value)+")")
			lineJ = append(lineJ, []string{l.Name, l.Value})
		}
		cr := &CaseResult{ID: fmt.Sprintf("helper:%s.%s#%d", c.svc.Name, c.md.Name, i), Family: c.family,
			Input: map[string]any{"service": c.svc.Name, "method": c.md.Name, "helper_client": hc.client, "helper_call": hc.call, "request_headers_on_the_wire": lineJ},
			Obs:   obs, OracleHolds: holds, OracleNote: note, NonTrivial: true, Features: []string{"client-helper", "verb:" + c.md.Verb}}
		results = append(results, cr)
		ccs = append(ccs, CoqCase{Term: fmt.Sprintf("(%s, %s, [%s], %s, true)", declName[c.svc.Name], declName[c.svc.Name+"."+c.md.Name],
			strings.Join(lineTerms, "; "), CoqBool(bodyVerb)), Obs: obs})
	}
	vs, err := CoqRun(run.WorkDir, "c09helper", "From Sebuf Require Import Text Json Schema Headers.\n", defs, "c09_case", "predict_C09", ccs, 4)
	if err != nil {
		run.Fatal("model evaluation (client helpers): %v", err)
	}
	for i, cr := range results {
		cr.Apply(vs[i])
	}
	return results
}
