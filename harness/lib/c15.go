package lib

import (
	"bytes"
	"context"
	"encoding/json"
	"fmt"
	"math/rand"
	"os"
	"os/exec"
	"path/filepath"
	"sort"
	"strings"
	"sync"
	"syscall"
	"time"

	"google.golang.org/protobuf/proto"
	"google.golang.org/protobuf/types/descriptorpb"
	"google.golang.org/protobuf/types/pluginpb"
)

// RunPluginEnv is RunPlugin with extra environment variables for the plugin process
// (e.g. GOMAXPROCS=1); every call is a fresh process, hence a fresh map-iteration seed.
func RunPluginEnv(bin string, name string, req *pluginpb.CodeGeneratorRequest, timeout time.Duration, memMB int, env []string) *PluginResult {
	res := &PluginResult{Plugin: name, Files: map[string]string{}}
	in, err := proto.Marshal(req)
	if err != nil {
		res.Exit = "crash"
		res.Error = "marshal: " + err.Error()
		return res
	}
	ctx, cancel := context.WithTimeout(context.Background(), timeout)
	defer cancel()
	cmd := exec.CommandContext(ctx, "/bin/sh", "-c", fmt.Sprintf("ulimit -v %d; exec %q", memMB*1024, bin))
	cmd.Env = append(os.Environ(), env...)
	cmd.Stdin = bytes.NewReader(in)
	var stdout, stderr bytes.Buffer
	cmd.Stdout, cmd.Stderr = &stdout, &stderr
	cmd.SysProcAttr = &syscall.SysProcAttr{Setpgid: true}
	cmd.Cancel = func() error { return syscall.Kill(-cmd.Process.Pid, syscall.SIGKILL) }
	err = cmd.Run()
	if ctx.Err() == context.DeadlineExceeded {
		res.Exit = "timeout"
		return res
	}
	if err != nil {
		res.Exit = "crash"
		res.Error = err.Error() + " " + tail(stderr.String(), 300)
		return res
	}
	res.Raw = stdout.Bytes()
	var resp pluginpb.CodeGeneratorResponse
	if err := proto.Unmarshal(stdout.Bytes(), &resp); err != nil {
		res.Exit = "crash"
		res.Error = "bad response: " + err.Error()
		return res
	}
	if resp.Error != nil {
		res.Exit = "error-response"
		res.Error = resp.GetError()
	} else {
		res.Exit = "ok"
	}
	for _, f := range resp.File {
		res.Files[f.GetName()] = f.GetContent()
		res.Names = append(res.Names, f.GetName())
	}
	return res
}

// ---- request variants ---------------------------------------------------------------------------------

type c15Shape struct {
	name   string
	files  []*File  // request files in proto_file order (user files only)
	gen    []string // file_to_generate
	env    []string
	params map[string]string // per plugin, overrides the default parameter
}

// unrelatedFile: a file in its own proto and Go package, with messages that carry unwrap fields, a
// map of them, enums and a service with headers — nothing the subject files refer to.
func unrelatedFile() *File {
	pkg := "zzunrelated.v1"
	return &File{Path: "zzunrelated/zz.proto", Package: pkg, GoPackage: "verifgen/zzunrelated;zzunrelated", Generate: false,
		Enums: []*Enum{E("Aaa", "AAA_UNSPECIFIED", "AAA_ONE")},
		Messages: []*Message{
			M("Bar", F("t", 1, "int64", I64("NUMBER"))), M("BarList", F("bars", 1, "", Msg(pkg+".Bar"), Rep(), Unwrap())),
			M("Series", F("by", 1, "", Msg(pkg+".BarList"), MapOf("string")), F("e", 2, "", EnumT(pkg+".Aaa"))),
			M("Req", F("id", 1, "string"))},
		Services: []*Service{Svc("Zz", "/zz", RPC("Get", pkg+".Req", pkg+".Series", "POST", "/g")).WithHeaders(&Header{Name: "X-Zz", Type: "string", Required: true})}}
}

func cloneFile(f *File, generate bool) *File {
	c := *f
	c.Generate = generate
	return &c
}

// abstract request for Order.v
func coqOrderRequest(files []*File, gen []string) string {
	var fs []string
	for _, f := range files {
		var ms []string
		var walk func(prefix string, list []*Message)
		walk = func(prefix string, list []*Message) {
			for _, m := range list {
				name := qual(prefix, m.Name)
				unwrap := "None"
				var mapvals, refs []string
				for _, fld := range m.Fields {
					if fld.Unwrap {
						unwrap = fmt.Sprintf("(Some %d%%nat)", fld.Number)
					}
					if fld.Kind == "message" {
						if fld.Card == "map" {
							mapvals = append(mapvals, fld.TypeName)
						} else {
							refs = append(refs, fld.TypeName)
						}
					}
				}
				ms = append(ms, fmt.Sprintf("{| om_name := %s; om_unwrap := %s; om_mapvals := %s; om_refs := %s; om_body := 0 |}",
					CoqStr(name), unwrap, CoqStrList(mapvals), CoqStrList(refs)))
				walk(name, m.Nested)
			}
		}
		walk(f.Package, f.Messages)
		fs = append(fs, fmt.Sprintf("{| of_path := %s; of_imports := %s; of_msgs := [%s]; of_body := 0 |}", CoqStr(f.Path), CoqStrList(f.Imports), strings.Join(ms, ";\n   ")))
	}
	return fmt.Sprintf("{| rq_files := [%s]; rq_gen := %s |}", strings.Join(fs, ";\n  "), CoqStrList(gen))
}

// ownerOf attributes an output file name to the .proto file it is generated for.
func ownerOf(name string, files []*File) string {
	best, bestLen := "", -1
	for _, f := range files {
		prefix := strings.TrimSuffix(f.Path, ".proto")
		base := filepath.Base(prefix)
		switch {
		case strings.HasPrefix(name, prefix+"_") || name == prefix+".pb.go":
			if len(prefix) > bestLen {
				best, bestLen = f.Path, len(prefix)
			}
		case strings.HasSuffix(name, "/"+base+"_client.ts") || strings.HasSuffix(name, "/"+base+"_server.ts") || name == base+"_client.ts" || name == base+"_server.ts":
			if len(base) > bestLen {
				best, bestLen = f.Path, len(base)
			}
		default:
			for _, s := range f.Services {
				if name == s.Name+".openapi.yaml" || name == s.Name+".openapi.json" {
					if bestLen < 0 {
						best, bestLen = f.Path, 0
					}
				}
			}
		}
	}
	return best
}

type c15Run struct {
	results map[string]*PluginResult // by plugin
}

func c15Params(plugin string, over map[string]string) string {
	if v, ok := over[plugin]; ok {
		return v
	}
	if plugin == "go-http" || plugin == "go-client" {
		return "paths=source_relative"
	}
	return ""
}

func runShape(binDir string, sh *c15Shape) (*c15Run, error) {
	r := &Request{ID: sh.name, Files: sh.files}
	b, err := BuildDescriptors(r)
	if err != nil {
		return nil, err
	}
	out := &c15Run{results: map[string]*PluginResult{}}
	for _, p := range Plugins {
		out.results[p] = RunPluginEnv(filepath.Join(binDir, "protoc-gen-"+p), p, MakeCGR(b.All, sh.gen, c15Params(p, sh.params)), 20*time.Second, 4096, sh.env)
	}
	return out, nil
}

// compareRuns: per subject .proto path, are all outputs attributed to it byte-identical in both runs
// (same names, same bytes, same generation outcome)?
func compareRuns(a, b *c15Run, files []*File, subjects []string, commonOnly bool) (map[string]bool, []string, int) {
	compared := 0
	eq := map[string]bool{}
	for _, s := range subjects {
		eq[s] = true
	}
	var notes []string
	for _, p := range Plugins {
		ra, rb := a.results[p], b.results[p]
		if ra.Exit != rb.Exit {
			for _, s := range subjects {
				eq[s] = false
			}
			notes = append(notes, fmt.Sprintf("%s: outcome %s vs %s (%s | %s)", p, ra.Exit, rb.Exit, firstLine(ra.Error), firstLine(rb.Error)))
			continue
		}
		names := map[string]bool{}
		for n := range ra.Files {
			names[n] = true
		}
		for n := range rb.Files {
			names[n] = true
		}
		for n := range names {
			owner := ownerOf(n, files)
			if _, ok := eq[owner]; !ok {
				continue
			}
			ca, oka := ra.Files[n]
			cb, okb := rb.Files[n]
			if oka != okb {
				if commonOnly {
					continue
				}
				eq[owner] = false
				notes = append(notes, fmt.Sprintf("%s: %s emitted in one run only", p, n))
				continue
			}
			compared++
			if ca != cb {
				eq[owner] = false
				notes = append(notes, fmt.Sprintf("%s: %s differs (%s)", p, n, firstDiffLine(ca, cb)))
			}
		}
	}
	sort.Strings(notes)
	return eq, notes, compared
}

func firstDiffLine(a, b string) string {
	la, lb := strings.Split(a, "\n"), strings.Split(b, "\n")
	for i := 0; i < len(la) && i < len(lb); i++ {
		if la[i] != lb[i] {
			x, y := la[i], lb[i]
			if len(x) > 80 {
				x = x[:80]
			}
			if len(y) > 80 {
				y = y[:80]
			}
			return fmt.Sprintf("line %d: %q vs %q", i+1, x, y)
		}
	}
	return fmt.Sprintf("length %d vs %d lines", len(la), len(lb))
}

// C15Catalogue: requests whose generation touches every place where order could leak.
func C15Catalogue() []*Request {
	out := append(FeatureCatalogue(), RouteCatalogue()[:3]...)
	out = append(out, KindsRequest())
	{ // many headers at both levels (CombineHeaders), many enums (sorted by full name in TS), nested types
		id := "ordhdr"
		pkg := id + ".v1"
		var enums []*Enum
		for _, n := range []string{"Zeta", "Alpha", "Mid", "Beta"} {
			enums = append(enums, E(n, strings.ToUpper(n)+"_UNSPECIFIED", strings.ToUpper(n)+"_ONE"))
		}
		msg := M("Req", F("id", 1, "string"))
		resp := M("Resp", F("ok", 1, "bool"))
		for i, e := range enums {
			resp.Fields = append(resp.Fields, F("e"+string(rune('a'+i)), int32(i+2), "", EnumT(pkg+"."+e.Name)))
		}
		hs := func(names ...string) []*Header {
			var l []*Header
			for _, n := range names {
				l = append(l, &Header{Name: n, Type: "string", Required: true})
			}
			return l
		}
		svc := Svc("Hdr", "/h", RPC("One", pkg+".Req", pkg+".Resp", "POST", "/one").WithHeaders(hs("X-Zulu", "X-Alpha", "X-Mike", "X-Svc-B")...),
			RPC("Two", pkg+".Req", pkg+".Resp", "GET", "/two/{id}").WithHeaders(hs("X-Bravo", "X-Yankee")...)).WithHeaders(hs("X-Svc-C", "X-Svc-A", "X-Svc-B")...)
		out = append(out, buildReq(id, enums, []*Message{msg, resp}, svc))
	}
	{ // unwrap across files: the value type of A's map lives in b.proto (root and non-root unwrap), c.proto is unrelated
		pkg := "ordmulti.v1"
		gp := "verifgen/ordmulti;ordmulti"
		b := &File{Path: "ordmulti/b.proto", Package: pkg, GoPackage: gp, Generate: true,
			Messages: []*Message{M("Bar", F("t", 1, "int64"), F("sym", 2, "string")), M("BarList", F("bars", 1, "", Msg(pkg+".Bar"), Rep(), Unwrap())),
				M("Page", F("items", 1, "", Msg(pkg+".Bar"), Rep(), Unwrap()), F("next", 2, "string")), M("Names", F("vals", 1, "string", Rep(), Unwrap()))}}
		a := &File{Path: "ordmulti/a.proto", Package: pkg, GoPackage: gp, Generate: true, Imports: []string{"ordmulti/b.proto"},
			Messages: []*Message{M("Series", F("by_sym", 1, "", Msg(pkg+".BarList"), MapOf("string")), F("pages", 2, "", Msg(pkg+".Page"), MapOf("string")),
				F("names", 3, "", Msg(pkg+".Names"), MapOf("string")), F("label", 4, "string")),
				M("Root", F("all", 1, "", Msg(pkg+".BarList"), MapOf("string"), Unwrap())), M("Req", F("id", 1, "string"))},
			Services: []*Service{Svc("Market", "/m", RPC("GetSeries", pkg+".Req", pkg+".Series", "POST", "/series"), RPC("GetRoot", pkg+".Req", pkg+".Root", "POST", "/root"))}}
		c := &File{Path: "ordmulti/c.proto", Package: pkg, GoPackage: gp, Generate: true,
			Messages: []*Message{M("Other", F("x", 1, "string"), F("when", 2, "", Msg(Timestamp), TsFmt("UNIX_SECONDS"))), M("OtherList", F("xs", 1, "", Msg(pkg+".Other"), Rep(), Unwrap()))}}
		out = append(out, &Request{ID: "ordmulti", Files: []*File{b, a, c}, Tags: []string{"order"}})
	}
	// every multi-file request of the other catalogues
	for _, r := range append(BuildCatalogue(), MockCatalogue()...) {
		if len(r.Files) > 1 {
			r.Params = nil
			out = append(out, r)
		}
	}
	return out
}

// C15ClashCatalogue: for every collection the generators sort (header names: annotations.CombineHeaders;
// enum full names: tscommon OrderedEnums) or keep in definition order (schemas, paths, query parameters,
// enum values), pairs of names that are DIFFERENT but equal under a plausible coarser key — case,
// '-' vs '_', trailing slash.  A sort by anything coarser than the exact name leaves such a pair in
// the order the Go map happened to yield: these few requests are repeated often enough (fresh
// process = fresh map seed) that a 2-element clash escapes with probability 2^-(repeats).
func C15ClashCatalogue() []*Request {
	var out []*Request
	hs := func(names ...string) []*Header {
		var l []*Header
		for _, n := range names {
			l = append(l, &Header{Name: n, Type: "string", Required: true})
		}
		return l
	}
	{
		id := "ordclashhdr"
		pkg := id + ".v1"
		svc := Svc("Hdr", "/h",
			RPC("Case", pkg+".Req", pkg+".Resp", "POST", "/case").WithHeaders(hs("X-Request-ID", "x-tenant", "X-TRACE")...),
			RPC("Dash", pkg+".Req", pkg+".Resp", "POST", "/dash").WithHeaders(hs("X_Api_Key", "X-Api_Key", "X-Other")...),
			RPC("Both", pkg+".Req", pkg+".Resp", "PUT", "/both").WithHeaders(hs("x-request-id", "X-REQUEST-ID", "X-Api-key")...),
		).WithHeaders(hs("X-Request-Id", "X-Tenant", "X-Trace", "X-Api-Key")...)
		r := buildReq(id, nil, []*Message{M("Req", F("id", 1, "string")), M("Resp", F("ok", 1, "bool"))}, svc)
		r.Tags = []string{"order", "clash"}
		out = append(out, r)
	}
	{ // enum types, enum values, messages whose names differ only in case; query parameters and paths likewise
		id := "ordclashnames"
		pkg := id + ".v1"
		enums := []*Enum{E("Color", "COLOR_UNSPECIFIED", "COLOR_RED"), E("COLOR", "C_UNSPECIFIED", "C_RED") /* enum VALUES equal up to case are refused by the descriptor pool itself */, E("color", "LC_UNSPECIFIED", "LC_ONE")}
		msgs := []*Message{
			M("Item", F("a", 1, "string"), F("c1", 2, "", EnumT(pkg+".Color")), F("c2", 3, "", EnumT(pkg+".COLOR")), F("c3", 4, "", EnumT(pkg+".color"))),
			M("ITEM", F("b", 1, "string"), F("item", 2, "", Msg(pkg+".Item"))),
			M("Resp", F("one", 1, "", Msg(pkg+".Item")), F("two", 2, "", Msg(pkg+".ITEM"))),
			M("Q", F("page", 1, "string", Query("page", false)), F("page_upper", 2, "string", Query("Page", false)), F("page_caps", 3, "string", Query("PAGE", false))),
			M("Req", F("id", 1, "string")),
		}
		svc := Svc("Names", "/n",
			RPC("ListLower", pkg+".Q", pkg+".Resp", "GET", "/items"),
			RPC("ListSlash", pkg+".Q", pkg+".Resp", "GET", "/items/"),
			RPC("ListUpper", pkg+".Q", pkg+".Resp", "GET", "/Items"),
			RPC("PostLower", pkg+".Req", pkg+".Resp", "POST", "/items"),
			RPC("PostUpper", pkg+".Req", pkg+".Resp", "POST", "/ITEMS"),
		)
		r := buildReq(id, enums, msgs, svc)
		r.Tags = []string{"order", "clash"}
		out = append(out, r)
	}
	return out
}

// C15SharedCatalogue: invocations whose generated files SHARE messages. Every annotation-driven schema
// shape of the feature catalogue (flattened / nested discriminated oneof, plain oneof, flatten with and
// without prefix, unwrap in all forms, nullable, empty_behavior, int64 / enum / timestamp / bytes
// encodings, nested declarations, odd names) is defined in a "common" file of its own and reached —
// directly as request/response type and transitively through a wrapper — from services in two OTHER
// files (feed.proto, audit.proto). A generator that keeps anything per process (memo tables, "already
// emitted" sets, name registries) across the files or services of one invocation makes the output of
// the file generated second differ from what it is when generated first or alone; CheckC15 runs every
// multi-file request under both orders of file_to_generate, rotated, and one file at a time.
// Variants: the common files are generated too / only imported; a third service next to the first.
func C15SharedCatalogue() []*Request {
	groups := []struct {
		name string
		ids  []string
	}{
		{"oneof", []string{"ftoneof", "ftoneofflat"}},
		{"flat", []string{"ftflat", "ftflatmw"}},
		{"unwrap", []string{"ftunwrap"}},
		{"enc", []string{"fti64", "fti64rep", "fti64opt", "fti64map", "ftenum", "ftnull", "ftempty", "ftts", "fttsrep", "ftbytes", "ftbytesrep", "ftbytesopt", "fttwo", "fttwob"}},
		{"plain", []string{"ftplain", "ftnames", "ftnest"}},
	}
	var out []*Request
	for _, g := range groups {
		for _, variant := range []string{"gen", "imp", "three"} {
			if variant == "three" && g.name != "oneof" && g.name != "flat" {
				continue
			}
			byID := map[string]*Request{}
			for _, r := range FeatureCatalogue() { // fresh objects: the files are rewritten below
				if len(r.Files) == 1 {
					byID[r.ID] = r
				}
			}
			id := "ordsh" + g.name + variant
			pkg := id + ".v1"
			gp := "verifgen/" + id + "/api;api"
			var commons []*File
			var tops []string
			for _, fid := range g.ids {
				r := byID[fid]
				if r == nil {
					continue
				}
				f := r.Files[0]
				for _, s := range f.Services {
					for _, m := range s.Methods {
						tops = append(tops, m.In)
					}
				}
				f.Services = nil
				f.Path = id + "/" + fid + ".proto"
				f.GoPackage = "verifgen/" + id + "/" + fid + ";" + fid
				f.Generate = variant != "imp"
				commons = append(commons, f)
			}
			var imports []string
			for _, c := range commons {
				imports = append(imports, c.Path)
			}
			side := func(name, base string, extraSvc bool) *File {
				f := &File{Path: id + "/" + strings.ToLower(name) + ".proto", Package: pkg, GoPackage: gp, Generate: true, Imports: imports,
					Messages: []*Message{M(name+"Req", F("id", 1, "string"))}}
				svc := &Service{Name: name + "Service", BasePath: base, HasConfig: true}
				admin := &Service{Name: name + "AdminService", BasePath: base + "/admin", HasConfig: true}
				for k, t := range tops {
					page := fmt.Sprintf("%sPage%d", name, k)
					f.Messages = append(f.Messages, M(page, F("one", 1, "", Msg(t)), F("many", 2, "", Msg(t), Rep()), F("cursor", 3, "string")))
					svc.Methods = append(svc.Methods,
						RPC(fmt.Sprintf("Get%d", k), t, t, "POST", fmt.Sprintf("/direct/%d", k)),
						RPC(fmt.Sprintf("List%d", k), pkg+"."+name+"Req", pkg+"."+page, "POST", fmt.Sprintf("/list/%d", k)))
					admin.Methods = append(admin.Methods, RPC(fmt.Sprintf("Purge%d", k), pkg+"."+page, t, "PUT", fmt.Sprintf("/purge/%d", k)))
				}
				f.Services = []*Service{svc}
				if extraSvc {
					f.Services = append(f.Services, admin)
				}
				return f
			}
			feed := side("Feed", "/feed", variant == "three")
			audit := side("Audit", "/audit", false)
			out = append(out, &Request{ID: id, Files: append(append([]*File{}, commons...), feed, audit), Tags: []string{"order", "shared"}})
		}
	}
	return out
}

func hasTag(r *Request, tag string) bool {
	for _, t := range r.Tags {
		if t == tag {
			return true
		}
	}
	return false
}

func CheckC15(run *Run) {
	run.Proof = CheckProofs("C15")
	run.Prepare()
	reqs := append(C15ClashCatalogue(), C15Catalogue()...)
	reqs = append(reqs, C15SharedCatalogue()...)
	reqs = append(reqs, C15SameNameCatalogue()...)
	reqs = append(reqs, C15ManyCatalogue()...)
	repeats := 3
	clashRepeats := 24 // 2^-24 chance to miss a two-name clash left in map order
	// "many" requests (C15ManyCatalogue): a Go map of TWO entries is walked in reversed order by about one
	// process in eight (one bucket of eight slots, random start slot), so the chance that the baseline and all
	// n repeats walk it alike is (7/8)^(n+1) + (1/8)^(n+1): 0.00049 for n = 56.  Larger maps deviate far more often.
	manyRepeats := 56
	if run.Tier == "thorough" {
		repeats = 12
		reqs = append(reqs, RuntimeCatalogue()...)
		for _, r := range BuildCatalogue() {
			if len(r.Files) == 1 {
				reqs = append(reqs, r)
			}
		}
	}
	nRandom := 6
	if run.Tier == "thorough" {
		nRandom = 80
	}
	reqs = append(reqs, RandomBuildRequests(rand.New(rand.NewSource(run.Seed+15)), nRandom)...)

	type cmp struct {
		req      *Request
		name     string
		a, b     *c15Shape
		subjects []string
		common   bool // compare only names present in both runs (parameter variants that add files)
	}
	var cmps []*cmp
	for _, r := range reqs {
		var gen []string
		for _, f := range r.Files {
			if f.Generate {
				gen = append(gen, f.Path)
			}
		}
		base := &c15Shape{name: r.ID, files: r.Files, gen: gen}
		add := func(name string, b *c15Shape, subjects []string, common bool) {
			cmps = append(cmps, &cmp{req: r, name: name, a: base, b: b, subjects: subjects, common: common})
		}
		n := repeats
		if hasTag(r, "clash") {
			n = clashRepeats
		}
		if hasTag(r, "many") && n < manyRepeats {
			n = manyRepeats
		}
		for k := 0; k < n; k++ {
			add(fmt.Sprintf("repeat-%d", k), &c15Shape{name: r.ID, files: r.Files, gen: gen}, gen, false)
		}
		add("gomaxprocs-1", &c15Shape{name: r.ID, files: r.Files, gen: gen, env: []string{"GOMAXPROCS=1"}}, gen, false)
		add("gomaxprocs-8-gogc-1", &c15Shape{name: r.ID, files: r.Files, gen: gen, env: []string{"GOMAXPROCS=8", "GOGC=1"}}, gen, false)
		// unrelated file: in proto_file only (first / last), and also generated
		un := unrelatedFile()
		add("extra-file-first", &c15Shape{name: r.ID, files: append([]*File{un}, r.Files...), gen: gen}, gen, false)
		add("extra-file-last", &c15Shape{name: r.ID, files: append(append([]*File{}, r.Files...), un), gen: gen}, gen, false)
		add("extra-file-generated", &c15Shape{name: r.ID, files: append(append([]*File{}, r.Files...), cloneFile(un, true)), gen: append(append([]string{}, gen...), un.Path)}, gen, false)
		add("extra-file-generated-first", &c15Shape{name: r.ID, files: append([]*File{cloneFile(un, true)}, r.Files...), gen: append([]string{un.Path}, gen...)}, gen, false)
		// parameter spellings
		add("param-mock-false", &c15Shape{name: r.ID, files: r.Files, gen: gen, params: map[string]string{"go-http": "paths=source_relative,generate_mock=false"}}, gen, false)
		add("param-openapi-yaml", &c15Shape{name: r.ID, files: r.Files, gen: gen, params: map[string]string{"openapiv3": "format=yaml"}}, gen, false)
		add("param-openapi-yml-spaces", &c15Shape{name: r.ID, files: r.Files, gen: gen, params: map[string]string{"openapiv3": " format = yml ,other=1"}}, gen, false)
		add("param-openapi-unknown-format", &c15Shape{name: r.ID, files: r.Files, gen: gen, params: map[string]string{"openapiv3": "format=bogus"}}, gen, false)
		if len(gen) > 1 {
			rev := make([]string, len(gen))
			for i, g := range gen {
				rev[len(gen)-1-i] = g
			}
			add("file-to-generate-reversed", &c15Shape{name: r.ID, files: r.Files, gen: rev}, gen, false)
			add("file-to-generate-rotated", &c15Shape{name: r.ID, files: r.Files, gen: append(append([]string{}, gen[1:]...), gen[0])}, gen, false)
			for _, g := range gen {
				add("single-file:"+g, &c15Shape{name: r.ID, files: r.Files, gen: []string{g}}, []string{g}, false)
			}
		}
	}
	// run every distinct shape once (the baseline of a request is shared by its comparisons)
	type key struct{ s *c15Shape }
	runs := map[*c15Shape]*c15Run{}
	var order []*c15Shape
	for _, c := range cmps {
		for _, s := range []*c15Shape{c.a, c.b} {
			if _, ok := runs[s]; !ok {
				runs[s] = nil
				order = append(order, s)
			}
		}
	}
	var mu sync.Mutex
	var wg sync.WaitGroup
	sem := make(chan struct{}, 16)
	var firstErr error
	for _, s := range order {
		wg.Add(1)
		go func(s *c15Shape) {
			defer wg.Done()
			sem <- struct{}{}
			defer func() { <-sem }()
			r, err := runShape(run.BinDir, s)
			mu.Lock()
			runs[s] = r
			if err != nil && firstErr == nil {
				firstErr = fmt.Errorf("%s: %v", s.name, err)
			}
			mu.Unlock()
		}(s)
	}
	wg.Wait()
	if firstErr != nil {
		run.Fatal("descriptor build: %v", firstErr)
	}
	var ccs []CoqCase
	var crs []*CaseResult
	filesCompared := 0
	for _, c := range cmps {
		ra, rb := runs[c.a], runs[c.b]
		eq, notes, nfiles := compareRuns(ra, rb, c.b.files, c.subjects, c.common)
		filesCompared += nfiles
		holds := len(notes) == 0
		for _, v := range eq {
			if !v {
				holds = false
			}
		}
		// identical requests must give identical response bytes, file order included
		if strings.HasPrefix(c.name, "repeat-") || strings.HasPrefix(c.name, "gomaxprocs") {
			for _, p := range Plugins {
				if !bytes.Equal(ra.results[p].Raw, rb.results[p].Raw) {
					holds = false
					notes = append(notes, p+": response bytes differ between two runs of the same request")
				}
			}
		}
		eqObs := map[string]any{}
		for k, v := range eq {
			eqObs[k] = v
		}
		obs := map[string]any{"equal": eqObs}
		cr := &CaseResult{ID: c.req.ID + "/" + c.name, Family: strings.SplitN(c.name, ":", 2)[0], Input: map[string]any{"schema": c.req.ID, "variant": c.name, "subjects": c.subjects},
			Obs: obs, OracleHolds: holds, OracleNote: strings.Join(notes, " | "), NonTrivial: true, Features: []string{strings.SplitN(strings.SplitN(c.name, ":", 2)[0], "-", 2)[0]}}
		if strings.HasPrefix(c.name, "repeat-") {
			cr.Family = "repeat"
		}
		crs = append(crs, cr)
		ccs = append(ccs, CoqCase{Term: "(" + coqOrderRequest(c.a.files, c.a.gen) + ",\n " + coqOrderRequest(c.b.files, c.b.gen) + ",\n " + CoqStrList(c.subjects) + ")", Obs: obs})
	}
	// Many comparisons put the SAME question to the model (the repeats, GOMAXPROCS and parameter variants of one
	// request compare two identical abstract requests and nearly always observe the same thing): evaluate each
	// distinct (term, observation) pair once and give its verdict to every comparison that asked it.
	uniqIdx := map[string]int{}
	var uniq []CoqCase
	slot := make([]int, len(ccs))
	for j, cc := range ccs {
		ob, _ := json.Marshal(Canon(cc.Obs))
		k := cc.Term + "\x00" + string(ob)
		u, ok := uniqIdx[k]
		if !ok {
			u = len(uniq)
			uniqIdx[k] = u
			uniq = append(uniq, cc)
		}
		slot[j] = u
	}
	// the comparisons of one request sit next to each other and the large requests (many shared files)
	// make large terms: deal the cases round-robin over the shards CoqRun cuts (contiguous blocks)
	const shards = 16
	var perm []int
	for r := 0; r < shards; r++ {
		for j := r; j < len(uniq); j += shards {
			perm = append(perm, j)
		}
	}
	dealt := make([]CoqCase, len(uniq))
	for k, j := range perm {
		dealt[k] = uniq[j]
	}
	vs, err := CoqRun(run.WorkDir, "c15", "From Sebuf Require Import Text Json Order.\n", "", "(request * request * list str)", "predict_C15", dealt, shards)
	if err != nil {
		run.Fatal("model evaluation: %v", err)
	}
	uv := make([]CoqVerdict, len(uniq))
	for k, j := range perm {
		uv[j] = vs[k]
	}
	for j := range crs {
		crs[j].Apply(uv[slot[j]])
	}
	run.Extra["model_evaluations"] = len(uniq)
	// Outside the model: Order.v's files carry messages only.  protoc-gen-openapiv3 names its output <Service>.openapi.<ext>,
	// so two generated files that declare a service of the same name (other packages) write ONE file name and the later one
	// wins (C18's finding service-name-collision seen from C15).  Those comparisons are oracle-only; a failure is the listed
	// finding only if the OpenAPI document is the sole output that differs.
	for i, c := range cmps {
		if !hasTag(c.req, "same-names") {
			continue
		}
		cr := crs[i]
		cr.Unmodelled = "two generated files declare services of the same name (the model's files carry messages only)"
		cr.Agree = true
		cr.Pred = nil
		if !cr.OracleHolds {
			only := true
			for _, part := range strings.Split(cr.OracleNote, " | ") {
				if !strings.HasPrefix(part, "openapiv3: ") && !strings.HasSuffix(part, "emitted in one run only") {
					only = false
				}
			}
			if only && strings.Contains(cr.OracleNote, ".openapi.") {
				cr.Tags = []string{"z3:openapi-output-name-shared-by-homonymous-services"}
			}
		}
	}
	run.Results = append(run.Results, crs...)
	run.Extra["plugin_processes"] = len(order) * len(Plugins)
	run.Extra["comparisons"] = len(cmps)
	run.Extra["output_files_compared"] = filesCompared
	run.Extra["note"] = "every plugin execution is a fresh process (fresh map-iteration seed); outputs are compared byte for byte per output file name, and whole responses for repeated identical requests"
	DumpResults(run)
	run.Finish()
}

var _ = descriptorpb.FileDescriptorProto{}

// C15SameNameCatalogue: files of one invocation that declare things with the SAME simple names (service, RPC, request
// and response message) in different packages, with different service/method headers, paths and query parameters.  What
// a plugin emits for one file must not depend on the homonyms of the other.
func C15SameNameCatalogue() []*Request {
	mk := func(id string, same bool) *Request {
		v1, v2 := id+".v1", id+".v2"
		f1 := &File{Path: id + "/v1/account.proto", Package: v1, GoPackage: "verifgen/" + id + "/v1;accountv1", Generate: true,
			Messages: []*Message{M("GetRequest", F("id", 1, "string"), F("view", 2, "string", Query("view", false))), M("Account", F("id", 1, "string"), F("name", 2, "string"))},
			Services: []*Service{Svc("AccountService", "/v1", RPC("GetAccount", v1+".GetRequest", v1+".Account", "GET", "/accounts/{id}").
				WithHeaders(&Header{Name: "X-Trace", Type: "string", Required: false})).
				WithHeaders(&Header{Name: "X-API-Key", Type: "string", Required: true})}}
		h2 := &Header{Name: "X-Auth-Token", Type: "string", Format: "uuid", Required: true}
		if same {
			h2 = &Header{Name: "X-API-Key", Type: "string", Required: true}
		}
		f2 := &File{Path: id + "/v2/account.proto", Package: v2, GoPackage: "verifgen/" + id + "/v2;accountv2", Generate: true,
			Messages: []*Message{M("GetRequest", F("account_id", 1, "string"), F("page", 2, "int32", Query("page", true))), M("Account", F("account_id", 1, "string"), F("big", 2, "int64", I64("NUMBER")))},
			Services: []*Service{Svc("AccountService", "/v2", RPC("GetAccount", v2+".GetRequest", v2+".Account", "GET", "/accts/{account_id}").
				WithHeaders(&Header{Name: "X-Request-ID", Type: "integer", Required: true})).
				WithHeaders(h2)}}
		return &Request{ID: id, Files: []*File{f1, f2}, Tags: []string{"order", "same-names"}}
	}
	return []*Request{mk("ordsame", false), mk("ordsamehdr", true)}
}
