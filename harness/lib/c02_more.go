package lib

import (
	"fmt"
	"math/rand"
	"net/url"
	"strings"

	"google.golang.org/protobuf/reflect/protoreflect"
	"google.golang.org/protobuf/types/dynamicpb"
)

// ---- C02: query parameters x presence shapes, and values holding separators ------------------------
//
// (a) PRESENCE.  A query-annotated field may be a plain proto3 field (implicit presence), a proto3
//     `optional` field (member of a SYNTHETIC oneof: FieldDescriptorProto.proto3_optional + a `_name` oneof),
//     a member of a real oneof, or repeated; each with required:true/false; on bodiless verbs and on body
//     verbs.  The contract publishes every one of them as a query parameter (OpenAPI, both clients), so each
//     must reach the handler with the URL's value, be a 400 when malformed and - when required - a 400 when
//     missing.  For a field with explicit presence the URL's zero value ("" / 0 / false) arrives as PRESENT.
// (b) SEPARATORS.  One occurrence of a parameter is ONE element/value whatever characters its decoded
//     value holds (OpenAPI style:form exploded; both clients emit one occurrence per element): "," ";" "|"
//     " " "&" "=" "+" and the literal text "%2C".  For a number such a value is not convertible: 400 naming
//     the field.

var c02PresKinds = []string{"string", "int32", "int64", "uint64", "bool", "double"}

// C02PresenceRequest: server-only package; service Pres = per kind the parameter in every presence shape on
// GET / DELETE (every field URL-bound) and POST (body fields next to them); service One = members of real
// oneofs as query parameters.
func C02PresenceRequest() *Request {
	id := "rtpres"
	pkg := "rtpres.v1"
	f := &File{Messages: []*Message{M("Resp", F("ok", 1, "bool"))}}
	svc := Svc("Pres", "/pr")
	for i, k := range c02PresKinds {
		name := fmt.Sprintf("K%d", i)
		f.Messages = append(f.Messages, M(name+"Q",
			F("id", 1, "string"),
			F("plain", 2, k, Query("plain", false)),
			F("opt", 3, k, Opt(), Query("opt", false)),
			F("opt_req", 5, k, Opt(), Query("oreq", true)),
			F("list", 6, k, Rep(), Query("list", false))))
		f.Messages = append(f.Messages, M(name+"Req",
			F("id", 1, "string"),
			F("plain", 2, k, Query("plain", false)),
			F("opt", 3, k, Opt(), Query("opt", false)),
			F("note", 4, "string"),
			F("opt_req", 5, k, Opt(), Query("oreq", true)),
			F("list", 6, k, Rep(), Query("list", false)),
			F("o_body", 7, k, Opt())))
		// the required flags the other way round, no path variable
		f.Messages = append(f.Messages, M(name+"Alt",
			F("opt", 1, k, Opt(), Query("", false)),
			F("plain_req", 2, k, Query("preq", true))))
		svc.Methods = append(svc.Methods,
			RPC("Get"+name, pkg+"."+name+"Q", pkg+".Resp", "GET", fmt.Sprintf("/g%d/{id}", i)),
			RPC("Del"+name, pkg+"."+name+"Q", pkg+".Resp", "DELETE", fmt.Sprintf("/d%d/{id}", i)),
			RPC("Post"+name, pkg+"."+name+"Req", pkg+".Resp", "POST", fmt.Sprintf("/p%d/{id}", i)))
		verb := []string{"GET", "POST", "PUT", "DELETE", "PATCH"}[i%5]
		svc.Methods = append(svc.Methods, RPC("Alt"+name, pkg+"."+name+"Alt", pkg+".Resp", verb, fmt.Sprintf("/alt%d", i)))
	}
	// members of a real oneof
	f.Messages = append(f.Messages,
		M("OneQ", F("id", 1, "string"),
			F("by_name", 2, "string", InOneof("sel"), Query("name", false)),
			F("by_num", 3, "int64", InOneof("sel"), Query("num", false)),
			F("by_flag", 4, "bool", InOneof("sel"), Query("flag", false)),
			F("page", 7, "int32", Query("page", false))).WithOneofs(&Oneof{Name: "sel"}),
		M("OneReq", F("id", 1, "string"),
			F("by_name", 2, "string", InOneof("sel"), Query("name", false)),
			F("by_num", 3, "int64", InOneof("sel"), Query("num", false)),
			F("by_flag", 4, "bool", InOneof("sel"), Query("flag", false)),
			F("by_body", 5, "string", InOneof("sel")),
			F("note", 6, "string"),
			F("page", 7, "int32", Query("page", false))).WithOneofs(&Oneof{Name: "sel"}),
		M("OneRequiredQ", F("id", 1, "string"),
			F("a", 2, "uint32", InOneof("pick"), Query("a", true)),
			F("c", 5, "string", InOneof("other"), Query("", false))).WithOneofs(&Oneof{Name: "pick"}, &Oneof{Name: "other"}),
		M("OneRequired", F("id", 1, "string"),
			F("a", 2, "uint32", InOneof("pick"), Query("a", true)),
			F("b", 3, "string", InOneof("pick")),
			F("note", 4, "string"),
			F("c", 5, "string", InOneof("other"), Query("", false)),
			F("d", 6, "int32", InOneof("other"))).WithOneofs(&Oneof{Name: "pick"}, &Oneof{Name: "other"}))
	one := Svc("One", "/one",
		RPC("GetOne", pkg+".OneQ", pkg+".Resp", "GET", "/g/{id}"),
		RPC("DelOne", pkg+".OneQ", pkg+".Resp", "DELETE", "/d/{id}"),
		RPC("PostOne", pkg+".OneReq", pkg+".Resp", "POST", "/p/{id}"),
		RPC("PutOne", pkg+".OneReq", pkg+".Resp", "PUT", "/u/{id}"),
		RPC("GetReq", pkg+".OneRequiredQ", pkg+".Resp", "GET", "/rg/{id}"),
		RPC("PostReq", pkg+".OneRequired", pkg+".Resp", "POST", "/rp/{id}"),
		RPC("PatchReq", pkg+".OneRequired", pkg+".Resp", "PATCH", "/rq/{id}"))
	f.Services = []*Service{svc, one}
	r := OneFile(id, pkg, f)
	r.Tags = []string{"runtime", "server-only", "query-presence"}
	return r
}

// C02MoreRequests: the schemas this file adds to C02's catalogue.
func C02MoreRequests() []*Request { return []*Request{C02PresenceRequest()} }

// c02SepCandidates: raw (already escaped) spellings of values holding separators and reserved characters.
func c02SepCandidates(kind string) []string {
	switch kind {
	case "string":
		return []string{"%2C", ",", "a%2Cb", "a,b", "%2C%2C", ",,", "a%2Cb%2Cc", "%2Ca", "a%2C", "a%3Bb", "a%7Cb", "a|b", "a%20b%2Cc", "a+b,c",
			"%252C", "a%252Cb", "a%26b", "a%3Db", "a=b", "a%2Bb", "%2C%20", "1,2"}
	case "bool":
		return []string{"true%2Cfalse", "true,false", "1,0", "%2C", "true%2C", "true%3Bfalse", "true%20", "t|f"}
	case "double", "float":
		return []string{"1.5%2C2", "1.5,2", "1,5", "%2C", "1%2C", "1%3B2", "1%7C2", "1+2", "1%202"}
	case "uint32", "fixed32", "uint64", "fixed64":
		return []string{"1%2C2", "1,2", "%2C", ",", "1%2C", "%2C1", "1,", "1%3B2", "1%7C2", "1|2", "1+2", "1%202", "1%262", "1%3D2", "1=2", "1,2,3"}
	}
	// signed integers
	return []string{"1%2C2", "1,2", "%2C", ",", "1%2C", "%2C1", "1,", "1%3B2", "1%7C2", "1|2", "1+2", "1%202", "1%262", "1%3D2", "1=2", "-1,-2", "1%2C-2", "%2B1", "1,2,3"}
}

// c02ZeroSpelling / c02Malformed: the zero value and one unconvertible spelling per kind ("" for string: none).
func c02ZeroSpelling(kind string) string {
	switch kind {
	case "string":
		return ""
	case "bool":
		return "false"
	}
	return "0"
}

func c02Malformed(kind string) string {
	switch kind {
	case "string":
		return ""
	case "bool":
		return "maybe"
	}
	return "12x"
}

func c02QName(f *Field) string {
	if f.Query.Name != "" {
		return f.Query.Name
	}
	return f.Name
}

// c02Body fills the body of a raw case: mode 0 none, 1 empty, 2 "{}", 3/4 JSON/binary object omitting the
// URL-bound fields, 5 JSON object that sets the body-only members (oneof siblings, optional body fields).
func c02Body(rc *rawCase, mode int, desc protoreflect.MessageDescriptor, vg *ValueGen, pathVars []string, qfs []*Field) {
	switch mode {
	case 0:
	case 1:
		rc.bodyRaw = []byte{}
	case 2:
		rc.bodyFmt, rc.bodyMsg = 0, dynamicpb.NewMessage(desc)
	default:
		m := vg.Random(desc, 0.9)
		for _, pv := range pathVars {
			if fd := m.Descriptor().Fields().ByName(protoreflect.Name(pv)); fd != nil {
				m.Clear(fd)
			}
		}
		for _, qf := range qfs {
			m.Clear(m.Descriptor().Fields().ByName(protoreflect.Name(qf.Name)))
		}
		rc.bodyFmt, rc.bodyMsg = 0, m
		if mode == 4 {
			rc.bodyFmt = 1
		}
	}
	rc.ct = 0
	if rc.bodyFmt == 1 {
		rc.ct = 1
	}
}

// c02MoreCases: the deterministic part (every query field of the chosen schemas x presence spellings x
// separator spellings, bodies rotating) plus a seeded random part.
func c02MoreCases(run *Run, reqs []*Request, s *Session, rng *rand.Rand, vg *ValueGen) []*rawCase {
	var out []*rawCase
	n := 0
	chosen := map[string]bool{"rtpres": true, "rtraw": true, "rtkinds": true, "rtsib": true}
	for i, r := range reqs {
		if !chosen[r.ID] || !s.InRunner[r.ID] {
			continue
		}
		g := s.Gens[i]
		for _, f := range r.Files {
			routes := GoServerRoutes(g.Results["go-http"].Files[genPrefix(f)+"_http.pb.go"])
			for _, svc := range f.Services {
				for _, md := range svc.Methods {
					rt := routes[lowerFirst(md.Name)]
					if rt == nil || !strings.HasPrefix(rt.Path, "/") {
						continue
					}
					in, _ := r.FindMessage(md.In)
					var qfs []*Field
					for _, fl := range in.Fields {
						if fl.Query != nil && goConvertible(fl.Kind) && (fl.Card == "singular" || fl.Card == "optional" || fl.Card == "repeated") {
							qfs = append(qfs, fl)
						}
					}
					if len(qfs) == 0 {
						continue
					}
					var allQ []*Field
					for _, fl := range in.Fields {
						if fl.Query != nil {
							allQ = append(allQ, fl)
						}
					}
					p := rt.Path
					for _, pv := range rt.PathVars {
						kind := "string"
						for _, fl := range in.Fields {
							if fl.Name == pv {
								kind = fl.Kind
							}
						}
						p = strings.Replace(p, "{"+pv+"}", urlCandidates(kind)[0], 1)
					}
					desc := g.Built.MessageDesc(md.In)
					bodyVerb := rt.Verb == "POST" || rt.Verb == "PUT" || rt.Verb == "PATCH"
					mk := func(self *Field, own []string, dropRequired bool) {
						n++
						var qs []string
						for _, o := range allQ {
							if o == self {
								continue
							}
							if o.Oneof != "" && self != nil && o.Oneof == self.Oneof {
								continue // one member per oneof
							}
							if !goConvertible(o.Kind) {
								continue
							}
							if o.Query.Required && !dropRequired || !o.Query.Required && (n+len(o.Name))%3 == 0 {
								qs = append(qs, url.QueryEscape(c02QName(o))+"="+urlCandidates(o.Kind)[0])
							}
						}
						pos := 0
						if len(qs) > 0 {
							pos = n % (len(qs) + 1)
						}
						qs = append(append(append([]string{}, qs[:pos]...), own...), qs[pos:]...)
						rc := &rawCase{req: r, g: g, svc: svc, md: md, verb: rt.Verb, path: p, query: strings.Join(qs, "&"), bodyFmt: -1, pattern: rt.Path}
						mode := 0
						if bodyVerb {
							mode = n % 5
						} else if n%7 == 0 {
							mode = 2 + n%3
						}
						c02Body(rc, mode, desc, vg, rt.PathVars, allQ)
						out = append(out, rc)
					}
					for fi, qf := range qfs {
						name := url.QueryEscape(c02QName(qf))
						c0 := urlCandidates(qf.Kind)[0]
						// presence spellings: a value, the zero value, absent, key only, malformed, required missing
						if r.ID != "rtkinds" {
							mk(qf, []string{name + "=" + c0}, false)
							mk(qf, []string{name + "=" + c02ZeroSpelling(qf.Kind)}, false)
							if qf.Query.Required {
								mk(qf, nil, false)
							}
							if bad := c02Malformed(qf.Kind); bad != "" {
								mk(qf, []string{name + "=" + bad}, false)
							} else {
								mk(qf, []string{name}, false)
							}
						}
						if fi == 0 {
							mk(nil, nil, true) // nothing but the path: every required parameter is missing
						}
						// separator spellings
						seps := c02SepCandidates(qf.Kind)
						for ci, v := range seps {
							switch {
							case qf.Card == "repeated" && r.ID == "rtraw":
								mk(qf, []string{name + "=" + v}, false)
								if (ci+n)%2 == 0 {
									mk(qf, []string{name + "=" + v, name + "=" + c0}, false)
								} else {
									mk(qf, []string{name + "=" + c0, name + "=" + v}, false)
								}
							case qf.Card == "repeated":
								// per kind: the three verbs of a kind cover the spellings, alone or next to a second occurrence
								if (ci+n)%4 != 0 || strings.HasPrefix(md.Name, "Del") {
									continue
								}
								switch (ci + fi + n) % 3 {
								case 0:
									mk(qf, []string{name + "=" + v}, false)
								case 1:
									mk(qf, []string{name + "=" + v, name + "=" + c0}, false)
								case 2:
									mk(qf, []string{name + "=" + c0, name + "=" + v}, false)
								}
							case r.ID == "rtpres":
								// scalars: a quarter of the spellings per (route, field) of the fields with explicit presence
								if (ci+n)%4 == 0 && (qf.Card == "optional" || qf.Oneof != "") && !qf.Query.Required && !strings.HasPrefix(md.Name, "Del") {
									mk(qf, []string{name + "=" + v}, false)
								}
							case r.ID == "rtkinds":
								if (ci+n)%4 == 0 && qf.Name == "qv" {
									mk(qf, []string{name + "=" + v}, false)
								}
							default:
								if (ci+n)%4 == 0 {
									mk(qf, []string{name + "=" + v}, false)
								}
							}
						}
					}
					// seeded: random mixes of the spellings over all parameters of the route
					nr := 2
					if r.ID == "rtkinds" || r.ID == "rtpres" {
						nr = 1
					}
					if run.Tier == "thorough" {
						nr = 40
					}
					for k := 0; k < nr; k++ {
						n++
						var qs []string
						for _, qf := range allQ {
							if !goConvertible(qf.Kind) {
								continue
							}
							name := url.QueryEscape(c02QName(qf))
							pool := append(append([]string{c02ZeroSpelling(qf.Kind)}, urlCandidates(qf.Kind)...), c02SepCandidates(qf.Kind)...)
							switch rng.Intn(5) {
							case 0:
								if qf.Query.Required {
									qs = append(qs, name+"="+pool[1])
								}
							case 1, 2:
								qs = append(qs, name+"="+pool[rng.Intn(len(pool))])
							case 3:
								qs = append(qs, name+"="+pool[rng.Intn(len(pool))], name+"="+pool[rng.Intn(len(pool))])
							case 4:
								qs = append(qs, name+"="+pool[rng.Intn(len(pool))], "zz=1,2", name+"="+pool[rng.Intn(len(pool))], name+"="+pool[rng.Intn(len(pool))])
							}
						}
						rng.Shuffle(len(qs), func(a, b int) { qs[a], qs[b] = qs[b], qs[a] })
						rc := &rawCase{req: r, g: g, svc: svc, md: md, verb: rt.Verb, path: p, query: strings.Join(qs, "&"), bodyFmt: -1, pattern: rt.Path}
						c02Body(rc, rng.Intn(5), desc, vg, rt.PathVars, allQ)
						out = append(out, rc)
					}
				}
			}
		}
	}
	return out
}

func goConvertible(kind string) bool {
	_, ok := goConvert(kind, "0")
	return ok || kind == "string"
}
