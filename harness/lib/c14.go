package lib

import (
	"encoding/hex"
	"encoding/json"
	"fmt"
	"math/rand"
	"path/filepath"
	"reflect"
	"regexp"
	"sort"
	"strings"

	"google.golang.org/protobuf/types/dynamicpb"
)

// c14.go — C14 "go-http and go-client emit interchangeable codec files".
//
// Three families:
//   file-sets            both Go plugins on every schema; the emitted names (in order) are compared with
//                        coq/theories/Files.v; oracle: every codec file the server plugin emits is also
//                        emitted by the client plugin (otherwise a client-only package lacks those methods).
//   same-name-identical  direct check, no model: files of the same name are byte-identical after the
//                        first (generator) header line.
//   client-only-codec    a package built from protoc-gen-go + protoc-gen-go-client alone and one built from
//                        protoc-gen-go + protoc-gen-go-http alone marshal / unmarshal the same values;
//                        compared: JSON documents (parsed) and decoded messages (wire bytes);
//                        the model predicts which types carry their own MarshalJSON on each side.

// CloneRenamed deep-copies a request, replacing its ID everywhere (package, paths, type names).
func CloneRenamed(r *Request, newID string) *Request {
	b, err := json.Marshal(r)
	if err != nil {
		panic(err)
	}
	var out Request
	if err := json.Unmarshal([]byte(strings.ReplaceAll(string(b), r.ID, newID)), &out); err != nil {
		panic(err)
	}
	return &out
}

// SvclessVariant moves all messages and enums of a single-file request into a second generated
// file without services (same proto and Go package); nil when the request is not single-file.
func SvclessVariant(r *Request) *Request {
	if len(r.Files) != 1 || len(r.Files[0].Services) == 0 {
		return nil
	}
	c := CloneRenamed(r, r.ID+"sl")
	api := c.Files[0]
	types := &File{Path: c.ID + "/types.proto", Package: api.Package, GoPackage: api.GoPackage, Generate: true, Messages: api.Messages, Enums: api.Enums}
	api.Messages, api.Enums = nil, nil
	api.Imports = append(api.Imports, types.Path)
	c.Files = []*File{types, api}
	c.Tags = append(c.Tags, "svcless-variant")
	return c
}

// ---- nested declarations × codec feature -------------------------------------------------------------
// For every codec feature one schema with four declaration trees:
//   (a) TopAndNested : the feature on a top-level message AND on a message declared inside it
//   (b) OnlyNested   : only on the nested message
//   (c) Siblings     : on two sibling nested messages of an un-annotated parent
//   (d) Deep         : on a nested message and on a message declared inside that one (two levels)
//   (e) Hollow       : on messages declared inside field-less parents (one and two levels)
// plus (in the thorough tier) one schema per tree.
var c14Features = []string{"int64", "enum", "nullable", "empty", "timestamp", "bytes", "flatten", "oneof", "unwrap"}

// c14Annotated returns a message `name` (declared at `full`, fully qualified) carrying the feature.
func c14Annotated(feature, name, full, leaf string) *Message {
	switch feature {
	case "int64":
		return M(name, F("big", 1, "int64", I64("NUMBER")), F("label", 2, "string"))
	case "enum":
		up := strings.ToUpper(name)
		return M(name, F("state", 1, "", EnumT(full+".State")), F("label", 2, "string")).WithEnums(
			&Enum{Name: "State", Values: []*EnumValue{{Name: up + "_STATE_UNSPECIFIED", Number: 0}, {Name: up + "_STATE_ON", Number: 1, EnumValue: Str("on-" + strings.ToLower(name))}}})
	case "nullable":
		return M(name, F("nick", 1, "string", Opt(), Nullable(true)), F("label", 2, "string"))
	case "empty":
		return M(name, F("meta", 1, "", Msg(leaf), Empty("NULL")), F("label", 2, "string"))
	case "timestamp":
		return M(name, F("at", 1, "", Msg(Timestamp), TsFmt("UNIX_MILLIS")), F("label", 2, "string"))
	case "bytes":
		return M(name, F("raw", 1, "bytes", BytesEnc("HEX")), F("label", 2, "string"))
	case "flatten":
		return M(name, F("home", 1, "", Msg(leaf), Flatten(true)), F("label", 2, "string"))
	case "oneof":
		return M(name, F("label", 1, "string"), F("text", 2, "", Msg(leaf), InOneof("payload")), F("note", 3, "string", InOneof("payload"))).WithOneofs(&Oneof{Name: "payload", HasConfig: true, Discriminator: "kind"})
	case "unwrap":
		return M(name, F("items", 1, "", Msg(leaf), Rep(), Unwrap()))
	}
	panic(feature)
}

func c14Plain(name string) *Message { return M(name, F("label", 1, "string"), F("n", 2, "int32")) }

func c14NestedTrees(feature, pkg string) map[string]*Message {
	leaf := pkg + ".Leaf"
	an := func(name, full string) *Message { return c14Annotated(feature, name, full, leaf) }
	return map[string]*Message{
		"a": an("TopAndNested", pkg+".TopAndNested").WithNested(an("Inner", pkg+".TopAndNested.Inner")),
		"b": c14Plain("OnlyNested").WithNested(an("Inner", pkg+".OnlyNested.Inner")),
		"c": c14Plain("Siblings").WithNested(an("First", pkg+".Siblings.First"), c14Plain("Between"), an("Second", pkg+".Siblings.Second")),
		"d": c14Plain("Deep").WithNested(an("Mid", pkg+".Deep.Mid").WithNested(an("Bottom", pkg+".Deep.Mid.Bottom"), c14Plain("Aside"))),
		// (e) Hollow: parents WITHOUT fields of their own (pure namespaces), one and two levels
		"e": M("Hollow").WithNested(an("Inner", pkg+".Hollow.Inner"), M("HollowMid").WithNested(an("Deep", pkg+".Hollow.HollowMid.Deep"))),
	}
}

func c14RequestOf(id string, msgs []*Message) *Request {
	pkg := id + ".v1"
	f := &File{Messages: append([]*Message{M("Leaf", F("street", 1, "string"), F("zip", 2, "string"))}, msgs...)}
	svc := &Service{Name: "Echo", BasePath: "/" + id, HasConfig: true}
	var walk func(prefix string, ms []*Message)
	n := 0
	walk = func(prefix string, ms []*Message) {
		for _, m := range ms {
			full := prefix + "." + m.Name
			n++
			svc.Methods = append(svc.Methods, RPC(fmt.Sprintf("Echo%d", n), full, full, "POST", fmt.Sprintf("/echo/%d", n)))
			walk(full, m.Nested)
		}
	}
	walk(pkg, msgs)
	f.Services = []*Service{svc}
	r := OneFile(id, pkg, f)
	r.Tags = []string{"nested-declarations"}
	return r
}

// C14NestedCatalogue: nested declarations × codec feature.
func C14NestedCatalogue(tier string) []*Request {
	var out []*Request
	for _, ft := range c14Features {
		id := "ftnd" + ft
		trees := c14NestedTrees(ft, id+".v1")
		r := c14RequestOf(id, []*Message{trees["a"], trees["b"], trees["c"], trees["d"], trees["e"]})
		r.Tags = append(r.Tags, ft)
		out = append(out, r)
		if tier == "thorough" {
			for _, k := range []string{"a", "b", "c", "d", "e"} {
				id := "ftnd" + ft + k
				r := c14RequestOf(id, []*Message{c14NestedTrees(ft, id+".v1")[k]})
				r.Tags = append(r.Tags, ft, "tree-"+k)
				out = append(out, r)
			}
		}
	}
	// codecs that are no-ops on their own message (empty_behavior PRESERVE only, bytes BASE64, timestamp RFC3339, int64 STRING)
	// but make the message a json.Marshaler: visible when ANOTHER codec hands the message to encoding/json
	// (flatten child, flattened oneof variant, sibling map value of an unwrap map)
	{
		id := "ftndnoop"
		pkg := id + ".v1"
		leaf := pkg + ".Leaf"
		prof := M("Profile", F("display_name", 1, "string"), F("follower_count", 2, "int64"), F("meta", 3, "", Msg(leaf), Empty("PRESERVE")))
		blob := M("Blob", F("raw_data", 1, "bytes", BytesEnc("BASE64")), F("big_count", 2, "int64"))
		stamp := M("Stamp", F("made_at", 1, "", Msg(Timestamp), TsFmt("RFC3339")), F("big_count", 2, "int64"))
		r := c14RequestOf(id, []*Message{prof, blob, stamp,
			M("Account", F("aid", 1, "string"), F("profile", 2, "", Msg(pkg+".Profile"), Flatten(true))),
			M("Holder", F("hid", 1, "string"), F("blob", 2, "", Msg(pkg+".Blob"), Flatten(true), FlattenPrefix("b_")), F("stamp", 3, "", Msg(pkg+".Stamp"), Flatten(true), FlattenPrefix("s_")))})
		// (not included: such a message as the variant of a FLATTENED discriminated oneof — the decoder model of Codec.v is
		// not exact there (it keeps multi-word variant fields the emitted decoder drops); that region is also the open
		// sub-case of C04_roundtrip_oneof_partial, see DESIGN.md section 12)
		r.Tags = append(r.Tags, "noop-codecs")
		out = append(out, r)
	}
	// flatten below flatten, with and without prefixes at either level (the decoder enumerates the inlined keys)
	{
		id := "ftndflatnest"
		pkg := id + ".v1"
		geo := M("Geo", F("zip", 1, "string"), F("lat_deg", 2, "int32"))
		addr := M("Addr", F("street", 1, "string"), F("geo", 2, "", Msg(pkg+".Geo"), Flatten(true)))
		addrP := M("AddrP", F("street", 1, "string"), F("geo", 2, "", Msg(pkg+".Geo"), Flatten(true), FlattenPrefix("geo_")))
		r := c14RequestOf(id, []*Message{geo, addr, addrP,
			M("OrderA", F("oid", 1, "string"), F("ship", 2, "", Msg(pkg+".Addr"), Flatten(true), FlattenPrefix("ship_"))),
			M("OrderB", F("oid", 1, "string"), F("ship", 2, "", Msg(pkg+".AddrP"), Flatten(true), FlattenPrefix("ship_")), F("bill", 3, "", Msg(pkg+".AddrP"), Flatten(true), FlattenPrefix("bill_"))),
			M("OrderC", F("oid", 1, "string"), F("ship", 2, "", Msg(pkg+".Addr"), Flatten(true)))})
		r.Tags = append(r.Tags, "flatten", "nested-flatten")
		out = append(out, r)
	}
	return out
}

var c14MarshalRe = regexp.MustCompile(`(?m)^func \(x \*?([A-Za-z0-9_]+)\) MarshalJSON\(`)

// c14FileTypes lists, per emitted codec file, the receiver types of its MarshalJSON methods in order.
func c14FileTypes(x *PluginResult) map[string]any {
	out := map[string]any{}
	if x.Exit != "ok" {
		return out
	}
	for n, c := range x.Files {
		if !c14IsCodecFile(n) {
			continue
		}
		ts := []string{}
		for _, m := range c14MarshalRe.FindAllStringSubmatch(c, -1) {
			ts = append(ts, m[1])
		}
		out[n] = ts
	}
	return out
}

var c14CodecSuffixes = []string{"_unwrap.pb.go", "_encoding.pb.go", "_enum_encoding.pb.go", "_nullable.pb.go", "_empty_behavior.pb.go",
	"_timestamp_format.pb.go", "_bytes_encoding.pb.go", "_flatten.pb.go", "_oneof_discriminator.pb.go"}

func c14IsCodecFile(name string) bool {
	for _, s := range c14CodecSuffixes {
		if strings.HasSuffix(name, s) {
			return true
		}
	}
	return false
}

func c14DropFirstLine(s string) string {
	if i := strings.IndexByte(s, '\n'); i >= 0 {
		return s[i+1:]
	}
	return ""
}

// c14BuildSubset writes every request's package with the given plugin subset into its own work module
// and links a runner with the packages that compile.
func c14BuildSubset(run *Run, reqs []*Request, gens []*GenOutput, tag string, withServer, withClient bool) (string, map[string]*BuildVerdict) {
	s := &Session{Run: run}
	w, err := NewGoWork(fmt.Sprintf("%s-%s-%s-%s", run.Property, run.Tier, run.TreeHash, tag))
	if err != nil {
		run.Fatal("%v", err)
	}
	var dirs []string
	for i, r := range reqs {
		files, ok := s.PackageFiles(gens[i], withServer, withClient)
		if !ok {
			continue
		}
		gopkgs := map[string]bool{}
		hasSvc := false
		for _, f := range r.Files {
			if f.Generate {
				gopkgs[f.GoPackage] = true
				if len(f.Services) > 0 {
					hasSvc = true
				}
			}
		}
		if len(gopkgs) != 1 {
			continue
		}
		var gp string
		for k := range gopkgs {
			gp = k
		}
		dir := strings.TrimPrefix(goImportPath(gp), "verifgen/")
		hasMock := false
		for n := range files {
			if strings.HasSuffix(n, "_http_mock.pb.go") {
				hasMock = true
			}
		}
		files[filepath.Join(dir, "zz_verif_shim.go")] = ShimSource(r, gp, withServer && hasSvc, withClient && hasSvc, hasMock && withServer)
		if err := w.WritePackage(files); err != nil {
			run.Fatal("%v", err)
		}
		dirs = append(dirs, dir)
	}
	sort.Strings(dirs)
	verdict := w.BuildDirs(dirs, false)
	var good []string
	for _, d := range dirs {
		if verdict[d].Build {
			good = append(good, d)
		}
	}
	bin, err := w.BuildRunner(good)
	if err != nil {
		run.Fatal("%v", err)
	}
	return bin, verdict
}

type c14CodecObs struct {
	OutHex string `json:"out_hex"`
	OutErr string `json:"out_err"`
	Custom bool   `json:"custom"`
	Error  string `json:"error"`
}

func c14RunCodec(run *Run, bin string, scen []any) []c14CodecObs {
	raws, err := RunScenarios(bin, scen, 4)
	if err != nil {
		run.Fatal("codec runner: %v", err)
	}
	out := make([]c14CodecObs, len(raws))
	for i, r := range raws {
		if err := json.Unmarshal(r, &out[i]); err != nil {
			run.Fatal("codec runner output: %v", err)
		}
		if out[i].Error != "" {
			run.Fatal("codec scenario %d: %s", i, out[i].Error)
		}
	}
	return out
}

// c14JSONSame compares two JSON texts as documents (protojson varies its whitespace per binary).
func c14JSONSame(aHex, bHex string) bool {
	a, _ := hex.DecodeString(aHex)
	b, _ := hex.DecodeString(bHex)
	var x, y any
	da := json.NewDecoder(strings.NewReader(string(a)))
	da.UseNumber()
	db := json.NewDecoder(strings.NewReader(string(b)))
	db.UseNumber()
	if da.Decode(&x) != nil || db.Decode(&y) != nil {
		return string(a) == string(b)
	}
	return reflect.DeepEqual(x, y) // strict: the number 1 and the string "1" differ
}

func CheckC14(run *Run) {
	run.Proof = CheckProofs("C14")
	run.Prepare()
	rng := rand.New(rand.NewSource(run.Seed + 1414))

	// ---- schemas ----
	var reqs []*Request
	mock := map[string]bool{}
	feats := FeatureCatalogue()
	reqs = append(reqs, feats...)
	for _, r := range feats {
		if v := SvclessVariant(r); v != nil {
			card := false
			for _, t := range r.Tags {
				if t == "card" || t == "two-features" || t == "names" || t == "headers" {
					card = true
				}
			}
			if !card || run.Tier == "thorough" {
				reqs = append(reqs, v)
			}
		}
	}
	reqs = append(reqs, C14NestedCatalogue(run.Tier)...)
	behaviour := len(reqs) // the schemas above are also built and driven
	reqs = append(reqs, RuntimeCatalogue()...)
	// annotation texts that need escaping in emitted string literals (file sets and byte parity only)
	reqs = append(reqs, HostileTextCatalogue()...)
	// generate_mock variants (file names only)
	for _, id := range []string{"ftflat", "ftmulti", "ftnull"} {
		for _, r := range feats {
			if r.ID == id {
				c := CloneRenamed(r, r.ID+"mk")
				c.Params = map[string]string{"go-http": "generate_mock=true"}
				mock[c.ID] = true
				reqs = append(reqs, c)
			}
		}
	}
	// accepted and refused definitions of the C12 catalogue (rich surroundings: many codec files at once)
	nC12 := 0
	for _, c := range C12Catalogue(rng, "quick") {
		if run.Tier == "thorough" || (c.Surround == "rich" && (c.Family == "near-miss-valid" || (c.Family == "rule-placement" && nC12%9 == 0))) {
			reqs = append(reqs, c.Req)
		}
		if c.Family == "rule-placement" {
			nC12++
		}
	}
	gens := ParallelGen(run.BinDir, reqs)
	for i, r := range reqs {
		if gens[i].BuildErr != "" {
			run.Fatal("descriptor build failed for %s: %s", r.ID, gens[i].BuildErr)
		}
	}

	// ---- families file-sets and same-name-identical ----
	var ccs []CoqCase
	var crs []*CaseResult
	for i, r := range reqs {
		g := gens[i]
		h, c := g.Results["go-http"], g.Results["go-client"]
		names := func(x *PluginResult) []string {
			if x.Exit != "ok" {
				return []string{}
			}
			return append([]string{}, x.Names...)
		}
		obs := map[string]any{"go-http": names(h), "go-client": names(c), "go-http-types": c14FileTypes(h), "go-client-types": c14FileTypes(c)}
		holds, notes := true, []string{}
		if h.Exit == "ok" && c.Exit == "ok" {
			for _, n := range h.Names {
				if _, ok := c.Files[n]; !ok && c14IsCodecFile(n) {
					holds = false
					notes = append(notes, "only the server plugin emits "+n)
				}
			}
		}
		for _, x := range []*PluginResult{h, c} {
			if x.Exit != "ok" && x.Exit != "error-response" {
				holds = false
				notes = append(notes, x.Plugin+" did not answer: "+x.Exit)
			}
		}
		cr := &CaseResult{ID: r.ID, Family: "file-sets", Input: map[string]any{"schema": r.ID, "generate_mock": mock[r.ID], "tags": r.Tags},
			Obs: obs, OracleHolds: holds, OracleNote: strings.Join(notes, " | "), NonTrivial: true, Features: append([]string{"file-sets"}, r.Tags...)}
		crs = append(crs, cr)
		ccs = append(ccs, CoqCase{Term: "(" + CoqSchema(ModelOrder(r, g.Built)) + ", " + CoqBool(mock[r.ID]) + ")", Obs: obs})

		// direct check
		same, diffs, shared := true, []string{}, 0
		if h.Exit == "ok" && c.Exit == "ok" {
			for n, hc := range h.Files {
				cc, ok := c.Files[n]
				if !ok {
					continue
				}
				shared++
				if c14DropFirstLine(hc) != c14DropFirstLine(cc) {
					same = false
					diffs = append(diffs, n+" differs beyond the header line")
				}
				if !strings.HasPrefix(hc, "// Code generated by protoc-gen-go-http.") || !strings.HasPrefix(cc, "// Code generated by protoc-gen-go-client.") {
					same = false
					diffs = append(diffs, n+": first line is not the generator header")
				}
			}
		}
		sort.Strings(diffs)
		run.Results = append(run.Results, &CaseResult{ID: r.ID + "/identical", Family: "same-name-identical",
			Input:      map[string]any{"schema": r.ID, "shared_files": shared},
			Obs:        map[string]any{"shared_files": shared, "identical": same},
			Unmodelled: "direct byte comparison of the two plugins' outputs; no model involved", OracleHolds: same, OracleNote: strings.Join(diffs, " | "),
			NonTrivial: shared > 0, Features: []string{"same-name-identical"}})
	}
	vs, err := CoqRun(run.WorkDir, "c14f", "From Sebuf Require Import Text Json Schema Validate Files.\n", "", "(schema * bool)", "predict_C14_files", ccs, 12)
	if err != nil {
		run.Fatal("model evaluation: %v", err)
	}
	for i, cr := range crs {
		cr.Apply(vs[i])
		run.Results = append(run.Results, cr)
	}

	// ---- family client-only-codec ----
	breqs, bgens := reqs[:behaviour], gens[:behaviour]
	srvBin, srvVerdict := c14BuildSubset(run, breqs, bgens, "srv", true, false)
	cliBin, cliVerdict := c14BuildSubset(run, breqs, bgens, "cli", false, true)
	perMsg := 4
	if run.Tier == "thorough" {
		perMsg = 40
	}
	type tcase struct {
		r     *Request
		g     *GenOutput
		full  string
		wires []string
	}
	var tcs []*tcase
	vg := &ValueGen{Rng: rng}
	for i, r := range breqs {
		dir := r.ID
		sv, cv := srvVerdict[dir], cliVerdict[dir]
		if sv == nil || cv == nil || !sv.Build || !cv.Build {
			why := "plugins refused"
			if sv != nil && !sv.Build {
				why = "server-only package does not build"
			} else if cv != nil && !cv.Build {
				why = "client-only package does not build"
			}
			run.Notes = append(run.Notes, fmt.Sprintf("%s: %s (C13's subject); codecs not driven", r.ID, why))
			continue
		}
		for _, m := range collectMsgs(r) {
			if !m.File.Generate {
				continue
			}
			md := bgens[i].Built.MessageDesc(m.Full)
			if md == nil {
				continue
			}
			tc := &tcase{r: r, g: bgens[i], full: m.Full}
			tc.wires = append(tc.wires, WireHex(dynamicpb.NewMessage(md)), WireHex(vg.Random(md, 1.0)))
			for k := 2; k < perMsg; k++ {
				tc.wires = append(tc.wires, WireHex(vg.Random(md, 0.6)))
			}
			tcs = append(tcs, tc)
		}
	}
	// round 1: marshal on both sides
	var scen []any
	for ti, tc := range tcs {
		for wi, w := range tc.wires {
			scen = append(scen, map[string]any{"id": fmt.Sprintf("%d/%d", ti, wi), "kind": "codec", "pkg": tc.r.ID, "message": tc.full, "op": "marshal", "wire": w})
		}
	}
	srvM := c14RunCodec(run, srvBin, scen)
	cliM := c14RunCodec(run, cliBin, scen)
	// round 2: unmarshal both sides' documents on both sides
	var scen2 []any
	type uref struct{ ti int }
	var urefs []uref
	k := 0
	for ti, tc := range tcs {
		for range tc.wires {
			for _, doc := range []string{srvM[k].OutHex, cliM[k].OutHex} {
				if doc != "" {
					scen2 = append(scen2, map[string]any{"id": fmt.Sprint(len(scen2)), "kind": "codec", "pkg": tc.r.ID, "message": tc.full, "op": "unmarshal", "json": doc})
					urefs = append(urefs, uref{ti})
				}
			}
			k++
		}
	}
	srvU := c14RunCodec(run, srvBin, scen2)
	cliU := c14RunCodec(run, cliBin, scen2)
	// per type: observation + oracle
	type agg struct {
		srvCustom, cliCustom  bool
		marshalDiff, unmDiff  int
		example               string
		marshals, unmarshals  int
	}
	aggs := make([]*agg, len(tcs))
	for i := range aggs {
		aggs[i] = &agg{}
	}
	k = 0
	for ti, tc := range tcs {
		a := aggs[ti]
		for range tc.wires {
			s, c := srvM[k], cliM[k]
			a.srvCustom, a.cliCustom = s.Custom, c.Custom
			a.marshals++
			if (s.OutErr != "") != (c.OutErr != "") || (s.OutErr == "" && !c14JSONSame(s.OutHex, c.OutHex)) {
				a.marshalDiff++
				if a.example == "" {
					sb, _ := hex.DecodeString(s.OutHex)
					cb, _ := hex.DecodeString(c.OutHex)
					a.example = fmt.Sprintf("marshal: server-only %s%s vs client-only %s%s", tail(string(sb), 160), s.OutErr, tail(string(cb), 160), c.OutErr)
				}
			}
			k++
		}
	}
	for i, u := range urefs {
		a := aggs[u.ti]
		s, c := srvU[i], cliU[i]
		a.unmarshals++
		if (s.OutErr != "") != (c.OutErr != "") || s.OutHex != c.OutHex {
			a.unmDiff++
			if a.example == "" {
				a.example = fmt.Sprintf("unmarshal: server-only %s %s vs client-only %s %s", s.OutHex, firstLine(s.OutErr), c.OutHex, firstLine(c.OutErr))
			}
		}
	}
	// model
	defs := map[string]string{}
	var dnames []string
	var ccs2 []CoqCase
	var crs2 []*CaseResult
	for ti, tc := range tcs {
		a := aggs[ti]
		dn := "sc_" + tc.r.ID
		if _, ok := defs[dn]; !ok {
			defs[dn] = CoqSchema(ModelOrder(tc.r, tc.g.Built))
			dnames = append(dnames, dn)
		}
		obs := map[string]any{"server_custom": a.srvCustom, "client_custom": a.cliCustom}
		holds := a.marshalDiff == 0 && a.unmDiff == 0
		note := ""
		if !holds {
			note = fmt.Sprintf("%d/%d marshalled documents and %d/%d decoded messages differ between the client-only and the server-only package; %s", a.marshalDiff, a.marshals, a.unmDiff, a.unmarshals, a.example)
		}
		cr := &CaseResult{ID: tc.r.ID + "/" + tc.full, Family: "client-only-codec",
			Input: map[string]any{"schema": tc.r.ID, "message": tc.full, "values": len(tc.wires), "marshal_diff": a.marshalDiff, "unmarshal_diff": a.unmDiff},
			Obs:   obs, OracleHolds: holds, OracleNote: note, NonTrivial: true, Features: append([]string{"client-only-codec"}, tc.r.Tags...)}
		crs2 = append(crs2, cr)
		ccs2 = append(ccs2, CoqCase{Term: "(" + dn + ", " + CoqStr(tc.full) + ")", Obs: obs})
	}
	var db strings.Builder
	for _, dn := range dnames {
		db.WriteString("Definition " + dn + " : schema :=\n " + defs[dn] + ".\n")
	}
	vs2, err := CoqRun(run.WorkDir, "c14t", "From Sebuf Require Import Text Json Schema Validate Files.\n", db.String(), "(schema * str)", "predict_C14_type", ccs2, 8)
	if err != nil {
		run.Fatal("model evaluation: %v", err)
	}
	for i, cr := range crs2 {
		cr.Apply(vs2[i])
		run.Results = append(run.Results, cr)
	}
	DumpResults(run)
	run.Extra["schemas"] = len(reqs)
	run.Extra["packages_built_twice"] = len(breqs)
	run.Extra["codec_scenarios"] = 2*len(scen) + 2*len(scen2)
	run.Finish()
}
