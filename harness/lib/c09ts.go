package lib

import (
	"bufio"
	"bytes"
	"encoding/hex"
	"encoding/json"
	"fmt"
	"os"
	"os/exec"
	"path/filepath"
	"strings"
)

// ---- node driver for emitted *_server.ts files (C09, C10) ----------------------------------------

// tsDriverSource loads one emitted server module (type stripping by node >= 22.6), builds the route
// table with a recording/scripted handler and feeds one fetch-API Request per scenario line.
const tsDriverSource = `
import { createInterface } from 'node:readline';
const mod = await import(process.argv[2]);
const rl = createInterface({ input: process.stdin, crlfDelay: Infinity });
function match(pattern, path) {
  const ps = pattern.split('/'), xs = path.split('?')[0].split('/');
  if (ps.length !== xs.length) return false;
  return ps.every((p, i) => (p.startsWith('{') && p.endsWith('}')) ? xs[i].length > 0 : p === xs[i]);
}
for await (const line of rl) {
  if (!line.trim()) continue;
  const sc = JSON.parse(line);
  const out = { id: sc.id };
  try {
    const calls = [];
    const handler = new Proxy({}, { get: (_, name) => async (ctx, body) => {
      calls.push(String(name));
      if (sc.throw) {
        if (sc.throw.kind === 'validation') throw new mod.ValidationError(sc.throw.violations);
        if (sc.throw.kind === 'api') throw new mod.ApiError(sc.throw.status, sc.throw.message, sc.throw.body);
        if (sc.throw.kind === 'string') throw sc.throw.message;
        throw new Error(sc.throw.message);
      }
      return sc.result ?? {};
    } });
    const opts = {};
    if (sc.on_error) opts.onError = (err, req) => new Response(JSON.stringify({ hooked: err instanceof Error ? err.message : String(err) }), { status: sc.on_error.status, headers: { 'Content-Type': 'application/json', 'X-Hook': 'v' } });
    if (sc.validate) opts.validateRequest = (name, body) => sc.validate;
    const routes = mod['create' + sc.service + 'Routes'](handler, opts);
    const route = routes.find(r => r.method === sc.verb && match(r.path, sc.path));
    if (!route) { out.error = 'no route for ' + sc.verb + ' ' + sc.path; }
    else {
      const h = new Headers();
      let refused = false;
      for (const [n, hx] of (sc.headers || [])) {
        try { h.append(n, Buffer.from(hx, 'hex').toString('latin1')); } catch (e) { refused = true; out.refused = String(e); }
      }
      if (!refused) {
        const init = { method: sc.verb, headers: h };
        if (sc.body != null) init.body = Buffer.from(sc.body, 'hex');
        const req = new Request('http://verif.test' + sc.path, init);
        const resp = await route.handler(req);
        out.status = resp.status;
        out.content_type = resp.headers.get('content-type');
        out.x_hook = resp.headers.get('x-hook');
        out.body = await resp.text();
        out.calls = calls;
        out.body_used = req.bodyUsed;
      }
    }
  } catch (e) { out.error = String(e && e.stack || e); }
  process.stdout.write(JSON.stringify(out) + '\n');
}
`

const nodeBin = "/root/.nvm/versions/node/v22.22.2/bin/node"

type TSObs struct {
	ID          string   `json:"id"`
	Status      int      `json:"status"`
	ContentType string   `json:"content_type"`
	XHook       string   `json:"x_hook"`
	Body        string   `json:"body"`
	Calls       []string `json:"calls"`
	BodyUsed    bool     `json:"body_used"`
	Refused     string   `json:"refused"`
	Error       string   `json:"error"`
}

// NodeUsable reports whether a node with type stripping is available.
func NodeUsable() (string, bool) {
	bin := nodeBin
	if v := os.Getenv("VERIF_NODE"); v != "" {
		bin = v
	}
	if _, err := os.Stat(bin); err != nil {
		return bin, false
	}
	out, err := exec.Command(bin, "--experimental-strip-types", "-e", "const x: number = 1; console.log(x)").CombinedOutput()
	return bin, err == nil && strings.Contains(string(out), "1")
}

// RunTSServer loads the emitted server module text in node and runs the scenarios.
func RunTSServer(workdir, name, serverTS string, scenarios []any) ([]TSObs, error) {
	bin, ok := NodeUsable()
	if !ok {
		return nil, fmt.Errorf("node with --experimental-strip-types not available at %s", bin)
	}
	dir := filepath.Join(workdir, "ts-"+name)
	if err := os.MkdirAll(dir, 0o755); err != nil {
		return nil, err
	}
	if err := os.WriteFile(filepath.Join(dir, "server.ts"), []byte(serverTS), 0o644); err != nil {
		return nil, err
	}
	if err := os.WriteFile(filepath.Join(dir, "driver.mjs"), []byte(tsDriverSource), 0o644); err != nil {
		return nil, err
	}
	var in bytes.Buffer
	enc := json.NewEncoder(&in)
	for _, sc := range scenarios {
		enc.Encode(sc)
	}
	cmd := exec.Command("timeout", "600", bin, "--experimental-strip-types", "--no-warnings", filepath.Join(dir, "driver.mjs"), filepath.Join(dir, "server.ts"))
	cmd.Stdin = &in
	var stdout, stderr bytes.Buffer
	cmd.Stdout = &stdout
	cmd.Stderr = &stderr
	if err := cmd.Run(); err != nil {
		return nil, fmt.Errorf("node driver: %v: %s", err, tail(stderr.String(), 2000))
	}
	var out []TSObs
	sc := bufio.NewScanner(&stdout)
	sc.Buffer(make([]byte, 1<<20), 1<<26)
	for sc.Scan() {
		if len(bytes.TrimSpace(sc.Bytes())) == 0 {
			continue
		}
		var o TSObs
		if err := json.Unmarshal(sc.Bytes(), &o); err != nil {
			return nil, fmt.Errorf("node driver output: %v", err)
		}
		out = append(out, o)
	}
	if len(out) != len(scenarios) {
		return nil, fmt.Errorf("node driver produced %d of %d observations: %s", len(out), len(scenarios), tail(stderr.String(), 2000))
	}
	return out, nil
}

func tsServerFile(g *GenOutput) string {
	r := g.Results["ts-server"]
	if r == nil || r.Exit != "ok" {
		return ""
	}
	for n, c := range r.Files {
		if strings.HasSuffix(n, "_server.ts") {
			return c
		}
	}
	return ""
}

// c09TS drives the emitted TS server with the same header sets (well-formed bodies only, no repeated
// header lines) and compares its header verdict with the model's TS acceptors.
func c09TS(run *Run, s *Session, req *Request, cases []*c09Case) (string, []*CaseResult) {
	if _, ok := NodeUsable(); !ok {
		return "node (>= 22.6, --experimental-strip-types) not available: the TS validators are covered by the model and its theorems only", nil
	}
	src := tsServerFile(s.Gens[0])
	if src == "" {
		return "protoc-gen-ts-server produced no server module for the header catalogue", nil
	}
	quick := run.Tier != "thorough"
	var sel []*c09Case
	var scen []any
	skipped := 0
	for _, c := range cases {
		// one line per header name only (Headers.get joins repeated lines; outside the TS model)
		seen := map[string]bool{}
		dup := false
		for _, l := range c.lines {
			k := strings.ToLower(l.Name)
			if seen[k] {
				dup = true
			}
			seen[k] = true
		}
		if dup || c.body != 0 {
			continue
		}
		// quick tier: every second value case on the TS side
		if quick && strings.HasPrefix(c.family, "value:") {
			skipped++
			if skipped%2 == 0 {
				continue
			}
		}
		var hh [][2]string
		for _, l := range c.lines {
			hh = append(hh, [2]string{l.Name, hex.EncodeToString([]byte(l.Value))})
		}
		sc := map[string]any{"id": fmt.Sprint(len(sel)), "service": c.svc.Name, "verb": c.md.Verb, "path": svc09Path(c.svc, c.md), "headers": hh,
			"result": map[string]any{"ok": true}}
		if c.md.Verb == "POST" || c.md.Verb == "PUT" || c.md.Verb == "PATCH" {
			sc["headers"] = append(hh, [2]string{"Content-Type", hex.EncodeToString([]byte("application/json"))})
			sc["body"] = hex.EncodeToString([]byte(`{"note":"n"}`))
		}
		sel = append(sel, c)
		scen = append(scen, sc)
	}
	obs, err := RunTSServer(run.WorkDir, "c09", src, scen)
	if err != nil {
		run.Fatal("TS server: %v", err)
	}
	var ccs []CoqCase
	var results []*CaseResult
	defs, declName := c09Defs(req)
	for i, c := range sel {
		o := obs[i]
		if o.Error != "" {
			run.Fatal("TS driver error on %s.%s: %s", c.svc.Name, c.md.Name, firstLine(o.Error))
		}
		if o.Refused != "" {
			continue // the fetch API itself refuses the header value; nothing reaches the emitted code
		}
		viol := []string{}
		if o.Status == 400 {
			var b struct {
				Violations []struct {
					Field string `json:"field"`
				} `json:"violations"`
			}
			if err := json.Unmarshal([]byte(o.Body), &b); err != nil {
				viol = []string{"<undecodable 400 body>"}
			}
			for _, v := range b.Violations {
				viol = append(viol, v.Field)
			}
		}
		ob := map[string]any{"status": o.Status, "violations": viol}
		// oracle: a request that satisfies the published parameter list is not rejected for its headers
		published := true
		for _, p := range c.pub {
			v, present := requestHeader(c.lines, p.Name)
			if (!present && p.Required) || (present && !specPublishedOK(p.Type, p.Format, v)) {
				published = false
			}
		}
		holds, note := true, ""
		switch {
		case o.Status == 400 && published:
			holds, note = false, "TS server: request satisfies the published header parameters but was rejected for "+strings.Join(viol, ",")
		case o.Status == 200 && len(o.Calls) != 1:
			holds, note = false, "TS server: 200 without exactly one handler call"
		case o.Status != 200 && o.Status != 400:
			holds, note = false, fmt.Sprintf("TS server: unexpected status %d", o.Status)
		case o.Status == 400 && (len(o.Calls) > 0 || o.BodyUsed):
			holds, note = false, "TS server: header rejection after the body was read or the handler ran"
		}
		var lineTerms []string
		var lineJ []any
		for _, l := range c.lines {
			lineTerms = append(lineTerms, "("+CoqStr(l.Name)+", "+CoqStr(l.Value)+")")
			lineJ = append(lineJ, []string{l.Name, hex.EncodeToString([]byte(l.Value))})
		}
		cr := &CaseResult{ID: fmt.Sprintf("ts:%s.%s#%d", c.svc.Name, c.md.Name, i), Family: "ts-server:" + c.family,
			Input: map[string]any{"service": c.svc.Name, "method": c.md.Name, "service_headers": c.svc.Headers, "method_headers": c.md.Headers, "request_headers_name_hex": lineJ},
			Obs:   ob, OracleHolds: holds, OracleNote: note, NonTrivial: len(c.lines) > 0, Features: []string{"ts-server"}}
		results = append(results, cr)
		ccs = append(ccs, CoqCase{Term: fmt.Sprintf("(%s, %s, [%s], true, true)", declName[c.svc.Name], declName[c.svc.Name+"."+c.md.Name], strings.Join(lineTerms, "; ")), Obs: ob})
	}
	vs, err := CoqRun(run.WorkDir, "c09ts", "From Sebuf Require Import Text Json Schema Headers.\n", defs, "c09_case", "predict_C09_ts", ccs, 16)
	if err != nil {
		run.Fatal("model evaluation (TS): %v", err)
	}
	for i, cr := range results {
		cr.Apply(vs[i])
	}
	return fmt.Sprintf("node %s drove the emitted *_server.ts on %d header sets", nodeBin, len(results)), results
}
