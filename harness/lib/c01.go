package lib

import (
	"bytes"
	"encoding/hex"
	"encoding/json"
	"fmt"
	"math"
	"math/rand"
	"net/url"
	"strings"
	"time"

	"google.golang.org/protobuf/encoding/protojson"
	"google.golang.org/protobuf/proto"
	"google.golang.org/protobuf/reflect/protoreflect"
	"google.golang.org/protobuf/types/dynamicpb"

	sebufhttp "github.com/SebastienMelki/sebuf/http"
)

// RunnerObs mirrors the runner's observation record.
type RunnerObs struct {
	ID       string `json:"id"`
	Requests []struct {
		Method   string              `json:"method"`
		Path     string              `json:"path"`
		RawQuery string              `json:"rawquery"`
		Header   map[string][]string `json:"header"`
		BodyHex  string              `json:"body_hex"`
	} `json:"requests"`
	HandlerCalls []struct {
		Service string `json:"service"`
		Method  string `json:"method"`
		Req     string `json:"req"`
	} `json:"handler_calls"`
	Status      int                 `json:"status"`
	RespHeader  map[string][]string `json:"resp_header"`
	RespBodyHex string              `json:"resp_body_hex"`
	BodyRead    bool                `json:"body_read"`
	Client      *struct {
		Resp       *string     `json:"resp"`
		ErrType    string      `json:"err_type"`
		ErrMsg     string      `json:"err_msg"`
		Violations [][2]string `json:"violations"`
	} `json:"client"`
	Panic    string      `json:"panic"`
	Timeout  bool        `json:"timeout"`
	Error    string      `json:"error"`
	OutHex   string      `json:"out_hex"`
	OutErr   string      `json:"out_err"`
	Custom   bool        `json:"custom"`
	Sub      []RunnerObs `json:"sub"`
	NewCalls int64       `json:"validator_new_calls"`
}

var ctNames = []string{"application/json", "application/x-protobuf", "application/octet-stream"}

// firstViolationField decodes a 400 body (JSON or binary by response content type).
func violationFields(o *RunnerObs) []string {
	body, _ := hex.DecodeString(o.RespBodyHex)
	ve := &sebufhttp.ValidationError{}
	ct := ""
	if v := o.RespHeader["Content-Type"]; len(v) > 0 {
		ct = v[0]
	}
	var err error
	if strings.HasPrefix(ct, "application/json") {
		err = protojson.Unmarshal(body, ve)
	} else {
		err = proto.Unmarshal(body, ve)
	}
	if err != nil {
		return nil
	}
	out := []string{}
	for _, v := range ve.GetViolations() {
		out = append(out, v.GetField())
	}
	return out
}

type callCase struct {
	req    *Request
	g      *GenOutput
	svc    *Service
	md     *Method
	ct     int
	reqMsg *dynamicpb.Message
	resp   *dynamicpb.Message
	family string
}

// callObservation turns the runner's record into the projected observables of C01.
func callObservation(cc *callCase, o *RunnerObs) (map[string]any, bool, string) {
	obs := map[string]any{}
	if len(o.Requests) > 0 {
		rq := o.Requests[0]
		q := [][]string{}
		if rq.RawQuery != "" {
			for _, p := range strings.Split(rq.RawQuery, "&") {
				k, v, _ := strings.Cut(p, "=")
				ku, e1 := url.QueryUnescape(k)
				vu, e2 := url.QueryUnescape(v)
				if e1 != nil || e2 != nil {
					ku, vu = "!"+k, "!"+v
				}
				q = append(q, []string{ku, vu})
			}
		}
		body, _ := hex.DecodeString(rq.BodyHex)
		bf := "none"
		hasBodyVerb := rq.Method == "POST" || rq.Method == "PUT" || rq.Method == "PATCH"
		if hasBodyVerb {
			switch {
			case bytes.Equal(body, Wire(cc.reqMsg)) || wireDecodesTo(body, cc.reqMsg):
				bf = "proto"
			case json.Valid(body):
				bf = "json"
			default:
				bf = "other"
			}
		} else if len(body) > 0 {
			bf = "unexpected-body"
		}
		obs["request"] = map[string]any{"method": rq.Method, "path": rq.Path, "query": q, "body": bf}
	} else {
		obs["request"] = nil
	}
	want, _ := MsgCanon(cc.reqMsg)
	wantResp, _ := MsgCanon(cc.resp)
	holds := false
	note := ""
	switch {
	case o.Panic != "":
		obs["outcome"] = map[string]any{"class": "panic"}
		note = "panic: " + firstLine(o.Panic)
	case o.Timeout:
		obs["outcome"] = map[string]any{"class": "timeout"}
		note = "timeout"
	case len(o.HandlerCalls) >= 1:
		hc := o.HandlerCalls[len(o.HandlerCalls)-1]
		var sawJSON any = "undecodable"
		// decode with the dispatched method's input type
		for _, m := range cc.svc.Methods {
			if m.Name == hc.Method {
				if dm, err := cc.g.Built.FromWireHex(m.In, hc.Req); err == nil {
					sawJSON, _ = MsgCanon(dm)
				}
			}
		}
		if o.Client != nil && o.Client.Resp != nil {
			var gotJSON any = "undecodable"
			if dm, err := cc.g.Built.FromWireHex(cc.md.Out, *o.Client.Resp); err == nil {
				gotJSON, _ = MsgCanon(dm)
			}
			obs["outcome"] = map[string]any{"class": "delivered", "dispatched": hc.Method, "handler_saw": sawJSON, "client_got": gotJSON}
			holds = hc.Method == cc.md.Name && Diff(Canon(sawJSON), Canon(want)) == "" && Diff(Canon(gotJSON), Canon(wantResp)) == ""
			if !holds {
				note = "handler-seen request or caller-seen response differs from what was passed/returned"
			}
		} else {
			obs["outcome"] = map[string]any{"class": "client-decode-error", "dispatched": hc.Method, "handler_saw": sawJSON}
			note = "handler ran but the client returned an error: " + firstLine(o.Client.ErrMsg)
		}
	case o.Status == 400:
		fs := violationFields(o)
		f := ""
		if len(fs) > 0 {
			f = fs[0]
		}
		obs["outcome"] = map[string]any{"class": "rejected", "field": f}
		note = "server answered 400 (field " + f + ")"
	default:
		obs["outcome"] = map[string]any{"class": "not-routed"}
		note = fmt.Sprintf("no handler reached, final status %d", o.Status)
	}
	return obs, holds, note
}

func firstLine(s string) string {
	if i := strings.IndexByte(s, '\n'); i >= 0 {
		s = s[:i]
	}
	if len(s) > 200 {
		s = s[:200]
	}
	return s
}

// pathBoundNonEmpty forces every path-bound string field of the request to be non-empty.
func pathBoundNonEmpty(m *dynamicpb.Message, md *Method, rng *rand.Rand) {
	for _, pv := range rePathVar.FindAllStringSubmatch(md.Path, -1) {
		fd := m.Descriptor().Fields().ByName(protoreflect.Name(pv[1]))
		if fd == nil || fd.Kind() != protoreflect.StringKind || fd.IsList() {
			continue
		}
		for m.Get(fd).String() == "" {
			m.Set(fd, protoreflect.ValueOfString(strPool[1+rng.Intn(len(strPool)-1)]))
		}
	}
}

// distinctPathValues gives the i-th variable of the template (URL order) a value that names its position:
// strings "p<i>-<salt>", integers 11*(i+1)+salt, booleans alternate.
func distinctPathValues(m *dynamicpb.Message, md *Method, salt int) {
	for i, pv := range rePathVar.FindAllStringSubmatch(md.Path, -1) {
		fd := m.Descriptor().Fields().ByName(protoreflect.Name(pv[1]))
		if fd == nil || fd.IsList() || fd.IsMap() {
			continue
		}
		switch fd.Kind() {
		case protoreflect.StringKind:
			m.Set(fd, protoreflect.ValueOfString(fmt.Sprintf("p%d-%d", i, salt)))
		case protoreflect.BoolKind:
			m.Set(fd, protoreflect.ValueOfBool((i+salt)%2 == 0))
		case protoreflect.FloatKind, protoreflect.DoubleKind, protoreflect.BytesKind, protoreflect.EnumKind, protoreflect.MessageKind, protoreflect.GroupKind:
		default:
			SetField(m, pv[1], int64(11*(i+1)+salt))
		}
	}
}

// bodylessClear: on GET/DELETE nothing but URL-bound fields can travel; the catalogue binds them all.

func CheckC01(run *Run) {
	run.Proof = CheckProofs("C01")
	run.Prepare()
	reqs := RuntimeCatalogue()
	reqs = append(reqs, RootPathRequest()) // subtree routes ("/" method paths): precedence and redirects
	rng := rand.New(rand.NewSource(run.Seed + 101))
	nRandom, perRPC := 4, 2
	if run.Tier == "thorough" {
		nRandom, perRPC = 60, 8
	}
	reqs = append(reqs, RandomRouteRequests(rng, nRandom)...)
	reqs = append(reqs, RandomSchemas(rng, nRandom, false)...)
	// path variables in every permutation relative to the declaration order; body verbs whose request
	// leaves nothing / one field / only query fields for the body
	nOrd, nBody := 2, 2
	if run.Tier == "thorough" {
		nOrd, nBody = 40, 40
	}
	reqs = append(reqs, PathOrderRequests()...)
	if bs := BodyShapeRequests(); run.Tier == "thorough" {
		reqs = append(reqs, bs...)
	} else {
		reqs = append(reqs, bs[0]) // quick: the service with a base path holds every shape x verb
	}
	reqs = append(reqs, RandomPathOrderRequests(rand.New(rand.NewSource(run.Seed+111)), nOrd)...)
	reqs = append(reqs, RandomBodyShapeRequests(rand.New(rand.NewSource(run.Seed+121)), nBody)...)
	// the feature packages: boundary values through the emitted JSON codecs and the transport
	featIDs := map[string]bool{}
	for _, r := range CallFeatureRequests() {
		featIDs[r.ID] = true
		reqs = append(reqs, r)
	}
	phase := map[string]float64{}
	tPhase := time.Now()
	mark := func(name string) { phase[name] = time.Since(tPhase).Seconds(); tPhase = time.Now() }
	s := NewSession(run, reqs)
	mark("generate")
	s.BuildRuntime(false)
	mark("build_runtime")
	var cases []*callCase
	vg := &ValueGen{Rng: rng}
	for i, r := range reqs {
		g := s.Gens[i]
		if !s.InRunner[r.ID] {
			run.Notes = append(run.Notes, fmt.Sprintf("%s: emitted package does not build (C13's subject); not driven", r.ID))
			continue
		}
		if featIDs[r.ID] {
			continue // driven by the boundary sweep below
		}
		for _, f := range r.Files {
			for _, svc := range f.Services {
				for _, md := range svc.Methods {
					in := g.Built.MessageDesc(md.In)
					out := g.Built.MessageDesc(md.Out)
					for k := 0; k < perRPC; k++ {
						for ct := 0; ct < 3; ct++ {
							if ct == 2 && k > 0 {
								continue
							}
							p := 0.7
							if k == 0 {
								p = 1.0
							}
							rm := vg.Random(in, p)
							pathBoundNonEmpty(rm, md, rng)
							if strings.HasPrefix(r.ID, "rtbody") {
								// these services have sibling routes one segment apart (/shared/{id} and /shared/{id}/restore): a "." or
								// ".." path value is cleaned away by ServeMux and the redirected request lands on the sibling, which the
								// model's dot-segment clause (301 -> not routed) does not follow; dot segments are the subject of the
								// route catalogue, where the model is exact
								clearPathDots(rm, md)
							}
							cases = append(cases, &callCase{req: r, g: g, svc: svc, md: md, ct: ct, reqMsg: rm, resp: vg.Random(out, p), family: "call"})
						}
					}
					// default request (path-bound forced non-empty), default response
					rm := dynamicpb.NewMessage(in)
					pathBoundNonEmpty(rm, md, rng)
					if strings.HasPrefix(r.ID, "rtbody") {
						clearPathDots(rm, md)
					}
					cases = append(cases, &callCase{req: r, g: g, svc: svc, md: md, ct: k3(len(cases)), reqMsg: rm, resp: dynamicpb.NewMessage(out), family: "call-default"})
				}
			}
		}
	}
	// path-order family: every path variable gets a value that is distinct from the others' and tells its
	// position (a mix-up between variables cannot cancel out), under JSON and binary transport; the
	// other fields stay default / random
	for i, r := range reqs {
		if !hasTag(r, "path-order") || !s.InRunner[r.ID] {
			continue
		}
		g := s.Gens[i]
		for _, f := range r.Files {
			for _, svc := range f.Services {
				for _, md := range svc.Methods {
					in := g.Built.MessageDesc(md.In)
					out := g.Built.MessageDesc(md.Out)
					for k := 0; k < 2; k++ {
						rm := dynamicpb.NewMessage(in)
						if k == 1 {
							rm = vg.Random(in, 0.8)
						}
						distinctPathValues(rm, md, k)
						cases = append(cases, &callCase{req: r, g: g, svc: svc, md: md, ct: k, reqMsg: rm, resp: vg.Random(out, 0.8), family: "path-order"})
					}
				}
			}
		}
	}

	// byte sweep: every byte 0x01..0x7f and multi-byte UTF-8 representatives as a string path value
	// and as a string query value (rtkinds GetK0 has string pv and qv).
	for i, r := range reqs {
		if r.ID != "rtkinds" || !s.InRunner[r.ID] {
			continue
		}
		g := s.Gens[i]
		svc := r.Files[0].Services[0]
		md := svc.Methods[0]
		in := g.Built.MessageDesc(md.In)
		out := g.Built.MessageDesc(md.Out)
		var vals []string
		for b := 1; b < 128; b++ {
			vals = append(vals, string([]byte{byte(b)}), "a"+string([]byte{byte(b)})+"b")
		}
		vals = append(vals, "\x00", "é", "߿", "ࠀ", "￿", "\U00010000", "\U0010ffff", "a%2Fb", "%", "%%", "%zz", "a+b", "..", ".", "...", ".a", "a/../b", "%2e%2e", "//", "a//b")
		for _, v := range vals {
			rm := dynamicpb.NewMessage(in)
			SetField(rm, "pv", v)
			SetField(rm, "qv", v)
			cases = append(cases, &callCase{req: r, g: g, svc: svc, md: md, ct: 0, reqMsg: rm, resp: dynamicpb.NewMessage(out), family: "byte-sweep"})
		}
		// sibling-literal collision handled in rtsib below
	}
	for i, r := range reqs {
		if r.ID != "rtsib" || !s.InRunner[r.ID] {
			continue
		}
		g := s.Gens[i]
		svc := r.Files[0].Services[0]
		for _, md := range svc.Methods {
			in := g.Built.MessageDesc(md.In)
			if in.Fields().ByName("id") == nil {
				continue
			}
			for _, v := range []string{"special", "Special", "special/", "x"} {
				rm := dynamicpb.NewMessage(in)
				SetField(rm, "id", v)
				cases = append(cases, &callCase{req: r, g: g, svc: svc, md: md, ct: 0, reqMsg: rm, resp: dynamicpb.NewMessage(g.Built.MessageDesc(md.Out)), family: "sibling"})
			}
		}
	}

	// feature packages: every boundary value of the pools (SweepValues) as RESPONSE, and as request where
	// the verb carries a body, under all three content types; bodiless verbs get random URL-bound requests.
	full := run.Tier == "thorough"
	for i, r := range reqs {
		if !featIDs[r.ID] || !s.InRunner[r.ID] {
			continue
		}
		g := s.Gens[i]
		for _, f := range r.Files {
			for _, svc := range f.Services {
				for _, md := range svc.Methods {
					in := g.Built.MessageDesc(md.In)
					out := g.Built.MessageDesc(md.Out)
					resps, _ := SweepValues(out, full)
					for k := 0; k < perRPC; k++ {
						resps = append(resps, vg.Random(out, 0.8))
					}
					var rqs []*dynamicpb.Message
					if md.Verb == "POST" || md.Verb == "PUT" || md.Verb == "PATCH" || md.Verb == "" {
						rqs, _ = SweepValues(in, full)
					}
					for k := 0; k < 3; k++ {
						rqs = append(rqs, vg.Random(in, 0.8))
					}
					n := len(resps)
					if len(rqs) > n && md.In != md.Out {
						n = len(rqs)
					}
					for k := 0; k < n; k++ {
						for ct := 0; ct < 3; ct++ {
							rm := proto.Clone(rqs[(k+ct)%len(rqs)]).(*dynamicpb.Message)
							pathBoundNonEmpty(rm, md, rng)
							cases = append(cases, &callCase{req: r, g: g, svc: svc, md: md, ct: ct, reqMsg: rm, resp: resps[k%len(resps)], family: "feature-call"})
						}
					}
				}
			}
		}
	}

	// request histories: every RPC of the single-service packages is called many times in sequence on ONE
	// registration of the emitted server (one process, one mux, one client instance per content type)
	hists := c01Histories(run, reqs, s, featIDs)

	// run on the implementation
	scen := make([]any, len(cases), len(cases)+len(hists))
	for i, c := range cases {
		scen[i] = map[string]any{"id": fmt.Sprint(i), "kind": "call", "pkg": c.req.ID, "service": c.svc.Name, "method": c.md.Name,
			"req": WireHex(c.reqMsg), "script": map[string]any{"resp": WireHex(c.resp)},
			"opts": map[string]any{"ContentType": ctNames[c.ct]}}
	}
	for i, h := range hists {
		scen = append(scen, h.scenario(fmt.Sprintf("h%d", i)))
	}
	mark("cases")
	raw, err := RunScenarios(s.Runner, scen, 8)
	if err != nil {
		run.Fatal("runner: %v", err)
	}
	mark("run_scenarios")
	obsOf := make([]*RunnerObs, len(cases))
	histInfo := make([]map[string]any, len(cases))
	for i := range cases {
		o := &RunnerObs{}
		if err := json.Unmarshal(raw[i], o); err != nil {
			run.Fatal("bad observation: %v", err)
		}
		obsOf[i] = o
	}
	type histExp struct {
		cs    []*callCase
		os    []*RunnerObs
		infos []map[string]any
		note  string
	}
	exps := make([]histExp, len(hists))
	dependent, delivered := make([]bool, len(hists)), make([]bool, len(hists))
	for i, h := range hists {
		var o RunnerObs
		if err := json.Unmarshal(raw[len(scen)-len(hists)+i], &o); err != nil {
			run.Fatal("bad observation: %v", err)
		}
		e := &exps[i]
		e.cs, e.os, e.infos, e.note, dependent[i], delivered[i] = h.expand(&o)
	}
	nSel, nDep := 0, 0
	for i, take := range c01SelectHistories(run, hists, dependent, delivered) {
		if dependent[i] {
			nDep++
		}
		if !take {
			continue
		}
		nSel++
		if exps[i].note != "" {
			run.Notes = append(run.Notes, exps[i].note)
		}
		cases = append(cases, exps[i].cs...)
		obsOf = append(obsOf, exps[i].os...)
		histInfo = append(histInfo, exps[i].infos...)
	}
	run.Extra["histories_modelled"] = nSel
	run.Extra["histories_state_dependent"] = nDep
	mark("histories")
	// model
	var defs strings.Builder
	defIdx := map[string]int{}
	for i, r := range reqs {
		if s.InRunner[r.ID] {
			defIdx[r.ID] = i
			fmt.Fprintf(&defs, "Definition sc_%d : schema := %s.\n", i, CoqSchema(r))
		}
	}
	var ccs []CoqCase
	var results []*CaseResult
	for i, c := range cases {
		o := obsOf[i]
		if o.Error != "" {
			run.Fatal("runner error on case %d: %s", i, o.Error)
		}
		obs, holds, note := callObservation(c, o)
		reqJ, reqC := MsgCanon(c.reqMsg)
		respJ, respC := MsgCanon(c.resp)
		cr := &CaseResult{ID: fmt.Sprintf("%s/%s.%s#%d", c.req.ID, c.svc.Name, c.md.Name, i), Family: c.family,
			Input: map[string]any{"schema": c.req.ID, "service": c.svc.Name, "method": c.md.Name, "verb": c.md.Verb, "path": c.md.Path,
				"content_type": ctNames[c.ct], "request": reqJ, "response": respJ},
			Obs: obs, OracleHolds: holds, OracleNote: note, NonTrivial: len(reqJ) > 0 || len(respJ) > 0,
			Features: []string{"ct:" + ctNames[c.ct], "verb:" + c.md.Verb, c.family}}
		if histInfo[i] != nil {
			cr.Input.(map[string]any)["history"] = histInfo[i]
			if !holds {
				cr.OracleNote = note + " (within a sequence of calls on one server registration; see input.history)"
			}
		}
		results = append(results, cr)
		ccs = append(ccs, CoqCase{Term: fmt.Sprintf("(sc_%d, (%s, %s), %d%%nat, %s, %s)", defIdx[c.req.ID], CoqStr(c.svc.Name), CoqStr(c.md.Name), c.ct, reqC, respC), Obs: obs})
	}
	vs, err := CoqRun(run.WorkDir, "c01", "From Sebuf Require Import Text Json Route Schema Value GoRt.\n", defs.String(), "c01_case", "predict_C01", ccs, 16)
	if err != nil {
		run.Fatal("model evaluation: %v", err)
	}
	mark("model")
	run.Extra["phase_seconds"] = phase
	for i, cr := range results {
		cr.Apply(vs[i])
		if cr.Unmodelled != "" && !cr.OracleHolds {
			cr.Tags = z3TagsC01(cases[i])
		}
		run.Results = append(run.Results, cr)
	}
	run.Extra["schemas"] = len(reqs)
	run.Finish()
}

func k3(n int) int { return n % 3 }

// z3TagsC01 classifies oracle failures on cases the model does not cover (float kinds on the URL).
func z3TagsC01(c *callCase) []string {
	var tags []string
	if strings.Contains(c.svc.BasePath, "{") {
		tags = append(tags, "base-path-variable-unbound")
	}
	for _, pv := range rePathVar.FindAllStringSubmatch(c.md.Path, -1) {
		fd := c.reqMsg.Descriptor().Fields().ByName(protoreflect.Name(pv[1]))
		if fd != nil && fd.Kind() == protoreflect.StringKind {
			switch c.reqMsg.Get(fd).String() {
			case ".", "..":
				tags = append(tags, "dot-segment-path-value")
			case "/":
				tags = append(tags, "slash-path-value")
			}
		}
	}
	eff := c.md.Verb
	if eff == "" {
		eff = "POST"
	}
	if eff == "GET" || eff == "DELETE" {
		in, _ := c.req.FindMessage(c.md.In)
		for _, f := range in.Fields {
			if f.Query == nil || (f.Kind != "double" && f.Kind != "float") {
				continue
			}
			fd := c.reqMsg.Descriptor().Fields().ByName(protoreflect.Name(f.Name))
			v := c.reqMsg.Get(fd).Float()
			if v == 0 && math.Signbit(v) {
				tags = append(tags, "z3:negative-zero-query-elided")
			}
		}
	}
	return tags
}

// wireDecodesTo: does body decode (as the message's type) to a message equal to m?  (proto.Marshal
// does not order map entries deterministically, so byte equality is too strict.)
func wireDecodesTo(body []byte, m *dynamicpb.Message) bool {
	if len(body) == 0 {
		return false
	}
	d := dynamicpb.NewMessage(m.Descriptor())
	if proto.Unmarshal(body, d) != nil {
		return false
	}
	return proto.Equal(d, m)
}
