package lib

import (
	"bytes"
	"encoding/json"
	"fmt"
	"math/rand"
	"os"
	"os/exec"
	"path/filepath"
	"regexp"
	"sort"
	"strings"
	"sync"
	"time"
)

// ---- toolchain verdicts --------------------------------------------------------------------------

// ToolVerdict is the projected result of `go build` + `go vet` on one emitted package.
type ToolVerdict struct {
	Build   bool     `json:"build"`
	Vet     bool     `json:"vet"`
	Classes []string `json:"classes"`
	Output  string   `json:"-"`
}

var goErrClasses = []struct {
	cls string
	re  *regexp.Regexp
}{
	{"syntax", regexp.MustCompile(`syntax error|expected '|expected declaration|invalid character|string literal not terminated|newline in string`)},
	{"unused", regexp.MustCompile(`imported and not used|declared and not used`)},
	{"redeclared", regexp.MustCompile(`redeclared in this block|already declared|field and method with the same name|other declaration of`)},
	{"duplicate", regexp.MustCompile(`duplicate key|duplicate case`)},
	{"selector", regexp.MustCompile(`undefined \(type .* has no field or method|undefined \(type .* has no method`)},
	{"undefined", regexp.MustCompile(`undefined: `)},
	{"type", regexp.MustCompile(`mismatched types|cannot use |cannot convert|invalid operation|non-boolean condition|invalid argument|cannot range over|cannot index|not an expression|cannot assign|assignment mismatch`)},
}

var goDiagLine = regexp.MustCompile(`^\S+\.go:\d+:\d+: (.*)$`)

// ClassifyGoOutput maps compiler / vet diagnostics to the small class enum of Emit.v.
var vetPrintfRe = regexp.MustCompile(`call needs|call has arg|func value, not called|format %|wrong type|formatting directive|missing .*arg|has possible`)

func ClassifyGoOutput(out string, vet bool) []string {
	set := map[string]bool{}
	for _, l := range strings.Split(out, "\n") {
		m := goDiagLine.FindStringSubmatch(strings.TrimSpace(l))
		if m == nil {
			continue
		}
		msg := m[1]
		if vet {
			if vetPrintfRe.MatchString(msg) {
				set["vet-printf"] = true
			} else {
				set["vet-other:"+firstWords(msg, 4)] = true
			}
			continue
		}
		if strings.Contains(msg, "other declaration of") || strings.HasPrefix(msg, "previous case") || strings.HasPrefix(msg, "previous declaration") {
			continue // continuation line of the preceding diagnostic
		}
		found := false
		for _, c := range goErrClasses {
			if c.re.MatchString(msg) {
				set[c.cls] = true
				found = true
				break
			}
		}
		if !found {
			set["other:"+firstWords(msg, 4)] = true
		}
	}
	// after a redeclaration the compiler reports follow-on type / selector errors at the uses of the
	// clashing name; they are incidental and not compared
	if set["redeclared"] {
		delete(set, "type")
		delete(set, "selector")
		delete(set, "unused")
	}
	res := []string{}
	for k := range set {
		res = append(res, k)
	}
	sort.Strings(res)
	return res
}

func firstWords(s string, n int) string {
	w := strings.Fields(s)
	if len(w) > n {
		w = w[:n]
	}
	return strings.Join(w, " ")
}

var vetAnalyzers = []string{"-atomic", "-bool", "-buildtags", "-directive", "-errorsas", "-ifaceassert", "-nilfunc", "-printf", "-stringintconv", "-tests"}

// BuildVet compiles (all errors, not the first ten) and vets each directory of the work module.
func (w *GoWork) BuildVet(dirs []string, par int) map[string]*ToolVerdict {
	out := map[string]*ToolVerdict{}
	var mu sync.Mutex
	var wg sync.WaitGroup
	sem := make(chan struct{}, par)
	w.goCmd("build", "./stubpv/")
	for _, d := range dirs {
		wg.Add(1)
		go func(d string) {
			defer wg.Done()
			sem <- struct{}{}
			defer func() { <-sem }()
			v := &ToolVerdict{Classes: []string{}}
			o, err := w.goCmd("build", "-gcflags=-e", "./"+d+"/")
			v.Build = err == nil
			if err != nil {
				v.Output = tail(string(o), 6000)
				v.Classes = ClassifyGoOutput(string(o), false)
				if len(v.Classes) == 0 {
					v.Classes = []string{"other:" + firstWords(string(o), 6)}
				}
			} else {
				args := append([]string{"vet"}, vetAnalyzers...)
				o, err := w.goCmd(append(args, "./"+d+"/")...)
				v.Vet = err == nil
				if err != nil {
					v.Output = tail(string(o), 6000)
					v.Classes = ClassifyGoOutput(string(o), true)
					if len(v.Classes) == 0 {
						v.Classes = []string{"vet-other:" + firstWords(string(o), 6)}
					}
				}
			}
			mu.Lock()
			out[d] = v
			mu.Unlock()
		}(d)
	}
	wg.Wait()
	return out
}

// ---- TypeScript module loading -------------------------------------------------------------------

const NodeBin = "/root/.nvm/versions/node/v22.22.2/bin/node"

const tsLoaderSrc = `import { pathToFileURL } from 'node:url';
import { readFileSync } from 'node:fs';
const files = JSON.parse(readFileSync(process.argv[2], 'utf8'));
for (const f of files) {
  try {
    const m = await import(pathToFileURL(f).href);
    console.log(JSON.stringify({file: f, ok: true, exports: Object.keys(m).length}));
  } catch (e) {
    console.log(JSON.stringify({file: f, ok: false, cls: String(e && e.name), msg: String(e && e.message).slice(0, 300)}));
  }
}
`

type TSLoad struct {
	File string `json:"file"`
	OK   bool   `json:"ok"`
	Cls  string `json:"cls"`
	Msg  string `json:"msg"`
}

// LoadTSModules writes the modules under dir and imports each of them in one node process
// (type stripping only: no type checking; the emitted modules import nothing).
func LoadTSModules(dir string, files map[string]string) (map[string]*TSLoad, error) {
	if _, err := os.Stat(NodeBin); err != nil {
		return nil, fmt.Errorf("node 22 not found at %s", NodeBin)
	}
	var paths []string
	byPath := map[string]string{}
	for n, c := range files {
		p := filepath.Join(dir, n)
		if err := os.MkdirAll(filepath.Dir(p), 0o755); err != nil {
			return nil, err
		}
		if err := os.WriteFile(p, []byte(c), 0o644); err != nil {
			return nil, err
		}
		paths = append(paths, p)
		byPath[p] = n
	}
	sort.Strings(paths)
	lst, _ := json.Marshal(paths)
	os.WriteFile(filepath.Join(dir, "files.json"), lst, 0o644)
	os.WriteFile(filepath.Join(dir, "load.mjs"), []byte(tsLoaderSrc), 0o644)
	cmd := exec.Command("timeout", "120", NodeBin, "--experimental-strip-types", "--no-warnings", filepath.Join(dir, "load.mjs"), filepath.Join(dir, "files.json"))
	var stdout, stderr bytes.Buffer
	cmd.Stdout, cmd.Stderr = &stdout, &stderr
	if err := cmd.Run(); err != nil {
		return nil, fmt.Errorf("node loader: %v: %s", err, tail(stderr.String(), 1000))
	}
	out := map[string]*TSLoad{}
	for _, l := range strings.Split(strings.TrimSpace(stdout.String()), "\n") {
		if l == "" {
			continue
		}
		var t TSLoad
		if err := json.Unmarshal([]byte(l), &t); err != nil {
			return nil, fmt.Errorf("node loader output: %v in %s", err, l)
		}
		out[byPath[t.File]] = &t
	}
	if len(out) != len(files) {
		return nil, fmt.Errorf("node loader reported %d of %d modules", len(out), len(files))
	}
	return out, nil
}

// ---- the struct protoc-gen-go wrote ------------------------------------------------------------------

var (
	reStructStart = regexp.MustCompile(`^type (\w+) struct \{$`)
	reStructField = regexp.MustCompile("^\\t(\\w+)\\s+(\\S.*?)\\s+`protobuf:\"([^\"]*)\"")
)

type goStructField struct{ GoName, GoType, Tag string }

func parseGoStructs(src string) map[string][]goStructField {
	out := map[string][]goStructField{}
	cur := ""
	for _, l := range strings.Split(src, "\n") {
		if m := reStructStart.FindStringSubmatch(l); m != nil {
			cur = m[1]
			out[cur] = nil
			continue
		}
		if l == "}" {
			cur = ""
			continue
		}
		if cur == "" {
			continue
		}
		if m := reStructField.FindStringSubmatch(l); m != nil {
			out[cur] = append(out[cur], goStructField{m[1], m[2], m[3]})
		}
	}
	return out
}

func tagName(tag string) string {
	for _, p := range strings.Split(tag, ",") {
		if strings.HasPrefix(p, "name=") {
			return p[5:]
		}
	}
	return ""
}

var goBuiltin = map[string]bool{"bool": true, "int32": true, "int64": true, "uint32": true, "uint64": true, "float32": true, "float64": true, "string": true, "byte": true}

// normGoType replaces named types by their role ("msg:<proto name>" / "enum:<proto name>"), so that
// only the shape of the type is compared.
func normGoType(t string, f *Field) string {
	re := regexp.MustCompile(`[A-Za-z_][A-Za-z0-9_.]*`)
	return re.ReplaceAllStringFunc(t, func(id string) string {
		if goBuiltin[id] || id == "map" {
			return id
		}
		if f.Kind == "enum" {
			return "enum:" + f.TypeName
		}
		return "msg:" + f.TypeName
	})
}

// structObs: what protoc-gen-go declared for one message (field Go names and types).
func structObs(structs map[string][]goStructField, goName string, m *Message) map[string]any {
	fields := map[string]any{}
	obs := map[string]any{"go_name": "", "fields": fields}
	sf, ok := structs[goName]
	if !ok {
		return obs
	}
	obs["go_name"] = goName
	byName := map[string]*Field{}
	for _, f := range m.Fields {
		byName[f.Name] = f
	}
	for _, x := range sf {
		f := byName[tagName(x.Tag)]
		if f == nil {
			continue
		}
		fields[f.Name] = []string{x.GoName, normGoType(x.GoType, f)}
	}
	// members of real oneofs live in wrapper structs <Msg>_<Field>
	for name, wf := range structs {
		if !strings.HasPrefix(name, goName+"_") || len(wf) != 1 || !strings.Contains(wf[0].Tag, ",oneof") {
			continue
		}
		f := byName[tagName(wf[0].Tag)]
		if f == nil || f.Oneof == "" || name != goName+"_"+wf[0].GoName && !strings.HasPrefix(name, goName+"_"+wf[0].GoName) {
			continue
		}
		if _, dup := fields[f.Name]; !dup {
			fields[f.Name] = []string{wf[0].GoName, "-"}
		}
	}
	return obs
}

func coqMessageTerms(f *File) []string {
	var ms []string
	coqMessages(f.Package, nil, f.Messages, &ms)
	return ms
}

// ---- the check ---------------------------------------------------------------------------------------------

func subsetFiles(s *Session, g *GenOutput, subset string) (map[string]string, bool) {
	switch subset {
	case "http":
		return s.PackageFiles(g, true, false)
	case "client":
		return s.PackageFiles(g, false, true)
	}
	return s.PackageFiles(g, true, true)
}

var c13Subsets = []string{"http", "client", "both"}

func CheckC13(run *Run) {
	run.Proof = CheckProofs("C13")
	run.Prepare()
	reqs := append(append(FeatureCatalogue(), RuntimeCatalogue()...), BuildCatalogue()...)
	reqs = append(reqs, RawRequest())
	reqs = append(reqs, HostileCatalogue()...)
	reqs = append(reqs, SameKindCatalogue()...)
	reqs = append(reqs, ForeignTypeCatalogue()...)
	reqs = append(reqs, HostileTextBuildCatalogue()...)
	nRandom, nSameKind := 12, 4
	if run.Tier == "thorough" {
		nRandom, nSameKind = 300, 80
	}
	reqs = append(reqs, RandomBuildRequests(rand.New(rand.NewSource(run.Seed+13)), nRandom)...)
	reqs = append(reqs, RandomSameKindRequests(rand.New(rand.NewSource(run.Seed+1313)), nSameKind)...)
	t0 := time.Now()
	phase := map[string]float64{}
	mark := func(n string) { phase[n] = time.Since(t0).Seconds(); t0 = time.Now() }
	s := NewSession(run, reqs)
	mark("generate")
	w, err := NewGoWork(fmt.Sprintf("%s-%s-%s", run.Property, run.Tier, run.TreeHash))
	if err != nil {
		run.Fatal("%v", err)
	}
	type pkgCase struct {
		r       *Request
		g       *GenOutput
		refused string
		dirs    map[string]string
		multi   []string // package directories of a request whose generated files span several Go packages
	}
	subWorks := map[string]*GoWork{}
	subDirs := map[string][]string{}
	var cases []*pkgCase
	var dirs []string
	tsFiles := map[string]string{}
	for i, r := range reqs {
		g := s.Gens[i]
		pc := &pkgCase{r: r, g: g, dirs: map[string]string{}}
		cases = append(cases, pc)
		for _, p := range Plugins {
			if g.Results[p].Exit != "ok" {
				pc.refused = fmt.Sprintf("%s: %s %s", p, g.Results[p].Exit, firstLine(g.Results[p].Error))
			}
		}
		if g.PB == nil || g.PB.Exit != "ok" {
			run.Fatal("protoc-gen-go failed on %s", r.ID)
		}
		if pc.refused != "" {
			continue
		}
		// user packages the request imports without generating them (a shared common/v1): their standard
		// protobuf Go output has to be there for the importing package to compile
		deps, err := depPackageFiles(g, r)
		if err != nil {
			run.Fatal("%s: %v", r.ID, err)
		}
		if pkgDirs := generatedPkgDirs(r); len(pkgDirs) > 1 {
			// generated files in several Go packages: they import each other by their declared import paths, so
			// each plugin subset gets a work module of its own and the files keep their names
			for _, sub := range c13Subsets {
				files, ok := subsetFiles(s, g, sub)
				if !ok {
					run.Fatal("no files for %s/%s", r.ID, sub)
				}
				if subWorks[sub] == nil {
					sw, err := NewGoWork(fmt.Sprintf("%s-%s-%s-%s", run.Property, run.Tier, run.TreeHash, sub))
					if err != nil {
						run.Fatal("%v", err)
					}
					subWorks[sub] = sw
				}
				for n := range files {
					if !pkgDirs[strings.SplitN(n, "/", 2)[0]] {
						run.Fatal("%s: generated file %q outside the request's package directories", r.ID, n)
					}
				}
				if err := subWorks[sub].WritePackage(files); err != nil {
					run.Fatal("%v", err)
				}
				if err := subWorks[sub].WritePackage(deps); err != nil {
					run.Fatal("%v", err)
				}
				pc.dirs[sub] = sub + "_" + r.ID
				for d := range pkgDirs {
					subDirs[sub] = append(subDirs[sub], d)
					pc.multi = append(pc.multi, d)
				}
			}
			for _, p := range []string{"ts-client", "ts-server"} {
				for n, c := range g.Results[p].Files {
					tsFiles[r.ID+"/"+p+"/"+n] = c
				}
			}
			continue
		}
		if err := w.WritePackage(deps); err != nil {
			run.Fatal("%v", err)
		}
		for _, sub := range c13Subsets {
			files, ok := subsetFiles(s, g, sub)
			if !ok {
				run.Fatal("no files for %s/%s", r.ID, sub)
			}
			// one directory per subset: the first path element is replaced
			renamed := map[string]string{}
			for n, c := range files {
				parts := strings.SplitN(n, "/", 2)
				if len(parts) != 2 {
					run.Fatal("unexpected generated file name %q", n)
				}
				renamed[sub+"_"+r.ID+"/"+parts[1]] = c
			}
			if err := w.WritePackage(renamed); err != nil {
				run.Fatal("%v", err)
			}
			pc.dirs[sub] = sub + "_" + r.ID
			dirs = append(dirs, sub+"_"+r.ID)
		}
		for _, p := range []string{"ts-client", "ts-server"} {
			for n, c := range g.Results[p].Files {
				tsFiles[r.ID+"/"+p+"/"+n] = c
			}
		}
	}
	// (a)+(d): the struct cases only need protoc-gen-go's output: the model evaluates them while the packages build
	var scs []CoqCase
	var srs []*CaseResult
	for _, pc := range cases {
		if pc.refused != "" {
			continue
		}
		r := pc.r
		structs := map[string][]goStructField{}
		for n, c := range pc.g.PB.Files {
			if strings.HasSuffix(n, ".pb.go") {
				for k, v := range parseGoStructs(c) {
					structs[k] = v
				}
			}
		}
		for _, f := range r.Files {
			if !f.Generate {
				continue
			}
			terms := coqMessageTerms(f)
			var walk func(prefix []string, ms []*Message)
			idx := 0
			walk = func(prefix []string, ms []*Message) {
				for _, m := range ms {
					p := append(append([]string{}, prefix...), m.Name)
					term := terms[idx]
					idx++
					if len(m.Fields) > 0 {
						so := structObs(structs, goMsgIdent(p), m)
						srs = append(srs, &CaseResult{ID: r.ID + ":" + strings.Join(p, "."), Family: "go-struct", Input: map[string]any{"schema": r.ID, "message": strings.Join(p, ".")},
							Obs: so, OracleHolds: true, NonTrivial: true, Features: []string{"struct"}})
						scs = append(scs, CoqCase{Term: term, Obs: so})
					}
					walk(p, m.Nested)
				}
			}
			walk(nil, f.Messages)
		}
	}
	imports := "From Sebuf Require Import Text Json Schema Emit.\n"
	var vs2 []CoqVerdict
	var err2 error
	structsDone := make(chan struct{})
	go func() {
		defer close(structsDone)
		vs2, err2 = CoqRun(run.WorkDir, "c13s", imports, "", "message", "predict_struct", scs, 4)
	}()
	// the per-subset modules of the multi-package requests are built while the main module builds
	subVerdicts := map[string]map[string]*ToolVerdict{}
	var swg sync.WaitGroup
	var smu sync.Mutex
	for _, sub := range c13Subsets {
		if subWorks[sub] == nil {
			continue
		}
		sort.Strings(subDirs[sub])
		swg.Add(1)
		go func(sub string) {
			defer swg.Done()
			v := subWorks[sub].BuildVet(subDirs[sub], 2)
			smu.Lock()
			subVerdicts[sub] = v
			smu.Unlock()
		}(sub)
	}
	verdicts := w.BuildVet(dirs, 14)
	swg.Wait()
	mark("build+vet")
	for _, sub := range c13Subsets {
		if subWorks[sub] == nil {
			continue
		}
		sv := subVerdicts[sub]
		for _, pc := range cases {
			if len(pc.multi) == 0 {
				continue
			}
			seen := map[string]bool{}
			var parts []*ToolVerdict
			for _, d := range pc.multi {
				if !seen[d] {
					seen[d] = true
					parts = append(parts, sv[d])
				}
			}
			verdicts[pc.dirs[sub]] = mergeVerdicts(parts)
		}
		dirs = append(dirs, subDirs[sub]...)
	}
	tsLoads, err := LoadTSModules(filepath.Join(run.WorkDir, "ts"), tsFiles)
	if err != nil {
		run.Fatal("%v", err)
	}
	mark("ts-load")

	var ccs []CoqCase
	var crs []*CaseResult
	for _, pc := range cases {
		r := pc.r
		if pc.refused != "" {
			run.Notes = append(run.Notes, "refused (outside C13's domain): "+r.ID+": "+pc.refused)
			continue
		}
		obs := map[string]any{}
		holds := true
		var notes []string
		for _, sub := range c13Subsets {
			v := verdicts[pc.dirs[sub]]
			obs[sub] = v
			if !v.Build || !v.Vet {
				holds = false
				notes = append(notes, sub+": "+firstDiag(v.Output))
			}
		}
		tsS, tsC := map[string]any{}, map[string]any{}
		for _, f := range r.Files {
			if !f.Generate || len(f.Services) == 0 {
				continue
			}
			base := strings.TrimSuffix(f.Path, ".proto")
			for _, x := range []struct {
				plugin, suffix string
				into           map[string]any
			}{{"ts-server", "_server.ts", tsS}, {"ts-client", "_client.ts", tsC}} {
				var found *TSLoad
				for n, l := range tsLoads {
					if strings.HasPrefix(n, r.ID+"/"+x.plugin+"/") && strings.HasSuffix(n, base+x.suffix) {
						found = l
					}
				}
				if found == nil {
					x.into[f.Path] = "missing"
					holds = false
					notes = append(notes, x.plugin+": no module for "+f.Path)
					continue
				}
				x.into[f.Path] = found.OK
				if !found.OK {
					holds = false
					notes = append(notes, x.plugin+": "+found.Cls+": "+found.Msg)
				}
			}
		}
		obs["ts_server"], obs["ts_client"] = tsS, tsC
		nt := len(r.Tags) > 0
		cr := &CaseResult{ID: r.ID, Family: "package-build", Input: map[string]any{"schema": r.ID, "tags": r.Tags}, Obs: obs,
			OracleHolds: holds, OracleNote: strings.Join(notes, " | "), NonTrivial: nt, Features: r.Tags}
		crs = append(crs, cr)
		ccs = append(ccs, CoqCase{Term: CoqSchema(r), Obs: obs})

	}
	vs, err := CoqRun(run.WorkDir, "c13", imports, "", "schema", "predict_C13", ccs, 14)
	if err != nil {
		run.Fatal("model evaluation: %v", err)
	}
	for i, cr := range crs {
		cr.Apply(vs[i])
		if cr.Unmodelled != "" && !cr.OracleHolds {
			cr.Tags = []string{"z3:" + firstWords(cr.OracleNote, 6)}
		}
		run.Results = append(run.Results, cr)
	}
	<-structsDone
	if err2 != nil {
		run.Fatal("model evaluation: %v", err2)
	}
	for i, cr := range srs {
		cr.Apply(vs2[i])
		run.Results = append(run.Results, cr)
	}
	mark("model")
	run.Extra["phase_seconds"] = phase
	run.Extra["packages_built"] = len(dirs)
	run.Extra["ts_modules_loaded"] = len(tsFiles)
	run.Extra["ts_runtime"] = NodeBin + " --experimental-strip-types"
	run.Extra["vet_analyzers"] = vetAnalyzers
	DumpResults(run)
	run.Finish()
}

func firstDiag(out string) string {
	for _, l := range strings.Split(out, "\n") {
		l = strings.TrimSpace(l)
		if goDiagLine.MatchString(l) {
			if len(l) > 220 {
				l = l[:220]
			}
			return l
		}
	}
	return firstLine(out)
}

// generatedPkgDirs: the directories (first path element of the emitted file names, = import path below the
// work module) of the Go packages the request's generated files belong to.
func generatedPkgDirs(r *Request) map[string]bool {
	out := map[string]bool{}
	for _, f := range r.Files {
		if f.Generate {
			out[strings.TrimPrefix(goImportPath(f.GoPackage), "verifgen/")] = true
		}
	}
	return out
}

// depPackageFiles runs protoc-gen-go on the user files of the request that are imported but not generated
// and belong to another Go package than the generated ones.
func depPackageFiles(g *GenOutput, r *Request) (map[string]string, error) {
	gen := generatedPkgDirs(r)
	var paths []string
	for _, f := range r.Files {
		dir := strings.TrimPrefix(goImportPath(f.GoPackage), "verifgen/")
		if f.Generate || gen[dir] {
			continue
		}
		if !strings.HasPrefix(f.Path, dir+"/") || strings.Count(f.Path, "/") != 1 {
			// an unrelated file nobody imports (C15's variants) is not needed for the build
			used := false
			for _, o := range r.Files {
				for _, i := range o.Imports {
					if i == f.Path {
						used = true
					}
				}
			}
			if !used {
				continue
			}
			return nil, fmt.Errorf("imported file %s is not in the directory of its Go package %s", f.Path, f.GoPackage)
		}
		paths = append(paths, f.Path)
	}
	if len(paths) == 0 || g.Built == nil {
		return nil, nil
	}
	pg, err := ProtocGenGo()
	if err != nil {
		return nil, err
	}
	res := RunPlugin(pg, "go", MakeCGR(g.Built.All, paths, "paths=source_relative"), 30*time.Second, 4096)
	if res.Exit != "ok" {
		return nil, fmt.Errorf("protoc-gen-go on imported files: %s %s", res.Exit, res.Error)
	}
	return res.Files, nil
}

// mergeVerdicts: a request whose files span several packages builds when each of them does.
func mergeVerdicts(parts []*ToolVerdict) *ToolVerdict {
	v := &ToolVerdict{Build: true, Vet: true, Classes: []string{}}
	set := map[string]bool{}
	for _, p := range parts {
		if p == nil {
			continue
		}
		v.Build = v.Build && p.Build
		for _, c := range p.Classes {
			set[c] = true
		}
		if p.Output != "" {
			v.Output += p.Output + "\n"
		}
	}
	for _, p := range parts {
		if p != nil {
			v.Vet = v.Vet && v.Build && p.Vet
		}
	}
	for c := range set {
		v.Classes = append(v.Classes, c)
	}
	sort.Strings(v.Classes)
	return v
}
