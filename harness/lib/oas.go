package lib

// oas.go — reading emitted OpenAPI documents (YAML with go.yaml.in/yaml/v4 at node level, JSON with
// encoding/json), exact decimal numbers, the projection compared with coq/theories/OpenApi.v, and the
// C18 well-formedness predicates evaluated directly on the parsed documents.
//
// Public helpers (reused by C06/C19): ParseOASYAML, ParseOASJSON, DecOfText, DecJSON, StripDoc,
// StripSchema, OASRefs, OASCheckWellFormed, ComponentSchemas.

import (
	"bytes"
	"encoding/json"
	"fmt"
	"math"
	"math/big"
	"regexp"
	"sort"
	"strconv"
	"strings"

	yaml "go.yaml.in/yaml/v4"
)

// Dec is an exact decimal: M * 10^E, normalised (no trailing zeros in M; zero is 0e0).
type Dec struct {
	M *big.Int
	E int
}

var oasPlainDecimalRe = regexp.MustCompile(`^-?(0|[1-9][0-9]*)(\.[0-9]+)?([eE][-+]?[0-9]+)?$`)
var oasDecRe = regexp.MustCompile(`^([-+]?)([0-9]*)(?:\.([0-9]*))?(?:[eE]([-+]?[0-9]+))?$`)

// DecOfText parses a decimal literal exactly.
func DecOfText(t string) (Dec, bool) {
	m := oasDecRe.FindStringSubmatch(t)
	if m == nil || (m[2] == "" && m[3] == "") {
		return Dec{}, false
	}
	digits := m[2] + m[3]
	e := -len(m[3])
	if m[4] != "" {
		x, err := strconv.Atoi(m[4])
		if err != nil {
			return Dec{}, false
		}
		e += x
	}
	n, ok := new(big.Int).SetString(digits, 10)
	if !ok {
		return Dec{}, false
	}
	if m[1] == "-" {
		n.Neg(n)
	}
	return oasNormDec(Dec{n, e}), true
}

func oasNormDec(d Dec) Dec {
	if d.M.Sign() == 0 {
		return Dec{big.NewInt(0), 0}
	}
	ten := big.NewInt(10)
	m := new(big.Int).Set(d.M)
	e := d.E
	q, r := new(big.Int), new(big.Int)
	for {
		q.QuoRem(m, ten, r)
		if r.Sign() != 0 {
			break
		}
		m.Set(q)
		e++
	}
	return Dec{m, e}
}

// IntValue returns the integer value when the decimal is integral.
func (d Dec) IntValue() (*big.Int, bool) {
	if d.E < 0 {
		return nil, false
	}
	return new(big.Int).Mul(d.M, new(big.Int).Exp(big.NewInt(10), big.NewInt(int64(d.E)), nil)), true
}

// DecJSON is the canonical JSON form of a number shared with JsonSchema.json_of_dec: an integer prints
// as an integer, everything else as {"$dec":[mantissa, exponent]}.
func DecJSON(d Dec) any {
	if z, ok := d.IntValue(); ok {
		return json.Number(z.String())
	}
	return map[string]any{"$dec": []any{json.Number(d.M.String()), json.Number(strconv.Itoa(d.E))}}
}

// Coq renders the decimal as a Coq term of type dec (not normalised further).
func (d Dec) Coq() string { return fmt.Sprintf("(mkdec (%s)%%Z (%d)%%Z)", d.M.String(), d.E) }

func (d Dec) Float() float64 {
	f, _ := strconv.ParseFloat(d.M.String()+"e"+strconv.Itoa(d.E), 64)
	return f
}

func oasDecOfFloat(f float64) any {
	if math.IsInf(f, 0) || math.IsNaN(f) {
		return map[string]any{"$nonfinite": fmt.Sprint(f)}
	}
	d, _ := DecOfText(strconv.FormatFloat(f, 'g', -1, 64))
	return DecJSON(d)
}

// ParseOASJSON parses a JSON document keeping numbers exact.
func ParseOASJSON(text string) (any, error) {
	dec := json.NewDecoder(strings.NewReader(text))
	dec.UseNumber()
	var v any
	if err := dec.Decode(&v); err != nil {
		return nil, err
	}
	return oasCanonNumbers(v), nil
}

func oasCanonNumbers(v any) any {
	switch x := v.(type) {
	case json.Number:
		if d, ok := DecOfText(x.String()); ok {
			return DecJSON(d)
		}
		return x
	case float64:
		return oasDecOfFloat(x)
	case int:
		return json.Number(strconv.Itoa(x))
	case int64:
		return json.Number(strconv.FormatInt(x, 10))
	case uint64:
		return json.Number(strconv.FormatUint(x, 10))
	case []any:
		for i := range x {
			x[i] = oasCanonNumbers(x[i])
		}
		return x
	case map[string]any:
		for k, e := range x {
			x[k] = oasCanonNumbers(e)
		}
		return x
	}
	return v
}

// ParseOASYAML parses a YAML document at node level: plain decimal numbers are read from their text
// (exact), other scalars through the library's resolver (YAML 1.2 core schema as implemented by
// go.yaml.in/yaml/v4). Duplicate mapping keys are reported.
func ParseOASYAML(text string) (any, error) {
	var root yaml.Node
	if err := yaml.Unmarshal([]byte(text), &root); err != nil {
		return nil, err
	}
	if root.Kind == yaml.DocumentNode && len(root.Content) == 1 {
		return oasYamlNodeValue(root.Content[0])
	}
	return oasYamlNodeValue(&root)
}

func oasYamlNodeValue(n *yaml.Node) (any, error) {
	switch n.Kind {
	case yaml.MappingNode:
		out := map[string]any{}
		for i := 0; i+1 < len(n.Content); i += 2 {
			kv, err := oasYamlNodeValue(n.Content[i])
			if err != nil {
				return nil, err
			}
			key := ""
			switch k := kv.(type) {
			case string:
				key = k
			case nil:
				key = "null"
			default:
				b, _ := json.Marshal(k)
				key = string(b)
			}
			if _, dup := out[key]; dup {
				return nil, fmt.Errorf("duplicate mapping key %q", key)
			}
			v, err := oasYamlNodeValue(n.Content[i+1])
			if err != nil {
				return nil, err
			}
			out[key] = v
		}
		return out, nil
	case yaml.SequenceNode:
		out := make([]any, 0, len(n.Content))
		for _, c := range n.Content {
			v, err := oasYamlNodeValue(c)
			if err != nil {
				return nil, err
			}
			out = append(out, v)
		}
		return out, nil
	case yaml.AliasNode:
		return oasYamlNodeValue(n.Alias)
	case yaml.ScalarNode:
		tag := n.ShortTag()
		switch tag {
		case "!!str", "!!timestamp", "!!binary", "!!merge":
			return n.Value, nil
		case "!!null":
			return nil, nil
		case "!!bool":
			var b bool
			if err := n.Decode(&b); err != nil {
				return nil, err
			}
			return b, nil
		case "!!int", "!!float":
			if oasPlainDecimalRe.MatchString(n.Value) {
				if d, ok := DecOfText(n.Value); ok {
					return DecJSON(d), nil
				}
			}
			var v any
			if err := n.Decode(&v); err != nil {
				return nil, err
			}
			return oasCanonNumbers(v), nil
		}
		var v any
		if err := n.Decode(&v); err != nil {
			return nil, err
		}
		return oasCanonNumbers(v), nil
	}
	return nil, fmt.Errorf("unexpected YAML node kind %d", n.Kind)
}

// ---- projection compared with the model --------------------------------------------------------

// StripSchema removes annotation-only keywords (description, title) from a schema, position-aware
// (a property may be called "description"). example/examples are kept: the model carries them for
// field_examples.
func StripSchema(v any) any {
	m, ok := v.(map[string]any)
	if !ok {
		return v
	}
	out := map[string]any{}
	for k, e := range m {
		switch k {
		case "description", "title":
			continue
		case "properties":
			if pm, ok := e.(map[string]any); ok {
				np := map[string]any{}
				for pk, pv := range pm {
					np[pk] = StripSchema(pv)
				}
				out[k] = np
				continue
			}
			out[k] = e
		case "items", "additionalProperties":
			out[k] = StripSchema(e)
		case "allOf", "oneOf", "anyOf":
			if l, ok := e.([]any); ok {
				nl := make([]any, len(l))
				for i := range l {
					nl[i] = StripSchema(l[i])
				}
				out[k] = nl
				continue
			}
			out[k] = e
		default:
			out[k] = e
		}
	}
	return out
}

func oasMap(v any) map[string]any {
	m, _ := v.(map[string]any)
	return m
}

// StripDoc projects a parsed document onto what OpenApi.document_y models: info.title, paths (without
// summary/description, header example/description/deprecated), components.schemas (without descriptions).
func StripDoc(doc any) map[string]any {
	d := oasMap(doc)
	out := map[string]any{}
	if info := oasMap(d["info"]); info != nil {
		out["info"] = map[string]any{"title": info["title"]}
	}
	paths := map[string]any{}
	for p, item := range oasMap(d["paths"]) {
		ni := map[string]any{}
		for verb, opv := range oasMap(item) {
			op := oasMap(opv)
			if op == nil {
				ni[verb] = opv
				continue
			}
			no := map[string]any{}
			for k, e := range op {
				switch k {
				case "summary", "description":
				case "parameters":
					var ps []any
					if l, ok := e.([]any); ok {
						for _, pv := range l {
							pm := oasMap(pv)
							np := map[string]any{}
							for pk, pe := range pm {
								switch pk {
								case "description", "deprecated":
								case "schema":
									sm := oasMap(StripSchema(pe))
									if pm["in"] == "header" {
										delete(sm, "example")
									}
									np[pk] = sm
								default:
									np[pk] = pe
								}
							}
							ps = append(ps, np)
						}
					}
					no[k] = ps
				case "responses":
					nr := map[string]any{}
					for code, rv := range oasMap(e) {
						rm := map[string]any{}
						for rk, re := range oasMap(rv) {
							if rk != "description" {
								rm[rk] = re
							}
						}
						nr[code] = rm
					}
					no[k] = nr
				default:
					no[k] = e
				}
			}
			ni[verb] = no
		}
		paths[p] = ni
	}
	out["paths"] = paths
	schemas := map[string]any{}
	if comps := oasMap(d["components"]); comps != nil {
		for n, sv := range oasMap(comps["schemas"]) {
			schemas[n] = StripSchema(sv)
		}
	}
	out["components"] = map[string]any{"schemas": schemas}
	return out
}

// ComponentSchemas returns components.schemas of a parsed document.
func ComponentSchemas(doc any) map[string]any {
	return oasMap(oasMap(oasMap(doc)["components"])["schemas"])
}

// ---- the C18 predicates on a parsed document --------------------------------------------------------

const oasRefPrefix = "#/components/schemas/"

// OASRefs lists every $ref value and discriminator mapping target of a document.
func OASRefs(v any) []string {
	var out []string
	var walk func(v any)
	walk = func(v any) {
		switch x := v.(type) {
		case map[string]any:
			for k, e := range x {
				if k == "$ref" {
					if s, ok := e.(string); ok {
						out = append(out, s)
						continue
					}
				}
				if k == "discriminator" {
					if dm, ok := e.(map[string]any); ok {
						if mm, ok := dm["mapping"].(map[string]any); ok {
							for _, t := range mm {
								if s, ok := t.(string); ok {
									out = append(out, s)
								}
							}
							continue
						}
					}
				}
				walk(e)
			}
		case []any:
			for _, e := range x {
				walk(e)
			}
		}
	}
	walk(v)
	sort.Strings(out)
	return out
}

var oasPathVarRe = regexp.MustCompile(`\{([^}]+)\}`)
var oasVerbs = map[string]bool{"get": true, "put": true, "post": true, "delete": true, "options": true, "head": true, "patch": true, "trace": true}

// OASCheckWellFormed evaluates the document-level clauses of C18 on a parsed document and returns the
// list of violated clauses (empty = well-formed). rpcs = the RPC names of the service; reachable =
// full names of the messages reachable from the RPCs through message-typed fields.
func OASCheckWellFormed(doc any, rpcs []string, reachable []string) []string {
	var bad []string
	d := oasMap(doc)
	comps := ComponentSchemas(doc)
	for _, r := range OASRefs(doc) {
		if !strings.HasPrefix(r, oasRefPrefix) {
			bad = append(bad, "ref-unresolved: "+r)
			continue
		}
		if _, ok := comps[strings.TrimPrefix(r, oasRefPrefix)]; !ok {
			bad = append(bad, "ref-unresolved: "+r)
		}
	}
	opIDs := map[string]int{}
	nOps := 0
	paths := oasMap(d["paths"])
	pkeys := make([]string, 0, len(paths))
	for p := range paths {
		pkeys = append(pkeys, p)
	}
	sort.Strings(pkeys)
	for _, p := range pkeys {
		vars := map[string]int{}
		for _, m := range oasPathVarRe.FindAllStringSubmatch(p, -1) {
			vars[m[1]]++
		}
		for verb, opv := range oasMap(paths[p]) {
			if !oasVerbs[verb] {
				continue
			}
			op := oasMap(opv)
			nOps++
			id := fmt.Sprint(op["operationId"])
			opIDs[id]++
			declared := map[string]int{}
			seen := map[string]int{}
			if l, ok := op["parameters"].([]any); ok {
				for _, pv := range l {
					pm := oasMap(pv)
					name := fmt.Sprint(pm["name"])
					in := fmt.Sprint(pm["in"])
					key := in + ":" + name
					if in == "header" {
						key = in + ":" + strings.ToLower(name) // RFC 9110: header names are case-insensitive
					}
					seen[key]++
					if in == "path" {
						declared[name]++
						if req, _ := pm["required"].(bool); !req {
							bad = append(bad, fmt.Sprintf("path-parameter-not-required: %s %s %s", verb, p, name))
						}
					}
				}
			}
			for k, n := range seen {
				if n > 1 {
					bad = append(bad, fmt.Sprintf("parameter-declared-%d-times: %s %s %s", n, verb, p, k))
				}
			}
			for v, n := range vars {
				if n != 1 {
					bad = append(bad, fmt.Sprintf("template-variable-%d-times: %s %s", n, p, v))
				}
				if declared[v] != 1 {
					bad = append(bad, fmt.Sprintf("template-variable-declared-%d-times: %s %s %s", declared[v], verb, p, v))
				}
			}
			for v := range declared {
				if vars[v] == 0 {
					bad = append(bad, fmt.Sprintf("path-parameter-not-in-template: %s %s %s", verb, p, v))
				}
			}
		}
	}
	for id, n := range opIDs {
		if n > 1 {
			bad = append(bad, fmt.Sprintf("operationId-%d-times: %s", n, id))
		}
	}
	for _, rpc := range rpcs {
		if opIDs[rpc] == 0 {
			bad = append(bad, "rpc-without-operation: "+rpc)
		}
	}
	shorts := map[string]string{}
	for _, fq := range reachable {
		sn := fq
		if i := strings.LastIndex(fq, "."); i >= 0 {
			sn = fq[i+1:]
		}
		if _, ok := comps[sn]; !ok {
			bad = append(bad, "reachable-message-without-schema: "+fq)
		}
		if other, ok := shorts[sn]; ok && other != fq {
			bad = append(bad, fmt.Sprintf("one-component-for-two-messages: %s = %s and %s", sn, other, fq))
		}
		shorts[sn] = fq
		if sn == "Error" || sn == "ValidationError" || sn == "FieldViolation" {
			bad = append(bad, "message-replaces-builtin-schema: "+fq)
		}
	}
	sort.Strings(bad)
	return bad
}

// ReachableMessages lists the full names of the messages reachable from a service's RPCs through
// message-typed fields (map values included; map-entry pseudo-messages are not messages).
func ReachableMessages(r *Request, s *Service) []string {
	seen := map[string]bool{}
	var order []string
	var visit func(fq string)
	visit = func(fq string) {
		if seen[fq] {
			return
		}
		seen[fq] = true
		order = append(order, fq)
		m, _ := r.FindMessage(fq)
		if m == nil {
			return
		}
		for _, f := range m.Fields {
			if f.Kind == "message" {
				visit(f.TypeName)
			}
		}
	}
	for _, m := range s.Methods {
		visit(m.In)
		visit(m.Out)
	}
	return order
}

// JSONEqualDocs compares two parsed documents structurally and returns "" or the first difference.
func JSONEqualDocs(a, b any) string {
	ab, _ := json.Marshal(a)
	bb, _ := json.Marshal(b)
	if bytes.Equal(ab, bb) {
		return ""
	}
	return Diff(Canon(a), Canon(b))
}
