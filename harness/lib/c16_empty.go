package lib

import "fmt"

// c16_empty.go — the PRESENT-BUT-EMPTY family of the C16 check (every plugin answers with files or an
// error message, none crashes or hangs).
//
// Every sebuf annotation is an extension with explicit presence: `[(sebuf.http.field_examples) = {}]`,
// `[(sebuf.http.unwrap) = false]`, `option (sebuf.http.service_headers) = {}` ... put the option ON the
// element while its value is the zero value (what is left after deleting the last example / header /
// discriminator and keeping the braces). A generator that tests presence (proto.HasExtension, a nil
// check on the config message) where it used to test content (len(values) > 0, name != "") then reads
// values[0], indexes an empty name, ... The family puts each annotation in that form on every place it
// may (and may not) appear:
//
//   field annotations  x  field shapes : field_examples {}, query {}, unwrap/nullable/flatten false,
//                         oneof_value "", flatten_prefix "", the five *_encoding / format / behavior enums
//                         UNSPECIFIED — on scalar, enum, message, Timestamp, optional, repeated, map fields,
//                         oneof members (plain and discriminated oneofs), the repeated field of a map-value
//                         wrapper and the map over such wrappers; plus all of them at once per shape.
//                         The message under test is a POST body, a GET request (query side) and is
//                         reachable from a response;
//   service / method   : service_config {} (no base_path), config {} (no path, no method),
//                         service_headers {} / method_headers {} (no required_headers), a header entry with
//                         every member empty, and their combinations;
//   oneof_config {}    : no discriminator, flatten false/true, over scalar / message / mixed members, with
//                         and without oneof_value "" on the members;
//   enum_value ""      : on the first, on one of several, on every value of a top-level and of a nested enum
//                         used by singular / optional / repeated / map / query fields.
//
// One annotation-and-place per request so that a plugin that dies on one shape does not hide the next.
// All message graphs are acyclic and small: Traverse.predict_C16 predicts termination for every one.

var c16FieldAnnotations = []string{"field_examples", "query", "unwrap", "nullable", "flatten", "flatten_prefix", "oneof_value",
	"int64_encoding", "enum_encoding", "empty_behavior", "timestamp_format", "bytes_encoding"}

type c16FieldShape struct {
	label string
	// build returns the messages of the file (Req first); the field(s) under test carry opt
	build func(pkg string, opt FieldOpt) []*Message
}

func c16FieldShapes() []c16FieldShape {
	item := func() *Message { return M("Item", F("sku", 1, "string"), F("qty", 2, "int64")) }
	simple := func(label, kind string, opts ...FieldOpt) c16FieldShape {
		return c16FieldShape{label, func(pkg string, opt FieldOpt) []*Message {
			return []*Message{M("Req", F("id", 1, "string"), F("subject", 2, kind, append(append([]FieldOpt{}, opts...), opt)...))}
		}}
	}
	withItem := func(label string, opts ...FieldOpt) c16FieldShape {
		return c16FieldShape{label, func(pkg string, opt FieldOpt) []*Message {
			os := append([]FieldOpt{Msg(pkg + ".Item")}, opts...)
			return []*Message{M("Req", F("id", 1, "string"), F("subject", 2, "", append(os, opt)...)), item()}
		}}
	}
	withEnum := func(label string, opts ...FieldOpt) c16FieldShape {
		return c16FieldShape{label, func(pkg string, opt FieldOpt) []*Message {
			os := append([]FieldOpt{EnumT(pkg + ".Req.Color")}, opts...)
			return []*Message{M("Req", F("id", 1, "string"), F("subject", 2, "", append(os, opt)...)).WithEnums(E("Color", "COLOR_UNSPECIFIED", "COLOR_RED"))}
		}}
	}
	oneof := func(label string, cfg *Oneof, msgMember bool) c16FieldShape {
		return c16FieldShape{label, func(pkg string, opt FieldOpt) []*Message {
			o := *cfg
			m := M("Req", F("id", 1, "string"), F("subject", 2, "string", InOneof(o.Name), opt))
			if msgMember {
				m = M("Req", F("id", 1, "string"), F("subject", 2, "", Msg(pkg+".Item"), InOneof(o.Name), opt))
			}
			m.Fields = append(m.Fields, F("other", 3, "", Msg(pkg+".Item"), InOneof(o.Name)), F("count", 4, "int32", InOneof(o.Name)))
			return []*Message{m.WithOneofs(&o), item()}
		}}
	}
	return []c16FieldShape{
		simple("string", "string"), simple("int32", "int32"), simple("int64", "int64"), simple("uint64", "uint64"), simple("bool", "bool"),
		simple("bytes", "bytes"), simple("double", "double"),
		withEnum("enum"), withItem("message"), simple("timestamp", "", Msg(Timestamp)),
		simple("optional-string", "string", Opt()), simple("optional-int64", "int64", Opt()), withItem("optional-message", Opt()),
		simple("repeated-string", "string", Rep()), simple("repeated-int64", "int64", Rep()), withItem("repeated-message", Rep()), withEnum("repeated-enum", Rep()),
		simple("map-string", "string", MapOf("string")), simple("map-int64", "int64", MapOf("int32")), withItem("map-message", MapOf("string")), withEnum("map-enum", MapOf("string")),
		oneof("oneof-member-scalar", &Oneof{Name: "pick"}, false), oneof("oneof-member-message", &Oneof{Name: "pick"}, true),
		oneof("discriminated-member-scalar", &Oneof{Name: "pick", HasConfig: true, Discriminator: "kind"}, false),
		oneof("discriminated-member-message", &Oneof{Name: "pick", HasConfig: true, Discriminator: "kind"}, true),
		oneof("flattened-member-message", &Oneof{Name: "pick", HasConfig: true, Discriminator: "kind", Flatten: true}, true),
		// the map-value wrapper of the unwrap feature: annotation on the wrapper's repeated field / on the map over it
		{"wrapper-items", func(pkg string, opt FieldOpt) []*Message {
			return []*Message{M("Req", F("id", 1, "string"), F("by_key", 2, "", Msg(pkg+".List"), MapOf("string"))),
				M("List", F("subject", 1, "", Msg(pkg+".Item"), Rep(), opt)), item()}
		}},
		{"map-of-wrapper", func(pkg string, opt FieldOpt) []*Message {
			return []*Message{M("Req", F("id", 1, "string"), F("subject", 2, "", Msg(pkg+".List"), MapOf("string"), opt)),
				M("List", F("items", 1, "", Msg(pkg+".Item"), Rep(), Unwrap())), item()}
		}},
		{"root-unwrap-candidate", func(pkg string, opt FieldOpt) []*Message { // a message whose ONLY field is the repeated subject
			return []*Message{M("Req", F("subject", 1, "", Msg(pkg+".Item"), Rep(), opt)), item()}
		}},
	}
}

func c16PresentEmptyRequests(tier string) []*Request {
	var out []*Request
	n := 0
	one := func(tag string, build func(id, pkg string, f *File, r *Request)) {
		n++
		id := fmt.Sprintf("c16pe%d", n)
		pkg := id + ".v1"
		f := &File{}
		r := OneFile(id, pkg, f)
		r.Tags = []string{"c16", "present-empty", tag}
		build(id, pkg, f, r)
		out = append(out, r)
	}
	// the message under test as POST body, as GET request (its fields are query parameters / path variables)
	// and inside a response
	usual := func(pkg string, f *File, msgs []*Message) {
		f.Messages = append(msgs, M("Res", F("ok", 1, "bool"), F("echo", 2, "", Msg(pkg+".Req")), F("all", 3, "", Msg(pkg+".Req"), Rep())))
		f.Services = []*Service{Svc("S", "/s", RPC("Post", pkg+".Req", pkg+".Res", "POST", "/c"), RPC("Get", pkg+".Req", pkg+".Req", "GET", "/g"),
			RPC("Del", pkg+".Req", pkg+".Res", "DELETE", "/d/{id}"))}
	}

	// ---- (A) field annotations x field shapes ---------------------------------------------------------
	shapes := c16FieldShapes()
	for _, a := range c16FieldAnnotations {
		for _, sh := range shapes {
			a, sh := a, sh
			one(a+"/"+sh.label, func(id, pkg string, f *File, r *Request) { usual(pkg, f, sh.build(pkg, PresentEmpty(a))) })
		}
	}
	for _, sh := range shapes {
		sh := sh
		one("all-field-annotations/"+sh.label, func(id, pkg string, f *File, r *Request) {
			usual(pkg, f, sh.build(pkg, PresentEmpty(c16FieldAnnotations...)))
		})
	}
	// the empty annotation next to a non-empty sibling: examples on one field, {} on the next (index bookkeeping)
	one("field_examples/next-to-filled", func(id, pkg string, f *File, r *Request) {
		usual(pkg, f, []*Message{M("Req", F("id", 1, "string", Examples("a", "b")), F("subject", 2, "string", PresentEmpty("field_examples")), F("last", 3, "int32", Examples("1")),
			F("q", 4, "string", Query("q", true), PresentEmpty("field_examples")), F("p", 5, "int64", PresentEmpty("query", "field_examples")))})
	})

	// ---- (B) service_config / config / service_headers / method_headers ---------------------------------
	type svcShape struct {
		label                          string
		svcCfg, svcHdr, mCfg, mHdr     bool // present and empty
		svcHdrEntry, mHdrEntry, noMeth bool
	}
	for _, s := range []svcShape{
		{label: "service_config"}, {label: "service_headers"}, {label: "config"}, {label: "method_headers"},
		{label: "service_config+service_headers"}, {label: "config+method_headers"}, {label: "all-four"},
		{label: "service_headers-empty-entry"}, {label: "method_headers-empty-entry"}, {label: "both-headers-empty-entry"},
		{label: "service_headers+no-methods"}, {label: "service_config+no-methods"},
	} {
		s := s
		switch s.label {
		case "service_config":
			s.svcCfg = true
		case "service_headers":
			s.svcHdr = true
		case "config":
			s.mCfg = true
		case "method_headers":
			s.mHdr = true
		case "service_config+service_headers":
			s.svcCfg, s.svcHdr = true, true
		case "config+method_headers":
			s.mCfg, s.mHdr = true, true
		case "all-four":
			s.svcCfg, s.svcHdr, s.mCfg, s.mHdr = true, true, true, true
		case "service_headers-empty-entry":
			s.svcHdrEntry = true
		case "method_headers-empty-entry":
			s.mHdrEntry = true
		case "both-headers-empty-entry":
			s.svcHdrEntry, s.mHdrEntry = true, true
		case "service_headers+no-methods":
			s.svcHdr, s.noMeth = true, true
		case "service_config+no-methods":
			s.svcCfg, s.noMeth = true, true
		}
		one("service/"+s.label, func(id, pkg string, f *File, r *Request) {
			f.Messages = []*Message{M("Req", F("id", 1, "string"), F("note", 2, "string")), M("Res", F("ok", 1, "bool"))}
			m := &Method{Name: "Call", In: pkg + ".Req", Out: pkg + ".Res"}
			m.HasConfig = s.mCfg // config {}: no path, no method
			m.HeadersEmpty = s.mHdr
			if s.mHdrEntry {
				m.Headers = []*Header{{}}
			}
			svc := &Service{Name: "Svc", HasConfig: s.svcCfg, HeadersEmpty: s.svcHdr}
			if s.svcHdrEntry {
				svc.Headers = []*Header{{}}
			}
			if !s.noMeth {
				// a configured sibling, so that a generator that skips unconfigured methods still walks the service
				svc.Methods = []*Method{m, RPC("Other", pkg+".Req", pkg+".Res", "GET", "/o/{id}")}
			}
			f.Services = []*Service{svc}
			if s.noMeth {
				f.Services = append(f.Services, Svc("Real", "/r", RPC("Call", pkg+".Req", pkg+".Res", "POST", "/c")))
			}
		})
	}

	// ---- (C) oneof_config {} -------------------------------------------------------------------------------
	for _, members := range []string{"scalar", "message", "mixed", "single"} {
		for _, flat := range []bool{false, true} {
			for _, emptyVals := range []bool{false, true} {
				members, flat, emptyVals := members, flat, emptyVals
				tag := fmt.Sprintf("oneof_config/%s-members", members)
				if flat {
					tag += "+flatten"
				}
				if emptyVals {
					tag += "+oneof_value-empty"
				}
				one(tag, func(id, pkg string, f *File, r *Request) {
					val := func(*Field) {}
					if emptyVals {
						val = OneofVal("")
					}
					m := M("Req", F("id", 1, "string"))
					switch members {
					case "scalar":
						m.Fields = append(m.Fields, F("text", 2, "string", InOneof("content"), val), F("num", 3, "int64", InOneof("content"), val))
					case "message":
						m.Fields = append(m.Fields, F("item", 2, "", Msg(pkg+".Item"), InOneof("content"), val), F("at", 3, "", Msg(Timestamp), InOneof("content"), val))
					case "mixed":
						m.Fields = append(m.Fields, F("item", 2, "", Msg(pkg+".Item"), InOneof("content"), val), F("text", 3, "string", InOneof("content"), val),
							F("color", 4, "", EnumT(pkg+".Color"), InOneof("content")))
					case "single":
						m.Fields = append(m.Fields, F("item", 2, "", Msg(pkg+".Item"), InOneof("content"), val))
					}
					m.WithOneofs(&Oneof{Name: "content", HasConfig: true, Discriminator: "", Flatten: flat})
					f.Enums = []*Enum{E("Color", "COLOR_UNSPECIFIED", "COLOR_RED")}
					usual(pkg, f, []*Message{m, M("Item", F("sku", 1, "string"), F("qty", 2, "int64"))})
				})
			}
		}
	}
	// a discriminator that is there, member values that are empty (two members then share the value "")
	for _, flat := range []bool{false, true} {
		flat := flat
		one(fmt.Sprintf("oneof_value/all-members-empty-flatten-%v", flat), func(id, pkg string, f *File, r *Request) {
			m := M("Req", F("id", 1, "string"), F("item", 2, "", Msg(pkg+".Item"), InOneof("content"), OneofVal("")), F("more", 3, "", Msg(pkg+".More"), InOneof("content"), OneofVal("")),
				F("text", 4, "string", InOneof("content"), OneofVal(""))).WithOneofs(&Oneof{Name: "content", HasConfig: true, Discriminator: "kind", Flatten: flat})
			usual(pkg, f, []*Message{m, M("Item", F("sku", 1, "string")), M("More", F("n", 1, "int32"))})
		})
	}

	// ---- (D) enum_value "" -------------------------------------------------------------------------------------
	for _, where := range []string{"first", "one-of-several", "every", "only-nonzero"} {
		for _, nested := range []bool{false, true} {
			where, nested := where, nested
			one(fmt.Sprintf("enum_value/%s/nested-%v", where, nested), func(id, pkg string, f *File, r *Request) {
				e := &Enum{Name: "Status", Values: []*EnumValue{{Name: "STATUS_UNSPECIFIED", Number: 0}, {Name: "STATUS_ON", Number: 1}, {Name: "STATUS_OFF", Number: 2}}}
				switch where {
				case "first":
					e.Values[0].EnumValue = Str("")
				case "one-of-several":
					e.Values[0].EnumValue, e.Values[1].EnumValue, e.Values[2].EnumValue = Str("unknown"), Str(""), Str("off")
				case "every":
					for _, v := range e.Values {
						v.EnumValue = Str("")
					}
				case "only-nonzero":
					e.Values[1].EnumValue, e.Values[2].EnumValue = Str(""), Str("")
				}
				tn := pkg + ".Status"
				req := M("Req", F("id", 1, "string"))
				if nested {
					tn = pkg + ".Req.Status"
					req.WithEnums(e)
				} else {
					f.Enums = []*Enum{e}
				}
				req.Fields = append(req.Fields, F("s", 2, "", EnumT(tn)), F("o", 3, "", EnumT(tn), Opt()), F("l", 4, "", EnumT(tn), Rep()), F("m", 5, "", EnumT(tn), MapOf("string")),
					F("q", 6, "", EnumT(tn), Query("status", false)), F("n", 7, "", EnumT(tn), EnumEnc("NUMBER")), F("t", 8, "", EnumT(tn), EnumEnc("STRING")),
					F("x", 9, "", EnumT(tn), Examples("")))
				usual(pkg, f, []*Message{req})
			})
		}
	}
	return out
}
