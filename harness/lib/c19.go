package lib

// c19.go — C19: the constraints the OpenAPI document states for a rule-carrying field accept exactly the
// values the buf.validate rules accept.
// Families:
//   schema      emitted field schema (projected) and `required` membership vs Rules.field_schema_y;
//               oracle: required listed iff the rules require it, well-known format under its name
//   probe       values at and around every bound: the reference validator (python jsonschema,
//               Draft 2020-12) on the EMITTED schema and the wire JSON of the value; oracle: verdict =
//               rule semantics (computed here, independently of the Coq model); model: Rules.sat,
//               Rules.to_json and JsonSchema.validates over Rules.translate
//   validator   conformance of JsonSchema.validates with the reference validator on emitted component
//               schemas x generated instances

import (
	"encoding/json"
	"fmt"
	"math"
	"math/big"
	"math/rand"
	"path/filepath"
	"regexp"
	"sort"
	"strconv"
	"strings"
	"time"
	"unicode/utf8"
)

// ---- rule semantics, Go side (the oracle's reading of the protovalidate documentation) ------------

type oasNum struct {
	Int *big.Int // integer kinds
	F   float64  // float kinds: the exact value (float32 widened)
	Flt bool
}

func (a oasNum) cmp(b oasNum) int {
	if a.Flt {
		switch {
		case a.F < b.F:
			return -1
		case a.F > b.F:
			return 1
		}
		return 0
	}
	return a.Int.Cmp(b.Int)
}

func oasRuleNum(kind, lit string) oasNum {
	n, err := NumRuleOf(kind, lit)
	if err != nil {
		panic(err)
	}
	if oasIsFloatKind(kind) {
		return oasNum{F: n.F, Flt: true}
	}
	return oasNum{Int: n.Big}
}

func oasSatNum(kind string, r *Rules, v oasNum) bool {
	lowerOK, upperOK := true, true
	var lo, hi *oasNum
	if r.NumGt != nil {
		b := oasRuleNum(kind, *r.NumGt)
		lowerOK = lowerOK && v.cmp(b) > 0
		lo = &b
	}
	if r.NumGte != nil {
		b := oasRuleNum(kind, *r.NumGte)
		lowerOK = lowerOK && v.cmp(b) >= 0
		if lo == nil {
			lo = &b
		}
	}
	if r.NumLt != nil {
		b := oasRuleNum(kind, *r.NumLt)
		upperOK = upperOK && v.cmp(b) < 0
		hi = &b
	}
	if r.NumLte != nil {
		b := oasRuleNum(kind, *r.NumLte)
		upperOK = upperOK && v.cmp(b) <= 0
		if hi == nil {
			hi = &b
		}
	}
	ok := lowerOK && upperOK
	if lo != nil && hi != nil && hi.cmp(*lo) < 0 { // reversed range: the value must lie outside
		ok = lowerOK || upperOK
	}
	if r.NumConst != nil && v.cmp(oasRuleNum(kind, *r.NumConst)) != 0 {
		ok = false
	}
	if len(r.NumIn) > 0 {
		found := false
		for _, x := range r.NumIn {
			if v.cmp(oasRuleNum(kind, x)) == 0 {
				found = true
			}
		}
		ok = ok && found
	}
	return ok
}

func oasSatStr(r *Rules, x string) bool {
	n := uint64(utf8.RuneCountInString(x))
	if r.MinLen != nil && n < *r.MinLen {
		return false
	}
	if r.MaxLen != nil && n > *r.MaxLen {
		return false
	}
	if r.Len != nil && n != *r.Len {
		return false
	}
	if r.Pattern != nil && !regexp.MustCompile(*r.Pattern).MatchString(x) {
		return false
	}
	if len(r.StrIn) > 0 {
		found := false
		for _, y := range r.StrIn {
			found = found || x == y
		}
		if !found {
			return false
		}
	}
	for _, y := range r.StrNotIn {
		if x == y {
			return false
		}
	}
	if r.StrConst != nil && *r.StrConst != x {
		return false
	}
	return true // well-known formats: only their publication is checked (schema family)
}

// oasProbe is a probe with both the rule-side value and the wire/JSON side.
type oasProbe struct {
	PV    ProbeValue
	Strs  []string // string elements
	Nums  []oasNum // numeric elements
	Wire  any
	Label string
}

func oasSat(f *Field, p oasProbe) bool {
	r := f.Rules
	elem := func(i int) bool {
		switch {
		case f.Kind == "string":
			return oasSatStr(r, p.Strs[i])
		case oasIsIntKind(f.Kind) || oasIsFloatKind(f.Kind):
			return oasSatNum(f.Kind, r, p.Nums[i])
		}
		return true
	}
	n := len(p.PV.List)
	switch f.Card {
	case "repeated":
		if r.MinItems != nil && uint64(n) < *r.MinItems {
			return false
		}
		if r.MaxItems != nil && uint64(n) > *r.MaxItems {
			return false
		}
		if r.Unique != nil && *r.Unique {
			seen := map[string]bool{}
			for i := 0; i < n; i++ {
				k := oasProbeKey(f, p, i)
				if seen[k] {
					return false
				}
				seen[k] = true
			}
		}
		for i := 0; i < n; i++ {
			if !elem(i) {
				return false
			}
		}
		return true
	case "map":
		if r.MinPairs != nil && uint64(n) < *r.MinPairs {
			return false
		}
		if r.MaxPairs != nil && uint64(n) > *r.MaxPairs {
			return false
		}
		for i := 0; i < n; i++ {
			if !elem(i) {
				return false
			}
		}
		return true
	}
	return elem(0)
}

func oasProbeKey(f *Field, p oasProbe, i int) string {
	switch {
	case f.Kind == "string":
		return "s:" + p.Strs[i]
	case oasIsIntKind(f.Kind):
		return "i:" + p.Nums[i].Int.String()
	case oasIsFloatKind(f.Kind):
		return "f:" + strconv.FormatFloat(p.Nums[i].F, 'g', -1, 64)
	}
	b, _ := json.Marshal(p.PV.List[i].Other)
	return "o:" + string(b)
}

// ---- probe construction --------------------------------------------------------------------------------

func oasIntRange(kind string) (*big.Int, *big.Int) {
	two := big.NewInt(2)
	p := func(n int64) *big.Int { return new(big.Int).Exp(two, big.NewInt(n), nil) }
	one := big.NewInt(1)
	switch kind {
	case "int32", "sint32", "sfixed32":
		return new(big.Int).Neg(p(31)), new(big.Int).Sub(p(31), one)
	case "uint32", "fixed32":
		return big.NewInt(0), new(big.Int).Sub(p(32), one)
	case "int64", "sint64", "sfixed64":
		return new(big.Int).Neg(p(63)), new(big.Int).Sub(p(63), one)
	}
	return big.NewInt(0), new(big.Int).Sub(p(64), one)
}

// scalarProbe builds one scalar element of the field's kind.
type oasScalarElem struct {
	PS   ProbeScalar
	Str  string
	Num  oasNum
	Wire any
}

func oasIntElem(f *Field, z *big.Int) oasScalarElem {
	ps := ProbeScalar{Kind: "num", Num: Dec{new(big.Int).Set(z), 0}}
	var wire any = json.Number(z.String())
	if oasIs64Kind(f.Kind) && f.Int64Encoding != "NUMBER" {
		wire = z.String()
	}
	return oasScalarElem{PS: ps, Num: oasNum{Int: z}, Wire: wire}
}

func oasFloatElem(f *Field, v float64) oasScalarElem {
	bits := 64
	if f.Kind == "float" {
		bits = 32
		v = float64(float32(v))
	}
	txt := strconv.FormatFloat(v, 'g', -1, bits) // what protojson writes
	d, _ := DecOfText(txt)
	return oasScalarElem{PS: ProbeScalar{Kind: "num", Num: d}, Num: oasNum{F: v, Flt: true}, Wire: DecJSON(d)}
}

func oasStrElem(x string) oasScalarElem {
	return oasScalarElem{PS: ProbeScalar{Kind: "str", Str: x}, Str: x, Wire: x}
}

func oasOtherElem(v any) oasScalarElem {
	return oasScalarElem{PS: ProbeScalar{Kind: "other", Other: v}, Wire: v}
}

func oasRuleLits(r *Rules) []string {
	var out []string
	for _, p := range []*string{r.NumGt, r.NumGte, r.NumLt, r.NumLte, r.NumConst} {
		if p != nil {
			out = append(out, *p)
		}
	}
	return append(out, r.NumIn...)
}

func oasScalarPool(f *Field, rng *rand.Rand) []oasScalarElem {
	r := f.Rules
	var out []oasScalarElem
	switch {
	case f.Kind == "string":
		set := map[string]bool{}
		add := func(x string) {
			if !set[x] && utf8.ValidString(x) {
				set[x] = true
			}
		}
		for _, x := range []string{"", "a", "ab", "abc", "abcd", "é", "éé", "日本語", "😀", "abc1", "ABC", "b", "root", "fixed", "x y", "user@example.com"} {
			add(x)
		}
		for _, n := range []*uint64{r.MinLen, r.MaxLen, r.Len} {
			if n != nil {
				for d := -1; d <= 1; d++ {
					k := int(*n) + d
					if k >= 0 && k < 40 {
						add(strings.Repeat("a", k))
						add(strings.Repeat("é", k))
						if k > 0 {
							add("a" + strings.Repeat("😀", k-1))
						}
					}
				}
			}
		}
		for _, x := range append(append([]string{}, r.StrIn...), r.StrNotIn...) {
			add(x)
			add(x + "x")
			add(strings.ToUpper(x))
		}
		if r.StrConst != nil {
			add(*r.StrConst)
			add(*r.StrConst + "0")
			add(" " + *r.StrConst)
		}
		if r.Pattern != nil {
			// strings built from the pattern's syntax tree (matching samples and near misses)
			for _, x := range RegexSamples(*r.Pattern) {
				add(x)
			}
		}
		keys := make([]string, 0, len(set))
		for k := range set {
			keys = append(keys, k)
		}
		sort.Strings(keys)
		for _, k := range keys {
			out = append(out, oasStrElem(k))
		}
	case oasIsIntKind(f.Kind):
		lo, hi := oasIntRange(f.Kind)
		set := map[string]*big.Int{}
		add := func(z *big.Int) {
			if z.Cmp(lo) >= 0 && z.Cmp(hi) <= 0 {
				set[z.String()] = z
			}
		}
		for _, x := range []int64{0, 1, -1, 2, 7, 100} {
			add(big.NewInt(x))
		}
		add(lo)
		add(hi)
		if oasIs64Kind(f.Kind) {
			p53 := new(big.Int).Lsh(big.NewInt(1), 53)
			for d := int64(-1); d <= 2; d++ {
				add(new(big.Int).Add(p53, big.NewInt(d)))
			}
		}
		for _, lit := range oasRuleLits(r) {
			z, ok := new(big.Int).SetString(lit, 10)
			if !ok {
				continue
			}
			for d := int64(-2); d <= 2; d++ {
				add(new(big.Int).Add(z, big.NewInt(d)))
			}
			// the neighbours of the bound after float64 rounding
			fz, _ := new(big.Float).SetInt(z).Float64()
			if bz, acc := big.NewFloat(fz).Int(nil); acc == big.Exact {
				for d := int64(-1); d <= 1; d++ {
					add(new(big.Int).Add(bz, big.NewInt(d)))
				}
			}
		}
		keys := make([]string, 0, len(set))
		for k := range set {
			keys = append(keys, k)
		}
		sort.Strings(keys)
		for _, k := range keys {
			out = append(out, oasIntElem(f, set[k]))
		}
	case oasIsFloatKind(f.Kind):
		set := map[float64]bool{}
		add := func(v float64) {
			if f.Kind == "float" {
				v = float64(float32(v))
			}
			if !math.IsInf(v, 0) && !math.IsNaN(v) && v == v && !(v == 0 && math.Signbit(v)) && math.Abs(v) < 1e20 && (v == 0 || math.Abs(v) > 1e-5) {
				set[v] = true
			}
		}
		for _, x := range []float64{0, 1, -1, 0.5, 2.5, 7, 1.1, 100} {
			add(x)
		}
		for _, lit := range oasRuleLits(r) {
			n, err := NumRuleOf(f.Kind, lit)
			if err != nil {
				continue
			}
			b := n.F
			add(b)
			add(b + 1)
			add(b - 1)
			add(b + 0.5)
			add(b - 0.5)
			if f.Kind == "float" {
				add(float64(math.Nextafter32(float32(b), float32(math.Inf(1)))))
				add(float64(math.Nextafter32(float32(b), float32(math.Inf(-1)))))
			} else {
				add(math.Nextafter(b, math.Inf(1)))
				add(math.Nextafter(b, math.Inf(-1)))
			}
		}
		keys := make([]float64, 0, len(set))
		for k := range set {
			keys = append(keys, k)
		}
		sort.Float64s(keys)
		for _, k := range keys {
			out = append(out, oasFloatElem(f, k))
		}
	case f.Kind == "bool":
		out = append(out, oasOtherElem(true), oasOtherElem(false))
	case f.Kind == "bytes":
		out = append(out, oasOtherElem(""), oasOtherElem("AQID"))
	}
	_ = rng
	return out
}

// ProbesFor builds the probe values of a rule-carrying field.
func oasProbesFor(f *Field, rng *rand.Rand, maxScalars int) []oasProbe {
	pool := oasScalarPool(f, rng)
	if len(pool) == 0 {
		return nil
	}
	var out []oasProbe
	mk := func(card string, elems []oasScalarElem, keys []string, label string) {
		p := oasProbe{Label: label}
		p.PV.Card = card
		var wl []any
		wm := map[string]any{}
		for i, e := range elems {
			p.Strs = append(p.Strs, e.Str)
			p.Nums = append(p.Nums, e.Num)
			if card == "one" {
				p.PV.One = e.PS
				p.Wire = e.Wire
			} else {
				p.PV.List = append(p.PV.List, e.PS)
				wl = append(wl, e.Wire)
				if card == "map" {
					wm[keys[i]] = e.Wire
				}
			}
		}
		if card == "one" {
			p.PV.List = []ProbeScalar{elems[0].PS}
		}
		if card == "list" {
			if wl == nil {
				wl = []any{}
			}
			p.Wire = wl
		}
		if card == "map" {
			p.PV.Keys = keys
			p.Wire = wm
		}
		out = append(out, p)
	}
	switch f.Card {
	case "singular", "optional":
		idx := rng.Perm(len(pool))
		if len(idx) > maxScalars {
			// always keep the values next to the bounds: the pool is sorted, take an even spread plus a random rest
			idx = idx[:maxScalars]
		}
		sort.Ints(idx)
		for _, i := range idx {
			mk("one", []oasScalarElem{pool[i]}, nil, "")
		}
	case "repeated", "map":
		r := f.Rules
		sizes := map[int]bool{0: true, 1: true, 2: true}
		for _, n := range []*uint64{r.MinItems, r.MaxItems, r.MinPairs, r.MaxPairs} {
			if n != nil {
				for d := -1; d <= 1; d++ {
					if k := int(*n) + d; k >= 0 && k <= 6 {
						sizes[k] = true
					}
				}
			}
		}
		var ss []int
		for k := range sizes {
			ss = append(ss, k)
		}
		sort.Ints(ss)
		for _, n := range ss {
			// distinct elements when the pool allows
			var elems []oasScalarElem
			var keys []string
			start := rng.Intn(len(pool))
			for i := 0; i < n; i++ {
				elems = append(elems, pool[(start+i)%len(pool)])
				keys = append(keys, fmt.Sprintf("k%d", i))
			}
			card := "list"
			if f.Card == "map" {
				card = "map"
			}
			mk(card, elems, keys, fmt.Sprintf("size %d", n))
			if f.Card == "repeated" && n >= 2 { // the same with a duplicate
				dup := append([]oasScalarElem{}, elems...)
				dup[n-1] = dup[0]
				mk(card, dup, keys, fmt.Sprintf("size %d with a duplicate", n))
			}
		}
	}
	return out
}

// ---- instance generation for validator conformance --------------------------------------------------------

func oasSampleInstance(schema any, comps map[string]any, depth int, rng *rand.Rand) any {
	m, ok := schema.(map[string]any)
	if !ok {
		return map[string]any{}
	}
	if ref, ok := m["$ref"].(string); ok {
		if depth <= 0 {
			return map[string]any{}
		}
		return oasSampleInstance(comps[strings.TrimPrefix(ref, oasRefPrefix)], comps, depth-1, rng)
	}
	if c, ok := m["const"]; ok {
		return c
	}
	if e, ok := m["enum"].([]any); ok && len(e) > 0 {
		return e[rng.Intn(len(e))]
	}
	if l, ok := m["oneOf"].([]any); ok && len(l) > 0 {
		base := oasSampleInstance(l[rng.Intn(len(l))], comps, depth, rng)
		if bo, ok := base.(map[string]any); ok && m["properties"] != nil {
			for k, v := range oasMap(m["properties"]) {
				bo[k] = oasSampleInstance(v, comps, depth-1, rng)
			}
		}
		return base
	}
	if l, ok := m["allOf"].([]any); ok {
		out := map[string]any{}
		for _, s := range l {
			if o, ok := oasSampleInstance(s, comps, depth, rng).(map[string]any); ok {
				for k, v := range o {
					out[k] = v
				}
			}
		}
		return out
	}
	t := ""
	switch x := m["type"].(type) {
	case string:
		t = x
	case []any:
		if len(x) > 0 {
			t, _ = x[rng.Intn(len(x))].(string)
		}
	}
	switch t {
	case "object":
		out := map[string]any{}
		for k, v := range oasMap(m["properties"]) {
			if depth > 0 || rng.Intn(2) == 0 {
				out[k] = oasSampleInstance(v, comps, depth-1, rng)
			}
		}
		if ap, ok := m["additionalProperties"]; ok {
			if _, isMap := ap.(map[string]any); isMap {
				for i := 0; i < rng.Intn(3); i++ {
					out[fmt.Sprintf("key%d", i)] = oasSampleInstance(ap, comps, depth-1, rng)
				}
			}
		}
		return out
	case "array":
		var out []any
		for i := 0; i < rng.Intn(3); i++ {
			out = append(out, oasSampleInstance(m["items"], comps, depth-1, rng))
		}
		if out == nil {
			out = []any{}
		}
		return out
	case "string":
		switch m["format"] {
		case "int64", "uint64":
			return []any{"0", "12", "-5", "9007199254740993"}[rng.Intn(4)]
		case "hex":
			return []any{"00ff", "zz", ""}[rng.Intn(3)]
		}
		return []any{"", "abc", "é", "2024-01-02T03:04:05Z"}[rng.Intn(4)]
	case "integer":
		return []any{json.Number("0"), json.Number("1"), json.Number("-3"), json.Number("9007199254740993"), map[string]any{"$dec": []any{json.Number("15"), json.Number("-1")}}}[rng.Intn(5)]
	case "number":
		return []any{json.Number("0"), json.Number("2"), map[string]any{"$dec": []any{json.Number("25"), json.Number("-1")}}}[rng.Intn(3)]
	case "boolean":
		return rng.Intn(2) == 0
	case "null":
		return nil
	}
	return []any{map[string]any{}, "x", json.Number("1"), nil}[rng.Intn(4)]
}

func oasMutateInstance(v any, rng *rand.Rand) any {
	b, _ := json.Marshal(v)
	var c any
	d := json.NewDecoder(strings.NewReader(string(b)))
	d.UseNumber()
	d.Decode(&c)
	wrong := []any{nil, "str", json.Number("3"), true, []any{}, map[string]any{}, []any{json.Number("1"), json.Number("1")}}
	var walk func(x any, depth int) any
	walk = func(x any, depth int) any {
		switch t := x.(type) {
		case map[string]any:
			keys := make([]string, 0, len(t))
			for k := range t {
				keys = append(keys, k)
			}
			sort.Strings(keys)
			if len(keys) == 0 || rng.Intn(4) == 0 {
				switch rng.Intn(2) {
				case 0:
					t["extraKey"] = wrong[rng.Intn(len(wrong))]
				default:
					return wrong[rng.Intn(len(wrong))]
				}
				return t
			}
			k := keys[rng.Intn(len(keys))]
			switch rng.Intn(3) {
			case 0:
				delete(t, k)
			case 1:
				t[k] = wrong[rng.Intn(len(wrong))]
			default:
				t[k] = walk(t[k], depth+1)
			}
			return t
		case []any:
			if len(t) == 0 || rng.Intn(3) == 0 {
				return append(t, wrong[rng.Intn(len(wrong))])
			}
			i := rng.Intn(len(t))
			t[i] = walk(t[i], depth+1)
			return t
		}
		return wrong[rng.Intn(len(wrong))]
	}
	return walk(c, 0)
}

func oasCollectPatterns(v any, out map[string]bool) {
	switch x := v.(type) {
	case map[string]any:
		for k, e := range x {
			if k == "pattern" {
				if s, ok := e.(string); ok {
					out[s] = true
				}
			}
			oasCollectPatterns(e, out)
		}
	case []any:
		for _, e := range x {
			oasCollectPatterns(e, out)
		}
	}
}
func oasCollectStrings(v any, out map[string]bool) {
	switch x := v.(type) {
	case string:
		out[x] = true
	case map[string]any:
		for _, e := range x {
			oasCollectStrings(e, out)
		}
	case []any:
		for _, e := range x {
			oasCollectStrings(e, out)
		}
	}
}

func oasRegexTable(patterns, subjects map[string]bool) map[[2]string]bool {
	t := map[[2]string]bool{}
	for p := range patterns {
		re, err := regexp.Compile(p)
		if err != nil {
			continue
		}
		for s := range subjects {
			t[[2]string{p, s}] = re.MatchString(s)
		}
	}
	return t
}

func oasVerdictJSON(v PyVerdict) any {
	switch x := v.Valid.(type) {
	case bool:
		return x
	case string:
		return x
	}
	return fmt.Sprint(v.Valid)
}

// ---- the check ------------------------------------------------------------------------------------------------

func CheckC19(run *Run) {
	UseReplaySeed(run)
	run.Proof = CheckProofs("C19")
	run.Prepare()
	rng := rand.New(rand.NewSource(run.Seed + 19))
	fields := OASRuleFields()
	nRand, maxScalars, nInst := 24, 32, 4
	if run.Tier == "thorough" {
		nRand, maxScalars, nInst = 3000, 40, 12
	}
	fields = append(fields, RandomRuleFields(rng, nRand)...)
	reqs := OASRulesRequests(fields, "c19r")
	confReqs := append(OASStructureCatalogue(), FeatureCatalogue()...)
	all := append(append([]*Request{}, reqs...), confReqs...)
	gens := OASGenAll(run.BinDir, all, []string{""})

	imports := "From Sebuf Require Import OasCheck.\n"
	var schemaGroups, probeGroups, valGroups []CoqGroup
	var schemaRes, probeRes, valRes [][]*CaseResult
	var pyCases []PyCase
	type probeRef struct {
		c *CaseResult
		p oasProbe
		f *Field
	}
	pyProbe := map[string]*probeRef{}
	pyVal := map[string]*CaseResult{}
	valComps := map[string]map[string]any{}

	for ri, r := range reqs {
		g := gens[ri]
		if g.BuildErr != "" {
			run.Fatal("descriptor build failed for %s: %s", r.ID, g.BuildErr)
		}
		res := g.ByParam[""]
		files := ResponseFiles(res)
		if res.Exit != "ok" || len(files) != 1 {
			run.Fatal("%s: protoc-gen-openapiv3: %s %s", r.ID, res.Exit, firstLine(res.Stderr))
		}
		doc, err := ParseOASYAML(files[0].Content)
		if err != nil {
			run.Fatal("%s: emitted YAML does not parse: %v", r.ID, err)
		}
		reqSchema := oasMap(ComponentSchemas(doc)["Req"])
		props := oasMap(reqSchema["properties"])
		required := map[string]bool{}
		if l, ok := reqSchema["required"].([]any); ok {
			for _, x := range l {
				required[fmt.Sprint(x)] = true
			}
		}
		msg := r.Files[0].Messages[0]
		var sg, pg CoqGroup
		var sres, pres []*CaseResult
		for fi, f := range msg.Fields {
			jn := JSONName(f.Name)
			emitted := props[jn]
			feats := []string{"kind:" + f.Kind, "card:" + f.Card}
			if f.Int64Encoding != "" {
				feats = append(feats, "int64:"+f.Int64Encoding)
			}
			// ---- schema family
			obs := map[string]any{"schema": StripSchema(emitted), "required": required[jn]}
			var notes []string
			if required[jn] != f.Rules.Required {
				notes = append(notes, fmt.Sprintf("required listed=%v, rules require=%v", required[jn], f.Rules.Required))
			}
			if f.Rules.WellKnownOff != "" && f.Kind == "string" && f.Card != "repeated" && f.Card != "map" {
				if got, has := oasMap(emitted)["format"]; has {
					notes = append(notes, fmt.Sprintf("well-known rule %s: false (which demands nothing) published as format %q", f.Rules.WellKnownOff, fmt.Sprint(got)))
				}
			}
			if f.Rules.WellKnown != "" && f.Kind == "string" && f.Card != "repeated" && f.Card != "map" {
				if got := fmt.Sprint(oasMap(emitted)["format"]); got != f.Rules.WellKnown {
					notes = append(notes, fmt.Sprintf("well-known rule %s published as format %q", f.Rules.WellKnown, got))
				}
			}
			c := &CaseResult{ID: fmt.Sprintf("%s/%s", r.ID, f.Name), Family: "schema", Input: map[string]any{"field": f},
				Obs: obs, OracleHolds: len(notes) == 0, OracleNote: strings.Join(notes, "; "), NonTrivial: true, Features: feats}
			sres = append(sres, c)
			fmt.Fprintf((*oasBuilder)(&sg.Defs), "Definition fs_%d_%d : fspec := %s.\nDefinition r_%d_%d : rules := %s.\n", ri, fi, CoqFSpec(f), ri, fi, CoqRules(f))
			sg.Cases = append(sg.Cases, CoqCase{Term: fmt.Sprintf("(fs_%d_%d, r_%d_%d)", ri, fi, ri, fi), Obs: obs})
			// ---- probe family
			probes := oasProbesFor(f, rng, maxScalars)
			pats, subs := map[string]bool{}, map[string]bool{}
			if f.Rules.Pattern != nil {
				pats[*f.Rules.Pattern] = true
			}
			for _, p := range probes {
				for _, s := range p.Strs {
					subs[s] = true
				}
			}
			fmt.Fprintf((*oasBuilder)(&pg.Defs), "Definition fs_%d_%d : fspec := %s.\nDefinition r_%d_%d : rules := %s.\nDefinition re_%d_%d : list ((str * str) * bool) := %s.\n",
				ri, fi, CoqFSpec(f), ri, fi, CoqRules(f), ri, fi, CoqTable(oasRegexTable(pats, subs)))
			for pi, p := range probes {
				id := fmt.Sprintf("%s/%s@%d", r.ID, f.Name, pi)
				pc := &CaseResult{ID: id, Family: "probe", Input: map[string]any{"field": f, "wire": p.Wire, "label": p.Label}, NonTrivial: true, Features: feats}
				pres = append(pres, pc)
				pyProbe[id] = &probeRef{pc, p, f}
				pyCases = append(pyCases, PyCase{ID: id, Schema: emitted, Instance: p.Wire})
				pg.Cases = append(pg.Cases, CoqCase{Term: fmt.Sprintf("(fs_%d_%d, r_%d_%d, re_%d_%d, %s)", ri, fi, ri, fi, ri, fi, p.PV.Coq())})
			}
		}
		schemaGroups = append(schemaGroups, sg)
		schemaRes = append(schemaRes, sres)
		probeGroups = append(probeGroups, pg)
		probeRes = append(probeRes, pres)
	}

	// ---- validator conformance on the documents of the structure + feature catalogues and the rule documents
	for ai, r := range all {
		g := gens[ai]
		if g.BuildErr != "" || g.ByParam[""].Exit != "ok" {
			continue
		}
		for di, fl := range ResponseFiles(g.ByParam[""]) {
			doc, err := ParseOASYAML(fl.Content)
			if err != nil {
				continue
			}
			comps := ComponentSchemas(doc)
			names := make([]string, 0, len(comps))
			for n := range comps {
				names = append(names, n)
			}
			sort.Strings(names)
			key := fmt.Sprintf("%s#%d", r.ID, di)
			var vg CoqGroup
			var vres []*CaseResult
			type inst struct {
				name string
				v    any
			}
			var insts []inst
			for _, n := range names {
				if n == "Error" || n == "FieldViolation" {
					continue
				}
				for k := 0; k < nInst; k++ {
					v := oasSampleInstance(comps[n], comps, 3, rng)
					if k%2 == 1 {
						v = oasMutateInstance(v, rng)
					}
					insts = append(insts, inst{n, v})
				}
			}
			pats, subs := map[string]bool{}, map[string]bool{}
			oasCollectPatterns(comps, pats)
			for _, in := range insts {
				oasCollectStrings(in.v, subs)
			}
			vg.Defs = fmt.Sprintf("Definition cs_%d_%d : json := %s.\nDefinition vre_%d_%d : list ((str * str) * bool) := %s.\n",
				ai, di, CoqJSON(Canon(comps)), ai, di, CoqTable(oasRegexTable(pats, subs)))
			for k, in := range insts {
				id := fmt.Sprintf("%s/%s~%d", key, in.name, k)
				c := &CaseResult{ID: id, Family: "validator", Input: map[string]any{"document": key, "component": in.name, "instance": in.v},
					OracleHolds: true, NonTrivial: true, Features: []string{"validator-conformance"}}
				vres = append(vres, c)
				pyVal[id] = c
				valComps[id] = comps
				pyCases = append(pyCases, PyCase{ID: id, Components: comps, ComponentsKey: key, Schema: map[string]any{"$ref": oasRefPrefix + in.name}, Instance: in.v})
				vg.Cases = append(vg.Cases, CoqCase{Term: fmt.Sprintf("(cs_%d_%d, %s, vre_%d_%d, %s)", ai, di,
					CoqJSON(Canon(map[string]any{"$ref": oasRefPrefix + in.name})), ai, di, CoqJSON(Canon(in.v)))})
			}
			valGroups = append(valGroups, vg)
			valRes = append(valRes, vres)
		}
	}

	// ---- required family: which properties each component of a message lists as required
	var reqGroups []CoqGroup
	var reqRes [][]*CaseResult
	for qi, r := range OASRequiredRequests() {
		b, err := BuildDescriptors(r)
		if err != nil {
			run.Fatal("descriptor build failed for %s: %v", r.ID, err)
		}
		res := RunPlugin(filepath.Join(run.BinDir, "protoc-gen-openapiv3"), "openapiv3", MakeCGR(b.All, ToGenerate(r), ""), 20*time.Second, 4096)
		files := ResponseFiles(res)
		if res.Exit != "ok" || len(files) != 1 {
			run.Fatal("%s: protoc-gen-openapiv3: %s %s", r.ID, res.Exit, firstLine(res.Stderr))
		}
		doc, err := ParseOASYAML(files[0].Content)
		if err != nil {
			run.Fatal("%s: emitted YAML does not parse: %v", r.ID, err)
		}
		comps := ComponentSchemas(doc)
		g := CoqGroup{Defs: fmt.Sprintf("Definition rq_sc_%d : schema := %s.\nDefinition rq_sd_%d : side := %s.\n", qi, CoqSchema(r), qi, CoqSide(r))}
		var rres []*CaseResult
		fl := r.Files[0]
		for _, m := range fl.Messages {
			fq := fl.Package + "." + m.Name
			// expected: property name -> required by the rules (own fields, flattened children, variant children)
			want := map[string]bool{}
			disc := map[string]bool{}
			for _, o := range m.Oneofs {
				if o.HasConfig && o.Discriminator != "" {
					disc[o.Discriminator] = true
				}
			}
			for _, fd := range m.Fields {
				child, _ := r.FindMessage(fd.TypeName)
				flat := fd.Flatten != nil && *fd.Flatten
				variantOfFlattened := false
				for _, o := range m.Oneofs {
					if o.HasConfig && o.Flatten && fd.Oneof == o.Name {
						variantOfFlattened = true
					}
				}
				if (flat || variantOfFlattened) && child != nil {
					prefix := ""
					if fd.FlattenPrefix != nil {
						prefix = *fd.FlattenPrefix
					}
					for _, cf := range child.Fields {
						want[prefix+JSONName(cf.Name)] = cf.Rules != nil && cf.Rules.Required
					}
					continue
				}
				want[JSONName(fd.Name)] = fd.Rules != nil && fd.Rules.Required
			}
			obsReq := map[string]any{}
			var notes []string
			names := make([]string, 0, len(comps))
			for n := range comps {
				names = append(names, n)
			}
			sort.Strings(names)
			for _, n := range names {
				if n != m.Name && !strings.HasPrefix(n, m.Name+"_") {
					continue
				}
				sch := oasMap(comps[n])
				parts := []map[string]any{sch}
				if l, ok := sch["allOf"].([]any); ok {
					for _, p := range l {
						parts = append(parts, oasMap(p))
					}
				}
				var lists []any
				for _, p := range parts {
					listed := map[string]bool{}
					var names []any
					if l, ok := p["required"].([]any); ok {
						for _, x := range l {
							listed[fmt.Sprint(x)] = true
							names = append(names, fmt.Sprint(x))
						}
					}
					if names == nil {
						names = []any{}
					}
					lists = append(lists, names)
					for prop := range oasMap(p["properties"]) {
						if disc[prop] {
							continue
						}
						if w, known := want[prop]; known && w != listed[prop] {
							notes = append(notes, fmt.Sprintf("component %s: property %s required by rules=%v, listed=%v", n, prop, w, listed[prop]))
						}
					}
				}
				obsReq[n] = lists
			}
			sort.Strings(notes)
			obs := map[string]any{"required": obsReq}
			c := &CaseResult{ID: r.ID + "/" + m.Name + "#required", Family: "required", Input: map[string]any{"message": m},
				Obs: obs, OracleHolds: len(notes) == 0, OracleNote: strings.Join(notes, "; "), NonTrivial: true, Features: []string{"required-listing"}}
			rres = append(rres, c)
			g.Cases = append(g.Cases, CoqCase{Term: fmt.Sprintf("(rq_sc_%d, rq_sd_%d, %s)", qi, qi, CoqStr(fq)), Obs: obs})
		}
		reqGroups = append(reqGroups, g)
		reqRes = append(reqRes, rres)
	}

	t0 := time.Now()
	verdicts, err := PyValidate(filepath.Join(run.WorkDir, "py"), pyCases)
	if err != nil {
		run.Fatal("%v", err)
	}
	run.Extra["reference_validator_s"] = time.Since(t0).Seconds()
	run.Extra["reference_validator_cases"] = len(pyCases)

	// fill observations that depend on the reference validator
	for gi := range probeGroups {
		for ci, c := range probeRes[gi] {
			ref := pyProbe[c.ID]
			v := verdicts[c.ID]
			sat := oasSat(ref.f, ref.p)
			obs := map[string]any{"sat": sat, "wire": ref.p.Wire, "valid": oasVerdictJSON(v)}
			c.Obs = obs
			b, isBool := v.Valid.(bool)
			c.OracleHolds = isBool && b == sat
			if !c.OracleHolds {
				c.OracleNote = fmt.Sprintf("rules say %v, the published schema says %v for %s", sat, oasVerdictJSON(v), short(ref.p.Wire))
				if v.Detail != "" {
					c.OracleNote += " (" + v.Detail + ")"
				}
			}
			probeGroups[gi].Cases[ci].Obs = obs
		}
	}
	// a component that is not a 2020-12 schema (e.g. exclusiveMinimum: false): the reference implementation
	// does not check schemas it reaches through $ref, so pairs that can reach such a component are not
	// reference cases
	skipped := 0
	skip := map[string]bool{}
	for gi := range valGroups {
		for ci, c := range valRes[gi] {
			v := verdicts[c.ID]
			obs := map[string]any{"valid": oasVerdictJSON(v)}
			if len(v.BadComponents) > 0 {
				comps := valComps[c.ID]
				bad := map[string]bool{}
				for _, b := range v.BadComponents {
					bad[b] = true
				}
				seen := map[string]bool{}
				var visit func(n string) bool
				visit = func(n string) bool {
					if seen[n] {
						return false
					}
					seen[n] = true
					if bad[n] {
						return true
					}
					for _, r := range OASRefs(comps[n]) {
						if visit(strings.TrimPrefix(r, oasRefPrefix)) {
							return true
						}
					}
					return false
				}
				if visit(c.Input.(map[string]any)["component"].(string)) {
					skip[c.ID] = true
					skipped++
				}
			}
			c.Obs = obs
			valGroups[gi].Cases[ci].Obs = obs
		}
	}
	run.Extra["validator_cases_reaching_invalid_components"] = skipped

	apply := func(name, caseType, fn string, groups []CoqGroup, res [][]*CaseResult) {
		vs, err := CoqRunGroups(run.WorkDir, name, imports, caseType, fn, groups, 16)
		if err != nil {
			run.Fatal("model evaluation (%s): %v", name, err)
		}
		for gi := range groups {
			for ci, c := range res[gi] {
				c.Apply(vs[gi][ci])
				run.Results = append(run.Results, c)
			}
		}
	}
	apply("c19schema", "(fspec * rules)", "predict_C19_schema", schemaGroups, schemaRes)
	apply("c19probe", "(fspec * rules * list ((str * str) * bool) * fvalue)", "predict_C19_probe", probeGroups, probeRes)
	apply("c19req", "(schema * side * str)", "predict_C19_required", reqGroups, reqRes)
	apply("c19val", "(json * json * list ((str * str) * bool) * json)", "predict_validator", valGroups, valRes)
	for gi := range valRes {
		for _, c := range valRes[gi] {
			if skip[c.ID] {
				c.Unmodelled = "the schema reaches a component that is not a 2020-12 schema; the reference validator does not check schemas reached through $ref"
			}
		}
	}
	run.Extra["oracle_failures"] = OracleFailureSummary(run.Results)
	run.Extra["oracle_failures_by_tags"] = OracleFailureCounts(run.Results)
	unm := map[string]int{}
	for _, c := range run.Results {
		if c.Unmodelled != "" {
			unm[c.Family+": "+c.Unmodelled+" e.g. "+c.ID]++
		}
	}
	run.Extra["unmodelled_reasons"] = unm
	run.Extra["rule_fields"] = len(fields)
	run.Finish()
}

// oasBuilder lets a string be used as an io.Writer target for Fprintf.
type oasBuilder string

func (s *oasBuilder) Write(p []byte) (int, error) {
	*s += oasBuilder(p)
	return len(p), nil
}
