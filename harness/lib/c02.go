package lib

import (
	"encoding/hex"
	"encoding/json"
	"fmt"
	"math"
	"math/rand"
	"net/url"
	"strconv"
	"strings"

	"google.golang.org/protobuf/encoding/protojson"
	"google.golang.org/protobuf/reflect/protoreflect"
	"google.golang.org/protobuf/types/dynamicpb"
)

var verbNumOf = map[string]int{"GET": 1, "POST": 2, "PUT": 3, "DELETE": 4, "PATCH": 5}

// urlCandidates: raw (already escaped) URL spellings per kind: valid, boundary, malformed.
func urlCandidates(kind string) []string {
	switch kind {
	case "string":
		return []string{"abc", "a%20b", "a+b", "%41", "%zz", "a%2Fb", "%C3%A9", "x.y", "..a", "%2E", "0", "%2541", "50%2525", "x%252Fy", "%25", "%2520"}
	case "bool":
		return []string{"true", "false", "1", "0", "T", "yes", "TRUE", "tRuE", ""}
	case "int32", "sint32", "sfixed32":
		return []string{"0", "7", "-7", "+7", "007", "2147483647", "2147483648", "-2147483648", "-2147483649", "abc", "1.5", "1e3", "%31", "%201", "0x10", "1_0"}
	case "int64", "sint64", "sfixed64":
		return []string{"0", "-1", "9223372036854775807", "9223372036854775808", "-9223372036854775808", "-9223372036854775809", "abc", "12a", "%2D5"}
	case "uint32", "fixed32":
		return []string{"0", "4294967295", "4294967296", "-1", "+1", "abc"}
	case "uint64", "fixed64":
		return []string{"0", "18446744073709551615", "18446744073709551616", "-0", "x"}
	case "double", "float":
		return []string{"1.5", "abc", "-0", "1e400", "NaN", "0x1p-2", "1_0", ".5"}
	}
	return []string{"x", "1"}
}

// goConvert is the harness's own reading of how a URL string becomes a field value.
func goConvert(kind, v string) (any, bool) {
	switch kind {
	case "string":
		return v, true
	case "bool":
		b, err := strconv.ParseBool(v)
		return b, err == nil
	case "int32", "sint32", "sfixed32":
		n, err := strconv.ParseInt(v, 10, 32)
		return json.Number(strconv.FormatInt(n, 10)), err == nil
	case "int64", "sint64", "sfixed64":
		n, err := strconv.ParseInt(v, 10, 64)
		return json.Number(strconv.FormatInt(n, 10)), err == nil
	case "uint32", "fixed32":
		n, err := strconv.ParseUint(v, 10, 32)
		return json.Number(strconv.FormatUint(n, 10)), err == nil
	case "uint64", "fixed64":
		n, err := strconv.ParseUint(v, 10, 64)
		return json.Number(strconv.FormatUint(n, 10)), err == nil
	case "double":
		f, err := strconv.ParseFloat(v, 64)
		return map[string]any{"fbits": json.Number(strconv.FormatUint(math.Float64bits(f), 10))}, err == nil
	case "float":
		f, err := strconv.ParseFloat(v, 32)
		return map[string]any{"fbits": json.Number(strconv.FormatUint(uint64(math.Float32bits(float32(f))), 10))}, err == nil
	}
	return nil, false
}

func isZeroCanon(v any) bool {
	switch x := v.(type) {
	case string:
		return x == ""
	case bool:
		return !x
	case json.Number:
		return x.String() == "0"
	case map[string]any:
		if n, ok := x["fbits"].(json.Number); ok {
			return n.String() == "0"
		}
	}
	return false
}

type rawCase struct {
	req     *Request
	g       *GenOutput
	svc     *Service
	md      *Method
	verb    string
	path    string // escaped path
	query   string
	ct      int
	bodyFmt int // -1 none, 0 json, 1 proto
	bodyMsg *dynamicpb.Message
	bodyRaw []byte
	pattern string
}

func CheckC02(run *Run) {
	run.Proof = CheckProofs("C02")
	run.Prepare()
	reqs := []*Request{KindsRequest(), RawRequest(), SiblingRequest()}
	for _, r := range RouteCatalogue() {
		if r.ID == "rt1" || r.ID == "rt4" || r.ID == "rt5" {
			reqs = append(reqs, r)
		}
	}
	rng := rand.New(rand.NewSource(run.Seed + 202))
	nPer := 10
	if run.Tier == "thorough" {
		nPer = 80
		reqs = append(reqs, RandomRouteRequests(rng, 30)...)
	}
	s := NewSession(run, reqs)
	s.BuildRuntime(false)
	vg := &ValueGen{Rng: rng}
	var cases []*rawCase
	for i, r := range reqs {
		g := s.Gens[i]
		if !s.InRunner[r.ID] {
			run.Notes = append(run.Notes, fmt.Sprintf("%s: emitted package does not build; not driven", r.ID))
			continue
		}
		for _, f := range r.Files {
			routes := GoServerRoutes(g.Results["go-http"].Files[genPrefix(f)+"_http.pb.go"])
			for _, svc := range f.Services {
				for _, md := range svc.Methods {
					rt := routes[lowerFirst(md.Name)]
					if rt == nil || !strings.HasPrefix(rt.Path, "/") {
						continue
					}
					in, _ := r.FindMessage(md.In)
					var qfs []*Field
					for _, fl := range in.Fields {
						if fl.Query != nil {
							qfs = append(qfs, fl)
						}
					}
					if len(rt.PathVars) == 0 && len(qfs) == 0 {
						continue
					}
					fieldOf := func(n string) *Field {
						for _, fl := range in.Fields {
							if fl.Name == n {
								return fl
							}
						}
						return nil
					}
					for k := 0; k < nPer; k++ {
						// path
						p := rt.Path
						for _, pv := range rt.PathVars {
							kind := "string"
							if fl := fieldOf(pv); fl != nil {
								kind = fl.Kind
							}
							c := urlCandidates(kind)
							v := c[rng.Intn(len(c))]
							if k == 0 {
								v = c[0]
							}
							p = strings.Replace(p, "{"+pv+"}", v, 1)
						}
						// query
						var qs []string
						for _, qf := range qfs {
							name := qf.Query.Name
							if name == "" {
								name = qf.Name
							}
							c := urlCandidates(qf.Kind)
							mode := rng.Intn(6)
							if k == 0 {
								mode = 1
							}
							switch mode {
							case 0: // absent
							case 1, 2:
								v := c[rng.Intn(len(c))]
								if k == 0 {
									v = c[0]
								}
								qs = append(qs, url.QueryEscape(name)+"="+v)
							case 3: // repeated occurrences
								qs = append(qs, url.QueryEscape(name)+"="+c[rng.Intn(len(c))], url.QueryEscape(name)+"="+c[rng.Intn(len(c))])
							case 4: // key without value
								qs = append(qs, url.QueryEscape(name))
							case 5: // unrelated parameter too
								qs = append(qs, "zz=1", url.QueryEscape(name)+"="+c[0])
							}
						}
						rng.Shuffle(len(qs), func(a, b int) { qs[a], qs[b] = qs[b], qs[a] })
						rc := &rawCase{req: r, g: g, svc: svc, md: md, verb: rt.Verb, path: p, query: strings.Join(qs, "&"), bodyFmt: -1, pattern: rt.Path}
						// body
						desc := g.Built.MessageDesc(md.In)
						bmode := rng.Intn(6)
						switch bmode {
						case 0: // absent
						case 1: // empty body, JSON content type
							rc.bodyRaw = []byte{}
						case 2: // {}
							rc.bodyFmt, rc.bodyMsg = 0, dynamicpb.NewMessage(desc)
						case 3, 4: // object omitting URL-bound fields
							m := vg.Random(desc, 0.8)
							for _, pv := range rt.PathVars {
								if fd := m.Descriptor().Fields().ByName(protoreflect.Name(pv)); fd != nil {
									m.Clear(fd)
								}
							}
							for _, qf := range qfs {
								m.Clear(m.Descriptor().Fields().ByName(protoreflect.Name(qf.Name)))
							}
							rc.bodyFmt, rc.bodyMsg = bmode-3, m
						case 5: // object that may mention URL-bound fields
							rc.bodyFmt, rc.bodyMsg = rng.Intn(2), vg.Random(desc, 0.8)
						}
						rc.ct = 0
						if rc.bodyFmt == 1 {
							rc.ct = 1 + rng.Intn(2)
						}
						cases = append(cases, rc)
					}
				}
			}
		}
	}
	scen := make([]any, len(cases))
	for i, c := range cases {
		target := c.path
		if c.query != "" {
			target += "?" + c.query
		}
		sc := map[string]any{"id": fmt.Sprint(i), "kind": "raw", "pkg": c.req.ID, "service": c.svc.Name, "verb": c.verb, "target": target,
			"headers": [][2]string{{"Content-Type", ctNames[c.ct]}}, "script": map[string]any{}}
		switch {
		case c.bodyMsg != nil && c.bodyFmt == 0:
			b, err := protojson.Marshal(c.bodyMsg)
			if err != nil {
				run.Fatal("protojson: %v", err)
			}
			c.bodyRaw = b
		case c.bodyMsg != nil && c.bodyFmt == 1:
			c.bodyRaw = Wire(c.bodyMsg)
		}
		if c.bodyRaw != nil {
			sc["body"] = hex.EncodeToString(c.bodyRaw)
		}
		scen[i] = sc
	}
	raw, err := RunScenarios(s.Runner, scen, 8)
	if err != nil {
		run.Fatal("runner: %v", err)
	}
	var defs strings.Builder
	defIdx := map[string]int{}
	for i, r := range reqs {
		if s.InRunner[r.ID] {
			defIdx[r.ID] = i
			fmt.Fprintf(&defs, "Definition sc_%d : schema := %s.\n", i, CoqSchema(r))
		}
	}
	var ccs []CoqCase
	var results []*CaseResult
	for i, c := range cases {
		var o RunnerObs
		if err := json.Unmarshal(raw[i], &o); err != nil {
			run.Fatal("bad observation: %v", err)
		}
		if o.Error != "" {
			run.Fatal("runner error on case %d: %s", i, o.Error)
		}
		obs, holds, note := rawObservation(c, &o)
		bodyCoq := "None"
		var bodyJ any
		if c.bodyMsg != nil && len(c.bodyRaw) > 0 {
			j, t := MsgCanon(c.bodyMsg)
			bodyJ = j
			bodyCoq = fmt.Sprintf("(Some (%d%%nat, %s))", c.bodyFmt, t)
		}
		cr := &CaseResult{ID: fmt.Sprintf("%s/%s.%s#%d", c.req.ID, c.svc.Name, c.md.Name, i), Family: "raw-request",
			Input: map[string]any{"schema": c.req.ID, "service": c.svc.Name, "method": c.md.Name, "verb": c.verb, "pattern": c.pattern,
				"path": c.path, "query": c.query, "content_type": ctNames[c.ct], "body": bodyJ, "body_hex": hex.EncodeToString(c.bodyRaw)},
			Obs: obs, OracleHolds: holds, OracleNote: note, NonTrivial: true,
			Features: []string{"verb:" + c.verb, fmt.Sprintf("body:%d", c.bodyFmt)}}
		results = append(results, cr)
		ccs = append(ccs, CoqCase{Term: fmt.Sprintf("(sc_%d, %s, %d%%nat, %s, %s, %d%%nat, %s)", defIdx[c.req.ID], CoqStr(c.svc.Name), verbNumOf[c.verb],
			CoqStr(c.path), CoqStr(c.query), c.ct, bodyCoq), Obs: obs})
	}
	vs, err := CoqRun(run.WorkDir, "c02", "From Sebuf Require Import Text Json Route Schema Value GoRt GoRtRaw.\n", defs.String(), "c02_case", "predict_C02", ccs, 16)
	if err != nil {
		run.Fatal("model evaluation: %v", err)
	}
	for i, cr := range results {
		cr.Apply(vs[i])
		// no known defect class is left for C02: an oracle failure on an unmodelled case is a violation
		run.Results = append(run.Results, cr)
	}
	run.Extra["schemas"] = len(reqs)
	run.Finish()
}

// rawObservation projects the runner record and evaluates the C02 oracle from the raw request.
func rawObservation(c *rawCase, o *RunnerObs) (map[string]any, bool, string) {
	obs := map[string]any{}
	var saw map[string]any
	switch {
	case o.Panic != "":
		obs["outcome"] = map[string]any{"class": "panic"}
		return obs, false, "panic: " + firstLine(o.Panic)
	case o.Timeout:
		obs["outcome"] = map[string]any{"class": "timeout"}
		return obs, false, "timeout"
	case len(o.HandlerCalls) >= 1:
		hc := o.HandlerCalls[0]
		var sawJ any = "undecodable"
		for _, m := range c.svc.Methods {
			if m.Name == hc.Method {
				if dm, err := c.g.Built.FromWireHex(m.In, hc.Req); err == nil {
					saw, _ = MsgCanon(dm)
					sawJ = saw
				}
			}
		}
		obs["outcome"] = map[string]any{"class": "dispatched", "method": hc.Method, "handler_saw": sawJ}
		if hc.Method != c.md.Name {
			return obs, true, "" // another route claimed the path: not this RPC's contract
		}
	case o.Status == 400 && len(o.RespHeader["X-Verif-Unparsable"]) > 0:
		obs["outcome"] = map[string]any{"class": "not-routed"}
		return obs, true, ""
	case o.Status == 400:
		fs := violationFields(o)
		f := ""
		if len(fs) > 0 {
			f = fs[0]
		}
		obs["outcome"] = map[string]any{"class": "rejected", "field": f}
	default:
		obs["outcome"] = map[string]any{"class": "not-routed"}
		return obs, true, ""
	}
	// expected per URL-bound field, from the raw request alone
	in, _ := c.req.FindMessage(c.md.In)
	patSegs := strings.Split(c.pattern, "/")
	reqSegs := strings.Split(c.path, "/")
	type exp struct {
		name string
		val  any
		ok   bool
		miss bool
		list bool
	}
	var exps []exp
	fieldOf := func(n string) *Field {
		for _, fl := range in.Fields {
			if fl.Name == n {
				return fl
			}
		}
		return nil
	}
	if len(patSegs) == len(reqSegs) {
		for i, ps := range patSegs {
			if strings.HasPrefix(ps, "{") && strings.HasSuffix(ps, "}") {
				name := ps[1 : len(ps)-1]
				fl := fieldOf(name)
				if fl == nil || fl.Card != "singular" {
					continue
				}
				u, err := url.PathUnescape(reqSegs[i])
				if err != nil {
					u = reqSegs[i]
				}
				v, ok := goConvert(fl.Kind, u)
				exps = append(exps, exp{name: name, val: v, ok: ok})
			}
		}
	}
	q, _ := url.ParseQuery(c.query)
	for _, fl := range in.Fields {
		if fl.Query == nil {
			continue
		}
		name := fl.Query.Name
		if name == "" {
			name = fl.Name
		}
		vals := q[name]
		if len(vals) == 0 {
			if fl.Query.Required {
				exps = append(exps, exp{name: fl.Name, miss: true})
			}
			continue
		}
		if fl.Card == "repeated" {
			arr := []any{}
			ok := true
			for _, x := range vals {
				v, k := goConvert(fl.Kind, x)
				ok = ok && k
				arr = append(arr, v)
			}
			exps = append(exps, exp{name: fl.Name, val: arr, ok: ok, list: true})
		} else if fl.Card == "singular" {
			v, ok := goConvert(fl.Kind, vals[0])
			exps = append(exps, exp{name: fl.Name, val: v, ok: ok})
		}
	}
	bad := map[string]bool{}
	for _, e := range exps {
		if e.miss || !e.ok {
			bad[e.name] = true
		}
	}
	oc := obs["outcome"].(map[string]any)
	if len(bad) > 0 {
		if oc["class"] != "rejected" {
			return obs, false, "an unconvertible URL value or missing required query parameter did not yield 400"
		}
		if !bad[oc["field"].(string)] {
			return obs, false, fmt.Sprintf("400 names %q, not one of the offending fields", oc["field"])
		}
		return obs, true, ""
	}
	if oc["class"] == "rejected" {
		if oc["field"] == "body" {
			return obs, true, "" // body problems are C11's subject
		}
		return obs, false, fmt.Sprintf("request with convertible URL values rejected (field %v)", oc["field"])
	}
	for _, e := range exps {
		if c.bodyMsg != nil && len(c.bodyRaw) > 0 {
			if fd := c.bodyMsg.Descriptor().Fields().ByName(protoreflect.Name(e.name)); fd != nil && c.bodyMsg.Has(fd) {
				continue // the body mentions the field: outside the property's premise
			}
		}
		got, present := saw[e.name]
		want := Canon(e.val)
		if e.list {
			if len(e.val.([]any)) == 0 {
				continue
			}
		} else if isZeroCanon(e.val) {
			if present {
				return obs, false, fmt.Sprintf("field %s: handler saw %v, URL gives the default", e.name, got)
			}
			continue
		}
		if !present {
			return obs, false, fmt.Sprintf("field %s: handler saw the default instead of the URL value %v", e.name, short(want))
		}
		if Diff(Canon(got), want) != "" {
			return obs, false, fmt.Sprintf("field %s: handler saw %s, URL gives %s", e.name, short(got), short(want))
		}
	}
	return obs, true, ""
}
