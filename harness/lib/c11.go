package lib

import (
	"bytes"
	"encoding/base64"
	"encoding/hex"
	"encoding/json"
	"fmt"
	"math/rand"
	"strings"
	"time"
	"unicode/utf8"

	"google.golang.org/protobuf/encoding/protojson"
	"google.golang.org/protobuf/proto"
	"google.golang.org/protobuf/types/dynamicpb"
)

type c11Target struct {
	req     *Request
	g       *GenOutput
	svc     *Service
	md      *Method
	msg     *Message
	target  string
	tracked map[string]*Field // json name -> annotated top-level field with a swallowing converter
	custom  bool              // the type owns a custom decoder
	known   bool              // the reference reading below reproduces the custom decoder's stages
}

// declaredConv: the harness's own strict conversion of a raw JSON value under the field's declared
// format; returns the standard proto3-JSON replacement when it succeeds.
func declaredConv(f *Field, raw json.RawMessage) (json.RawMessage, bool) {
	switch {
	case f.Kind == "bytes" && f.BytesEncoding != "" && f.BytesEncoding != "BASE64" && f.BytesEncoding != "UNSPECIFIED":
		var s string
		if json.Unmarshal(raw, &s) != nil {
			return nil, false
		}
		var b []byte
		var err error
		switch f.BytesEncoding {
		case "HEX":
			b, err = hex.DecodeString(s)
		case "BASE64_RAW":
			b, err = base64.RawStdEncoding.DecodeString(s)
		case "BASE64URL":
			b, err = base64.URLEncoding.DecodeString(s)
		case "BASE64URL_RAW":
			b, err = base64.RawURLEncoding.DecodeString(s)
		}
		if err != nil {
			return nil, false
		}
		out, _ := json.Marshal(base64.StdEncoding.EncodeToString(b))
		return out, true
	case f.Kind == "message" && f.TypeName == Timestamp && (f.TimestampFormat == "UNIX_SECONDS" || f.TimestampFormat == "UNIX_MILLIS"):
		var n int64
		if json.Unmarshal(raw, &n) != nil {
			return nil, false
		}
		t := time.Unix(n, 0)
		if f.TimestampFormat == "UNIX_MILLIS" {
			t = time.UnixMilli(n)
		}
		out, _ := json.Marshal(t.Format(time.RFC3339Nano))
		return out, true
	case f.Kind == "message" && f.TypeName == Timestamp && f.TimestampFormat == "DATE":
		var s string
		if json.Unmarshal(raw, &s) != nil {
			return nil, false
		}
		t, err := time.Parse("2006-01-02", s)
		if err != nil {
			return nil, false
		}
		out, _ := json.Marshal(t.Format(time.RFC3339Nano))
		return out, true
	case f.Int64Encoding == "NUMBER" && (f.Card == "singular" || f.Card == "repeated"):
		// exact reading of the literal (c11_num.go): a JSON number denoting a whole number in range
		switch f.Kind {
		case "uint64", "fixed64", "int64", "sint64", "sfixed64":
			return numberConv(f, raw)
		}
	}
	return nil, false
}

func trackedField(f *Field) bool {
	if f.Card == "repeated" && f.Int64Encoding == "NUMBER" {
		switch f.Kind {
		case "int64", "sint64", "sfixed64", "uint64", "fixed64":
			return true
		}
	}
	if f.Card != "singular" {
		return false
	}
	if f.Kind == "bytes" && f.BytesEncoding != "" && f.BytesEncoding != "BASE64" && f.BytesEncoding != "UNSPECIFIED" {
		return true
	}
	if f.Kind == "message" && f.TypeName == Timestamp && (f.TimestampFormat == "UNIX_SECONDS" || f.TimestampFormat == "UNIX_MILLIS" || f.TimestampFormat == "DATE") {
		return true
	}
	if f.Int64Encoding == "NUMBER" {
		switch f.Kind {
		case "int64", "sint64", "sfixed64", "uint64", "fixed64":
			return true
		}
	}
	return false
}

// mutateJSON produces malformed / odd variants of a valid JSON document.
func mutateJSON(rng *rand.Rand, valid []byte, fields []*Field) [][]byte {
	var out [][]byte
	add := func(b []byte) { out = append(out, b) }
	add(valid)
	if len(valid) > 2 {
		add(valid[:rng.Intn(len(valid)-1)+1]) // truncation
		add(valid[:len(valid)-1])
	}
	add([]byte("null"))
	add([]byte("[]"))
	add([]byte("42"))
	add([]byte(`"str"`))
	add([]byte("{"))
	add([]byte("{}"))
	add([]byte("{}{}"))
	add([]byte(" \n{} "))
	add([]byte(`{"unknownField": 1}`))
	add([]byte(strings.Repeat("[", 20000)))
	add([]byte(`{"a":` + strings.Repeat(`{"a":`, 12000) + "1" + strings.Repeat("}", 12001)))
	add([]byte{0xff, 0xfe, '{', '}'})
	add([]byte("{\"id\":\"\xff\xfe\"}"))
	// per-field wrong types / duplicate keys / huge numbers
	wrong := []string{`"text"`, `12`, `-1`, `1.5`, `true`, `null`, `[]`, `{}`, `[1,"a"]`, `1e400`, `99999999999999999999999999`, `"abc"`, `"zz"`, `"2024-13-45"`, `"1700000000"`,
		`"2024-01-02T03:04:05Z"`, `"aGVsbG8="`, `"aGVsbG8"`, `"-_-_"`, `"+/+/"`, `"0x10"`, `" 12"`, `9223372036854775808`, `"9223372036854775808"`, `1700000000`, `1700000000000`, `"2024-02-30"`, `"2024-02-29"`}
	for _, f := range fields {
		jn := JSONName(f.Name)
		for i := 0; i < 6; i++ {
			w := wrong[rng.Intn(len(wrong))]
			add([]byte(fmt.Sprintf(`{%q: %s}`, jn, w)))
		}
		add([]byte(fmt.Sprintf(`{%q: 1, %q: 2}`, jn, jn)))
		add([]byte(fmt.Sprintf(`{%q: %s}`, f.Name, wrong[rng.Intn(len(wrong))]))) // proto name spelling
	}
	return out
}

func mutateWire(rng *rand.Rand, valid []byte) [][]byte {
	out := [][]byte{valid, {}, {0xff}, {0x08}, {0x0a, 0x05, 'a'}, {0x7b, 0x7d}, bytes.Repeat([]byte{0x0b}, 5000), {0x08, 0xff, 0xff, 0xff, 0xff, 0xff, 0xff, 0xff, 0xff, 0xff, 0xff, 0x01}}
	if len(valid) > 1 {
		out = append(out, valid[:rng.Intn(len(valid)-1)+1], valid[:len(valid)-1])
		m := append([]byte{}, valid...)
		m[rng.Intn(len(m))] ^= byte(1 + rng.Intn(255))
		out = append(out, m)
	}
	r := make([]byte, 1+rng.Intn(40))
	rng.Read(r)
	out = append(out, r)
	return out
}

type c11Case struct {
	t      *c11Target
	ct     int // 0 json 1 x-protobuf 2 octet 3 text/plain 4 json with charset
	body   []byte
	fault  *[2]any // after, kind
	family string
	expect *c11Expect // numeric-boundary: the exact reading of the literal (c11_num.go)
}

var c11CTs = []string{"application/json", "application/x-protobuf", "application/octet-stream", "text/plain", "application/json; charset=utf-8"}

func CheckC11(run *Run) {
	run.Proof = CheckProofs("C11")
	run.Prepare()
	var reqs []*Request
	for _, r := range FeatureCatalogue() {
		reqs = append(reqs, r)
	}
	reqs = append(reqs, c11NumericCatalogue()...)
	// rejections whose error text quotes a long token (c11_tokens.go)
	tokReq := c11TokenCatalogue()
	reqs = append(reqs, tokReq)
	rng := rand.New(rand.NewSource(run.Seed + 1111))
	rounds := 2
	if run.Tier == "thorough" {
		rounds = 40
	}
	s := NewSession(run, reqs)
	s.BuildRuntime(false)
	var targets []*c11Target
	for i, r := range reqs {
		if !s.InRunner[r.ID] {
			continue
		}
		g := s.Gens[i]
		for _, f := range r.Files {
			routes := GoServerRoutes(g.Results["go-http"].Files[genPrefix(f)+"_http.pb.go"])
			for _, svc := range f.Services {
				for _, md := range svc.Methods {
					rt := routes[lowerFirst(md.Name)]
					if rt == nil || !rt.Body || rt.Verb != "POST" || strings.Contains(rt.Path, "{") || len(svc.Headers) > 0 || len(md.Headers) > 0 {
						continue // C11 sends bare POST requests: routes demanding headers are C09's subject
					}
					m, _ := r.FindMessage(md.In)
					t := &c11Target{req: r, g: g, svc: svc, md: md, msg: m, target: rt.Path, tracked: map[string]*Field{}}
					plain := true
					for _, fl := range m.Fields {
						if trackedField(fl) {
							t.tracked[JSONName(fl.Name)] = fl
						}
						if fl.Unwrap || fl.Nullable != nil || fl.EmptyBehavior != "" || fl.Flatten != nil || (fl.Int64Encoding == "NUMBER" && fl.Card != "singular" && fl.Card != "repeated") ||
							(fl.TimestampFormat != "" && fl.TimestampFormat != "RFC3339" && fl.Card != "singular") {
							plain = false
						}
					}
					for _, o := range m.Oneofs {
						if o.HasConfig {
							plain = false
						}
					}
					// does the emitted package declare a custom decoder for this type?
					goName := ""
					for _, mr := range collectMsgs(r) {
						if mr.Full == md.In {
							goName = mr.GoName
						}
					}
					t.custom = false
					for _, c := range g.Results["go-http"].Files {
						if strings.Contains(c, "func (x *"+goName+") UnmarshalJSON(") {
							t.custom = true
						}
					}
					// the reference reading reproduces the decoder when there is none, or when it only
					// consists of the tracked per-field converters
					annotated := 0
					for _, fl := range m.Fields {
						if (fl.BytesEncoding != "" && fl.BytesEncoding != "BASE64" && fl.BytesEncoding != "UNSPECIFIED") || fl.Int64Encoding == "NUMBER" ||
							(fl.TimestampFormat != "" && fl.TimestampFormat != "RFC3339" && fl.TimestampFormat != "UNSPECIFIED") {
							annotated++
						}
					}
					t.known = !t.custom || (plain && annotated == len(t.tracked) && annotated > 0)
					targets = append(targets, t)
				}
			}
		}
	}
	vg := &ValueGen{Rng: rng}
	var cases []*c11Case
	for _, t := range targets {
		desc := t.g.Built.MessageDesc(t.md.In)
		for k := 0; k < rounds; k++ {
			m := vg.Random(desc, 0.8)
			var validJSON []byte
			// a valid body in the sebuf form comes from the generated code itself (codec marshal) — here the
			// protojson form is enough as a seed for mutation
			validJSON, _ = protojson.Marshal(m)
			for _, b := range mutateJSON(rng, validJSON, t.msg.Fields) {
				ct := 0
				switch rng.Intn(8) {
				case 0:
					ct = 3
				case 1:
					ct = 4
				}
				cases = append(cases, &c11Case{t: t, ct: ct, body: b, family: "json-body"})
			}
			for _, b := range mutateWire(rng, Wire(m)) {
				cases = append(cases, &c11Case{t: t, ct: 1 + rng.Intn(2), body: b, family: "binary-body"})
			}
			// JSON under a binary content type and vice versa
			cases = append(cases, &c11Case{t: t, ct: 1, body: validJSON, family: "binary-body"}, &c11Case{t: t, ct: 0, body: Wire(m), family: "json-body"})
			// failing body readers
			w := Wire(m)
			for _, kind := range []string{"unexpected_eof", "other"} {
				for _, after := range []int{0, 1, len(w) / 2, len(w)} {
					cases = append(cases, &c11Case{t: t, ct: 1, body: w, fault: &[2]any{after, kind}, family: "read-fault"})
					cases = append(cases, &c11Case{t: t, ct: 0, body: validJSON, fault: &[2]any{min(after, len(validJSON)), kind}, family: "read-fault"})
				}
			}
		}
	}
	// numeric literals at and beyond every integer kind's range, in every JSON spelling (c11_num.go)
	for _, t := range targets {
		if t.known {
			cases = append(cases, c11NumericCases(t)...)
		}
	}
	// large bodies around plausible size limits (1, 4, 8 MiB): a complete document followed by garbage
	// must be rejected; a large valid document must be dispatched intact
	for _, t := range targets {
		if t.req.ID != "ftplain" || t.md.Name != "EchoPlain" {
			continue
		}
		for _, lim := range []int{1 << 20, 4 << 20, 8 << 20} {
			head := []byte(`{"id":"a"}`)
			pad := bytes.Repeat([]byte(" "), lim-len(head))
			cases = append(cases, &c11Case{t: t, ct: 0, body: append(append(append([]byte{}, head...), pad...), []byte("garbage")...), family: "large-body"})
			big := []byte(`{"id":"` + strings.Repeat("x", lim+17) + `"}`)
			cases = append(cases, &c11Case{t: t, ct: 0, body: big, family: "large-body"})
			// binary: field 1 ("id") then an unknown length-delimited field filling up to the limit, then a dangling tag
			w := []byte{0x0a, 0x01, 'a'}
			fill := lim - len(w) - 6
			w = append(w, 0xc2, 0x3e) // field 1000, wire type 2
			w = appendVarint(w, uint64(fill))
			w = append(w, bytes.Repeat([]byte{0}, fill)...)
			for len(w) < lim {
				w = append(w, 0xc0, 0x3e, 0x00) // field 1000 varint 0
			}
			w = w[:lim]
			cases = append(cases, &c11Case{t: t, ct: 1, body: append(append([]byte{}, w...), 0xff), family: "large-body"})
		}
	}
	scen := make([]any, len(cases))
	for i, c := range cases {
		sc := map[string]any{"id": fmt.Sprint(i), "kind": "raw", "pkg": c.t.req.ID, "service": c.t.svc.Name, "verb": "POST", "target": c.t.target,
			"headers": [][2]string{{"Content-Type", c11CTs[c.ct]}}, "script": map[string]any{}, "body": hex.EncodeToString(c.body)}
		if c.fault != nil {
			sc["body_fault"] = map[string]any{"after": c.fault[0], "kind": c.fault[1]}
		}
		scen[i] = sc
	}
	raw, err := RunScenarios(s.Runner, scen, 8)
	if err != nil {
		run.Fatal("runner: %v", err)
	}
	var ccs []CoqCase
	var results []*CaseResult
	// the known finding "z3:400-body-not-a-validation-error" is about bodies that are NOT valid UTF-8 (their
	// bytes are echoed into the description, which then cannot be marshalled): the tag is given to those only
	echoesInvalidUTF8 := make([]bool, len(cases))
	for i, c := range cases {
		var o RunnerObs
		if err := json.Unmarshal(raw[i], &o); err != nil {
			run.Fatal("bad observation: %v", err)
		}
		if o.Error != "" {
			run.Fatal("runner error on case %d: %s", i, o.Error)
		}
		// what was delivered to the reader
		delivered := c.body
		readRes := 0
		if c.fault != nil {
			after := c.fault[0].(int)
			if after < len(c.body) {
				delivered = c.body[:after]
			} else {
				delivered = c.body
			}
			readRes = 1
			if c.fault[1] == "other" {
				readRes = 2
			}
		}
		binary := c.ct == 1 || c.ct == 2
		echoesInvalidUTF8[i] = !binary && !utf8.Valid(delivered)
		desc := c.t.g.Built.MessageDesc(c.t.md.In)
		// harness-side reading of the body
		syntaxOK, restOK := true, false
		convs := []bool{}
		var refMsg *dynamicpb.Message
		if binary {
			refMsg = dynamicpb.NewMessage(desc)
			restOK = proto.Unmarshal(delivered, refMsg) == nil
		} else if len(c.t.tracked) > 0 {
			var rawMap map[string]json.RawMessage
			if json.Unmarshal(delivered, &rawMap) != nil {
				syntaxOK = false
			} else {
				for jn, fl := range c.t.tracked {
					if v, ok := rawMap[jn]; ok {
						if repl, ok := declaredConv(fl, v); ok {
							rawMap[jn] = repl
							convs = append(convs, true)
						} else {
							convs = append(convs, false)
						}
					}
				}
				mod, _ := json.Marshal(rawMap)
				refMsg = dynamicpb.NewMessage(desc)
				restOK = protojson.Unmarshal(mod, refMsg) == nil
			}
		} else {
			refMsg = dynamicpb.NewMessage(desc)
			restOK = protojson.Unmarshal(delivered, refMsg) == nil
			syntaxOK = restOK || json.Valid(delivered)
		}
		// observation
		class := ""
		holds := true
		note := ""
		var saw *dynamicpb.Message
		switch {
		case o.Panic != "":
			class, holds, note = "panic", false, "panic: "+firstLine(o.Panic)
		case o.Timeout:
			class, holds, note = "timeout", false, "timeout"
		case len(o.HandlerCalls) > 0:
			class = "dispatched"
			saw, _ = c.t.g.Built.FromWireHex(c.t.md.In, o.HandlerCalls[0].Req)
		case o.Status == 400:
			class = "rejected"
			if fs := violationFields(&o); fs == nil {
				holds, note = false, "400 without a well-formed ValidationError body"
			}
		default:
			class = fmt.Sprintf("status-%d", o.Status)
			holds, note = false, fmt.Sprintf("unexpected status %d", o.Status)
		}
		// strict oracle (implementation observables + the harness's own decoders)
		if holds && c.t.known {
			allConv := true
			for _, b := range convs {
				allConv = allConv && b
			}
			strictOK := readRes == 0 && (len(delivered) == 0 || (syntaxOK && restOK && allConv))
			if class == "dispatched" && !strictOK {
				holds, note = false, "dispatched a request built from a body that was not completely read/decoded under the declared formats"
			}
			if class == "rejected" && strictOK && readRes == 0 {
				holds, note = false, "a completely decodable body was rejected"
			}
			if class == "dispatched" && strictOK && saw != nil && refMsg != nil && len(delivered) > 0 && !proto.Equal(saw, refMsg) {
				holds, note = false, "handler-seen message differs from the reference decoding of the body"
			}
		}
		if holds && c.expect != nil {
			holds, note = c11CheckExpect(c.expect, class, saw)
		}
		obs := map[string]any{"outcome": class}
		cr := &CaseResult{ID: fmt.Sprintf("%s/%s#%d", c.t.req.ID, c.t.md.Name, i), Family: c.family,
			Input: map[string]any{"schema": c.t.req.ID, "method": c.t.md.Name, "content_type": c11CTs[c.ct], "body_hex": hexShort(c.body), "body_text": textShort(c.body), "fault": c.fault},
			Obs:   obs, OracleHolds: holds, OracleNote: note, NonTrivial: true, Features: []string{c.family, "ct:" + c11CTs[c.ct]}}
		results = append(results, cr)
		if !c.t.known {
			cr.Unmodelled = "custom decoder whose stages the reference reading does not reproduce (robustness oracle only)"
			ccs = append(ccs, CoqCase{Term: "(false, 0%nat, false, false, [], false)", Obs: map[string]any{"outcome": "n/a"}})
			continue
		}
		cb := make([]string, len(convs))
		for k, b := range convs {
			cb[k] = CoqBool(b)
		}
		ccs = append(ccs, CoqCase{Term: fmt.Sprintf("(%s, %d%%nat, %s, %s, [%s], %s)", CoqBool(binary), readRes, CoqBool(len(delivered) == 0), CoqBool(syntaxOK), strings.Join(cb, "; "), CoqBool(restOK)), Obs: obs})
	}
	vs, err := coqRunDedup(run.WorkDir, "c11", "From Sebuf Require Import Text Json Malformed.\n", "", "c11_case", "predict_C11", ccs, 16)
	if err != nil {
		run.Fatal("model evaluation: %v", err)
	}
	for i, cr := range results {
		if cr.Unmodelled == "" {
			cr.Apply(vs[i])
			if cr.OracleNote == "400 without a well-formed ValidationError body" && echoesInvalidUTF8[i] {
				cr.Tags = append(cr.Tags, "z3:400-body-not-a-validation-error")
			}
		} else {
			cr.Obs = Canon(cr.Obs)
			if cr.OracleNote == "400 without a well-formed ValidationError body" && echoesInvalidUTF8[i] {
				cr.Tags = append(cr.Tags, "z3:400-body-not-a-validation-error")
			}
		}
		run.Results = append(run.Results, cr)
	}
	// ---- clients: arbitrary status / content type / body -----------------------------------------
	c11Clients(run, s, reqs, rng)
	// ---- clients behind framing headers that lie (c11_framing.go) -----------------------------------
	c11Framing(run, s, reqs, rng)
	// ---- clients given hostile RESPONSE headers (c11_resphdr.go): Go (direct + wire) and TS -----------
	c11RespHeaders(run, s, reqs, rand.New(rand.NewSource(run.Seed+1112)))
	// ---- rejections whose error text quotes a long token (c11_tokens.go) ------------------------------
	c11Tokens(run, s, tokReq)
	run.Extra["targets"] = len(targets)
	run.Finish()
}

// coqRunDedup evaluates each distinct (model input, observation) pair once: the model is a pure
// function and the C11 case space is small (a handful of booleans), so thousands of bodies share a
// few dozen distinct evaluations.
func coqRunDedup(workdir, name, imports, defs, caseType, fn string, cases []CoqCase, par int) ([]CoqVerdict, error) {
	idx := map[string]int{}
	var uniq []CoqCase
	at := make([]int, len(cases))
	for i, c := range cases {
		o, _ := json.Marshal(Canon(c.Obs))
		k := c.Term + "\x00" + string(o)
		j, ok := idx[k]
		if !ok {
			j = len(uniq)
			idx[k] = j
			uniq = append(uniq, c)
		}
		at[i] = j
	}
	vs, err := CoqRun(workdir, name, imports, defs, caseType, fn, uniq, par)
	if err != nil {
		return nil, err
	}
	out := make([]CoqVerdict, len(cases))
	for i := range cases {
		out[i] = vs[at[i]]
		out[i].Tags = append([]string(nil), vs[at[i]].Tags...)
	}
	return out, nil
}

func hexShort(b []byte) string {
	if len(b) > 64 {
		return hex.EncodeToString(b[:64]) + fmt.Sprintf("…(%d bytes)", len(b))
	}
	return hex.EncodeToString(b)
}
func textShort(b []byte) string {
	s := string(b)
	if len(s) > 120 {
		s = s[:120] + "…"
	}
	return strings.ToValidUTF8(s, "?")
}

func c11Clients(run *Run, s *Session, reqs []*Request, rng *rand.Rand) {
	type cc struct {
		req    *Request
		g      *GenOutput
		svc    *Service
		md     *Method
		ct     int
		status int
		body   []byte
	}
	var cases []*cc
	vg := &ValueGen{Rng: rng}
	statuses := []int{200, 201, 204, 299, 301, 399, 400, 401, 404, 422, 500, 503, 599}
	for i, r := range reqs {
		if !s.InRunner[r.ID] || (r.ID != "ftplain" && r.ID != "fti64" && r.ID != "ftbytes") {
			continue
		}
		g := s.Gens[i]
		svc := r.Files[0].Services[0]
		md := svc.Methods[0]
		out := g.Built.MessageDesc(md.Out)
		for _, st := range statuses {
			for ct := 0; ct < 2; ct++ {
				m := vg.Random(out, 0.7)
				pj, _ := protojson.Marshal(m)
				ve, _ := protojson.Marshal(&dynamicpbVE)
				_ = ve
				bodies := [][]byte{{}, pj, Wire(m), []byte(`{"violations":[{"field":"a","description":"b"}]}`), []byte(`{"message":"boom"}`), []byte("plain text"), []byte("{"), {0xff, 0x00}, []byte(`{"violations":"x"}`), []byte(`null`), []byte(strings.Repeat("[", 5000))}
				for _, b := range bodies {
					cases = append(cases, &cc{req: r, g: g, svc: svc, md: md, ct: ct, status: st, body: b})
				}
			}
		}
	}
	scen := make([]any, len(cases))
	for i, c := range cases {
		scen[i] = map[string]any{"id": fmt.Sprint(i), "kind": "call", "pkg": c.req.ID, "service": c.svc.Name, "method": c.md.Name, "req": "",
			"opts": map[string]any{"ContentType": ctNames[c.ct]}, "script": map[string]any{},
			"canned_resp": map[string]any{"status": c.status, "headers": [][2]string{{"Content-Type", ctNames[c.ct]}}, "body_hex": hex.EncodeToString(c.body)}}
	}
	raw, err := RunScenarios(s.Runner, scen, 4)
	if err != nil {
		run.Fatal("runner: %v", err)
	}
	var ccs []CoqCase
	var results []*CaseResult
	for i, c := range cases {
		var o RunnerObs
		if err := json.Unmarshal(raw[i], &o); err != nil {
			run.Fatal("bad observation: %v", err)
		}
		res := "none"
		holds := true
		note := ""
		switch {
		case o.Panic != "" || o.Timeout || o.Error != "":
			res, holds, note = "crash", false, "client panicked / hung: "+firstLine(o.Panic+o.Error)
		case o.Client == nil:
			res, holds, note = "nothing", false, "client returned neither a response nor an error"
		case o.Client.Resp != nil:
			res = "response"
			if c.status >= 400 {
				holds, note = false, fmt.Sprintf("the client returned a response value (no error) for HTTP status %d", c.status)
			}
		case o.Client.ErrType == "ValidationError" || o.Client.ErrType == "Error":
			res = o.Client.ErrType
		case strings.Contains(o.Client.ErrMsg, "failed to unmarshal response"):
			res = "decode-error"
		default:
			res = "other"
		}
		// harness-side decodability under the client's format
		dec := func(full string) bool {
			md := c.g.Built.MessageDesc(full)
			if md == nil {
				// sebuf error types are not part of the user schema: use the generated ones
				return false
			}
			m := dynamicpb.NewMessage(md)
			if c.ct == 0 {
				return protojson.Unmarshal(c.body, m) == nil
			}
			return proto.Unmarshal(c.body, m) == nil
		}
		asVal, asErr := decodesAsSebuf(c.body, c.ct)
		obs := map[string]any{"result": res}
		cr := &CaseResult{ID: fmt.Sprintf("%s/client#%d", c.req.ID, i), Family: "client-response",
			Input: map[string]any{"schema": c.req.ID, "status": c.status, "content_type": ctNames[c.ct], "body_text": textShort(c.body)},
			Obs:   obs, OracleHolds: holds, OracleNote: note, NonTrivial: true, Features: []string{"client", fmt.Sprintf("status:%d", c.status)}}
		results = append(results, cr)
		ccs = append(ccs, CoqCase{Term: fmt.Sprintf("(%d%%Z, %s, %s, %s, %s)", c.status, CoqBool(len(c.body) == 0), CoqBool(dec(c.md.Out)), CoqBool(asVal), CoqBool(asErr)), Obs: obs})
	}
	vs, err := coqRunDedup(run.WorkDir, "c11cli", "From Sebuf Require Import Text Json Malformed.\n", "", "c11_client_case", "predict_C11_client", ccs, 8)
	if err != nil {
		run.Fatal("model evaluation: %v", err)
	}
	for i, cr := range results {
		cr.Apply(vs[i])
		run.Results = append(run.Results, cr)
	}
}

func appendVarint(b []byte, v uint64) []byte {
	for v >= 0x80 {
		b = append(b, byte(v)|0x80)
		v >>= 7
	}
	return append(b, byte(v))
}
