package lib

import (
	"fmt"
	"math/rand"
	"sort"
	"strings"
)

// GoPkgName extracts the Go package name from a go_package option "path;name" (or last element).
func GoPkgName(goPackage string) string {
	if i := strings.LastIndex(goPackage, ";"); i >= 0 {
		return goPackage[i+1:]
	}
	if i := strings.LastIndex(goPackage, "/"); i >= 0 {
		return goPackage[i+1:]
	}
	return goPackage
}

func queryNames(m *Message) []string {
	var out []string
	if m == nil {
		return out
	}
	for _, f := range m.Fields {
		if f.Query != nil {
			n := f.Query.Name
			if n == "" {
				n = f.Name
			}
			out = append(out, n)
		}
	}
	return out
}

func coqVerbOpt(v string) string {
	if v == "" {
		return "None"
	}
	return "(Some " + v + ")"
}

// RPCInfoCoq renders the Coq rpc_info term for an RPC.
func RPCInfoCoq(r *Request, f *File, s *Service, m *Method) string {
	in, _ := r.FindMessage(m.In)
	return fmt.Sprintf("{| ri_service := %s; ri_gopkg := %s; ri_base := %s; ri_method := %s; ri_has_cfg := %s; ri_path := %s; ri_verb := %s; ri_query := %s |}",
		CoqStr(s.Name), CoqStr(GoPkgName(f.GoPackage)), CoqStr(s.BasePath), CoqStr(m.Name), CoqBool(m.HasConfig),
		CoqStr(m.Path), coqVerbOpt(m.Verb), CoqStrList(queryNames(in)))
}

func routeEq(a, b *RouteObs) bool {
	if a == nil || b == nil {
		return false
	}
	return Diff(Canon(a), Canon(b)) == ""
}

func obsPathVars(r *RouteObs) []string {
	if r == nil {
		return nil
	}
	return r.PathVars
}

func genPrefix(f *File) string { return strings.TrimSuffix(f.Path, ".proto") }

// CheckC03 runs the C03 correspondence and oracle.
func CheckC03(run *Run) {
	run.Proof = CheckProofs("C03")
	run.Prepare()
	reqs := RouteCatalogue()
	reqs = append(reqs, SharedRouteRequest(), DoubleSlashRequest(), NoSlashRequest(), RootPathRequest())
	reqs = append(reqs, SiblingRequest(), OddTemplateRequest())
	reqs = append(reqs, TemplateFamilyRequests()...)
	// what is left for the body (nothing / one field / query-only ...), path variables against the
	// declaration order, request messages sharing a short name (nested, and two packages in one run)
	reqs = append(reqs, BodyShapeRequests()...)
	reqs = append(reqs, PathOrderRequests()...)
	reqs = append(reqs, SameShortNameRequests()...)
	// base_path spellings x method path spellings x variable positions (c03_segments.go)
	reqs = append(reqs, BaseSpellingRequests()...)
	n, nt := 8, 8
	nb, no := 6, 4
	ns := 4
	if run.Tier == "thorough" {
		n, nt = 400, 200
		nb, no = 150, 100
		ns = 120
	}
	reqs = append(reqs, RandomBaseSpellingRequests(rand.New(rand.NewSource(run.Seed+333)), ns)...)
	reqs = append(reqs, RandomBodyShapeRequests(rand.New(rand.NewSource(run.Seed+313)), nb)...)
	reqs = append(reqs, RandomPathOrderRequests(rand.New(rand.NewSource(run.Seed+323)), no)...)
	reqs = append(reqs, RandomRouteRequests(rand.New(rand.NewSource(run.Seed+3)), n)...)
	reqs = append(reqs, RandomTemplateFamilyRequests(rand.New(rand.NewSource(run.Seed+303)), nt)...)

	type pending struct {
		c   *CaseResult
		coq string
	}
	var rpcCases, opCases []pending
	gens := ParallelGen(run.BinDir, reqs)
	for ri, r := range reqs {
		g := gens[ri]
		if g.BuildErr != "" {
			run.Fatal("descriptor build failed for %s: %s", r.ID, g.BuildErr)
		}
		allOK := true
		for _, p := range Plugins {
			if g.Results[p].Exit != "ok" {
				allOK = false
				run.Notes = append(run.Notes, fmt.Sprintf("%s: plugin %s: %s %s", r.ID, p, g.Results[p].Exit, g.Results[p].Error))
			}
		}
		if !allOK {
			// the catalogue only contains definitions the documented rules accept: a refusal is C12's
			// business; C03 has nothing to compare here.
			continue
		}
		for _, f := range r.Files {
			if !f.Generate || len(f.Services) == 0 {
				continue
			}
			pre := genPrefix(f)
			gs := GoServerRoutes(g.Results["go-http"].Files[pre+"_http.pb.go"])
			gc := GoClientRoutes(g.Results["go-client"].Files[pre+"_client.pb.go"])
			tcSrc := tsFileInPkg(g.Results["ts-client"].Files, f, "_client.ts")
			tsSrc := tsFileInPkg(g.Results["ts-server"].Files, f, "_server.ts")
			// does the emitted server read a body for this RPC: the verb literal handed to BindingMiddleware
			// against the verbs BindingMiddleware binds a body for (not the verb of the registered pattern)
			GoServerBodyBinding(gs, g.Results["go-http"].Files[pre+"_http.pb.go"], g.Results["go-http"].Files[pre+"_http_binding.pb.go"])
			tc := TsClientRoutes(tcSrc)
			tss := TsServerRoutes(tsSrc)
			// which segment of the request path the emitted handler reads each variable from, against the
			// segment the published template puts it in
			TsServerSegmentBinding(tss, tsSrc)
			for _, s := range f.Services {
				docText, ok := g.Results["openapiv3"].Files[s.Name+".openapi.yaml"]
				var ops []*OpenAPIOp
				if ok {
					doc, err := ParseYAML(docText)
					if err != nil {
						run.Fatal("%s: cannot parse %s.openapi.yaml: %v", r.ID, s.Name, err)
					}
					ops = OpenAPIOps(doc)
				}
				byOp := map[string][]*OpenAPIOp{}
				for _, o := range ops {
					byOp[o.OperationID] = append(byOp[o.OperationID], o)
				}
				var infos []string
				for _, m := range s.Methods {
					lf := lowerFirst(m.Name)
					obs := map[string]any{
						"go_server": gs[lf],
						"go_client": gc[lowerFirst(s.Name)+"."+m.Name],
						"ts_client": tc[s.Name+"."+lf],
						"ts_server": tss[s.Name+"."+lf],
					}
					var oa *RouteObs
					if l := byOp[m.Name]; len(l) > 0 {
						oa = l[0].Route
					}
					obs["openapi"] = oa
					holds := routeEq(gs[lf], gc[lowerFirst(s.Name)+"."+m.Name]) && routeEq(gs[lf], tc[s.Name+"."+lf]) &&
						routeEq(gs[lf], tss[s.Name+"."+lf]) && routeEq(gs[lf], oa)
					note := ""
					if !holds {
						note = "the five generators do not agree on verb/path/placement"
						for _, pv := range obsPathVars(tss[s.Name+"."+lf]) {
							if strings.Contains(pv, "(read from segment") {
								note = "the TS server publishes " + tss[s.Name+"."+lf].Path + " but its handler reads " + pv +
									"; the other outputs carry the field in segment " + fmt.Sprint(SegmentOf(gc[lowerFirst(s.Name)+"."+m.Name]))
								break
							}
						}
					}
					in, _ := r.FindMessage(m.In)
					c := &CaseResult{ID: r.ID + "/" + s.Name + "." + m.Name, Family: "route-projections",
						Input:       map[string]any{"schema": r.ID, "service": s.Name, "base_path": s.BasePath, "method": m, "query": queryNames(in), "gopkg": GoPkgName(f.GoPackage)},
						Obs:         obs, OracleHolds: holds, OracleNote: note,
						NonTrivial:  m.HasConfig || s.BasePath != "",
						Features:    routeFeatures(s, m, in)}
					coq := RPCInfoCoq(r, f, s, m)
					rpcCases = append(rpcCases, pending{c, coq})
					infos = append(infos, coq)
				}
				// operations of the document
				opObs := map[string]any{}
				for _, o := range ops {
					opObs[o.Verb+" "+o.Path] = o.OperationID
				}
				holds := true
				note := ""
				for _, m := range s.Methods {
					if len(byOp[m.Name]) != 1 {
						holds = false
						note = fmt.Sprintf("RPC %s appears as %d operations", m.Name, len(byOp[m.Name]))
					}
				}
				if len(ops) != len(s.Methods) {
					holds = false
					if note == "" {
						note = fmt.Sprintf("%d operations for %d RPCs", len(ops), len(s.Methods))
					}
				}
				oc := &CaseResult{ID: r.ID + "/" + s.Name + "#ops", Family: "openapi-operations",
					Input: map[string]any{"schema": r.ID, "service": s.Name, "rpcs": len(s.Methods)},
					Obs:   map[string]any{"ops": opObs}, OracleHolds: holds, OracleNote: note, NonTrivial: len(s.Methods) > 1,
					Features: []string{"ops"}}
				opCases = append(opCases, pending{oc, "[" + strings.Join(infos, ";\n   ") + "]"})
			}
		}
	}
	imports := "From Sebuf Require Import Text Json Route.\n"
	var defs strings.Builder
	var svcCases, perRPC []CoqCase
	ri := 0
	for i, p := range opCases {
		fmt.Fprintf(&defs, "Definition svc_%d : list rpc_info := %s.\n", i, p.coq)
		svcCases = append(svcCases, CoqCase{Term: fmt.Sprintf("svc_%d", i), Obs: p.c.Obs})
		nm := p.c.Input.(map[string]any)["rpcs"].(int)
		for k := 0; k < nm; k++ {
			perRPC = append(perRPC, CoqCase{Term: fmt.Sprintf("(svc_%d, %d%%nat)", i, k), Obs: rpcCases[ri].c.Obs})
			ri++
		}
	}
	vs, err := CoqRun(run.WorkDir, "c03ops", imports, defs.String(), "list rpc_info", "predict_C03_ops", svcCases, 16)
	if err != nil {
		run.Fatal("model evaluation: %v", err)
	}
	for i, p := range opCases {
		p.c.Apply(vs[i])
		run.Results = append(run.Results, p.c)
	}
	vs, err = CoqRun(run.WorkDir, "c03rpc", imports, defs.String(), "(list rpc_info * nat)", "predict_C03_at", perRPC, 16)
	if err != nil {
		run.Fatal("model evaluation: %v", err)
	}
	for i, p := range rpcCases {
		p.c.Apply(vs[i])
		run.Results = append(run.Results, p.c)
	}
	run.Extra["schemas"] = len(reqs)
	run.Finish()
}

// tsFileInPkg picks the TypeScript file emitted for a proto file: the one in the file's own Go-package
// directory when several generated files share a base name (two packages in one run).
func tsFileInPkg(files map[string]string, f *File, suffix string) string {
	base := strings.TrimSuffix(pathBase(f.Path), ".proto")
	exact := goImportPath(f.GoPackage) + "/" + base + suffix
	if c, ok := files[exact]; ok {
		return c
	}
	var names []string
	for n := range files {
		if strings.HasSuffix(n, suffix) && strings.Contains(n, base) {
			names = append(names, n)
		}
	}
	sort.Strings(names)
	if len(names) == 0 {
		return ""
	}
	return files[names[len(names)-1]]
}

func pathBase(p string) string {
	if i := strings.LastIndex(p, "/"); i >= 0 {
		return p[i+1:]
	}
	return p
}

func routeFeatures(s *Service, m *Method, in *Message) []string {
	var f []string
	if s.BasePath == "" {
		f = append(f, "base:absent")
	} else if strings.HasPrefix(s.BasePath, "/") {
		f = append(f, "base:slash")
	} else {
		f = append(f, "base:noslash")
	}
	switch {
	case !m.HasConfig:
		f = append(f, "cfg:absent")
	case m.Path == "" && m.Verb == "":
		f = append(f, "cfg:empty")
	case m.Path == "":
		f = append(f, "cfg:verb-only")
	case m.Verb == "":
		f = append(f, "cfg:path-only")
	default:
		f = append(f, "cfg:both")
	}
	v := m.Verb
	if v == "" {
		v = "POST(default)"
	}
	f = append(f, "verb:"+v)
	f = append(f, fmt.Sprintf("pathvars:%d", len(rePathVar.FindAllString(m.Path, -1))))
	if len(queryNames(in)) > 0 {
		f = append(f, "query:yes")
	}
	return f
}
