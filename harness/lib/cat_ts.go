package lib

import "fmt"

// Catalogue for the TypeScript runtime checks (C08, C07).

// TsKindsRequest: like KindsRequest but no bodyless RPC combines path variables with query parameters,
// so that the emitted TS server module loads (see the ts-server-url-redeclared finding) and the TS
// server's path, query and body paths can be driven for every scalar kind.
func TsKindsRequest() *Request {
	id := "tsk"
	pkg := "tsk.v1"
	f := &File{Enums: []*Enum{E("Color", "COLOR_UNSPECIFIED", "COLOR_RED", "COLOR_BLUE")}}
	f.Messages = append(f.Messages, M("Resp", F("ok", 1, "bool"), F("echo", 2, "string"), F("n", 3, "int64"),
		F("items", 4, "string", Rep()), F("inner", 5, "", Msg(pkg+".Inner")), F("m", 6, "int32", MapOf("string")),
		F("color", 7, "", EnumT(pkg+".Color")), F("raw", 8, "bytes"), F("d", 9, "double"), F("opt", 10, "int32", Opt()),
		F("at", 11, "", Msg(Timestamp)), F("u", 12, "uint64"), F("multi_word", 13, "string")))
	f.Messages = append(f.Messages, M("Inner", F("a", 1, "string"), F("b", 2, "uint64"), F("deep", 3, "", Msg(pkg+".Inner")), F("list", 4, "", Msg(pkg+".Inner"), Rep())))
	svc := &Service{Name: "Tk", BasePath: "/tk", HasConfig: true}
	for i, k := range urlKinds {
		name := fmt.Sprintf("GetP%d", i)
		f.Messages = append(f.Messages, M(name+"Req", F("pv", 1, k)))
		svc.Methods = append(svc.Methods, RPC(name, pkg+"."+name+"Req", pkg+".Resp", "GET", fmt.Sprintf("/gp%d/{pv}", i)))
		name = fmt.Sprintf("GetQ%d", i)
		f.Messages = append(f.Messages, M(name+"Req", F("qv", 1, k, Query("", false)), F("other_q", 2, "string", Query("o", false)), F("req_q", 3, k, Query("r", i%2 == 0))))
		svc.Methods = append(svc.Methods, RPC(name, pkg+"."+name+"Req", pkg+".Resp", "GET", fmt.Sprintf("/gq%d", i)))
		name = fmt.Sprintf("DelP%d", i)
		f.Messages = append(f.Messages, M(name+"Req", F("pv", 1, k), F("second_part", 2, "string")))
		svc.Methods = append(svc.Methods, RPC(name, pkg+"."+name+"Req", pkg+".Resp", "DELETE", fmt.Sprintf("/d%d/{pv}/x/{second_part}", i)))
		name = fmt.Sprintf("PutP%d", i)
		f.Messages = append(f.Messages, M(name+"Req", F("pv", 1, k), F("bv", 2, k), F("blist", 3, k, Rep()), F("inner", 4, "", Msg(pkg+".Inner"))))
		svc.Methods = append(svc.Methods, RPC(name, pkg+"."+name+"Req", pkg+".Resp", "PUT", fmt.Sprintf("/p%d/{pv}", i)))
	}
	f.Messages = append(f.Messages, M("Big",
		F("id", 1, "string"), F("inner", 2, "", Msg(pkg+".Inner")), F("inners", 3, "", Msg(pkg+".Inner"), Rep()),
		F("by_name", 4, "", Msg(pkg+".Inner"), MapOf("string")), F("by_num", 5, "string", MapOf("int64")),
		F("color", 6, "", EnumT(pkg+".Color")), F("colors", 7, "", EnumT(pkg+".Color"), Rep()), F("raw", 8, "bytes"),
		F("o_s", 9, "string", Opt()), F("o_i", 10, "int64", Opt()), F("o_b", 11, "bool", Opt()),
		F("c_text", 12, "string", InOneof("choice")), F("c_num", 13, "int32", InOneof("choice")), F("c_msg", 14, "", Msg(pkg+".Inner"), InOneof("choice")),
		F("f32", 15, "float"), F("f64", 16, "double"), F("u64", 17, "uint64"), F("s64", 18, "sint64"), F("fx", 19, "fixed64"),
		F("at", 20, "", Msg(Timestamp)), F("flags", 21, "bool", Rep()), F("by_bool", 22, "int32", MapOf("bool"))).WithOneofs(&Oneof{Name: "choice"}))
	f.Messages = append(f.Messages, M("ModeReq", F("id", 1, "string"), F("mode", 2, "string", Query("mode", false)), F("n", 3, "int32", Query("n", false)), F("note", 4, "string")))
	svc.Methods = append(svc.Methods,
		RPC("PostBig", pkg+".Big", pkg+".Big", "POST", "/big"),
		RPC("PatchBig", pkg+".Big", pkg+".Big", "PATCH", "/big/{id}"),
		RPC("PutMode", pkg+".ModeReq", pkg+".Resp", "PUT", "/mode/{id}"),
		RPC("PlainPost", pkg+".Big", pkg+".Resp", "", "/plain"))
	f.Services = []*Service{svc}
	r := OneFile(id, pkg, f)
	r.Tags = []string{"runtime", "ts"}
	return r
}

// TsHeaderRequest: service- and method-level headers with pairwise distinct helper names (the Go
// client compiles), two services in one file.
func TsHeaderRequest() *Request {
	id := "tshdr"
	pkg := "tshdr.v1"
	f := &File{Messages: []*Message{M("Ping", F("msg", 1, "string")), M("ById", F("id", 1, "string"))}}
	a := Svc("Hdr", "/h",
		RPC("Ping", pkg+".Ping", pkg+".Ping", "POST", "/ping").WithHeaders(&Header{Name: "X-Request-ID", Type: "integer", Required: true}),
		RPC("Second", pkg+".Ping", pkg+".Ping", "PUT", "/second"),
		RPC("Fetch", pkg+".ById", pkg+".Ping", "GET", "/items/{id}").WithHeaders(&Header{Name: "X-Tenant-Id", Type: "string", Required: true}, &Header{Name: "If-None-Match", Type: "string", Required: false}),
	).WithHeaders(&Header{Name: "X-API-Key", Type: "string", Required: true, Format: "uuid"}, &Header{Name: "X-Trace", Type: "string", Required: false}, &Header{Name: "Accept-Language", Type: "string", Required: false})
	b := Svc("Plain", "/p", RPC("PlainPing", pkg+".Ping", pkg+".Ping", "POST", "/ping")).WithHeaders(&Header{Name: "x-lower-case", Type: "boolean", Required: true})
	f.Services = []*Service{a, b}
	r := OneFile(id, pkg, f)
	r.Tags = []string{"runtime", "ts", "headers"}
	return r
}

// TsHeaderDupRequest: the same header declared at service and method level (since d19dbea the Go
// client emits the helper once), plus two headers whose helper names collide.
func TsHeaderDupRequest() *Request {
	id := "tshdrdup"
	pkg := "tshdrdup.v1"
	f := &File{Messages: []*Message{M("Ping", F("msg", 1, "string"))}}
	svc := Svc("Echo", "/e",
		RPC("EchoPing", pkg+".Ping", pkg+".Ping", "POST", "/echo/Ping").WithHeaders(&Header{Name: "X-Request-ID", Type: "integer", Required: true}, &Header{Name: "X-Trace", Type: "string", Required: true}),
		RPC("Second", pkg+".Ping", pkg+".Ping", "PUT", "/second").WithHeaders(&Header{Name: "API-Key", Type: "string", Required: false}),
	).WithHeaders(&Header{Name: "X-API-Key", Type: "string", Required: true, Format: "uuid"}, &Header{Name: "X-Trace", Type: "string", Required: false})
	f.Services = []*Service{svc}
	r := OneFile(id, pkg, f)
	r.Tags = []string{"runtime", "ts", "headers"}
	return r
}

// TsRuntimeCatalogue: every schema whose emitted TypeScript is loaded and driven.
func TsRuntimeCatalogue() []*Request {
	out := RuntimeCatalogue()
	out = append(out, TsKindsRequest(), TsHeaderRequest(), TsHeaderDupRequest())
	return out
}
