package lib

import (
	"fmt"
	"path/filepath"
	"sort"
	"strings"
)

// Session: generated artefacts for a set of requests + (optionally) the compiled scenario runner.
type Session struct {
	Run     *Run
	Reqs    []*Request
	Gens    []*GenOutput
	ByID    map[string]*GenOutput
	Work    *GoWork
	Verdict map[string]*BuildVerdict // by request ID (package dir)
	Runner  string
	InRunner map[string]bool
}

// NewSession generates everything for the requests (plugins run from /repo's working tree).
func NewSession(run *Run, reqs []*Request) *Session {
	s := &Session{Run: run, Reqs: reqs, ByID: map[string]*GenOutput{}}
	s.Gens = ParallelGen(run.BinDir, reqs)
	for i, r := range reqs {
		s.ByID[r.ID] = s.Gens[i]
		if s.Gens[i].BuildErr != "" {
			run.Fatal("descriptor build failed for %s: %s", r.ID, s.Gens[i].BuildErr)
		}
	}
	return s
}

// PackageFiles assembles the Go files of one request as protoc would leave them in the output
// directory for the given plugin subset (later plugins overwrite same-named files).
func (s *Session) PackageFiles(g *GenOutput, withServer, withClient bool) (map[string]string, bool) {
	files := map[string]string{}
	if g.PB == nil || g.PB.Exit != "ok" {
		return nil, false
	}
	for n, c := range g.PB.Files {
		files[n] = c
	}
	// Same-named codec files are emitted by both Go plugins (C14: identical apart from the header
	// line; the byte comparison is C04's and C14's parity family).  Where both exist the SERVER
	// plugin's file is the one compiled, so that the server-side properties (C04, C05, C06, ...) observe
	// protoc-gen-go-http's emitters; client-only packages (C14) observe protoc-gen-go-client's.
	if withClient {
		r := g.Results["go-client"]
		if r.Exit != "ok" {
			return nil, false
		}
		for n, c := range r.Files {
			files[n] = c
		}
	}
	if withServer {
		r := g.Results["go-http"]
		if r.Exit != "ok" {
			return nil, false
		}
		for n, c := range r.Files {
			files[n] = c
		}
	}
	return files, true
}

// BuildRuntime writes every request whose Go plugins succeeded into a work module together with a
// shim, compiles each package, and links the runner with those that compile.
func (s *Session) BuildRuntime(vet bool) {
	w, err := NewGoWork(fmt.Sprintf("%s-%s-%s", s.Run.Property, s.Run.Tier, s.Run.TreeHash))
	if err != nil {
		s.Run.Fatal("%v", err)
	}
	s.Work = w
	var dirs []string
	for i, r := range s.Reqs {
		g := s.Gens[i]
		serverOnly := false
		for _, t := range r.Tags {
			if t == "server-only" {
				serverOnly = true
			}
		}
		files, ok := s.PackageFiles(g, true, !serverOnly)
		if !ok {
			continue
		}
		// one Go package per request (all generated files share the go_package in runtime schemas)
		gopkgs := map[string]bool{}
		for _, f := range r.Files {
			if f.Generate {
				gopkgs[f.GoPackage] = true
			}
		}
		if len(gopkgs) != 1 {
			continue
		}
		var gp string
		for k := range gopkgs {
			gp = k
		}
		dir := strings.TrimPrefix(goImportPath(gp), "verifgen/")
		hasMock := false
		for n := range files {
			if strings.HasSuffix(n, "_http_mock.pb.go") {
				hasMock = true
			}
		}
		hasSvc := false
		for _, f := range r.Files {
			if f.Generate && len(f.Services) > 0 {
				hasSvc = true
			}
		}
		files[filepath.Join(dir, "zz_verif_shim.go")] = ShimSource(r, gp, hasSvc, hasSvc && !serverOnly, hasMock)
		if err := w.WritePackage(files); err != nil {
			s.Run.Fatal("%v", err)
		}
		dirs = append(dirs, dir)
	}
	sort.Strings(dirs)
	s.Verdict = w.BuildDirs(dirs, vet)
	var good []string
	s.InRunner = map[string]bool{}
	for _, d := range dirs {
		if s.Verdict[d].Build {
			good = append(good, d)
			s.InRunner[d] = true
		}
	}
	bin, err := w.BuildRunner(good)
	if err != nil {
		s.Run.Fatal("%v", err)
	}
	s.Runner = bin
}
