package lib

import (
	"bytes"
	"encoding/hex"
	"encoding/json"
	"fmt"
	"math/rand"
	"net/textproto"
	"strings"
	"sync"
	"unicode/utf8"

	"google.golang.org/protobuf/encoding/protojson"
	"google.golang.org/protobuf/proto"
	"google.golang.org/protobuf/reflect/protoreflect"
	"google.golang.org/protobuf/types/dynamicpb"

	sebufhttp "github.com/SebastienMelki/sebuf/http"
)

// ---- C10: errors surface with the documented status, body, format and client-side type ---------

type c10Field struct {
	Num      int
	Name     string
	Kind     string // string | int32 | int64
	AsNumber bool
	Str      string
	Int      int64
}

type c10Custom struct {
	Type   string // full proto name
	Fields []c10Field
}

// c10Err mirrors Errors.herr.
type c10Err struct {
	Kind       string // plain | sebuf | validation | custom
	Msg        string
	Violations [][2]string
	Custom     *c10Custom
	Wrap       bool
}

type c10Rule struct {
	Path []string // nil = no field path
	Msg  string
}

type c10Hook struct {
	Header []string // [k, v]
	Status int
	Write  *string
	RetMsg bool
}

type c10Case struct {
	id     string
	family string
	// source
	srcKind string // header | query | body | rule | handler
	field   string // expected violation field of header/query/body sources
	desc    string // its description when the generator's own template produces it ("" = library wording, not compared)
	rules   []c10Rule
	herr    *c10Err
	hook    *c10Hook
	ct      string // request content type ("" = none, raw only); for client calls: the EFFECTIVE content type
	// client calls: the client-level content type ("" = constructor default) and the per-call override (nil = none)
	clientCT string
	callCT   *string
	split    bool // clientCT/callCT are given separately (else the client-level option carries ct)
	// transport
	call    bool
	method  string
	callReq map[string]any // field -> value for the request message (call)
	callHdr [][2]string
	verb    string // raw
	target  string
	rawBody []byte
	// family "error-size" (c10_size.go): the Coq term of the source, built with the model's generators instead
	// of literals, and the size class label
	coqSrc    string
	sizeLabel string
}

var c10Customs = []*c10Custom{
	{Type: "rterr.v1.NotFoundError", Fields: []c10Field{{1, "resource_type", "string", false, "user", 0}, {2, "resource_id", "string", false, "42", 0}, {3, "code", "int32", false, "", 404}}},
	{Type: "rterr.v1.NotFoundError", Fields: []c10Field{{1, "resource_type", "string", false, "", 0}, {2, "resource_id", "string", false, "", 0}, {3, "code", "int32", false, "", 0}}},
	{Type: "rterr.v1.NotFoundError", Fields: []c10Field{{1, "resource_type", "string", false, "", 0}, {2, "resource_id", "string", false, "x/\xc3\xa9", 0}, {3, "code", "int32", false, "", -1}}},
	{Type: "rterr.v1.QuotaError", Fields: []c10Field{{1, "limit", "int64", true, "", 5000000000}, {2, "reason", "string", false, "too many", 0}}},
	{Type: "rterr.v1.QuotaError", Fields: []c10Field{{1, "limit", "int64", true, "", 0}, {2, "reason", "string", false, "r", 0}}},
	{Type: "rterr.v1.QuotaError", Fields: []c10Field{{1, "limit", "int64", true, "", -9007199254740993}, {2, "reason", "string", false, "", 0}}},
	{Type: "rterr.v1.CodeFirstError", Fields: []c10Field{{1, "code", "int32", false, "", 7}, {2, "detail", "string", false, "d", 0}}},
}

func c10Errors() []*c10Err {
	var out []*c10Err
	// the last four are, read as protobuf wire bytes, a FieldViolation with field "a", an empty group, an
	// unterminated group and a stray end-group marker (what the client's cross-type parse meets)
	for _, m := range []string{"boom", "", "not found: id 7", "\xc3\xbcn\xc3\xaf \"q\" \\ <tag>", "\n\x01a", "\x0b\x0c", "\x0b", "d"} {
		out = append(out, &c10Err{Kind: "plain", Msg: m})
	}
	for _, m := range []string{"denied", ""} {
		out = append(out, &c10Err{Kind: "sebuf", Msg: m})
	}
	for _, vs := range [][][2]string{{}, {{"a.b", "bad"}}, {{"a.b", "bad"}, {"c", "worse"}}, {{"", ""}}, {{"items.name", ""}, {"", "only description"}}} {
		out = append(out, &c10Err{Kind: "validation", Violations: vs})
	}
	for _, c := range c10Customs {
		out = append(out, &c10Err{Kind: "custom", Custom: c})
	}
	n := len(out)
	for i := 0; i < n; i++ {
		w := *out[i]
		w.Wrap = true
		out = append(out, &w)
	}
	return out
}

func str(s string) *string { return &s }

func c10Hooks() []*c10Hook {
	return []*c10Hook{
		nil,
		{},
		{RetMsg: true},
		{Status: 418},
		{Status: 418, RetMsg: true},
		{Status: 400},
		{Status: 400, RetMsg: true},
		{Status: 503, Header: []string{"X-Hook", "v"}},
		{Header: []string{"X-Hook", "v"}},
		{Header: []string{"X-Hook", "v"}, RetMsg: true},
		{Header: []string{"Content-Type", "text/x"}},
		{Header: []string{"content-type", "text/x"}, Status: 418},
		{Write: str("raw!")},
		{Status: 409, Write: str("raw!")},
		{Status: 409, Write: str("raw!"), RetMsg: true},
		{Header: []string{"X-Hook", "v"}, Write: str("raw!")},
		{Header: []string{"Content-Type", "text/x"}, Write: str("raw!"), Status: 400},
		{Status: 404, Write: str("")},
	}
}

var c10RuleSets = [][]c10Rule{
	{{[]string{"name"}, "required"}},
	{{[]string{"inner", "a"}, "m1"}},
	{{[]string{"items", "a"}, "m2"}, {[]string{"by_key", "n"}, "m3"}},
	{{[]string{"inner", "a"}, "m1"}, {[]string{"items", "n"}, "m2"}, {[]string{"by_key", "a"}, "m3"}, {nil, "m4"}, {[]string{""}, "m5"}, {[]string{"", "x"}, "m6"}, {[]string{"a", "", "b"}, ""}},
	{{nil, "no path"}},
}

// ---- building runner scenarios -----------------------------------------------------------------------

func (c *c10Custom) message(b *Built) *dynamicpb.Message {
	m := dynamicpb.NewMessage(b.MessageDesc(c.Type))
	for _, f := range c.Fields {
		fd := m.Descriptor().Fields().ByNumber(protoreflect.FieldNumber(f.Num))
		switch f.Kind {
		case "string":
			if f.Str != "" {
				m.Set(fd, protoreflect.ValueOfString(f.Str))
			}
		case "int32":
			if f.Int != 0 {
				m.Set(fd, protoreflect.ValueOfInt32(int32(f.Int)))
			}
		case "int64":
			if f.Int != 0 {
				m.Set(fd, protoreflect.ValueOfInt64(f.Int))
			}
		}
	}
	return m
}

func (e *c10Err) spec(b *Built) map[string]any {
	s := map[string]any{"kind": e.Kind, "wrap": e.Wrap}
	switch e.Kind {
	case "plain", "sebuf":
		s["msg"] = e.Msg
	case "validation":
		s["violations"] = e.Violations
	case "custom":
		s["type"] = e.Custom.Type
		s["wire"] = WireHex(e.Custom.message(b))
	}
	return s
}

func (h *c10Hook) spec() map[string]any {
	s := map[string]any{"ret": "nil"}
	if h.RetMsg {
		s["ret"] = "msg"
	}
	if h.Header != nil {
		s["header"] = h.Header
	}
	if h.Status != 0 {
		s["status"] = h.Status
	}
	if h.Write != nil {
		s["write"] = *h.Write
	}
	return s
}

func c10BinaryCT(ct string) bool {
	f := ct
	if i := strings.IndexAny(ct, " ;"); i >= 0 {
		f = ct[:i]
	}
	return f == "application/x-protobuf" || f == "application/octet-stream"
}

func (c *c10Case) scenario(b *Built, id string) map[string]any {
	sc := map[string]any{"id": id, "pkg": "rterr", "service": "Errs", "script": map[string]any{}}
	if c.herr != nil {
		sc["script"] = map[string]any{"err": c.herr.spec(b)}
	}
	if c.hook != nil {
		sc["hook"] = c.hook.spec()
	}
	if c.rules != nil {
		var vs []map[string]any
		for _, r := range c.rules {
			v := map[string]any{"msg": r.Msg}
			if r.Path != nil {
				v["path"] = r.Path
			}
			vs = append(vs, v)
		}
		sc["validate"] = vs
	}
	if c.call {
		sc["kind"] = "call"
		sc["method"] = c.method
		in := map[string]string{"Create": "rterr.v1.CreateReq", "Guarded": "rterr.v1.CreateReq", "Get": "rterr.v1.GetReq", "Update": "rterr.v1.UpdReq"}[c.method]
		m := dynamicpb.NewMessage(b.MessageDesc(in))
		for k, v := range c.callReq {
			SetField(m, k, v)
		}
		sc["req"] = WireHex(m)
		opts := map[string]any{"ContentType": c.ct}
		if c.split {
			opts = map[string]any{"ContentType": c.clientCT}
			if c.callCT != nil {
				opts["CallContentType"] = *c.callCT
			}
		}
		if c.callHdr != nil {
			opts["CallHeaders"] = c.callHdr
		}
		sc["opts"] = opts
	} else {
		sc["kind"] = "raw"
		sc["verb"] = c.verb
		sc["target"] = c.target
		var hs [][2]string
		if c.ct != "" {
			hs = append(hs, [2]string{"Content-Type", c.ct})
		}
		hs = append(hs, c.callHdr...)
		sc["headers"] = hs
		if c.rawBody != nil {
			sc["body"] = hex.EncodeToString(c.rawBody)
		}
	}
	return sc
}

// ---- Coq terms ------------------------------------------------------------------------------------------

func coqPairs(vs [][2]string) string {
	var out []string
	for _, v := range vs {
		out = append(out, "("+CoqStr(v[0])+", "+CoqStr(v[1])+")")
	}
	return "[" + strings.Join(out, "; ") + "]"
}

func (c *c10Custom) coq() string {
	var fs []string
	for _, f := range c.Fields {
		switch f.Kind {
		case "string":
			fs = append(fs, fmt.Sprintf("CStr %d %s %s", f.Num, CoqStr(f.Name), CoqStr(f.Str)))
		case "int32":
			fs = append(fs, fmt.Sprintf("CInt32 %d %s (%d)%%Z", f.Num, CoqStr(f.Name), f.Int))
		case "int64":
			fs = append(fs, fmt.Sprintf("CInt64 %d %s %s (%d)%%Z", f.Num, CoqStr(f.Name), CoqBool(f.AsNumber), f.Int))
		}
	}
	return "{| cm_type := " + CoqStr(c.Type) + "; cm_fields := [" + strings.Join(fs, "; ") + "] |}"
}

func (e *c10Err) coq() string {
	var t string
	switch e.Kind {
	case "plain":
		t = "HPlain " + CoqStr(e.Msg)
	case "sebuf":
		t = "HSebuf " + CoqStr(e.Msg)
	case "validation":
		t = "HValidation " + coqPairs(e.Violations)
	case "custom":
		t = "HCustom " + e.Custom.coq()
	}
	if e.Wrap {
		t = "HWrap (" + t + ")"
	}
	return t
}

const proseMark = "<prose>"

func (c *c10Case) coqCT() string {
	if !c.call {
		return "RawCT " + CoqStr(c.ct)
	}
	opt := func(s *string) string {
		if s == nil {
			return "None"
		}
		return "(Some " + CoqStr(*s) + ")"
	}
	if c.split {
		cl := &c.clientCT
		if c.clientCT == "" {
			cl = nil
		}
		return "CallCT " + opt(cl) + " " + opt(c.callCT)
	}
	return "CallCT " + opt(&c.ct) + " None"
}

// effectiveCT: the harness's own reading of "the content type of the call": the per-call override when
// given, else the client-level value, else the client's default application/json.
func effectiveCT(clientCT string, callCT *string) string {
	if callCT != nil && *callCT != "" {
		return *callCT
	}
	if clientCT != "" {
		return clientCT
	}
	return "application/json"
}

func (c *c10Case) coqSource() string {
	if c.coqSrc != "" {
		return c.coqSrc
	}
	switch c.srcKind {
	case "handler":
		return "SHandler (" + c.herr.coq() + ")"
	case "rule":
		var out []string
		for _, r := range c.rules {
			p := "None"
			if r.Path != nil {
				p = "(Some " + CoqStrList(r.Path) + ")"
			}
			out = append(out, "("+p+", "+CoqStr(r.Msg)+")")
		}
		return "SRule [" + strings.Join(out, "; ") + "]"
	}
	d := c.desc
	if d == "" {
		d = proseMark
	}
	return "SViolations [(" + CoqStr(c.field) + ", " + CoqStr(d) + ")]"
}

func (h *c10Hook) coq() string {
	if h == nil {
		return "None"
	}
	hd, st, wr := "None", "None", "None"
	if h.Header != nil {
		hd = "(Some (" + CoqStr(h.Header[0]) + ", " + CoqStr(h.Header[1]) + "))"
	}
	if h.Status != 0 {
		st = fmt.Sprintf("(Some (%d)%%Z)", h.Status)
	}
	if h.Write != nil {
		wr = "(Some " + CoqStr(*h.Write) + ")"
	}
	return fmt.Sprintf("(Some {| hk_header := %s; hk_status := %s; hk_write := %s; hk_ret_msg := %s |})", hd, st, wr, CoqBool(h.RetMsg))
}

// ---- projection of what happened ---------------------------------------------------------------------------

// normText splits a message text into its literal prefix and a trailing JSON object (the protojson
// text of a custom error, whose white space is not deterministic).
func normText(s string) map[string]any {
	if i := strings.IndexByte(s, '{'); i >= 0 {
		var v any
		dec := json.NewDecoder(strings.NewReader(s[i:]))
		dec.UseNumber()
		if err := dec.Decode(&v); err == nil && !dec.More() {
			if _, ok := v.(map[string]any); ok {
				return map[string]any{"text": s[:i], "json": v}
			}
		}
	}
	return map[string]any{"text": s, "json": nil}
}

func (c *c10Case) prose() bool {
	return (c.srcKind == "header" || c.srcKind == "query" || c.srcKind == "body") && c.desc == ""
}

// jsonSanitize mirrors what encoding/json does to invalid UTF-8 when the runner reports a string.
func jsonSanitize(s string) string {
	var b strings.Builder
	for i := 0; i < len(s); {
		r, size := utf8.DecodeRuneInString(s[i:])
		if r == utf8.RuneError && size == 1 {
			b.WriteString("\ufffd")
		} else {
			b.WriteString(s[i : i+size])
		}
		i += size
	}
	return b.String()
}

// proseText replaces the server's own wording after the field name by a mark.
func (c *c10Case) proseText(s string) string {
	if !c.prose() {
		return s
	}
	for _, p := range []string{"hooked: validation error: " + c.field + ": ", "validation error: " + c.field + ": "} {
		if strings.HasPrefix(s, p) {
			return p + proseMark
		}
	}
	return s
}

func (c *c10Case) violations(vs []*sebufhttp.FieldViolation) []any {
	out := []any{}
	for _, v := range vs {
		d := v.GetDescription()
		if c.prose() {
			d = proseMark
		}
		out = append(out, []string{v.GetField(), d})
	}
	return out
}

// expectedBodyKind: how the harness looks at the body bytes ("Error", "ValidationError", a custom
// type name, "raw"): the type the server documents for this source and hook.
func (c *c10Case) bodyKind() string {
	if c.hook != nil && c.hook.Write != nil {
		return "raw"
	}
	if c.hook != nil && c.hook.RetMsg {
		return "Error"
	}
	if c.srcKind != "handler" {
		return "ValidationError"
	}
	if c.herr.Wrap {
		return "Error"
	}
	switch c.herr.Kind {
	case "validation":
		return "ValidationError"
	case "custom":
		return c.herr.Custom.Type
	}
	return "Error"
}

func (c *c10Case) decodeBody(b *Built, body []byte) any {
	kind := c.bodyKind()
	if kind == "raw" {
		return map[string]any{"raw": string(body)}
	}
	binary := c10BinaryCT(c.ct)
	un := func(m proto.Message) error {
		if binary {
			return proto.Unmarshal(body, m)
		}
		return protojson.Unmarshal(body, m)
	}
	switch kind {
	case "Error":
		m := &sebufhttp.Error{}
		if err := un(m); err != nil || len(m.ProtoReflect().GetUnknown()) > 0 {
			return map[string]any{"undecodable": hex.EncodeToString(body)}
		}
		return map[string]any{"type": "Error", "message": normText(c.proseText(m.GetMessage()))}
	case "ValidationError":
		m := &sebufhttp.ValidationError{}
		if err := un(m); err != nil || len(m.ProtoReflect().GetUnknown()) > 0 {
			return map[string]any{"undecodable": hex.EncodeToString(body)}
		}
		return map[string]any{"type": "ValidationError", "violations": c.violations(m.GetViolations())}
	}
	md := b.MessageDesc(kind)
	m := dynamicpb.NewMessage(md)
	if err := un(m); err != nil || len(m.GetUnknown()) > 0 {
		return map[string]any{"undecodable": hex.EncodeToString(body)}
	}
	val, _ := MsgCanon(m)
	var raw any
	if !binary {
		dec := json.NewDecoder(bytes.NewReader(body))
		dec.UseNumber()
		dec.Decode(&raw)
	}
	return map[string]any{"type": kind, "value": val, "json": raw}
}

type c10Obs struct {
	Status     int    `json:"status"`
	CT         string `json:"ct"`
	HookHeader bool   `json:"hook_header"`
	Handler    bool   `json:"handler"`
	Body       any    `json:"body"`
	Client     any    `json:"client"`
	ReqCT      string `json:"-"` // Content-Type the client put on the wire (oracle only)
}

func (c *c10Case) observe(b *Built, o *RunnerObsX) *c10Obs {
	ob := &c10Obs{Status: o.Status, Handler: len(o.HandlerCalls) > 0}
	ct := ""
	if v := o.SentHeader["Content-Type"]; len(v) > 0 {
		ct = v[0]
	}
	switch {
	case ct == "application/json":
		ob.CT = "json"
	case ct == "application/x-protobuf":
		ob.CT = "proto"
	case c.hook != nil && c.hook.Header != nil && strings.EqualFold(c.hook.Header[0], "Content-Type") && ct == c.hook.Header[1]:
		ob.CT = "hook"
	default:
		ob.CT = "other"
	}
	if c.hook != nil && c.hook.Header != nil && !strings.EqualFold(c.hook.Header[0], "Content-Type") {
		v := o.SentHeader[textproto.CanonicalMIMEHeaderKey(c.hook.Header[0])]
		ob.HookHeader = len(v) == 1 && v[0] == c.hook.Header[1]
	}
	if c.call && len(o.Requests) > 0 {
		ob.ReqCT = strings.Join(o.Requests[0].Header["Content-Type"], ",")
	}
	body, _ := hex.DecodeString(o.RespBodyHex)
	ob.Body = c.decodeBody(b, body)
	if c.call && o.Client != nil {
		switch {
		case o.Status < 400:
			ob.Client = map[string]any{"class": "not-an-error-status"}
		case o.Client.Resp != nil:
			ob.Client = map[string]any{"class": "success-despite-error-status"}
		case o.Client.ErrType == "ValidationError":
			vs := []any{}
			for _, v := range o.Client.Violations {
				d := v[1]
				if c.prose() {
					d = proseMark
				}
				vs = append(vs, []string{v[0], d})
			}
			ob.Client = map[string]any{"class": "validation", "violations": vs}
		case o.Client.ErrType == "Error":
			ob.Client = map[string]any{"class": "error", "message": normText(c.proseText(o.Client.ErrMsg))}
		default:
			if o.Client.ErrMsg == jsonSanitize(fmt.Sprintf("request failed with status %d: %s", o.Status, body)) {
				ob.Client = map[string]any{"class": "other", "status": o.Status}
			} else {
				ob.Client = map[string]any{"class": "other-text", "text": o.Client.ErrMsg}
			}
		}
	}
	return ob
}

// ---- the oracle: the documented behaviour, from the scenario and the observation only --------------------

func (e *c10Err) text() string {
	var t string
	switch e.Kind {
	case "plain":
		t = e.Msg
	case "sebuf":
		t = e.Msg
		if t == "" {
			t = "error: empty message"
		}
	case "validation":
		t = (&sebufhttp.ValidationError{Violations: fvs(e.Violations)}).Error()
	case "custom":
		t = "{...}"
	}
	if e.Wrap {
		t = "wrapped: " + t
	}
	return t
}

func fvs(vs [][2]string) []*sebufhttp.FieldViolation {
	var out []*sebufhttp.FieldViolation
	for _, v := range vs {
		out = append(out, &sebufhttp.FieldViolation{Field: v[0], Description: v[1]})
	}
	return out
}

// documentedJSON: the JSON document of a custom message under its own codec (int64 NUMBER fields as numbers).
func (c *c10Custom) documentedJSON() map[string]any {
	out := map[string]any{}
	for _, f := range c.Fields {
		jn := JSONName(f.Name)
		switch f.Kind {
		case "string":
			if f.Str != "" {
				out[jn] = f.Str
			}
		case "int32":
			if f.Int != 0 {
				out[jn] = json.Number(fmt.Sprint(f.Int))
			}
		case "int64":
			if f.Int != 0 {
				if f.AsNumber {
					out[jn] = json.Number(fmt.Sprint(f.Int))
				} else {
					out[jn] = fmt.Sprint(f.Int)
				}
			}
		}
	}
	return out
}

func oracleC10(c *c10Case, b *Built, ob *c10Obs) (bool, string) {
	// documented default status and body of the source
	wantStatus := 500
	wantKind := "Error"
	var wantViol [][2]string
	fieldsOnly := false
	switch c.srcKind {
	case "header", "query", "body":
		wantStatus, wantKind, wantViol, fieldsOnly = 400, "ValidationError", [][2]string{{c.field, ""}}, true
	case "rule":
		wantStatus, wantKind = 400, "ValidationError"
		for _, r := range c.rules {
			f := strings.Join(r.Path, ".")
			wantViol = append(wantViol, [2]string{f, r.Msg})
		}
	case "handler":
		switch c.herr.Kind {
		case "validation":
			wantStatus, wantKind, wantViol = 400, "ValidationError", c.herr.Violations
		case "custom":
			wantKind = c.herr.Custom.Type
		}
	}
	if c.call && ob.ReqCT != c.ct {
		return false, fmt.Sprintf("the client sent Content-Type %q, the call's content type is %q", ob.ReqCT, c.ct)
	}
	if ob.Handler != (c.srcKind == "handler") {
		return false, fmt.Sprintf("handler ran = %v for a %s failure", ob.Handler, c.srcKind)
	}
	h := c.hook
	status := wantStatus
	if h != nil && h.Status != 0 {
		status = h.Status
	} else if h != nil && h.Write != nil {
		status = 200
	}
	if ob.Status != status {
		return false, fmt.Sprintf("status %d, documented %d", ob.Status, status)
	}
	if h != nil && h.Header != nil && !strings.EqualFold(h.Header[0], "Content-Type") && !ob.HookHeader {
		return false, "the header set by the error hook was not sent"
	}
	body, _ := ob.Body.(map[string]any)
	switch {
	case h != nil && h.Write != nil:
		if body["raw"] != *h.Write {
			return false, "the bytes written by the error hook are not the body"
		}
	default:
		wantCT := "json"
		if c10BinaryCT(c.ct) {
			wantCT = "proto"
		}
		if ob.CT != wantCT {
			return false, fmt.Sprintf("response content type is %q, the request's format is %s", ob.CT, wantCT)
		}
		if _, bad := body["undecodable"]; bad {
			return false, "body is not the documented message type in the request's format (" + c.bodyKindDocumented(wantKind) + ")"
		}
		if h != nil && h.RetMsg {
			if body["type"] != "Error" {
				return false, "body is not the message returned by the hook"
			}
			if m, _ := body["message"].(map[string]any); m == nil || !strings.HasPrefix(fmt.Sprint(m["text"]), "hooked: ") {
				return false, "body is not the message returned by the hook"
			}
			break
		}
		if body["type"] != wantKind {
			return false, fmt.Sprintf("body is a %v, documented: %s", body["type"], wantKind)
		}
		switch wantKind {
		case "Error":
			m, _ := body["message"].(map[string]any)
			want := c.herr.text()
			if c.herr.Kind == "sebuf" && !c.herr.Wrap {
				want = c.herr.Msg
			}
			got := fmt.Sprint(m["text"])
			if m["json"] != nil {
				got += "{...}"
			}
			if got != want {
				return false, fmt.Sprintf("Error message %q, documented %q", got, want)
			}
		case "ValidationError":
			got, _ := body["violations"].([]any)
			if len(got) != len(wantViol) {
				return false, fmt.Sprintf("%d violations, documented %d", len(got), len(wantViol))
			}
			for i, g := range got {
				gv := g.([]string)
				if wantViol[i][0] != "" && gv[0] != wantViol[i][0] {
					return false, fmt.Sprintf("violation field %q, documented %q", gv[0], wantViol[i][0])
				}
				if !fieldsOnly && gv[1] != wantViol[i][1] {
					return false, fmt.Sprintf("violation description %q, documented %q", gv[1], wantViol[i][1])
				}
			}
		default:
			want, _ := MsgCanon(c.herr.Custom.message(b))
			if d := Diff(Canon(body["value"]), Canon(want)); d != "" {
				return false, "custom error message lost fields: " + d
			}
			if !c10BinaryCT(c.ct) {
				if d := strictJSONDiff("$", Canon(body["json"]), Canon(c.herr.Custom.documentedJSON())); d != "" {
					return false, "custom error message is not written with its JSON codec: " + d
				}
			}
		}
	}
	// the Go client
	if c.call && ob.Status >= 400 {
		cl, _ := ob.Client.(map[string]any)
		if cl == nil {
			return false, "no client outcome"
		}
		if ob.Status == 400 && body["type"] == "ValidationError" {
			if cl["class"] != "validation" {
				return false, fmt.Sprintf("client: 400 with violations became %v", cl["class"])
			}
			if d := Diff(Canon(cl["violations"]), Canon(body["violations"])); d != "" {
				return false, "client: violations differ from the body: " + d
			}
		} else {
			switch cl["class"] {
			case "other":
				// carries status and body
			case "error":
				return false, "client: the error carries the message but not the status"
			default:
				return false, fmt.Sprintf("client: status %d with a %v body became %v", ob.Status, body["type"], cl["class"])
			}
		}
	}
	return true, ""
}

func (c *c10Case) bodyKindDocumented(k string) string { return k }

// strictJSONDiff compares JSON documents with their JSON types (a string is not a number).
func strictJSONDiff(path string, a, b any) string {
	switch x := a.(type) {
	case map[string]any:
		y, ok := b.(map[string]any)
		if !ok || len(x) != len(y) {
			return fmt.Sprintf("%s: %s vs %s", path, short(a), short(b))
		}
		for k, xv := range x {
			yv, ok := y[k]
			if !ok {
				return fmt.Sprintf("%s.%s: missing", path, k)
			}
			if d := strictJSONDiff(path+"."+k, xv, yv); d != "" {
				return d
			}
		}
		return ""
	case []any:
		y, ok := b.([]any)
		if !ok || len(x) != len(y) {
			return fmt.Sprintf("%s: %s vs %s", path, short(a), short(b))
		}
		for i := range x {
			if d := strictJSONDiff(fmt.Sprintf("%s[%d]", path, i), x[i], y[i]); d != "" {
				return d
			}
		}
		return ""
	case json.Number:
		y, ok := b.(json.Number)
		if !ok || x.String() != y.String() {
			return fmt.Sprintf("%s: %s vs %s", path, short(a), short(b))
		}
		return ""
	case string:
		y, ok := b.(string)
		if !ok || x != y {
			return fmt.Sprintf("%s: %s vs %s", path, short(a), short(b))
		}
		return ""
	}
	if fmt.Sprintf("%T%v", a, a) != fmt.Sprintf("%T%v", b, b) {
		return fmt.Sprintf("%s: %s vs %s", path, short(a), short(b))
	}
	return ""
}

// ---- the check --------------------------------------------------------------------------------------------------

func CheckC10(run *Run) {
	run.Proof = CheckProofs("C10")
	run.Prepare()
	req := ErrorCatalogue()
	s := NewSession(run, []*Request{req})
	s.BuildRuntime(false)
	if !s.InRunner[req.ID] {
		run.BuildFailure(fmt.Errorf("the error catalogue's emitted Go package does not build: %s", s.Verdict[req.ID].Output))
	}
	b := s.Gens[0].Built
	rng := rand.New(rand.NewSource(run.Seed + 1010))
	thorough := run.Tier == "thorough"
	cases := c10Cases(rng, thorough)
	scen := make([]any, len(cases))
	for i, c := range cases {
		scen[i] = c.scenario(b, fmt.Sprint(i))
	}
	type tsOut struct {
		note string
		res  []*CaseResult
	}
	tsCh := make(chan tsOut, 1)
	go func() {
		n, r := c10TS(run, s)
		tsCh <- tsOut{n, r}
	}()
	szCh := make(chan []*CaseResult, 1)
	go func() { szCh <- c10Sizes(run, s, b) }()
	raw, err := RunScenarios(s.Runner, scen, 8)
	if err != nil {
		run.Fatal("runner: %v", err)
	}
	var ccs []CoqCase
	var results []*CaseResult
	rawObs := make([]*RunnerObsX, len(cases))
	for i, c := range cases {
		var o RunnerObsX
		if err := json.Unmarshal(raw[i], &o); err != nil {
			run.Fatal("bad observation: %v", err)
		}
		if o.Error != "" {
			run.Fatal("runner error on case %d (%s): %s", i, c.family, o.Error)
		}
		rawObs[i] = &o
		ob := c.observe(b, &o)
		holds, note := true, ""
		if o.Panic != "" {
			holds, note = false, "panic: "+firstLine(o.Panic)
		} else if o.Timeout {
			holds, note = false, "timeout"
		} else {
			holds, note = oracleC10(c, b, ob)
		}
		hk := "none"
		if c.hook != nil {
			j, _ := json.Marshal(c.hook.spec())
			hk = string(j)
		}
		cr := &CaseResult{ID: fmt.Sprintf("%s#%d", c.family, i), Family: c.family,
			Input: map[string]any{"scenario": scen[i]},
			Obs:   ob, OracleHolds: holds, OracleNote: note, NonTrivial: true,
			Features: []string{"src:" + c.srcKind, "ct:" + c.ct, "hook:" + hk, map[bool]string{true: "call", false: "raw"}[c.call]}}
		results = append(results, cr)
		ccs = append(ccs, CoqCase{Term: fmt.Sprintf("(%s, %s, %s)", c.coqSource(), c.hook.coq(), c.coqCT()), Obs: ob})
	}
	// the emitted TS client on the Go server's answers of this run and on a status x body matrix (c10_tsclient.go)
	type tscOut struct {
		note string
		res  []*CaseResult
	}
	tscCh := make(chan tscOut, 1)
	go func() {
		n, r := c10TSClient(run, s, req, c10GoResponses(cases, rawObs))
		tscCh <- tscOut{n, r}
	}()
	vs, err := CoqRun(run.WorkDir, "c10", "From Sebuf Require Import Text Json Schema Value Headers Errors.\n", "", "c10_case", "predict_C10", ccs, 16)
	if err != nil {
		run.Fatal("model evaluation: %v", err)
	}
	for i, cr := range results {
		cr.Apply(vs[i])
		run.Results = append(run.Results, cr)
	}
	run.Results = append(run.Results, (<-szCh)...)
	run.Results = append(run.Results, c10Order(run, s, b)...)
	ts := <-tsCh
	run.Results = append(run.Results, ts.res...)
	run.Extra["ts_runtime"] = ts.note
	tsc := <-tscCh
	run.Results = append(run.Results, tsc.res...)
	run.Extra["ts_client_runtime"] = tsc.note
	run.Extra["error_sources"] = len(c10Errors()) + len(c10RuleSets) + 5
	run.Extra["hooks"] = len(c10Hooks())
	dumpResults(run)
	run.Finish()
}

// c10Cases: error sources x content types x hooks.
func c10Cases(rng *rand.Rand, thorough bool) []*c10Case {
	var out []*c10Case
	hooks := c10Hooks()
	callCTs := []string{"application/json", "application/x-protobuf", "application/octet-stream", "application/json; charset=utf-8"}
	rawCTs := []string{"application/json", "application/x-protobuf", "application/octet-stream", "text/plain", "", "application/x-protobuf; v=1", "application/json;charset=utf-8"}
	pickHooks := func(full bool) []*c10Hook {
		if full || thorough {
			return hooks
		}
		// always: no hook; plus a rotating sample
		hs := []*c10Hook{nil}
		for i := 0; i < 3; i++ {
			hs = append(hs, hooks[1+rng.Intn(len(hooks)-1)])
		}
		return hs
	}
	add := func(c *c10Case) { out = append(out, c) }
	// handler errors through the client
	for ei, e := range c10Errors() {
		primary := ei%len(c10Errors()) < 0 || e.Msg == "boom" || (e.Kind == "validation" && len(e.Violations) == 2) || (e.Kind == "custom" && e.Custom == c10Customs[0]) || (e.Kind == "custom" && e.Custom == c10Customs[3])
		for _, ct := range callCTs {
			hs := pickHooks(primary && ct != "application/json; charset=utf-8" && ct != "application/octet-stream")
			if !primary && !thorough {
				// the 400-without-violations corner: hook forces 400 on whatever body the error has
				hs = append(hs, &c10Hook{Status: 400})
			}
			for _, h := range hs {
				add(&c10Case{family: "handler-error", srcKind: "handler", herr: e, hook: h, ct: ct, call: true, method: "Create", callReq: map[string]any{"name": "n"}})
			}
		}
		// a binary content type with parameters (binary for the server, JSON for the client) through the client,
		// on a body-less verb (on body verbs the client's JSON body is refused by the server: C01)
		for _, h := range pickHooks(false)[:2] {
			add(&c10Case{family: "handler-error-param-binary", srcKind: "handler", herr: e, hook: h, ct: "application/x-protobuf; charset=utf-8", call: true, method: "Get",
				callReq: map[string]any{"id": "i", "mode": "m"}})
		}
		if ei%4 == 0 || thorough {
			add(&c10Case{family: "handler-error-param-binary", srcKind: "handler", herr: e, hook: &c10Hook{Status: 400}, ct: "application/octet-stream;x=1", call: true, method: "Get",
				callReq: map[string]any{"id": "i", "mode": "m"}})
		}
		// raw: unknown / absent / parameterised content types
		for _, ct := range rawCTs {
			if !primary && !thorough && rng.Intn(3) != 0 {
				continue
			}
			body := []byte("{}")
			if c10BinaryCT(ct) {
				body = []byte{}
			}
			for _, h := range pickHooks(false)[:2] {
				add(&c10Case{family: "handler-error-raw", srcKind: "handler", herr: e, hook: h, ct: ct, verb: "POST", target: "/e/items", rawBody: body})
			}
		}
	}
	// client-level content type x per-call override (none / same / different, JSON <-> binary both ways) x
	// error source x status: the server answers in the CALL's content type and the client must decode with it
	{
		levels := []string{"", "application/json", "application/x-protobuf", "application/octet-stream"}
		overrides := []*string{nil, str(""), str("application/json"), str("application/x-protobuf"), str("application/octet-stream"), str("application/x-protobuf; charset=utf-8")}
		ohooks := []*c10Hook{nil, {Status: 418}, {Status: 400}, {RetMsg: true}}
		errs := []*c10Err{{Kind: "plain", Msg: "backend down"}, {Kind: "sebuf", Msg: ""}, {Kind: "validation", Violations: [][2]string{{"a.b", "bad"}, {"c", "worse"}}},
			{Kind: "custom", Custom: c10Customs[0]}, {Kind: "validation", Violations: [][2]string{{"x", "y"}}, Wrap: true}}
		k := 0
		for _, lv := range levels {
			for _, ov := range overrides {
				eff := effectiveCT(lv, ov)
				mk := func(c *c10Case) {
					c.split, c.clientCT, c.callCT, c.ct, c.call = true, lv, ov, eff, true
					add(c)
				}
				for _, h := range ohooks {
					k++
					if !thorough && h != nil && k%2 == 0 {
						continue
					}
					for _, e := range errs {
						if strings.Contains(eff, ";") { // parameterised binary type: only on the body-less verb (see above)
							mk(&c10Case{family: "call-override", srcKind: "handler", herr: e, hook: h, method: "Get", callReq: map[string]any{"id": "i", "mode": "m"}})
						} else {
							mk(&c10Case{family: "call-override", srcKind: "handler", herr: e, hook: h, method: "Create", callReq: map[string]any{"name": "n"}})
						}
					}
					if !strings.Contains(eff, ";") {
						mk(&c10Case{family: "call-override", srcKind: "header", field: "X-Token", desc: "required header 'X-Token' is missing", hook: h, method: "Guarded", callReq: map[string]any{"name": "n"}})
						mk(&c10Case{family: "call-override", srcKind: "rule", rules: c10RuleSets[2], hook: h, method: "Create", callReq: map[string]any{"name": "n"}})
					}
					mk(&c10Case{family: "call-override", srcKind: "query", field: "mode", desc: "missing required query parameter: mode", hook: h, method: "Get", callReq: map[string]any{"id": "i"}})
				}
			}
		}
	}
	// rule violations (scripted protovalidate)
	for ri, rs := range c10RuleSets {
		for _, ct := range callCTs {
			for _, h := range pickHooks(ri == 3 && ct != "application/json; charset=utf-8" && ct != "application/octet-stream") {
				add(&c10Case{family: "rule-violation", srcKind: "rule", rules: rs, hook: h, ct: ct, call: true, method: "Create", callReq: map[string]any{"name": "n"}})
			}
		}
		add(&c10Case{family: "rule-violation-raw", srcKind: "rule", rules: rs, ct: "text/plain", verb: "POST", target: "/e/items", rawBody: []byte("{}")})
		add(&c10Case{family: "rule-violation-raw", srcKind: "rule", rules: rs, ct: "application/octet-stream", verb: "POST", target: "/e/items", rawBody: []byte{}})
	}
	// header / query / body failures
	for _, ct := range callCTs {
		for _, h := range pickHooks(ct == "application/json") {
			add(&c10Case{family: "header-missing", srcKind: "header", field: "X-Token", desc: "required header 'X-Token' is missing", hook: h, ct: ct, call: true, method: "Guarded", callReq: map[string]any{"name": "n"}})
			add(&c10Case{family: "query-missing", srcKind: "query", field: "mode", desc: "missing required query parameter: mode", hook: h, ct: ct, call: true, method: "Get", callReq: map[string]any{"id": "i"}})
		}
		for _, h := range pickHooks(false) {
			if h != nil && h.Status != 0 && h.Status != 400 && c10BinaryCT(ct) {
				continue // the client would read the violation bytes (library wording inside) as an Error message
			}
			add(&c10Case{family: "header-invalid", srcKind: "header", field: "X-Token", hook: h, ct: ct, call: true, method: "Guarded", callReq: map[string]any{"name": "n"},
				callHdr: [][2]string{{"X-Token", "abc"}}})
		}
	}
	for _, ct := range rawCTs {
		for _, h := range pickHooks(ct == "application/x-protobuf") {
			add(&c10Case{family: "query-invalid", srcKind: "query", field: "limit", hook: h, ct: ct, verb: "GET", target: "/e/items/i?mode=m&limit=abc"})
			bad := []byte(`{"name":`)
			if c10BinaryCT(ct) {
				bad = []byte{0xff, 0xff}
			}
			add(&c10Case{family: "body-malformed", srcKind: "body", field: "body", hook: h, ct: ct, verb: "POST", target: "/e/items", rawBody: bad})
			add(&c10Case{family: "header-missing-raw", srcKind: "header", field: "X-Token", desc: "required header 'X-Token' is missing", hook: h, ct: ct, verb: "POST", target: "/e/guarded", rawBody: []byte{}})
		}
	}
	if thorough {
		// random hook algebra x sources x content types
		errs := c10Errors()
		statuses := []int{0, 0, 400, 404, 418, 422, 500, 503}
		headers := [][]string{nil, nil, {"X-Hook", "v"}, {"Content-Type", "text/x"}, {"x-hook", "other"}, {"CONTENT-TYPE", "text/y"}}
		writes := []*string{nil, nil, nil, str("raw!"), str(""), str("plain text"), str("\x0a\x01a")}
		for i := 0; i < 6000; i++ {
			h := &c10Hook{Header: headers[rng.Intn(len(headers))], Status: statuses[rng.Intn(len(statuses))], Write: writes[rng.Intn(len(writes))], RetMsg: rng.Intn(2) == 0}
			if rng.Intn(8) == 0 {
				h = nil
			}
			ct := callCTs[rng.Intn(len(callCTs))]
			switch rng.Intn(4) {
			case 0:
				add(&c10Case{family: "random-rule", srcKind: "rule", rules: c10RuleSets[rng.Intn(len(c10RuleSets))], hook: h, ct: ct, call: true, method: "Create", callReq: map[string]any{"name": "n"}})
			case 1:
				rct := rawCTs[rng.Intn(len(rawCTs))]
				body := []byte("{}")
				if c10BinaryCT(rct) {
					body = []byte{}
				}
				add(&c10Case{family: "random-handler-raw", srcKind: "handler", herr: errs[rng.Intn(len(errs))], hook: h, ct: rct, verb: "POST", target: "/e/items", rawBody: body})
			default:
				add(&c10Case{family: "random-handler", srcKind: "handler", herr: errs[rng.Intn(len(errs))], hook: h, ct: ct, call: true, method: "Create", callReq: map[string]any{"name": "n"}})
			}
		}
	}
	return out
}

// c10Sizes: error bodies of every size class through the Go client (cases: c10_size.go).
func c10Sizes(run *Run, s *Session, b *Built) []*CaseResult {
	cases := c10SizeCases(run.Tier == "thorough")
	scen := make([]any, len(cases))
	for i, c := range cases {
		scen[i] = c.scenario(b, fmt.Sprint(i))
	}
	raw, err := RunScenarios(s.Runner, scen, 4)
	if err != nil {
		run.Fatal("runner (error sizes): %v", err)
	}
	var ccs []CoqCase
	var results []*CaseResult
	for i, c := range cases {
		var o RunnerObsX
		if err := json.Unmarshal(raw[i], &o); err != nil {
			run.Fatal("bad observation (error sizes): %v", err)
		}
		if o.Error != "" {
			run.Fatal("runner error on size case %d (%s): %s", i, c.sizeLabel, o.Error)
		}
		ob := c.observe(b, &o)
		holds, note := true, ""
		if o.Panic != "" {
			holds, note = false, "panic: "+firstLine(o.Panic)
		} else if o.Timeout {
			holds, note = false, "timeout"
		} else {
			holds, note = oracleC10(c, b, ob)
		}
		if len(note) > 300 {
			note = note[:300] + "…"
		}
		dig := c10Digest(Canon(ob))
		cr := &CaseResult{ID: fmt.Sprintf("error-size/%s/%s#%d", c.sizeLabel, c.ct, i), Family: c.family, Input: c.sizeInput(),
			Obs: dig, OracleHolds: holds, OracleNote: note, NonTrivial: true,
			Features: []string{"src:" + c.srcKind, "ct:" + c.ct, "size:" + c.sizeLabel, "call"}}
		results = append(results, cr)
		ccs = append(ccs, CoqCase{Term: fmt.Sprintf("(%s, %s, %s)", c.coqSource(), c.hook.coq(), c.coqCT()), Obs: dig})
	}
	// the 200 KiB cases cost the model about a second each: small chunks evaluated side by side
	vs := make([]CoqVerdict, len(ccs))
	const chunk = 5
	var wg sync.WaitGroup
	var mu sync.Mutex
	var firstErr error
	for lo := 0; lo < len(ccs); lo += chunk {
		hi := min(lo+chunk, len(ccs))
		wg.Add(1)
		go func(lo, hi int) {
			defer wg.Done()
			part, err := CoqRun(run.WorkDir, fmt.Sprintf("c10size%d", lo), "From Sebuf Require Import Text Json Schema Value Headers Errors.\n", "", "c10_case", "predict_C10_sized", ccs[lo:hi], 1)
			mu.Lock()
			defer mu.Unlock()
			if err != nil {
				if firstErr == nil {
					firstErr = err
				}
				return
			}
			copy(vs[lo:hi], part)
		}(lo, hi)
	}
	wg.Wait()
	if firstErr != nil {
		run.Fatal("model evaluation (error sizes): %v", firstErr)
	}
	for i, cr := range results {
		cr.Apply(vs[i])
	}
	return results
}

// c10Order: requests on which several stages of the binding middleware fail at once (required header,
// body, URL value, scripted rule): which failure is answered, and whether the body was read.
func c10Order(run *Run, s *Session, b *Built) []*CaseResult {
	type cand struct {
		stage, coq, field string
	}
	all := []cand{
		{"header", "(StHeader, SViolations [(" + CoqStr("X-Upd") + ", " + CoqStr("required header 'X-Upd' is missing") + ")])", "X-Upd"},
		{"body", "(StBody, SViolations [(" + CoqStr("body") + ", " + CoqStr(proseMark) + ")])", "body"},
		{"url", "(StUrl, SViolations [(" + CoqStr("limit") + ", " + CoqStr(proseMark) + ")])", "limit"},
		{"rule", "(StRule, SRule [(Some [" + CoqStr("name") + "], " + CoqStr("r") + ")])", "name"},
	}
	var scen []any
	type oc struct {
		set  []cand
		ct   string
		mask int
	}
	var ocs []oc
	for mask := 1; mask < 16; mask++ {
		for _, ct := range []string{"application/json", "application/x-protobuf", "text/plain"} {
			var set []cand
			for i, c := range all {
				if mask&(1<<i) != 0 {
					set = append(set, c)
				}
			}
			sc := map[string]any{"id": fmt.Sprint(len(scen)), "kind": "raw", "pkg": "rterr", "service": "Errs", "verb": "PUT", "script": map[string]any{}}
			hs := [][2]string{{"Content-Type", ct}}
			if mask&1 == 0 {
				hs = append(hs, [2]string{"X-Upd", "7"})
			}
			sc["headers"] = hs
			body := []byte(`{"name":"n"}`)
			if c10BinaryCT(ct) {
				body = []byte{0x1a, 0x01, 'n'}
			}
			if mask&2 != 0 {
				body = []byte(`{"name":`)
				if c10BinaryCT(ct) {
					body = []byte{0xff, 0xff}
				}
			}
			sc["body"] = hex.EncodeToString(body)
			sc["target"] = "/e/things/i"
			if mask&4 != 0 {
				sc["target"] = "/e/things/i?limit=abc"
			}
			if mask&8 != 0 {
				sc["validate"] = []map[string]any{{"path": []string{"name"}, "msg": "r"}}
			}
			scen = append(scen, sc)
			ocs = append(ocs, oc{set, ct, mask})
		}
	}
	raw, err := RunScenarios(s.Runner, scen, 1)
	if err != nil {
		run.Fatal("runner: %v", err)
	}
	var ccs []CoqCase
	var results []*CaseResult
	for i, o := range ocs {
		var ro RunnerObsX
		if err := json.Unmarshal(raw[i], &ro); err != nil || ro.Error != "" {
			run.Fatal("order case %d: %v %s", i, err, ro.Error)
		}
		body, _ := hex.DecodeString(ro.RespBodyHex)
		ve := &sebufhttp.ValidationError{}
		var uerr error
		if c10BinaryCT(o.ct) {
			uerr = proto.Unmarshal(body, ve)
		} else {
			uerr = protojson.Unmarshal(body, ve)
		}
		var bj any = map[string]any{"undecodable": hex.EncodeToString(body)}
		field := ""
		if uerr == nil {
			vs := []any{}
			for _, v := range ve.GetViolations() {
				d := v.GetDescription()
				if v.GetField() == "body" || v.GetField() == "limit" {
					d = proseMark
				}
				vs = append(vs, []string{v.GetField(), d})
				if field == "" {
					field = v.GetField()
				}
			}
			bj = map[string]any{"type": "ValidationError", "violations": vs}
		}
		ob := map[string]any{"status": ro.Status, "body": bj, "handler": len(ro.HandlerCalls) > 0, "body_read": ro.BodyRead}
		// oracle: 400, one violation, naming one of the failing things; a header failure is decided before the body is read
		holds, note := true, ""
		okField := false
		for _, c := range o.set {
			if c.field == field {
				okField = true
			}
		}
		switch {
		case ro.Panic != "":
			holds, note = false, "panic: "+firstLine(ro.Panic)
		case ro.Status != 400 || len(ro.HandlerCalls) > 0:
			holds, note = false, fmt.Sprintf("a failing request was answered %d (handler ran: %v)", ro.Status, len(ro.HandlerCalls) > 0)
		case len(ve.GetViolations()) != 1 || !okField:
			holds, note = false, "the violation does not name one of the failing parts: "+field
		case o.mask&1 != 0 && (field != "X-Upd" || ro.BodyRead):
			holds, note = false, "a missing required header is not what is reported, or the body was read first"
		}
		var terms, names []string
		for _, c := range o.set {
			terms = append(terms, c.coq)
			names = append(names, c.stage)
		}
		cr := &CaseResult{ID: fmt.Sprintf("stage-order#%d", i), Family: "stage-order", Input: map[string]any{"failing": names, "scenario": scen[i]},
			Obs: ob, OracleHolds: holds, OracleNote: note, NonTrivial: true, Features: []string{"stages:" + strings.Join(names, "+"), "ct:" + o.ct}}
		results = append(results, cr)
		ccs = append(ccs, CoqCase{Term: "([" + strings.Join(terms, "; ") + "], " + CoqStr(o.ct) + ")", Obs: ob})
	}
	vs, err := CoqRun(run.WorkDir, "c10order", "From Sebuf Require Import Text Json Schema Value Headers Errors.\n", "", "(list (stage * source) * str)", "predict_C10_order", ccs, 1)
	if err != nil {
		run.Fatal("model evaluation (stage order): %v", err)
	}
	for i, cr := range results {
		cr.Apply(vs[i])
	}
	return results
}
