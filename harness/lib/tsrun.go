package lib

import (
	"bufio"
	"bytes"
	"encoding/base64"
	"encoding/hex"
	"encoding/json"
	"fmt"
	"io"
	"math"
	"os"
	"os/exec"
	"path/filepath"
	"sort"
	"strconv"
	"strings"
	"time"
	"unicode/utf8"

	"google.golang.org/protobuf/encoding/protojson"
	"google.golang.org/protobuf/reflect/protoreflect"
	"google.golang.org/protobuf/types/dynamicpb"
)

// ---- running emitted TypeScript under node ------------------------------------------------------

const nodeBinDefault = "/root/.nvm/versions/node/v22.22.2/bin/node"

// TsNodeBin returns a node binary able to run .ts files directly (type stripping, node >= 22.6).
func TsNodeBin() (string, error) {
	cands := []string{os.Getenv("VERIF_NODE"), nodeBinDefault}
	if p, err := exec.LookPath("node"); err == nil {
		cands = append(cands, p)
	}
	for _, c := range cands {
		if c == "" {
			continue
		}
		out, err := exec.Command(c, "--version").Output()
		if err != nil {
			continue
		}
		v := strings.TrimPrefix(strings.TrimSpace(string(out)), "v")
		parts := strings.Split(v, ".")
		if len(parts) < 2 {
			continue
		}
		maj, _ := strconv.Atoi(parts[0])
		min, _ := strconv.Atoi(parts[1])
		if maj > 22 || (maj == 22 && min >= 6) {
			return c, nil
		}
	}
	return "", fmt.Errorf("no node >= 22.6 (needed for --experimental-strip-types); set VERIF_NODE")
}

// WriteTsFiles writes the ts-client and ts-server outputs of every request under dir/<request id>/
// and returns, per request, the absolute paths by emitted name.
func WriteTsFiles(dir string, reqs []*Request, gens []*GenOutput) (map[string]map[string]string, error) {
	out := map[string]map[string]string{}
	for i, r := range reqs {
		out[r.ID] = map[string]string{}
		for _, p := range []string{"ts-client", "ts-server"} {
			res := gens[i].Results[p]
			if res == nil || res.Exit != "ok" {
				continue
			}
			for n, c := range res.Files {
				fp := filepath.Join(dir, r.ID, n)
				if err := os.MkdirAll(filepath.Dir(fp), 0o755); err != nil {
					return nil, err
				}
				if err := os.WriteFile(fp, []byte(c), 0o644); err != nil {
					return nil, err
				}
				out[r.ID][n] = fp
			}
		}
	}
	return out, nil
}

// RunNode feeds the scenarios to one node process running harness/rt/node/driver.mjs.
func RunNode(scenarios []any) ([]json.RawMessage, error) {
	if len(scenarios) == 0 {
		return nil, nil
	}
	node, err := TsNodeBin()
	if err != nil {
		return nil, err
	}
	driver := filepath.Join(VerifRoot(), "harness", "rt", "node", "driver.mjs")
	cmd := exec.Command("timeout", "900", node, "--experimental-strip-types", "--no-warnings", driver)
	stdin, _ := cmd.StdinPipe()
	stdout, _ := cmd.StdoutPipe()
	var stderr bytes.Buffer
	cmd.Stderr = &stderr
	if err := cmd.Start(); err != nil {
		return nil, err
	}
	go func() {
		w := bufio.NewWriterSize(stdin, 1<<20)
		enc := json.NewEncoder(w)
		enc.SetEscapeHTML(false)
		for _, s := range scenarios {
			enc.Encode(s)
		}
		w.Flush()
		stdin.Close()
	}()
	out := make([]json.RawMessage, 0, len(scenarios))
	rd := bufio.NewReaderSize(stdout, 1<<20)
	for {
		line, err := rd.ReadBytes('\n')
		if len(bytes.TrimSpace(line)) > 0 {
			out = append(out, append(json.RawMessage{}, bytes.TrimSpace(line)...))
		}
		if err != nil {
			if err != io.EOF {
				return nil, err
			}
			break
		}
	}
	werr := cmd.Wait()
	if len(out) != len(scenarios) {
		return nil, fmt.Errorf("node driver produced %d of %d observations (exit %v): %s", len(out), len(scenarios), werr, tail(stderr.String(), 3000))
	}
	return out, nil
}

// ---- the TypeScript-side view of a message --------------------------------------------------------

// TsArg is the object a TypeScript caller passes / a TypeScript handler returns for the message:
// the proto3-JSON form with every implicit-presence field present (the emitted interfaces declare
// those properties as required) and unset message / optional / oneof fields absent.
func TsArg(m protoreflect.Message) any {
	b, err := protojson.MarshalOptions{EmitUnpopulated: true, UseProtoNames: false}.Marshal(m.Interface())
	if err != nil {
		panic(err)
	}
	var v any
	dec := json.NewDecoder(bytes.NewReader(b))
	dec.UseNumber()
	if err := dec.Decode(&v); err != nil {
		panic(err)
	}
	return stripNulls(v)
}

func stripNulls(v any) any {
	switch x := v.(type) {
	case map[string]any:
		for k, e := range x {
			if e == nil {
				delete(x, k)
			} else {
				x[k] = stripNulls(e)
			}
		}
	case []any:
		for i := range x {
			x[i] = stripNulls(x[i])
		}
	}
	return v
}

// TsArgSparse is the plain proto3-JSON form (defaults omitted).
func TsArgSparse(m protoreflect.Message) any {
	b, err := protojson.Marshal(m.Interface())
	if err != nil {
		panic(err)
	}
	var v any
	dec := json.NewDecoder(bytes.NewReader(b))
	dec.UseNumber()
	dec.Decode(&v)
	return v
}

// jsSpecial recognises the driver's encodings of non-JSON JS values ({"$num":"NaN"} ...).
func jsSpecial(v any) (string, string, bool) {
	m, ok := v.(map[string]any)
	if !ok || len(m) != 1 {
		return "", "", false
	}
	for k, e := range m {
		if strings.HasPrefix(k, "$") {
			s, _ := e.(string)
			return k, s, true
		}
	}
	return "", "", false
}

type tsCanonErr struct{}

// tsScalar reads one JS value as the canonical proto3-JSON spelling of the field's kind; ok=false
// when the value has another JSON type or spelling (e.g. the string "5" in an int32 field).
func tsScalar(fd protoreflect.FieldDescriptor, v any) (protoreflect.Value, bool) {
	num := func() (json.Number, bool) { n, ok := v.(json.Number); return n, ok }
	switch fd.Kind() {
	case protoreflect.BoolKind:
		b, ok := v.(bool)
		return protoreflect.ValueOfBool(b), ok
	case protoreflect.StringKind:
		s, ok := v.(string)
		return protoreflect.ValueOfString(s), ok && utf8.ValidString(s)
	case protoreflect.BytesKind:
		s, ok := v.(string)
		if !ok {
			return protoreflect.Value{}, false
		}
		b, err := base64.StdEncoding.DecodeString(s)
		if err != nil {
			return protoreflect.Value{}, false
		}
		return protoreflect.ValueOfBytes(b), true
	case protoreflect.EnumKind:
		if s, ok := v.(string); ok {
			ev := fd.Enum().Values().ByName(protoreflect.Name(s))
			if ev == nil {
				return protoreflect.Value{}, false
			}
			return protoreflect.ValueOfEnum(ev.Number()), true
		}
		if n, ok := num(); ok {
			i, err := strconv.ParseInt(n.String(), 10, 32)
			if err != nil || fd.Enum().Values().ByNumber(protoreflect.EnumNumber(i)) != nil {
				return protoreflect.Value{}, false // a defined value is spelled by name
			}
			return protoreflect.ValueOfEnum(protoreflect.EnumNumber(i)), true
		}
		return protoreflect.Value{}, false
	case protoreflect.Int32Kind, protoreflect.Sint32Kind, protoreflect.Sfixed32Kind:
		n, ok := num()
		if !ok {
			return protoreflect.Value{}, false
		}
		i, err := strconv.ParseInt(n.String(), 10, 32)
		if err != nil || strconv.FormatInt(i, 10) != n.String() {
			return protoreflect.Value{}, false
		}
		return protoreflect.ValueOfInt32(int32(i)), true
	case protoreflect.Uint32Kind, protoreflect.Fixed32Kind:
		n, ok := num()
		if !ok {
			return protoreflect.Value{}, false
		}
		i, err := strconv.ParseUint(n.String(), 10, 32)
		if err != nil || strconv.FormatUint(i, 10) != n.String() {
			return protoreflect.Value{}, false
		}
		return protoreflect.ValueOfUint32(uint32(i)), true
	case protoreflect.Int64Kind, protoreflect.Sint64Kind, protoreflect.Sfixed64Kind:
		s, ok := v.(string)
		if !ok {
			return protoreflect.Value{}, false
		}
		i, err := strconv.ParseInt(s, 10, 64)
		if err != nil || strconv.FormatInt(i, 10) != s {
			return protoreflect.Value{}, false
		}
		return protoreflect.ValueOfInt64(i), true
	case protoreflect.Uint64Kind, protoreflect.Fixed64Kind:
		s, ok := v.(string)
		if !ok {
			return protoreflect.Value{}, false
		}
		i, err := strconv.ParseUint(s, 10, 64)
		if err != nil || strconv.FormatUint(i, 10) != s {
			return protoreflect.Value{}, false
		}
		return protoreflect.ValueOfUint64(i), true
	case protoreflect.FloatKind, protoreflect.DoubleKind:
		var f float64
		if n, ok := num(); ok {
			x, err := strconv.ParseFloat(n.String(), 64)
			if err != nil {
				return protoreflect.Value{}, false
			}
			f = x
		} else if s, ok := v.(string); ok {
			switch s {
			case "NaN":
				f = math.NaN()
			case "Infinity":
				f = math.Inf(1)
			case "-Infinity":
				f = math.Inf(-1)
			default:
				return protoreflect.Value{}, false
			}
		} else if k, s, ok := jsSpecial(v); ok && k == "$num" {
			// a JS number that JSON cannot spell, as the node driver reports it
			switch s {
			case "-0":
				f = math.Copysign(0, -1)
			case "NaN":
				f = math.NaN()
			case "Infinity":
				f = math.Inf(1)
			case "-Infinity":
				f = math.Inf(-1)
			default:
				return protoreflect.Value{}, false
			}
		} else {
			return protoreflect.Value{}, false
		}
		if fd.Kind() == protoreflect.FloatKind {
			return protoreflect.ValueOfFloat32(float32(f)), true
		}
		return protoreflect.ValueOfFloat64(f), true
	}
	return protoreflect.Value{}, false
}

func tsMapKey(fd protoreflect.FieldDescriptor, k string) (protoreflect.MapKey, bool) {
	switch fd.Kind() {
	case protoreflect.StringKind:
		return protoreflect.ValueOfString(k).MapKey(), true
	case protoreflect.BoolKind:
		if k == "true" || k == "false" {
			return protoreflect.ValueOfBool(k == "true").MapKey(), true
		}
		return protoreflect.MapKey{}, false
	case protoreflect.Int32Kind, protoreflect.Sint32Kind, protoreflect.Sfixed32Kind:
		i, err := strconv.ParseInt(k, 10, 32)
		return protoreflect.ValueOfInt32(int32(i)).MapKey(), err == nil && strconv.FormatInt(i, 10) == k
	case protoreflect.Int64Kind, protoreflect.Sint64Kind, protoreflect.Sfixed64Kind:
		i, err := strconv.ParseInt(k, 10, 64)
		return protoreflect.ValueOfInt64(i).MapKey(), err == nil && strconv.FormatInt(i, 10) == k
	case protoreflect.Uint32Kind, protoreflect.Fixed32Kind:
		i, err := strconv.ParseUint(k, 10, 32)
		return protoreflect.ValueOfUint32(uint32(i)).MapKey(), err == nil && strconv.FormatUint(i, 10) == k
	case protoreflect.Uint64Kind, protoreflect.Fixed64Kind:
		i, err := strconv.ParseUint(k, 10, 64)
		return protoreflect.ValueOfUint64(i).MapKey(), err == nil && strconv.FormatUint(i, 10) == k
	}
	return protoreflect.MapKey{}, false
}

func tsElem(fd protoreflect.FieldDescriptor, v any, mk func() protoreflect.Value) (protoreflect.Value, bool) {
	if fd.Kind() == protoreflect.MessageKind {
		nv := mk()
		if !tsFillMessage(nv.Message(), v) {
			return protoreflect.Value{}, false
		}
		return nv, true
	}
	return tsScalar(fd, v)
}

// tsFillMessage fills m from a JS object strictly; false when some value is not in canonical form.
func tsFillMessage(m protoreflect.Message, v any) bool {
	md := m.Descriptor()
	if md.FullName() == "google.protobuf.Timestamp" {
		s, ok := v.(string)
		if !ok {
			return false
		}
		t, err := time.Parse(time.RFC3339Nano, s)
		if err != nil {
			return false
		}
		if t.Unix() != 0 {
			m.Set(md.Fields().ByName("seconds"), protoreflect.ValueOfInt64(t.Unix()))
		}
		if t.Nanosecond() != 0 {
			m.Set(md.Fields().ByName("nanos"), protoreflect.ValueOfInt32(int32(t.Nanosecond())))
		}
		return true
	}
	obj, ok := v.(map[string]any)
	if !ok {
		return false
	}
	for k, e := range obj {
		fd := md.Fields().ByJSONName(k)
		if fd == nil {
			return false
		}
		if !tsSetField(m, fd, e) {
			return false
		}
	}
	return true
}

func tsSetField(m protoreflect.Message, fd protoreflect.FieldDescriptor, e any) bool {
	switch {
	case fd.IsMap():
		obj, ok := e.(map[string]any)
		if !ok {
			return false
		}
		if _, _, sp := jsSpecial(e); sp {
			return false
		}
		mp := m.Mutable(fd).Map()
		for k, ev := range obj {
			mk, ok := tsMapKey(fd.MapKey(), k)
			if !ok {
				return false
			}
			val, ok := tsElem(fd.MapValue(), ev, mp.NewValue)
			if !ok {
				return false
			}
			mp.Set(mk, val)
		}
	case fd.IsList():
		arr, ok := e.([]any)
		if !ok {
			return false
		}
		l := m.Mutable(fd).List()
		for _, ev := range arr {
			val, ok := tsElem(fd, ev, l.NewElement)
			if !ok {
				return false
			}
			l.Append(val)
		}
	case fd.Kind() == protoreflect.MessageKind:
		if !tsFillMessage(m.Mutable(fd).Message(), e) {
			return false
		}
	default:
		val, ok := tsScalar(fd, e)
		if !ok {
			return false
		}
		m.Set(fd, val) // implicit-presence zero values are not populated by Set + Range
	}
	return true
}

// TsCanon maps the object seen on the TypeScript side (a handler's argument, a client's result) to
// the canonical message JSON of MsgCanon. A top-level property whose value is not the canonical
// proto3-JSON spelling of its field (wrong JSON type, NaN, unknown property) is reported as
// {"ts": <the JS value>} under the proto field name (unknown properties under "$<name>").
func TsCanon(md protoreflect.MessageDescriptor, v any) map[string]any {
	obj, ok := v.(map[string]any)
	if !ok {
		return map[string]any{"$value": map[string]any{"ts": v}}
	}
	if _, _, sp := jsSpecial(v); sp {
		return map[string]any{"$value": map[string]any{"ts": v}}
	}
	m := dynamicpb.NewMessage(md)
	raw := map[string]any{}
	keys := make([]string, 0, len(obj))
	for k := range obj {
		keys = append(keys, k)
	}
	sort.Strings(keys)
	for _, k := range keys {
		fd := md.Fields().ByJSONName(k)
		if fd == nil {
			raw["$"+k] = map[string]any{"ts": obj[k]}
			continue
		}
		tmp := dynamicpb.NewMessage(md)
		if !tsSetField(tmp, fd, obj[k]) {
			raw[string(fd.Name())] = map[string]any{"ts": obj[k]}
			continue
		}
		tsSetField(m, fd, obj[k])
	}
	out, _ := MsgCanon(m)
	for k, e := range raw {
		out[k] = e
	}
	return out
}

// TsCanonText parses JSON text first.
func TsCanonText(md protoreflect.MessageDescriptor, text []byte) map[string]any {
	var v any
	dec := json.NewDecoder(bytes.NewReader(text))
	dec.UseNumber()
	if err := dec.Decode(&v); err != nil {
		return map[string]any{"$value": map[string]any{"ts": "unparsable"}}
	}
	return TsCanon(md, v)
}

func hexOf(s string) string { return hex.EncodeToString([]byte(s)) }

// lowerFirstASCII mirrors annotations.LowerFirst for ASCII method names.
func lowerFirstASCII(s string) string {
	if s == "" {
		return s
	}
	return strings.ToLower(s[:1]) + s[1:]
}
