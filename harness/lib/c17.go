package lib

import (
	"bytes"
	"encoding/json"
	"fmt"
	"math/rand"
	"os"
	"os/exec"
	"strings"

	"google.golang.org/protobuf/types/dynamicpb"
)

// CheckC17: the generated server and client under concurrent use, built with the race detector.
func CheckC17(run *Run) {
	run.Proof = CheckProofs("C17")
	run.Prepare()
	var reqs []*Request
	for _, r := range RouteCatalogue() {
		if r.ID == "rt1" || r.ID == "rt4" || r.ID == "rtmulti" {
			reqs = append(reqs, r)
		}
	}
	reqs = append(reqs, KindsRequest())
	for _, r := range FeatureCatalogue() {
		if r.ID == "ftplain" || r.ID == "fti64" || r.ID == "ftunwrap" {
			reqs = append(reqs, r)
		}
	}
	// route isolation (server) and call sequences (client): catalogues of their own, see c17_families.go
	isoReq, seqReq := RouteIsolationCatalogue(), ClientHistoryCatalogue()
	reqs = append(reqs, isoReq, seqReq)
	// registration histories (server options of one Register call never reach another): c17_reg.go
	regReq := RegistrationCatalogue()
	reqs = append(reqs, regReq)
	rng := rand.New(rand.NewSource(run.Seed + 1717))
	multisets, size := 6, 60
	if run.Tier == "thorough" {
		multisets, size = 60, 400
	}
	os.Setenv("VERIF_RACE", "1")
	s := NewSession(run, reqs)
	c17InjectRegShim(s, regReq)
	s.BuildRuntime(false)
	os.Unsetenv("VERIF_RACE")
	vg := &ValueGen{Rng: rng}

	type call struct {
		svc  *Service
		md   *Method
		ct   int
		req  *dynamicpb.Message
		resp *dynamicpb.Message
		hdr  [][2]string
	}
	type batch struct {
		r     *Request
		g     *GenOutput
		calls []*call
		par   int
		// client-level default headers (every second multiset): per-call headers must override them for
		// their own call only, and a call without per-call headers must carry exactly the defaults
		defaults [][2]string
	}
	var batches []*batch
	for i, r := range reqs {
		if !s.InRunner[r.ID] || r == isoReq || r == seqReq || r == regReq {
			continue
		}
		g := s.Gens[i]
		var rpcs []struct {
			svc *Service
			md  *Method
		}
		for _, f := range r.Files {
			for _, svc := range f.Services {
				for _, md := range svc.Methods {
					// only routes on which a call is delivered when issued alone
					if md.Path == "" || !strings.HasPrefix(md.Path, "/") || (svc.BasePath != "" && !strings.HasPrefix(svc.BasePath, "/")) {
						continue
					}
					rpcs = append(rpcs, struct {
						svc *Service
						md  *Method
					}{svc, md})
				}
			}
		}
		if len(rpcs) == 0 {
			continue
		}
		for k := 0; k < multisets; k++ {
			b := &batch{r: r, g: g, par: []int{1, 2, 4, 8, 16, 32}[rng.Intn(6)]}
			if k%2 == 0 {
				b.defaults = [][2]string{{"X-Call-Tag", "dflt"}, {"X-Client-Tag", "c0"}}
			}
			seen := map[string]bool{}
			for len(b.calls) < size {
				x := rpcs[rng.Intn(len(rpcs))]
				in := g.Built.MessageDesc(x.md.In)
				out := g.Built.MessageDesc(x.md.Out)
				rm := vg.Random(in, 0.8)
				pathBoundNonEmpty(rm, x.md, rng)
				ct := rng.Intn(2)
				// the conc runner scripts responses by (service, method, handler-seen wire): keep keys unique
				key := x.svc.Name + "." + x.md.Name + ":" + WireHex(rm)
				if seen[key] {
					continue
				}
				seen[key] = true
				c := &call{svc: x.svc, md: x.md, ct: ct, req: rm, resp: vg.Random(out, 0.8)}
				switch rng.Intn(4) {
				case 0:
					c.hdr = [][2]string{{"X-Call-Tag", fmt.Sprintf("t%d", len(b.calls))}}
				case 1:
					// a per-call header the client has no default for, next to an overridden default
					c.hdr = [][2]string{{"X-Call-Tag", fmt.Sprintf("t%d", len(b.calls))}, {"X-Call-Extra", fmt.Sprintf("e%d", len(b.calls))}}
				}
				b.calls = append(b.calls, c)
			}
			batches = append(batches, b)
		}
	}
	mkCall := func(b *batch, c *call, id string) map[string]any {
		return map[string]any{"id": id, "kind": "call", "pkg": b.r.ID, "service": c.svc.Name, "method": c.md.Name,
			"req": WireHex(c.req), "wire": WireHex(c.req), "script": map[string]any{"resp": WireHex(c.resp)},
			"opts": map[string]any{"ContentType": ctNames[c.ct], "CallHeaders": c.hdr, "DefaultHeaders": b.defaults}}
	}
	// isolated runs first (one runner process, sequential), then the concurrent multisets
	var iso []any
	for bi, b := range batches {
		for ci, c := range b.calls {
			iso = append(iso, mkCall(b, c, fmt.Sprintf("%d.%d", bi, ci)))
		}
	}
	isoRaw, err := RunScenarios(s.Runner, iso, 1)
	if err != nil {
		run.Fatal("runner (isolated): %v", err)
	}
	// keep only calls that are delivered intact when issued alone (the concurrent runner scripts the
	// response by the request the handler sees; calls hit by a known C01 defect are C01's subject)
	{
		k := 0
		var isoKept []json.RawMessage
		for _, b := range batches {
			var kept []*call
			for _, c := range b.calls {
				var io RunnerObs
				json.Unmarshal(isoRaw[k], &io)
				if len(io.HandlerCalls) == 1 && io.HandlerCalls[0].Req == WireHex(c.req) && io.Client != nil && io.Client.Resp != nil {
					kept = append(kept, c)
					isoKept = append(isoKept, isoRaw[k])
				}
				k++
			}
			b.calls = kept
		}
		isoRaw = isoKept
	}
	var conc []any
	for bi, b := range batches {
		var calls []any
		for ci, c := range b.calls {
			calls = append(calls, mkCall(b, c, fmt.Sprintf("%d.%d", bi, ci)))
		}
		conc = append(conc, map[string]any{"id": fmt.Sprint(bi), "kind": "conc", "pkg": b.r.ID, "calls": calls, "parallelism": b.par, "shared_defaults": b.defaults})
	}
	concRaw, stderr, err := runScenariosStderr(s.Runner, conc)
	crashed := strings.Contains(stderr, "fatal error:") || strings.Contains(stderr, "panic:")
	if err != nil && !strings.Contains(stderr, "DATA RACE") && !crashed {
		run.Fatal("runner (concurrent): %v\n%s", err, tail(stderr, 2000))
	}
	races := strings.Count(stderr, "WARNING: DATA RACE")
	// compare per-call results
	k := 0
	for bi, b := range batches {
		var co RunnerObs
		if concRaw[bi] == nil || json.Unmarshal(concRaw[bi], &co) != nil {
			if !crashed {
				run.Fatal("missing concurrent observation %d", bi)
			}
			k += len(b.calls)
			i0 := strings.Index(stderr, "fatal error:")
			if i0 < 0 {
				i0 = strings.Index(stderr, "panic:")
			}
			cr := &CaseResult{ID: fmt.Sprintf("%s/multiset%d", b.r.ID, bi), Family: "concurrent-multiset",
				Input: map[string]any{"schema": b.r.ID, "calls": len(b.calls), "parallelism": b.par, "stderr": tail(stderr[i0:min(len(stderr), i0+1500)], 1500)},
				Obs:   map[string]any{"process": "crashed"}, Pred: map[string]any{"calls_differing_from_isolated": 0, "validator_instances": true},
				OracleHolds: false, OracleNote: "the process running the generated code crashed under concurrent calls: " + firstLine(stderr[i0:]), NonTrivial: true}
			cr.Compare()
			run.Results = append(run.Results, cr)
			continue
		}
		bad := 0
		note := ""
		for ci, c := range b.calls {
			var io RunnerObs
			json.Unmarshal(isoRaw[k], &io)
			k++
			if ci >= len(co.Sub) {
				bad++
				continue
			}
			sub := co.Sub[ci]
			isoRes, concRes := clientSummary(&io), clientSummary(&sub)
			if isoRes != concRes {
				bad++
				if note == "" {
					note = fmt.Sprintf("call %s.%s: alone %s, concurrent %s", c.svc.Name, c.md.Name, short(isoRes), short(concRes))
				}
			}
			// per-call options must reach only their own request; client defaults reach every request
			if len(sub.Requests) > 0 {
				want := map[string]string{"X-Call-Tag": "", "X-Call-Extra": "", "X-Client-Tag": ""}
				for _, kv := range b.defaults {
					want[kv[0]] = kv[1]
				}
				for _, kv := range c.hdr {
					want[kv[0]] = kv[1]
				}
				for _, name := range []string{"X-Call-Tag", "X-Call-Extra", "X-Client-Tag"} {
					got := sub.Requests[0].Header[name]
					g0 := strings.Join(got, ",")
					if g0 != want[name] {
						bad++
						if note == "" {
							note = fmt.Sprintf("call %s.%s carried %s %q, expected %q", c.svc.Name, c.md.Name, name, g0, want[name])
						}
					}
				}
			}
		}
		if co.Panic != "" {
			bad++
			note = "panic: " + firstLine(co.Panic)
		}
		obs := map[string]any{"calls_differing_from_isolated": bad, "validator_instances": co.NewCalls <= 1}
		cr := &CaseResult{ID: fmt.Sprintf("%s/multiset%d", b.r.ID, bi), Family: "concurrent-multiset",
			Input: map[string]any{"schema": b.r.ID, "calls": len(b.calls), "parallelism": b.par},
			Obs:   obs, OracleHolds: bad == 0 && co.NewCalls <= 1, OracleNote: note, NonTrivial: true,
			Features: []string{fmt.Sprintf("par:%d", b.par)}}
		// the model (Conc.v) predicts: no call differs, at most one validator instance
		cr.Pred = map[string]any{"calls_differing_from_isolated": 0, "validator_instances": true}
		cr.Compare()
		run.Results = append(run.Results, cr)
	}
	// per-route configuration isolation; history (in)dependence of shared clients and package-level state
	for _, r := range []*Request{isoReq, seqReq, regReq} {
		if !s.InRunner[r.ID] {
			out := "a Go plugin failed on it"
			if v := s.Verdict[r.ID]; v != nil {
				out = v.Output
			} else if g := s.ByID[r.ID]; g != nil {
				for _, pl := range []string{"go-http", "go-client"} {
					if pr := g.Results[pl]; pr != nil && pr.Exit != "ok" {
						out += fmt.Sprintf(" [%s: %s %s %s]", pl, pr.Exit, pr.Error, tail(pr.Stderr, 400))
					}
				}
			}
			run.BuildFailure(fmt.Errorf("the emitted Go code of catalogue %s does not build: %s", r.ID, out))
		}
	}
	stamp(run, "concurrent multisets done")
	run.Results = append(run.Results, c17RouteIsolation(run, s, isoReq)...)
	run.Results = append(run.Results, c17RouteSequences(run, s, isoReq, rand.New(rand.NewSource(run.Seed+1717171)))...)
	stamp(run, "route isolation done")
	seqResults, seqStderr := c17Sequences(run, s, seqReq, s.ByID[seqReq.ID], rand.New(rand.NewSource(run.Seed+171717)))
	run.Results = append(run.Results, seqResults...)
	stamp(run, "call sequences done")
	run.Results = append(run.Results, c17Registrations(run, s, regReq, rand.New(rand.NewSource(run.Seed+17171)))...)
	stamp(run, "registration histories done")
	if n := strings.Count(seqStderr, "WARNING: DATA RACE"); n > 0 {
		races += n
		stderr += seqStderr
	}
	rc := &CaseResult{ID: "race-detector", Family: "race-detector", Input: map[string]any{"multisets": len(batches), "calls": len(iso)},
		Obs: map[string]any{"data_races": races}, Pred: map[string]any{"data_races": 0}, OracleHolds: races == 0, NonTrivial: true, Features: []string{"race"}}
	if races > 0 {
		rc.OracleNote = "race detector: " + firstLine(stderr[strings.Index(stderr, "WARNING: DATA RACE"):])
		rc.Input = map[string]any{"report": tail(stderr, 3000)}
	}
	rc.Compare()
	run.Results = append(run.Results, rc)
	run.Extra["race_detector"] = "runner built with -race; stderr scanned for DATA RACE reports"
	run.Extra["isolated_calls"] = len(iso)
	run.Finish()
}

func clientSummary(o *RunnerObs) string {
	if o.Client == nil {
		return fmt.Sprintf("none/status=%d/panic=%v", o.Status, o.Panic != "")
	}
	if o.Client.Resp != nil {
		return "resp:" + *o.Client.Resp
	}
	return "err:" + o.Client.ErrType + ":" + fmt.Sprint(o.Client.Violations)
}

// runScenariosStderr runs all scenarios in ONE runner process and also returns its stderr.
func runScenariosStderr(bin string, scenarios []any) ([]json.RawMessage, string, error) {
	var in bytes.Buffer
	enc := json.NewEncoder(&in)
	for _, sc := range scenarios {
		enc.Encode(sc)
	}
	cmd := exec.Command("timeout", "1800", bin)
	cmd.Stdin = &in
	var stdout, stderr bytes.Buffer
	cmd.Stdout = &stdout
	cmd.Stderr = &stderr
	cmd.Env = append(os.Environ(), "GORACE=halt_on_error=0")
	err := cmd.Run()
	out := make([]json.RawMessage, len(scenarios))
	i := 0
	for _, l := range bytes.Split(stdout.Bytes(), []byte("\n")) {
		if len(bytes.TrimSpace(l)) > 0 && i < len(out) {
			out[i] = append(json.RawMessage{}, l...)
			i++
		}
	}
	return out, stderr.String(), err
}
