package lib

import (
	"bytes"
	"encoding/base64"
	"encoding/hex"
	"encoding/json"
	"fmt"
	"math"
	"math/big"
	"os"
	"sort"
	"strconv"
	"strings"

	"google.golang.org/protobuf/reflect/protoreflect"
	"google.golang.org/protobuf/types/dynamicpb"
)

// ---- canonical comparison form of JSON text ------------------------------------------------------
// objects as maps, strings as byte strings, numbers by VALUE: an integral decimal is an exact
// json.Number integer, anything else {"$f": <float64 bit pattern of the nearest double>}; "-0" is
// {"$f": bits(-0.0)}.  (coq/theories/Ext.v: jflt)

func fobj(bits uint64) any {
	return map[string]any{"$f": json.Number(strconv.FormatUint(bits, 10))}
}

func canonNumber(text string) any {
	if len(text) < 400 {
		if r, ok := new(big.Rat).SetString(text); ok && r.IsInt() {
			if r.Sign() == 0 && strings.HasPrefix(text, "-") {
				return fobj(math.Float64bits(math.Copysign(0, -1)))
			}
			return json.Number(r.Num().String())
		}
	}
	f, _ := strconv.ParseFloat(text, 64)
	return fobj(math.Float64bits(f))
}

func canonJSONValue(v any) any {
	switch x := v.(type) {
	case json.Number:
		return canonNumber(x.String())
	case []any:
		out := make([]any, len(x))
		for i := range x {
			out[i] = canonJSONValue(x[i])
		}
		return out
	case map[string]any:
		out := make(map[string]any, len(x))
		for k, e := range x {
			out[k] = canonJSONValue(e)
		}
		return out
	}
	return v
}

// CanonJSONText parses a JSON document into the canonical comparison form.
func CanonJSONText(b []byte) (any, error) {
	dec := json.NewDecoder(bytes.NewReader(b))
	dec.UseNumber()
	var v any
	if err := dec.Decode(&v); err != nil {
		return nil, err
	}
	if dec.More() {
		return nil, fmt.Errorf("trailing data")
	}
	return canonJSONValue(v), nil
}

// RenderCanonJSON turns a canonical form (as decoded from the model) back into JSON text.
func RenderCanonJSON(v any) []byte {
	var b bytes.Buffer
	renderCanon(&b, v)
	return b.Bytes()
}

func renderCanon(b *bytes.Buffer, v any) {
	switch x := v.(type) {
	case nil:
		b.WriteString("null")
	case bool:
		if x {
			b.WriteString("true")
		} else {
			b.WriteString("false")
		}
	case json.Number:
		b.WriteString(x.String())
	case string:
		// byte string: valid UTF-8 is written as is
		e, _ := json.Marshal(x)
		b.Write(e)
	case []any:
		b.WriteByte('[')
		for i, e := range x {
			if i > 0 {
				b.WriteByte(',')
			}
			renderCanon(b, e)
		}
		b.WriteByte(']')
	case map[string]any:
		if fb, ok := x["$f"]; ok && len(x) == 1 {
			n, _ := strconv.ParseUint(fmt.Sprint(fb), 10, 64)
			f := math.Float64frombits(n)
			b.WriteString(strconv.FormatFloat(f, 'g', -1, 64))
			return
		}
		keys := make([]string, 0, len(x))
		for k := range x {
			keys = append(keys, k)
		}
		sort.Strings(keys)
		b.WriteByte('{')
		for i, k := range keys {
			if i > 0 {
				b.WriteByte(',')
			}
			e, _ := json.Marshal(k)
			b.Write(e)
			b.WriteByte(':')
			renderCanon(b, x[k])
		}
		b.WriteByte('}')
	default:
		b.WriteString("null")
	}
}

// ---- float tables (Ext.E0) ------------------------------------------------------------------------

// pjFloatText is protojson's (and encoding/json's) number formatting.
func pjFloatText(f float64, bits int) string {
	fm := byte('f')
	if abs := math.Abs(f); abs != 0 {
		if bits == 64 && (abs < 1e-6 || abs >= 1e21) || bits == 32 && (float32(abs) < 1e-6 || float32(abs) >= 1e21) {
			fm = 'e'
		}
	}
	return strconv.FormatFloat(f, fm, -1, bits)
}

type FloatTabs struct {
	p    []string
	s    []string
	seen map[string]bool
}

func NewFloatTabs() *FloatTabs { return &FloatTabs{seen: map[string]bool{}} }

func coqZ(n int64) string { return fmt.Sprintf("(%d)%%Z", n) }

// AddText registers a number token for the scan table.
func (t *FloatTabs) AddText(text string) {
	c := canonNumber(text)
	key := "s:" + CoqJSON(c)
	if t.seen[key] {
		return
	}
	t.seen[key] = true
	b64, b32 := int64(-1), int64(-1)
	if f, err := strconv.ParseFloat(text, 64); err == nil {
		b64 = int64(math.Float64bits(f)) // may be negative as int64; printed unsigned below
		if f32, err := strconv.ParseFloat(text, 32); err == nil {
			b32 = int64(math.Float32bits(float32(f32)))
		}
		t.s = append(t.s, fmt.Sprintf("(%s, ((%s)%%Z, (%d)%%Z))", CoqJSON(c), strconv.FormatUint(math.Float64bits(f), 10), b32))
		return
	}
	_ = b64
	t.s = append(t.s, fmt.Sprintf("(%s, ((-1)%%Z, (-1)%%Z))", CoqJSON(c)))
}

// AddValue registers a float field value for the print table (and its text for the scan table).
func (t *FloatTabs) AddValue(is64 bool, f float64) {
	if math.IsNaN(f) || math.IsInf(f, 0) {
		return
	}
	bits, size := math.Float64bits(f), 64
	if !is64 {
		bits, size = uint64(math.Float32bits(float32(f))), 32
	}
	key := fmt.Sprintf("p:%v:%d", is64, bits)
	if t.seen[key] {
		return
	}
	t.seen[key] = true
	text := pjFloatText(f, size)
	t.p = append(t.p, fmt.Sprintf("(%s, (%s)%%Z, %s)", CoqBool(is64), strconv.FormatUint(bits, 10), CoqJSON(canonNumber(text))))
	t.AddText(text)
}

func (t *FloatTabs) AddMessage(m protoreflect.Message) {
	m.Range(func(fd protoreflect.FieldDescriptor, v protoreflect.Value) bool {
		one := func(fd protoreflect.FieldDescriptor, v protoreflect.Value) {
			switch fd.Kind() {
			case protoreflect.DoubleKind:
				t.AddValue(true, v.Float())
			case protoreflect.FloatKind:
				t.AddValue(false, v.Float())
			case protoreflect.MessageKind, protoreflect.GroupKind:
				t.AddMessage(v.Message())
			}
		}
		switch {
		case fd.IsMap():
			v.Map().Range(func(k protoreflect.MapKey, mv protoreflect.Value) bool {
				one(fd.MapValue(), mv)
				return true
			})
		case fd.IsList():
			for i := 0; i < v.List().Len(); i++ {
				one(fd, v.List().Get(i))
			}
		default:
			one(fd, v)
		}
		return true
	})
}

// AddJSONText registers every number token of a JSON document.
func (t *FloatTabs) AddJSONText(b []byte) {
	dec := json.NewDecoder(bytes.NewReader(b))
	dec.UseNumber()
	for {
		tok, err := dec.Token()
		if err != nil {
			return
		}
		if n, ok := tok.(json.Number); ok {
			t.AddText(n.String())
		}
	}
}

func (t *FloatTabs) Coq() (string, string) {
	return "[" + strings.Join(t.p, "; ") + "]", "[" + strings.Join(t.s, "; ") + "]"
}

// ---- proto equality up to the documented losses (C04 oracle) ------------------------------------------

func specField(m *Message, name string) *Field {
	if m == nil {
		return nil
	}
	for _, f := range m.Fields {
		if f.Name == name {
			return f
		}
	}
	return nil
}

func truncTS(format string, sec int64, nanos int32) (int64, int32) {
	switch format {
	case "UNIX_SECONDS":
		return sec, 0
	case "UNIX_MILLIS":
		return sec, nanos / 1000000 * 1000000
	case "DATE":
		d := sec % 86400
		if d < 0 {
			d += 86400
		}
		return sec - d, 0
	}
	return sec, nanos
}

func tsOf(m protoreflect.Message) (int64, int32) {
	fds := m.Descriptor().Fields()
	return m.Get(fds.ByName("seconds")).Int(), int32(m.Get(fds.ByName("nanos")).Int())
}

func isEmptyMsg(m protoreflect.Message) bool {
	empty := true
	m.Range(func(protoreflect.FieldDescriptor, protoreflect.Value) bool { empty = false; return false })
	return empty && len(m.GetUnknown()) == 0
}

func floatEq(x, y float64) bool {
	if math.IsNaN(x) || math.IsNaN(y) {
		return math.IsNaN(x) && math.IsNaN(y)
	}
	return x == y
}

// EqualUpToLosses: b equals a, except that a Timestamp under timestamp_format may be truncated as
// documented and an empty message under empty_behavior OMIT/NULL may have lost (or kept) presence.
func EqualUpToLosses(r *Request, a, b protoreflect.Message) (bool, string) {
	return eqMsg(r, "$", nil, a, b)
}

func eqMsg(r *Request, path string, ann *Field, a, b protoreflect.Message) (bool, string) {
	md := a.Descriptor()
	if md.FullName() == "google.protobuf.Timestamp" {
		as, an := tsOf(a)
		bs, bn := tsOf(b)
		if as == bs && an == bn {
			return true, ""
		}
		if ann != nil && ann.TimestampFormat != "" {
			ts, tn := truncTS(ann.TimestampFormat, as, an)
			if ts == bs && tn == bn {
				return true, ""
			}
		}
		return false, fmt.Sprintf("%s: timestamp (%d,%d) became (%d,%d)", path, as, an, bs, bn)
	}
	spec, _ := r.FindMessage(string(md.FullName()))
	fds := md.Fields()
	for i := 0; i < fds.Len(); i++ {
		fd := fds.Get(i)
		p := path + "." + string(fd.Name())
		sf := specField(spec, string(fd.Name()))
		ha, hb := a.Has(fd), b.Has(fd)
		if ha != hb {
			if sf != nil && (sf.EmptyBehavior == "OMIT" || sf.EmptyBehavior == "NULL") && fd.Kind() == protoreflect.MessageKind && !fd.IsList() && !fd.IsMap() {
				var pm protoreflect.Message
				if ha {
					pm = a.Get(fd).Message()
				} else {
					pm = b.Get(fd).Message()
				}
				if isEmptyMsg(pm) {
					continue
				}
			}
			return false, fmt.Sprintf("%s: presence %v became %v", p, ha, hb)
		}
		if !ha {
			continue
		}
		va, vb := a.Get(fd), b.Get(fd)
		switch {
		case fd.IsMap():
			ma, mb := va.Map(), vb.Map()
			if ma.Len() != mb.Len() {
				return false, fmt.Sprintf("%s: map size %d became %d", p, ma.Len(), mb.Len())
			}
			ok, why := true, ""
			ma.Range(func(k protoreflect.MapKey, x protoreflect.Value) bool {
				if !mb.Has(k) {
					ok, why = false, fmt.Sprintf("%s[%v]: key lost", p, k)
					return false
				}
				// a wrapper used as a map value keeps only its unwrap field (documented in
				// docs/json-protobuf-compatibility.md "Two Unwrap Modes")
				if uf := unwrapFieldOf(r, sf); uf != "" {
					wa, wb := x.Message(), mb.Get(k).Message()
					ufd := wa.Descriptor().Fields().ByName(protoreflect.Name(uf))
					la, lb := wa.Get(ufd).List(), wb.Get(ufd).List()
					if la.Len() != lb.Len() {
						ok, why = false, fmt.Sprintf("%s[%v].%s: list length %d became %d", p, k, uf, la.Len(), lb.Len())
						return false
					}
					var usf *Field
					if wm, _ := r.FindMessage(sf.TypeName); wm != nil {
						usf = specField(wm, uf)
					}
					for j := 0; j < la.Len(); j++ {
						if ok, why = eqVal(r, fmt.Sprintf("%s[%v].%s[%d]", p, k, uf, j), usf, ufd, la.Get(j), lb.Get(j)); !ok {
							return false
						}
					}
					return true
				}
				ok, why = eqVal(r, fmt.Sprintf("%s[%v]", p, k), sf, fd.MapValue(), x, mb.Get(k))
				return ok
			})
			if !ok {
				return false, why
			}
		case fd.IsList():
			la, lb := va.List(), vb.List()
			if la.Len() != lb.Len() {
				return false, fmt.Sprintf("%s: list length %d became %d", p, la.Len(), lb.Len())
			}
			for j := 0; j < la.Len(); j++ {
				if ok, why := eqVal(r, fmt.Sprintf("%s[%d]", p, j), sf, fd, la.Get(j), lb.Get(j)); !ok {
					return false, why
				}
			}
		default:
			if ok, why := eqVal(r, p, sf, fd, va, vb); !ok {
				return false, why
			}
		}
	}
	return true, ""
}

// unwrapFieldOf: the repeated unwrap field of the message type used as the value of map field sf.
func unwrapFieldOf(r *Request, sf *Field) string {
	if sf == nil || sf.Card != "map" || sf.Kind != "message" {
		return ""
	}
	wm, _ := r.FindMessage(sf.TypeName)
	if wm == nil {
		return ""
	}
	name, n := "", 0
	for _, f := range wm.Fields {
		if f.Unwrap {
			n++
			if f.Card == "repeated" {
				name = f.Name
			}
		}
	}
	if n != 1 {
		return ""
	}
	return name
}

func eqVal(r *Request, path string, sf *Field, fd protoreflect.FieldDescriptor, a, b protoreflect.Value) (bool, string) {
	switch fd.Kind() {
	case protoreflect.MessageKind, protoreflect.GroupKind:
		return eqMsg(r, path, sf, a.Message(), b.Message())
	case protoreflect.FloatKind, protoreflect.DoubleKind:
		if !floatEq(a.Float(), b.Float()) {
			return false, fmt.Sprintf("%s: %v became %v", path, a.Float(), b.Float())
		}
	case protoreflect.BytesKind:
		if !bytes.Equal(a.Bytes(), b.Bytes()) {
			return false, fmt.Sprintf("%s: bytes %x became %x", path, a.Bytes(), b.Bytes())
		}
	default:
		if a.Interface() != b.Interface() {
			return false, fmt.Sprintf("%s: %v became %v", path, a.Interface(), b.Interface())
		}
	}
	return true, ""
}

// ---- codec scenarios ---------------------------------------------------------------------------------

func codecMarshalScenario(id, pkg, msg string, m *dynamicpb.Message) map[string]any {
	return map[string]any{"id": id, "kind": "codec", "pkg": pkg, "message": msg, "op": "marshal", "wire": WireHex(m), "script": map[string]any{}}
}
func codecUnmarshalScenario(id, pkg, msg string, jsonText []byte) map[string]any {
	return map[string]any{"id": id, "kind": "codec", "pkg": pkg, "message": msg, "op": "unmarshal", "json": hex.EncodeToString(jsonText), "script": map[string]any{}}
}

// okOrErr wraps an outcome the way CodecCases.jres does.
func okObj(v any) map[string]any { return map[string]any{"ok": v} }
func errObj() map[string]any     { return map[string]any{"err": true} }

// allMessages lists the fully-qualified message names of the generated files of a request.
func allMessages(r *Request) []string {
	var out []string
	for _, m := range collectMsgs(r) {
		if m.File.Generate {
			out = append(out, m.Full)
		}
	}
	return out
}

// features of a message spec, for the evidence's feature distribution
func msgFeatures(r *Request, full string) []string {
	m, _ := r.FindMessage(full)
	if m == nil {
		return nil
	}
	set := map[string]bool{}
	for _, f := range m.Fields {
		if f.Int64Encoding == "NUMBER" {
			set["int64-number"] = true
		}
		if f.EnumEncoding != "" {
			set["enum-encoding"] = true
		}
		if f.Nullable != nil && *f.Nullable {
			set["nullable"] = true
		}
		if f.EmptyBehavior != "" {
			set["empty:"+f.EmptyBehavior] = true
		}
		if f.TimestampFormat != "" {
			set["ts:"+f.TimestampFormat] = true
		}
		if f.BytesEncoding != "" {
			set["bytes:"+f.BytesEncoding] = true
		}
		if f.Flatten != nil && *f.Flatten {
			set["flatten"] = true
		}
		if f.Unwrap {
			set["unwrap"] = true
		}
		if f.Card != "singular" {
			set["card:"+f.Card] = true
		}
		if strings.Contains(f.Name, "_") {
			set["multiword"] = true
		}
	}
	for _, o := range m.Oneofs {
		if o.HasConfig {
			if o.Flatten {
				set["oneof-flat"] = true
			} else {
				set["oneof-disc"] = true
			}
		}
	}
	out := make([]string, 0, len(set))
	for k := range set {
		out = append(out, k)
	}
	sort.Strings(out)
	if len(out) == 0 {
		out = []string{"plain"}
	}
	return out
}

// validInEncoding: the documented decoders of annotations.proto BytesEncoding (Go standard library).
func validInEncoding(enc, text string) bool {
	var err error
	switch enc {
	case "HEX":
		_, err = hex.DecodeString(text)
	case "BASE64_RAW":
		_, err = base64.RawStdEncoding.DecodeString(text)
	case "BASE64URL":
		_, err = base64.URLEncoding.DecodeString(text)
	case "BASE64URL_RAW":
		_, err = base64.RawURLEncoding.DecodeString(text)
	default:
		_, err = base64.StdEncoding.DecodeString(text)
	}
	return err == nil
}

// debugDump writes every case result to $VERIF_DEBUG (development aid; not part of the check).
func debugDump(run *Run) {
	p := os.Getenv("VERIF_DEBUG")
	if p == "" {
		return
	}
	f, err := os.Create(p)
	if err != nil {
		return
	}
	defer f.Close()
	enc := json.NewEncoder(f)
	for _, c := range run.Results {
		enc.Encode(c)
	}
}
