package lib

import (
	"encoding/hex"
	"encoding/json"
	"fmt"
	"net/url"
	"sort"
	"strings"
)

// ---- C11 family "quoted-token": rejections whose error text quotes a LONG token -------------------------
//
// The decoders' error texts quote the offending input (protojson: `unknown field "<key>"`, `invalid value
// for int32 field count: "<token>"`, ...; strconv: `parsing "<value>": invalid syntax`), and the server
// copies the text into ValidationError.description.  Whatever the token is made of — ASCII, 2-, 3-, 4-byte
// characters, mixed — however long it is and wherever its characters fall (every alignment: the token is
// shifted byte by byte), the answer must be 400 with a decodable ValidationError naming the failing part
// ("body", the path variable's field, the query parameter's field).  Sites: unknown keys (top level,
// nested), wrongly typed values of every scalar kind, enum, Timestamp, bytes, message; path values and
// query values of every convertible kind; JSON and binary answers.

// c11TokenCatalogue: one server-only package with a body route, a GET route whose fields are all
// URL-bound (int32 / bool / double / uint64 / repeated int64 query parameters) and a PUT route with
// path variables of four kinds.
func c11TokenCatalogue() *Request {
	id := "c11tok"
	pkg := id + ".v1"
	f := &File{
		Enums: []*Enum{E("Kind", "KIND_UNSPECIFIED", "KIND_A")},
		Messages: []*Message{
			M("Inner", F("label", 1, "string"), F("n", 2, "int32")),
			M("EchoReq", F("name", 1, "string"), F("count", 2, "int32"), F("flag", 3, "bool"), F("ratio", 4, "double"), F("kind", 5, "", EnumT(pkg+".Kind")),
				F("inner", 6, "", Msg(pkg+".Inner")), F("tags", 7, "string", Rep()), F("big", 8, "int64"), F("at", 9, "", Msg(Timestamp)), F("data", 10, "bytes"),
				F("ubig", 11, "uint64"), F("f32", 12, "float"), F("items", 13, "", Msg(pkg+".Inner"), Rep()), F("by_key", 14, "int32", MapOf("string"))),
			M("GetReq", F("num", 1, "int32"), F("limit", 2, "int32", Query("limit", false)), F("on", 3, "bool", Query("on", false)), F("f", 4, "double", Query("f", false)),
				F("u", 5, "uint64", Query("u", false)), F("ids", 6, "int64", Rep(), Query("ids", false)), F("s32", 7, "sint32", Query("s32", false)), F("fl", 8, "float", Query("fl", false))),
			M("PutReq", F("num", 1, "int32"), F("flag", 2, "bool"), F("big", 3, "uint64"), F("ratio", 4, "double"), F("note", 5, "string"), F("page", 6, "int64", Query("page", false))),
			M("Resp", F("ok", 1, "bool")),
		}}
	f.Services = []*Service{Svc("Tok", "/tok",
		RPC("TokEcho", pkg+".EchoReq", pkg+".Resp", "POST", "/echo"),
		RPC("TokGet", pkg+".GetReq", pkg+".Resp", "GET", "/things/{num}"),
		RPC("TokPut", pkg+".PutReq", pkg+".Resp", "PUT", "/things/{num}/{flag}/{big}/{ratio}"),
	)}
	r := OneFile(id, pkg, f)
	r.Tags = []string{"runtime", "server-only", "c11-tokens"}
	return r
}

type c11Tok struct {
	pad   string
	n     int
	unit  string
	label string
}

func (t *c11Tok) text() string { return t.pad + strings.Repeat(t.unit, t.n) }

// c11TokenPool: for each unit (1-, 2-, 3-, 4-byte characters and a mixed one) tokens of about `size` bytes
// shifted by 0..len(unit)-1 ASCII bytes: a boundary at ANY byte offset of the description falls inside a
// character for all but one of the shifts.
func c11TokenPool(size int) []*c11Tok {
	units := []struct{ u, l string }{
		{"~", "ascii"}, {"é", "2-byte"}, {"あ", "3-byte"}, {"\U0001F600", "4-byte"}, {"é~あ\U0001F600è", "mixed"},
	}
	var out []*c11Tok
	for _, u := range units {
		shifts := len(u.u)
		if u.l == "ascii" {
			shifts = 1
		}
		for k := 0; k < shifts; k++ {
			out = append(out, &c11Tok{pad: strings.Repeat("~", k), n: (size + len(u.u) - 1) / len(u.u), unit: u.u, label: fmt.Sprintf("%s/%d-bytes/shift-%d", u.l, size, k)})
		}
	}
	return out
}

type c11TokCase struct {
	site   int // 0 body 1 path 2 query
	what   string
	field  string // the violation's field
	verb   string
	target string
	ct     string
	body   []byte
	tok    *c11Tok
}

func c11TokenCases(thorough bool) []*c11TokCase {
	var out []*c11TokCase
	jq := func(s string) string { b, _ := json.Marshal(s); return string(b) }
	type bodyShape struct {
		what string
		mk   func(tok string) string
		long bool // also with tokens far beyond 300 bytes
	}
	shapes := []bodyShape{
		{"unknown-key", func(t string) string { return `{` + jq(t) + `: 1}` }, true},
		{"unknown-key-after-known", func(t string) string { return `{"name":"n", ` + jq(t) + `: {"a":[1,2]}}` }, false},
		{"unknown-key-nested", func(t string) string { return `{"inner": {` + jq(t) + `: 1}}` }, false},
		{"unknown-key-in-repeated", func(t string) string { return `{"items": [{"label":"l"}, {` + jq(t) + `: null}]}` }, false},
		{"int32-given-string", func(t string) string { return `{"count": ` + jq(t) + `}` }, true},
		{"int64-given-string", func(t string) string { return `{"big": ` + jq(t) + `}` }, false},
		{"uint64-given-string", func(t string) string { return `{"ubig": ` + jq(t) + `}` }, false},
		{"bool-given-string", func(t string) string { return `{"flag": ` + jq(t) + `}` }, false},
		{"double-given-string", func(t string) string { return `{"ratio": ` + jq(t) + `}` }, false},
		{"float-given-string", func(t string) string { return `{"f32": ` + jq(t) + `}` }, false},
		{"enum-given-unknown-name", func(t string) string { return `{"kind": ` + jq(t) + `}` }, false},
		{"timestamp-given-text", func(t string) string { return `{"at": ` + jq(t) + `}` }, false},
		{"bytes-given-text", func(t string) string { return `{"data": ` + jq(t) + `}` }, false},
		{"message-given-string", func(t string) string { return `{"inner": ` + jq(t) + `}` }, false},
		{"repeated-given-string", func(t string) string { return `{"tags": ` + jq(t) + `}` }, false},
		{"nested-int32-given-string", func(t string) string { return `{"inner": {"n": ` + jq(t) + `}}` }, false},
		{"map-value-given-string", func(t string) string { return `{"byKey": {"k": ` + jq(t) + `}}` }, false},
		{"string-given-number-after-long-string", func(t string) string { return `{"tags": [` + jq(t) + `], "name": 12}` }, false},
	}
	sizes := []int{300}
	for _, sh := range shapes {
		szs := sizes
		if sh.long {
			szs = []int{180, 230, 300, 1100, 4200, 70000}
		}
		for _, sz := range szs {
			for _, tok := range c11TokenPool(sz) {
				ct := "application/json"
				if len(out)%5 == 4 {
					ct = "application/json; charset=utf-8"
				}
				out = append(out, &c11TokCase{site: 0, what: sh.what, field: "body", verb: "POST", target: "/tok/echo", ct: ct, body: []byte(sh.mk(tok.text())), tok: tok})
			}
		}
	}
	// path values: PUT /tok/things/{num}/{flag}/{big}/{ratio}
	pathKinds := []struct {
		what, field string
		idx         int
	}{{"path-int32", "num", 0}, {"path-bool", "flag", 1}, {"path-uint64", "big", 2}, {"path-double", "ratio", 3}}
	good := []string{"7", "true", "9", "1.5"}
	urlSizes := []int{300}
	if thorough {
		urlSizes = []int{180, 230, 300, 1100}
	}
	for _, pk := range pathKinds {
		for _, sz := range urlSizes {
			for _, tok := range c11TokenPool(sz) {
				segs := append([]string{}, good...)
				segs[pk.idx] = url.PathEscape(tok.text())
				for _, ct := range []string{"application/json", "application/x-protobuf"} {
					body := []byte(`{"note":"n"}`)
					if ct != "application/json" {
						body = []byte{0x2a, 0x01, 'n'}
					}
					out = append(out, &c11TokCase{site: 1, what: pk.what, field: pk.field, verb: "PUT", target: "/tok/things/" + strings.Join(segs, "/"), ct: ct, body: body, tok: tok})
				}
			}
		}
	}
	// the GET route's path variable
	for _, tok := range c11TokenPool(300) {
		out = append(out, &c11TokCase{site: 1, what: "path-int32-get", field: "num", verb: "GET", target: "/tok/things/" + url.PathEscape(tok.text()), ct: "application/json", tok: tok})
	}
	// query values: GET /tok/things/{num}?<q>=<token>, PUT ...?page=<token>
	for _, q := range []string{"limit", "on", "f", "u", "ids", "s32", "fl"} {
		for _, sz := range urlSizes {
			for _, tok := range c11TokenPool(sz) {
				for _, ct := range []string{"application/json", "application/x-protobuf"} {
					tgt := "/tok/things/5?" + q + "=" + url.QueryEscape(tok.text())
					if q == "ids" {
						tgt = "/tok/things/5?ids=3&ids=" + url.QueryEscape(tok.text())
					}
					out = append(out, &c11TokCase{site: 2, what: "query-" + q, field: q, verb: "GET", target: tgt, ct: ct, tok: tok})
				}
			}
		}
	}
	for _, tok := range c11TokenPool(300) {
		out = append(out, &c11TokCase{site: 2, what: "query-page-put", field: "page", verb: "PUT", target: "/tok/things/7/true/9/1.5?page=" + url.QueryEscape(tok.text()), ct: "application/json", body: []byte(`{"note":"n"}`), tok: tok})
	}
	return out
}

func c11Tokens(run *Run, s *Session, req *Request) {
	if !s.InRunner[req.ID] {
		out := "a Go plugin failed on it"
		if v := s.Verdict[req.ID]; v != nil {
			out = v.Output
		}
		run.BuildFailure(fmt.Errorf("the emitted Go code of catalogue %s does not build: %s", req.ID, out))
	}
	cases := c11TokenCases(run.Tier == "thorough")
	scen := make([]any, len(cases))
	for i, c := range cases {
		sc := map[string]any{"id": fmt.Sprint(i), "kind": "raw", "pkg": req.ID, "service": "Tok", "verb": c.verb, "target": c.target,
			"headers": [][2]string{{"Content-Type", c.ct}}, "script": map[string]any{}}
		if c.body != nil {
			sc["body"] = hex.EncodeToString(c.body)
		}
		scen[i] = sc
	}
	raw, err := RunScenarios(s.Runner, scen, 8)
	if err != nil {
		run.Fatal("runner (quoted tokens): %v", err)
	}
	var results []*CaseResult
	var ccs []CoqCase
	for i, c := range cases {
		var o RunnerObs
		if err := json.Unmarshal(raw[i], &o); err != nil {
			run.Fatal("bad observation (quoted tokens): %v", err)
		}
		if o.Error != "" {
			run.Fatal("runner error on quoted-token case %d: %s", i, o.Error)
		}
		outcome, doc := "", "none"
		fields := []string{}
		holds, note := true, ""
		rct := ""
		if v := o.RespHeader["Content-Type"]; len(v) > 0 {
			rct = v[0]
		}
		respBody, _ := hex.DecodeString(o.RespBodyHex)
		switch {
		case o.Panic != "":
			outcome, holds, note = "panic", false, "panic: "+firstLine(o.Panic)
		case o.Timeout:
			outcome, holds, note = "timeout", false, "timeout"
		case len(o.HandlerCalls) > 0:
			outcome, holds, note = "dispatched", false, "a request with an undecodable "+[]string{"body", "path value", "query value"}[c.site]+" was dispatched"
		case o.Status == 400:
			outcome = "rejected"
			if fs := violationFields(&o); fs != nil {
				doc = "validation-error"
				sort.Strings(fs)
				fields = fs
				if len(fs) != 1 || fs[0] != c.field {
					holds, note = false, fmt.Sprintf("the 400 names %v, the failing part is %q", fs, c.field)
				}
			} else {
				doc = "plain-text"
				holds, note = false, fmt.Sprintf("400 answered with Content-Type %q and body %q: not a validation error document (the %s quotes a %d-byte token, %s)",
					rct, textShort(respBody), []string{"body parse error", "path value error", "query value error"}[c.site], len(c.tok.text()), c.tok.label)
			}
		default:
			outcome = fmt.Sprintf("status-%d", o.Status)
			holds, note = false, fmt.Sprintf("unexpected status %d", o.Status)
		}
		obs := map[string]any{"outcome": outcome, "document": doc, "fields": fields}
		cr := &CaseResult{ID: fmt.Sprintf("c11tok/%s/%s#%d", c.what, c.tok.label, i), Family: "quoted-token",
			Input: map[string]any{"schema": req.ID, "verb": c.verb, "target": textShort([]byte(c.target)), "target_bytes": len(c.target), "content_type": c.ct, "body_hex": hexShort(c.body), "body_text": textShort(c.body),
				"token": map[string]any{"pad": c.tok.pad, "unit": c.tok.unit, "repeat": c.tok.n, "bytes": len(c.tok.text())}, "site": c.what},
			Obs: obs, OracleHolds: holds, OracleNote: note, NonTrivial: true,
			Features: []string{"quoted-token", "site:" + c.what, "token:" + c.tok.label, "ct:" + c.ct}}
		results = append(results, cr)
		ccs = append(ccs, CoqCase{Term: fmt.Sprintf("(%d%%nat, %s, %s, %d%%nat, %s)", c.site, CoqStr(c.field), CoqStr(c.tok.pad), c.tok.n, CoqStr(c.tok.unit)), Obs: obs})
	}
	vs, err := coqRunDedup(run.WorkDir, "c11tok", "From Sebuf Require Import Text Json Malformed RejectDoc.\n", "", "c11_reject_case", "predict_C11_reject", ccs, 8)
	if err != nil {
		run.Fatal("model evaluation (quoted tokens): %v", err)
	}
	for i, cr := range results {
		cr.Apply(vs[i])
		run.Results = append(run.Results, cr)
	}
	run.Extra["quoted_token_cases"] = len(cases)
}
