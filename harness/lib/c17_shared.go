package lib

import (
	"encoding/hex"
	"encoding/json"
	"fmt"
	"math/rand"
	"net/url"
	"regexp"
	"sort"
	"strings"
	"sync"

	"google.golang.org/protobuf/reflect/protoreflect"
)

// ---- C17 family "shared-message": per-route configuration derived from SHARED request messages ----------
//
// The services Sh* of RouteIsolationCatalogue (cat_headers.go) declare several RPCs over ONE request
// message with different path-variable sets, verbs and query parameters.  2-3 routes of one message are
// called in every order (each order twice over, so that a route is also called after every other one),
// every order in a runner process of its own (state the emitted package keeps at package level lives as
// long as the process), then the same requests concurrently.  What a request binds — and whether it is
// refused — follows from the declaration of the route it is addressed to: body fields (POST/PUT/PATCH),
// overridden by the route's OWN path variables, overridden by the query parameters present in the URL; a
// required query parameter that is absent is answered 400 naming its field.

const c17SharedPrefix = "Sh"

func c17IsShared(svc *Service) bool { return strings.HasPrefix(svc.Name, c17SharedPrefix) }

type c17ShRoute struct {
	svc      *Service
	md       *Method
	msg      *Message
	pathVars []string
	body     bool
}

type c17ShStep struct {
	rt    *c17ShRoute
	path  [][2]string // variable -> value (the route's own variables, template order)
	query [][2]string // query name -> value
	body  [][2]string // proto field name -> text (body verbs only)
}

var c17PathVarRE = regexp.MustCompile(`\{([^{}]+)\}`)

func c17SharedRoutes(req *Request) (all []*c17ShRoute, groups map[string][]*c17ShRoute, order []string) {
	groups = map[string][]*c17ShRoute{}
	for _, svc := range req.Files[0].Services {
		if !c17IsShared(svc) {
			continue
		}
		for _, md := range svc.Methods {
			m, _ := req.FindMessage(md.In)
			rt := &c17ShRoute{svc: svc, md: md, msg: m, body: md.Verb == "POST" || md.Verb == "PUT" || md.Verb == "PATCH"}
			for _, g := range c17PathVarRE.FindAllStringSubmatch(md.Path, -1) {
				rt.pathVars = append(rt.pathVars, g[1])
			}
			all = append(all, rt)
			if _, ok := groups[md.In]; !ok {
				order = append(order, md.In)
			}
			groups[md.In] = append(groups[md.In], rt)
		}
	}
	return
}

// c17ShMkStep: request number k of a sequence on route rt.
func c17ShMkStep(rt *c17ShRoute, k int, rng *rand.Rand) *c17ShStep {
	st := &c17ShStep{rt: rt}
	for _, v := range rt.pathVars {
		st.path = append(st.path, [2]string{v, fmt.Sprintf("u-%s-%d", v, k)})
	}
	for _, f := range rt.msg.Fields {
		if f.Query == nil {
			continue
		}
		val := fmt.Sprintf("q-%s-%d", f.Name, k)
		if f.Kind == "int32" {
			val = fmt.Sprint(1000 + k)
		}
		switch {
		case f.Query.Required && rng.Intn(6) == 0:
			// left out: the route must refuse the request naming this field
		case !f.Query.Required && rng.Intn(2) == 0:
		default:
			st.query = append(st.query, [2]string{f.Query.Name, val})
		}
	}
	if rt.body {
		for _, f := range rt.msg.Fields {
			if rng.Intn(4) == 0 {
				continue
			}
			val := fmt.Sprintf("b-%s-%d", f.Name, k)
			if f.Kind == "int32" {
				val = fmt.Sprint(2000 + k)
			}
			st.body = append(st.body, [2]string{f.Name, val})
		}
	}
	return st
}

func (st *c17ShStep) target() string {
	p := st.rt.svc.BasePath + st.rt.md.Path
	for _, kv := range st.path {
		p = strings.ReplaceAll(p, "{"+kv[0]+"}", url.PathEscape(kv[1]))
	}
	var qs []string
	for _, kv := range st.query {
		qs = append(qs, url.QueryEscape(kv[0])+"="+url.QueryEscape(kv[1]))
	}
	if len(qs) > 0 {
		p += "?" + strings.Join(qs, "&")
	}
	return p
}

func (st *c17ShStep) bodyJSON() []byte {
	m := map[string]any{}
	for _, kv := range st.body {
		var f *Field
		for _, x := range st.rt.msg.Fields {
			if x.Name == kv[0] {
				f = x
			}
		}
		if f != nil && f.Kind == "int32" {
			m[JSONName(kv[0])] = json.Number(kv[1])
		} else {
			m[JSONName(kv[0])] = kv[1]
		}
	}
	b, _ := json.Marshal(m)
	return b
}

type c17ShObs struct {
	Status     int               `json:"status"`
	Handler    bool              `json:"handler"`
	Violations []string          `json:"violations"`
	Fields     map[string]string `json:"fields"`
}

// expected: what the declaration of the step's OWN route demands.
func (st *c17ShStep) expected() *c17ShObs {
	e := &c17ShObs{Status: 200, Handler: true, Violations: []string{}, Fields: map[string]string{}}
	if st.rt.body {
		for _, kv := range st.body {
			e.Fields[kv[0]] = kv[1]
		}
	}
	for _, kv := range st.path {
		e.Fields[kv[0]] = kv[1]
	}
	for _, f := range st.rt.msg.Fields {
		if f.Query == nil {
			continue
		}
		present := false
		for _, kv := range st.query {
			if kv[0] == f.Query.Name {
				e.Fields[f.Name] = kv[1]
				present = true
				break
			}
		}
		if !present && f.Query.Required {
			return &c17ShObs{Status: 400, Violations: []string{f.Name}, Fields: map[string]string{}}
		}
	}
	return e
}

func (st *c17ShStep) describe() string {
	return fmt.Sprintf("%s.%s %s %s", st.rt.svc.Name, st.rt.md.Name, st.rt.md.Verb, st.target())
}

func (st *c17ShStep) coq() string {
	return fmt.Sprintf("{| sq_route := %s; sq_path := %s; sq_query := %s; sq_body := %s |}", CoqStr(st.rt.md.Name), c17CoqPairs(st.path), c17CoqPairs(st.query), c17CoqPairs(st.body))
}

func (rt *c17ShRoute) coq() string {
	var q []string
	for _, f := range rt.msg.Fields {
		if f.Query != nil {
			q = append(q, fmt.Sprintf("(%s, %s, %s)", CoqStr(f.Query.Name), CoqStr(f.Name), CoqBool(f.Query.Required)))
		}
	}
	return fmt.Sprintf("{| sr_name := %s; sr_body := %s; sr_path := %s; sr_query := [%s] |}", CoqStr(rt.md.Name), CoqBool(rt.body), CoqStrList(rt.pathVars), strings.Join(q, "; "))
}

func c17ShDiff(want, got *c17ShObs) string {
	if want.Status != got.Status || want.Handler != got.Handler {
		return fmt.Sprintf("answered %d (handler ran: %v, violations %v), its own declaration demands %d (handler: %v, violations %v)",
			got.Status, got.Handler, got.Violations, want.Status, want.Handler, want.Violations)
	}
	if strings.Join(want.Violations, ",") != strings.Join(got.Violations, ",") {
		return fmt.Sprintf("refused for %v, its own declaration is violated by %v", got.Violations, want.Violations)
	}
	var names []string
	seen := map[string]bool{}
	for k := range want.Fields {
		names = append(names, k)
		seen[k] = true
	}
	for k := range got.Fields {
		if !seen[k] {
			names = append(names, k)
		}
	}
	sort.Strings(names)
	for _, k := range names {
		if want.Fields[k] != got.Fields[k] {
			return fmt.Sprintf("the handler saw %s = %q, the route's own declaration gives %q", k, got.Fields[k], want.Fields[k])
		}
	}
	return ""
}

// permutations of idx
func c17Perms(idx []int) [][]int {
	if len(idx) <= 1 {
		return [][]int{append([]int{}, idx...)}
	}
	var out [][]int
	for i := range idx {
		rest := append(append([]int{}, idx[:i]...), idx[i+1:]...)
		for _, p := range c17Perms(rest) {
			out = append(out, append([]int{idx[i]}, p...))
		}
	}
	return out
}

func c17SharedMessage(run *Run, s *Session, req *Request, rng *rand.Rand) []*CaseResult {
	all, groups, gorder := c17SharedRoutes(req)
	if len(all) == 0 {
		return nil
	}
	g := s.ByID[req.ID]
	stamp(run, "shared-message: start")
	type shseq struct {
		group string
		steps []*c17ShStep
		par   int
		label string
	}
	var seqs []*shseq
	mk := func(group string, rts []*c17ShRoute, ord []int, par int) {
		q := &shseq{group: group, par: par}
		var names []string
		for _, i := range ord {
			names = append(names, rts[i].md.Name)
		}
		q.label = strings.Join(names, ",")
		// the order twice over: every route is also called after every other one
		for rep := 0; rep < 2; rep++ {
			for _, i := range ord {
				q.steps = append(q.steps, c17ShMkStep(rts[i], len(q.steps), rng))
			}
		}
		seqs = append(seqs, q)
	}
	for _, gn := range gorder {
		rts := groups[gn]
		n := len(rts)
		// every pair, both orders; the first order also concurrently
		for a := 0; a < n; a++ {
			for b := a + 1; b < n; b++ {
				mk(gn, rts, []int{a, b}, 1)
				mk(gn, rts, []int{b, a}, 1)
				if (a+b)%2 == 1 || run.Tier == "thorough" {
					mk(gn, rts, []int{a, b}, 4)
				}
			}
		}
		// triples, every order (quick: a seeded sample of the triples)
		var triples [][]int
		for a := 0; a < n; a++ {
			for b := a + 1; b < n; b++ {
				for c := b + 1; c < n; c++ {
					triples = append(triples, []int{a, b, c})
				}
			}
		}
		rng.Shuffle(len(triples), func(i, j int) { triples[i], triples[j] = triples[j], triples[i] })
		if run.Tier != "thorough" && len(triples) > 3 {
			triples = triples[:3]
		}
		for _, t := range triples {
			for _, p := range c17Perms(t) {
				mk(gn, rts, p, 1)
			}
		}
		if run.Tier == "thorough" {
			// every route of the message, seeded orders
			idx := make([]int, n)
			for i := range idx {
				idx[i] = i
			}
			for k := 0; k < 24; k++ {
				rng.Shuffle(n, func(i, j int) { idx[i], idx[j] = idx[j], idx[i] })
				mk(gn, rts, idx, []int{1, 1, 8}[k%3])
			}
		}
	}
	// one runner process per sequence
	raws := make([]json.RawMessage, len(seqs))
	errs := make([]error, len(seqs))
	var wg sync.WaitGroup
	sem := make(chan struct{}, 16)
	for i, q := range seqs {
		var sts []any
		for _, st := range q.steps {
			m := map[string]any{"verb": st.rt.md.Verb, "target": st.target(), "headers": [][2]string{{"Content-Type", "application/json"}}, "script": map[string]any{}}
			if st.rt.body {
				m["body"] = hex.EncodeToString(st.bodyJSON())
			}
			sts = append(sts, m)
		}
		sc := map[string]any{"id": fmt.Sprint(i), "kind": "rawseq", "pkg": req.ID, "raw_steps": sts, "parallelism": q.par}
		wg.Add(1)
		go func(i int, sc map[string]any) {
			defer wg.Done()
			sem <- struct{}{}
			defer func() { <-sem }()
			r, err := RunScenarios(s.Runner, []any{sc}, 1)
			if err != nil {
				errs[i] = err
				return
			}
			raws[i] = r[0]
		}(i, sc)
	}
	wg.Wait()
	stamp(run, fmt.Sprintf("shared-message: %d sequences served", len(seqs)))
	for i, err := range errs {
		if err != nil {
			run.Fatal("runner (shared-message sequence %d): %v", i, err)
		}
	}
	var tbl []string
	for _, rt := range all {
		tbl = append(tbl, rt.coq())
	}
	defs := "Definition shtable : list sroute :=\n  [" + strings.Join(tbl, ";\n   ") + "].\n"
	var results []*CaseResult
	var ccs []CoqCase
	for i, q := range seqs {
		var o RunnerObs
		if err := json.Unmarshal(raws[i], &o); err != nil || o.Error != "" || (o.Panic == "" && len(o.Sub) != len(q.steps)) {
			run.Fatal("bad observation (shared-message sequence %d): %v %s", i, err, o.Error)
		}
		fam := "shared-message"
		if q.par > 1 {
			fam = "shared-message-concurrent"
		}
		bad, note := 0, ""
		if o.Panic != "" {
			bad, note = 1, "registration: "+firstLine(o.Panic)
		}
		var stepObs, stepIn []any
		var terms []string
		for k, st := range q.steps {
			if k >= len(o.Sub) {
				break
			}
			sub := &o.Sub[k]
			got := &c17ShObs{Status: sub.Status, Handler: len(sub.HandlerCalls) > 0, Violations: []string{}, Fields: map[string]string{}}
			problem := ""
			switch {
			case sub.Panic != "":
				problem = "panic: " + firstLine(sub.Panic)
			case sub.Error != "":
				run.Fatal("runner error in shared-message sequence %d step %d: %s", i, k, sub.Error)
			}
			if sub.Status == 400 {
				fs := violationFields(sub)
				if fs == nil {
					fs = []string{"<undecodable 400 body>"}
				}
				sort.Strings(fs)
				got.Violations = fs
			}
			if len(sub.HandlerCalls) > 0 {
				m, err := g.Built.FromWireHex(st.rt.md.In, sub.HandlerCalls[0].Req)
				if err != nil {
					run.Fatal("shared-message sequence %d step %d: handler request does not decode: %v", i, k, err)
				}
				m.Range(func(fd protoreflect.FieldDescriptor, v protoreflect.Value) bool {
					got.Fields[string(fd.Name())] = fmt.Sprint(v.Interface())
					return true
				})
			}
			if problem == "" {
				problem = c17ShDiff(st.expected(), got)
			}
			if problem != "" {
				bad++
				if note == "" {
					note = fmt.Sprintf("request %d of the sequence, %s", k, st.describe())
					if q.par <= 1 && k > 0 {
						var before []string
						for _, p := range q.steps[:k] {
							before = append(before, p.rt.md.Name)
						}
						note += fmt.Sprintf(" (same process, after %s)", strings.Join(before, ", "))
					}
					note += ": " + problem
				}
			}
			stepObs = append(stepObs, got)
			stepIn = append(stepIn, map[string]any{"method": st.rt.md.Name, "verb": st.rt.md.Verb, "template": st.rt.svc.BasePath + st.rt.md.Path, "target": st.target(), "body": string(st.bodyJSON()),
				"request_message": st.rt.md.In})
			terms = append(terms, st.coq())
		}
		if bad > 1 {
			note = fmt.Sprintf("%s (and %d more requests)", note, bad-1)
		}
		obs := map[string]any{"steps": stepObs}
		input := map[string]any{"request_message": q.group, "order": q.label, "requests": stepIn, "fresh_process": true}
		if q.par > 1 {
			input["parallelism"] = q.par
		}
		cr := &CaseResult{ID: fmt.Sprintf("%s/%s/%s", q.group, map[bool]string{false: "seq", true: "par"}[q.par > 1], q.label), Family: fam, Input: input, Obs: obs,
			OracleHolds: bad == 0, OracleNote: note, NonTrivial: true,
			Features: []string{fam, fmt.Sprintf("routes:%d", len(q.steps)/2), "message:" + q.group}}
		results = append(results, cr)
		ccs = append(ccs, CoqCase{Term: "(shtable,\n [" + strings.Join(terms, ";\n  ") + "])", Obs: obs})
	}
	vs, err := CoqRun(run.WorkDir, "c17shared", "From Sebuf Require Import Text Json Schema Headers Conc.\n", defs, "c17_shared_case", "predict_C17_shared", ccs, 8)
	if err != nil {
		run.Fatal("model evaluation (shared-message): %v", err)
	}
	for i, cr := range results {
		cr.Apply(vs[i])
	}
	stamp(run, "shared-message: model evaluated")
	run.Extra["shared_message_sequences"] = len(seqs)
	return results
}
