package lib

// CodecCatalogue: schemas for C04 / C05.  The feature catalogue (one package per JSON-mapping
// feature x shape) plus, for every annotated construct T, a package that places T in each context
// the properties quantify over: top level, singular child of an unannotated parent, repeated
// element, map value, plain oneof variant, flatten child, discriminated-oneof variant (nested and
// flattened), element of an unwrapped list, sibling of an unwrap map.

type ctxOpts struct {
	noFlatten bool // T's JSON form is not an object (root unwrap): no flatten / flattened-oneof context
}

func contextReq(id string, enums []*Enum, ann []*Message, T string, o ctxOpts) *Request {
	pkg := id + ".v1"
	q := func(n string) string { return pkg + "." + n }
	msgs := append([]*Message{}, ann...)
	msgs = append(msgs,
		M("Other", F("note", 1, "string")),
		M("TList", F("items", 1, "", Msg(q(T)), Rep(), Unwrap())),
		M("InPlain", F("hid", 1, "string"), F("one", 2, "", Msg(q(T))), F("list", 3, "", Msg(q(T)), Rep()), F("by_key", 4, "", Msg(q(T)), MapOf("string"))),
		M("InChoice", F("hid", 1, "string"), F("pick", 5, "", Msg(q(T)), InOneof("choice")), F("other", 6, "string", InOneof("choice"))).WithOneofs(&Oneof{Name: "choice"}),
		M("InDisc", F("hid", 1, "string"), F("val", 2, "", Msg(q(T)), InOneof("payload")), F("alt", 3, "", Msg(q("Other")), InOneof("payload"), OneofVal("o")),
			F("txt", 4, "string", InOneof("payload"))).WithOneofs(&Oneof{Name: "payload", HasConfig: true, Discriminator: "type"}),
		M("InSibling", F("series", 1, "", Msg(q("TList")), MapOf("string")), F("side", 2, "", Msg(q(T))), F("total_count", 3, "int64"), F("label", 4, "string"),
			F("sides", 5, "", Msg(q(T)), Rep()), F("side_map", 6, "", Msg(q(T)), MapOf("string")), F("ratio", 7, "double"), F("flags", 8, "bool", Rep())),
	)
	tops := []string{T, "TList", "InPlain", "InChoice", "InDisc", "InSibling"}
	if !o.noFlatten {
		msgs = append(msgs,
			M("InFlat", F("hid", 1, "string"), F("inner", 2, "", Msg(q(T)), Flatten(true)), F("pre", 3, "", Msg(q(T)), Flatten(true), FlattenPrefix("p_"))),
			M("InDiscFlat", F("hid", 1, "string"), F("val", 2, "", Msg(q(T)), InOneof("payload")), F("alt", 3, "", Msg(q("Other")), InOneof("payload"))).
				WithOneofs(&Oneof{Name: "payload", HasConfig: true, Discriminator: "kind", Flatten: true}),
		)
		tops = append(tops, "InFlat", "InDiscFlat")
	}
	r := featureReq(id, enums, msgs, tops...)
	r.Tags = append(r.Tags, "contexts")
	return r
}

// flatContextReq: T as a flatten child (with and without prefix) and as a variant of a flattened
// discriminated oneof, for constructs whose own JSON form comes from a oneof / flatten / unwrap-map
// codec (kept in a package of its own: the generators refuse some of these combinations).
func flatContextReq(id string, enums []*Enum, ann []*Message, T string, withPrefix bool) *Request {
	pkg := id + ".v1"
	q := func(n string) string { return pkg + "." + n }
	msgs := append([]*Message{}, ann...)
	inFlat := M("InFlat", F("hid", 1, "string"), F("inner", 2, "", Msg(q(T)), Flatten(true)), F("tail_note", 4, "string"))
	if withPrefix {
		inFlat = M("InFlat", F("hid", 1, "string"), F("inner", 2, "", Msg(q(T)), Flatten(true)), F("pre", 3, "", Msg(q(T)), Flatten(true), FlattenPrefix("p_")), F("tail_note", 4, "string"))
	}
	msgs = append(msgs, M("Other", F("note", 1, "string")), inFlat,
		M("InDiscFlat", F("hid", 1, "string"), F("val", 2, "", Msg(q(T)), InOneof("payload")), F("alt", 3, "", Msg(q("Other")), InOneof("payload"))).
			WithOneofs(&Oneof{Name: "payload", HasConfig: true, Discriminator: "kind", Flatten: true}))
	r := featureReq(id, enums, msgs, T, "InFlat", "InDiscFlat")
	r.Tags = append(r.Tags, "contexts", "flat-contexts")
	return r
}

func CodecCatalogue() []*Request {
	out := FeatureCatalogue()
	add := func(r *Request) { out = append(out, r) }
	q := func(id, t string) string { return id + ".v1." + t }

	// every scalar kind x cardinality under plain proto3
	{
		kinds := []string{"double", "float", "int32", "int64", "uint32", "uint64", "sint32", "sint64", "fixed32", "fixed64", "sfixed32", "sfixed64", "bool", "string", "bytes"}
		var s1, s2, s3, s4 []*Field
		for i, k := range kinds {
			s1 = append(s1, F("s_"+k, int32(i+1), k))
			s2 = append(s2, F("o_"+k, int32(i+1), k, Opt()))
			s3 = append(s3, F("r_"+k, int32(i+1), k, Rep()))
		}
		for i, k := range []string{"int32", "int64", "uint32", "uint64", "sint32", "sint64", "fixed32", "fixed64", "sfixed32", "sfixed64", "bool", "string"} {
			s4 = append(s4, F("m_"+k, int32(i+1), "string", MapOf(k)))
		}
		s4 = append(s4, F("m_vals", 20, "double", MapOf("string")), F("m_bytes", 21, "bytes", MapOf("string")), F("m_ts", 22, "", Msg(Timestamp), MapOf("int32")),
			F("r_ts", 23, "", Msg(Timestamp), Rep()), F("o_ts", 24, "", Msg(Timestamp), Opt()))
		add(featureReq("cxkinds", []*Enum{E("Tone", "TONE_UNSPECIFIED", "TONE_LOW", "TONE_HIGH")}, []*Message{
			M("Singles", s1...), M("Optionals", s2...), M("Lists", s3...), M("Maps", s4...),
			M("Enums", F("e", 1, "", EnumT(q("cxkinds", "Tone"))), F("oe", 2, "", EnumT(q("cxkinds", "Tone")), Opt()), F("re", 3, "", EnumT(q("cxkinds", "Tone")), Rep()),
				F("me", 4, "", EnumT(q("cxkinds", "Tone")), MapOf("string")), F("pick_e", 5, "", EnumT(q("cxkinds", "Tone")), InOneof("c")), F("pick_n", 6, "int64", InOneof("c")),
				F("pick_b", 7, "bytes", InOneof("c")), F("pick_f", 8, "float", InOneof("c"))).WithOneofs(&Oneof{Name: "c"}),
		}, "Singles", "Optionals", "Lists", "Maps", "Enums"))
	}

	// annotated constructs in every context
	add(contextReq("cxi64", nil, []*Message{
		M("Nums", F("big", 1, "int64", I64("NUMBER")), F("big_count", 2, "uint64", I64("NUMBER")), F("n_1", 3, "sint64", I64("NUMBER")),
			F("as_text", 4, "int64", I64("STRING")), F("plain", 5, "int64"), F("name", 6, "string"), F("many", 7, "fixed64", Rep(), I64("NUMBER")),
			F("by_k", 8, "int64", MapOf("string"), I64("NUMBER"))),
	}, "Nums", ctxOpts{}))
	add(contextReq("cxnull", nil, []*Message{
		M("Nul", F("nick", 1, "string", Opt(), Nullable(true)), F("age_years", 2, "int32", Opt(), Nullable(true)), F("big", 3, "int64", Opt(), Nullable(true)),
			F("on", 4, "bool", Opt(), Nullable(true)), F("score", 5, "double", Opt(), Nullable(true)), F("plain_opt", 6, "string", Opt()), F("name", 7, "string")),
	}, "Nul", ctxOpts{}))
	// nullable on an optional ENUM field (accepted by ValidateNullableAnnotation)
	{
		shade := &Enum{Name: "Shade", Values: []*EnumValue{{Name: "SHADE_UNSPECIFIED", Number: 0, EnumValue: Str("none")}, {Name: "SHADE_DARK", Number: 1, EnumValue: Str("dark")}}}
		add(featureReq("cxnullenum", []*Enum{E("Color", "COLOR_UNSPECIFIED", "COLOR_RED"), shade}, []*Message{
			M("NulE", F("color", 1, "", EnumT(q("cxnullenum", "Color")), Opt(), Nullable(true)), F("name", 2, "string"),
				F("shade", 3, "", EnumT(q("cxnullenum", "Shade")), Opt(), Nullable(true)),
				F("color_num", 4, "", EnumT(q("cxnullenum", "Color")), Opt(), Nullable(true), EnumEnc("NUMBER"))),
		}, "NulE"))
	}
	add(contextReq("cxempty", nil, []*Message{
		M("Meta", F("k", 1, "string"), F("n", 2, "int32")),
		M("Emp", F("keep", 1, "", Msg(q("cxempty", "Meta")), Empty("PRESERVE")), F("nul_it", 2, "", Msg(q("cxempty", "Meta")), Empty("NULL")),
			F("omit", 3, "", Msg(q("cxempty", "Meta")), Empty("OMIT")), F("plain", 4, "", Msg(q("cxempty", "Meta"))), F("name", 5, "string")),
	}, "Emp", ctxOpts{}))
	// empty_behavior on well-known Timestamp children (the epoch has proto.Size 0)
	add(featureReq("cxemptyts", nil, []*Message{
		M("EmpTs", F("nul_at", 1, "", Msg(Timestamp), Empty("NULL")), F("omit_at", 2, "", Msg(Timestamp), Empty("OMIT")), F("keep_at", 3, "", Msg(Timestamp), Empty("PRESERVE")), F("name", 4, "string")),
	}, "EmpTs"))
	add(contextReq("cxts", nil, []*Message{
		M("Times", F("r", 1, "", Msg(Timestamp), TsFmt("RFC3339")), F("secs", 2, "", Msg(Timestamp), TsFmt("UNIX_SECONDS")), F("at_ms", 3, "", Msg(Timestamp), TsFmt("UNIX_MILLIS")),
			F("day", 4, "", Msg(Timestamp), TsFmt("DATE")), F("plain", 5, "", Msg(Timestamp)), F("name", 6, "string")),
	}, "Times", ctxOpts{}))
	add(contextReq("cxbytes", nil, []*Message{
		M("Blob", F("h", 1, "bytes", BytesEnc("HEX")), F("b64", 2, "bytes", BytesEnc("BASE64")), F("raw_b", 3, "bytes", BytesEnc("BASE64_RAW")),
			F("u", 4, "bytes", BytesEnc("BASE64URL")), F("ur", 5, "bytes", BytesEnc("BASE64URL_RAW")), F("plain", 6, "bytes"), F("name", 7, "string"),
			F("oh", 8, "bytes", Opt(), BytesEnc("HEX"))),
	}, "Blob", ctxOpts{}))
	{
		st := &Enum{Name: "Status", Values: []*EnumValue{{Name: "STATUS_UNSPECIFIED", Number: 0}, {Name: "STATUS_ACTIVE", Number: 1, EnumValue: Str("active")}, {Name: "STATUS_GONE", Number: 2, EnumValue: Str("gone")}}}
		add(contextReq("cxenum", []*Enum{st, E("Level", "LEVEL_UNSPECIFIED", "LEVEL_LOW", "LEVEL_HIGH")}, []*Message{
			M("WithEnum", F("status", 1, "", EnumT(q("cxenum", "Status"))), F("level", 2, "", EnumT(q("cxenum", "Level")), EnumEnc("NUMBER")), F("plain_level", 3, "", EnumT(q("cxenum", "Level"))),
				F("statuses", 4, "", EnumT(q("cxenum", "Status")), Rep()), F("name", 5, "string"), F("str_level", 6, "", EnumT(q("cxenum", "Level")), EnumEnc("STRING"))),
		}, "WithEnum", ctxOpts{}))
	}
	add(contextReq("cxflat", nil, []*Message{
		M("Addr", F("street", 1, "string"), F("zip_code", 2, "string"), F("floor", 3, "int32"), F("big", 4, "int64")),
		M("Person", F("pid", 1, "string"), F("home", 2, "", Msg(q("cxflat", "Addr")), Flatten(true)), F("work", 3, "", Msg(q("cxflat", "Addr")), Flatten(true), FlattenPrefix("work_")), F("age", 4, "int32")),
	}, "Person", ctxOpts{noFlatten: true}))
	add(contextReq("cxoneof", nil, []*Message{
		M("TextP", F("body", 1, "string"), F("lang_code", 2, "string")), M("ImageP", F("url", 1, "string"), F("width", 2, "int32"), F("size", 3, "int64"), F("taken", 4, "", Msg(Timestamp))),
		M("Event", F("eid", 1, "string"), F("text", 2, "", Msg(q("cxoneof", "TextP")), InOneof("content")), F("image", 3, "", Msg(q("cxoneof", "ImageP")), InOneof("content"), OneofVal("img")),
			F("note", 4, "string", InOneof("content"))).WithOneofs(&Oneof{Name: "content", HasConfig: true, Discriminator: "ctype"}),
	}, "Event", ctxOpts{noFlatten: true}))
	add(contextReq("cxoneofflat", nil, []*Message{
		M("TextP", F("body", 1, "string")), M("ImageP", F("url", 1, "string"), F("width", 2, "int32")),
		M("WideP", F("alt_text", 1, "string"), F("size", 2, "int64"), F("taken", 3, "", Msg(Timestamp))),
		M("FlatEvent", F("eid", 1, "string"), F("text", 2, "", Msg(q("cxoneofflat", "TextP")), InOneof("content")), F("image", 3, "", Msg(q("cxoneofflat", "ImageP")), InOneof("content"), OneofVal("img")),
			F("wide", 4, "", Msg(q("cxoneofflat", "WideP")), InOneof("content"))).WithOneofs(&Oneof{Name: "content", HasConfig: true, Discriminator: "ctype", Flatten: true}),
	}, "FlatEvent", ctxOpts{noFlatten: true}))
	add(contextReq("cxunwrap", nil, []*Message{
		M("Bar", F("t", 1, "int64"), F("px", 2, "double"), F("sym", 3, "string"), F("open_at", 4, "", Msg(Timestamp))),
		M("BarList", F("bars", 1, "", Msg(q("cxunwrap", "Bar")), Rep(), Unwrap())),
	}, "BarList", ctxOpts{noFlatten: true}))
	add(contextReq("cxunwrapmap", nil, []*Message{
		M("Bar", F("t", 1, "int64"), F("sym", 2, "string")),
		M("BarList", F("bars", 1, "", Msg(q("cxunwrapmap", "Bar")), Rep(), Unwrap())),
		M("Series", F("by_sym", 1, "", Msg(q("cxunwrapmap", "BarList")), MapOf("string")), F("total_count", 2, "int64"), F("label", 3, "string"), F("raw", 4, "bytes"),
			F("ids", 6, "uint64", Rep()), F("weights", 7, "float", MapOf("string"))),
	}, "Series", ctxOpts{noFlatten: true}))
	// constructs with a oneof / flatten / unwrap-map codec of their own, as flatten children
	add(flatContextReq("cfxflat", nil, []*Message{
		M("Addr", F("street", 1, "string"), F("zip_code", 2, "string"), F("floor", 3, "int32")),
		M("Person", F("pid", 1, "string"), F("home", 2, "", Msg(q("cfxflat", "Addr")), Flatten(true)), F("age", 4, "int32")),
	}, "Person", true))
	add(flatContextReq("cfxoneof", nil, []*Message{
		M("TextP", F("body", 1, "string")), M("ImageP", F("url", 1, "string"), F("width", 2, "int32")),
		M("Event", F("eid", 1, "string"), F("text", 2, "", Msg(q("cfxoneof", "TextP")), InOneof("content")), F("image", 3, "", Msg(q("cfxoneof", "ImageP")), InOneof("content"), OneofVal("img")),
			F("note", 4, "string", InOneof("content"))).WithOneofs(&Oneof{Name: "content", HasConfig: true, Discriminator: "ctype"}),
	}, "Event", true))
	add(flatContextReq("cfxoneofflat", nil, []*Message{
		M("TextP", F("body", 1, "string")), M("ImageP", F("url", 1, "string"), F("width", 2, "int32")),
		M("FlatEvent", F("eid", 1, "string"), F("text", 2, "", Msg(q("cfxoneofflat", "TextP")), InOneof("content")), F("image", 3, "", Msg(q("cfxoneofflat", "ImageP")), InOneof("content"), OneofVal("img"))).
			WithOneofs(&Oneof{Name: "content", HasConfig: true, Discriminator: "ctype", Flatten: true}),
	}, "FlatEvent", false))
	add(flatContextReq("cfxunwrapmap", nil, []*Message{
		M("Bar", F("t", 1, "int64"), F("sym", 2, "string")),
		M("BarList", F("bars", 1, "", Msg(q("cfxunwrapmap", "Bar")), Rep(), Unwrap())),
		M("Series", F("by_sym", 1, "", Msg(q("cfxunwrapmap", "BarList")), MapOf("string")), F("label", 3, "string")),
	}, "Series", true))
	// every codec feature on messages declared inside other messages (annotated, plain and field-less parents)
	out = append(out, C14NestedCatalogue("quick")...)
	// discriminated-oneof corners the round-trip proof (proofs/OneofFacts.v) had to exclude by side conditions
	add(featureReq("cxoneofkeys", nil, []*Message{
		M("Text", F("text", 1, "string"), F("lang", 2, "string")), M("Memo", F("memo", 1, "string")),
		// flattened: the variant field is called like a field of its own message
		M("FlatSame", F("id", 1, "string"), F("text", 2, "", Msg(q("cxoneofkeys", "Text")), InOneof("c")), F("note", 3, "", Msg(q("cxoneofkeys", "Memo")), InOneof("c"))).
			WithOneofs(&Oneof{Name: "c", HasConfig: true, Discriminator: "kind", Flatten: true}),
	}, "FlatSame"))
	add(featureReq("cxoneofdisc", nil, []*Message{
		M("Text", F("text", 1, "string"), F("lang", 2, "string")),
		// a member whose JSON name is the discriminator of its own oneof
		M("DiscSame", F("id", 1, "string"), F("kind", 2, "string", InOneof("c")), F("text", 3, "", Msg(q("cxoneofdisc", "Text")), InOneof("c"))).
			WithOneofs(&Oneof{Name: "c", HasConfig: true, Discriminator: "kind"}),
	}, "DiscSame"))
	// value shapes found by the side condition variant_no_gap of C04_roundtrip_oneof_partial (proofs/OneofFacts.v): the
	// variant is rendered / read by encoding/json reflection and loses data or cannot read its own output
	add(featureReq("cxoneofgaps", nil, []*Message{
		M("Opt", F("blob", 1, "bytes", Opt()), F("name", 2, "string")),
		M("BoolMap", F("flags", 1, "string", MapOf("bool")), F("name", 2, "string")),
		M("Floats", F("xs", 1, "double", Rep()), F("by_k", 2, "float", MapOf("string")), F("name", 3, "string")),
		M("Fold", F("foo_bar", 1, "string"), F("foobar", 2, "string")),
		M("FoldInt", F("alt_text", 1, "string"), F("alttext", 2, "int32")),
		M("NestGaps", F("id", 1, "string"), F("fl", 2, "", Msg(q("cxoneofgaps", "Floats")), InOneof("c")), F("fo", 3, "", Msg(q("cxoneofgaps", "Fold")), InOneof("c")),
			F("bm", 4, "", Msg(q("cxoneofgaps", "BoolMap")), InOneof("c")), F("opt", 5, "", Msg(q("cxoneofgaps", "Opt")), InOneof("c")),
			F("fi", 6, "", Msg(q("cxoneofgaps", "FoldInt")), InOneof("c"))).
			WithOneofs(&Oneof{Name: "c", HasConfig: true, Discriminator: "kind"}),
		M("FlatGaps", F("id", 1, "string"), F("opt", 2, "", Msg(q("cxoneofgaps", "Opt")), InOneof("c")), F("bm", 3, "", Msg(q("cxoneofgaps", "BoolMap")), InOneof("c")),
			F("fl", 4, "", Msg(q("cxoneofgaps", "Floats")), InOneof("c")), F("fo", 5, "", Msg(q("cxoneofgaps", "Fold")), InOneof("c"))).
			WithOneofs(&Oneof{Name: "c", HasConfig: true, Discriminator: "kind", Flatten: true}),
	}, "FlatGaps", "NestGaps"))
	// root map whose values are wrappers of SCALAR / enum lists (combined form): nil inner lists, enums with a codec
	{
		st := &Enum{Name: "Tone", Values: []*EnumValue{{Name: "TONE_UNSPECIFIED", Number: 0}, {Name: "TONE_LOW", Number: 1, EnumValue: Str("low")}, {Name: "TONE_HIGH", Number: 2}}}
		add(featureReq("cxrootcombo", []*Enum{st}, []*Message{
			M("StrList", F("b", 1, "string", Rep(), Unwrap())), M("ToneList", F("tones", 1, "", EnumT(q("cxrootcombo", "Tone")), Rep(), Unwrap())),
			M("NumList", F("ns", 1, "int64", Rep(), Unwrap()), F("note", 2, "string")),
			M("TagCombo", F("by_k", 1, "", Msg(q("cxrootcombo", "StrList")), MapOf("string"), Unwrap())),
			M("ToneCombo", F("by_k", 1, "", Msg(q("cxrootcombo", "ToneList")), MapOf("string"), Unwrap())),
			M("NumCombo", F("by_k", 1, "", Msg(q("cxrootcombo", "NumList")), MapOf("string"), Unwrap())),
			M("Tones", F("tones", 1, "", EnumT(q("cxrootcombo", "Tone")), Rep(), Unwrap())),
		}, "TagCombo", "ToneCombo", "NumCombo", "Tones"))
	}
	// root unwrap forms not in the feature catalogue
	add(featureReq("cxroot", nil, []*Message{
		M("Bar", F("t", 1, "int64"), F("sym", 2, "string")),
		M("Nums", F("vals", 1, "int64", Rep(), Unwrap())), M("Scores", F("by_team", 1, "int32", MapOf("string"), Unwrap())),
		M("BigScores", F("by_team", 1, "int64", MapOf("string"), Unwrap())),
		M("IntList", F("values", 1, "int32", Rep(), Unwrap())), M("ScoreBoard", F("scores", 1, "", Msg(q("cxroot", "IntList")), MapOf("string")), F("season", 2, "string")),
		M("Wide", F("bars", 1, "", Msg(q("cxroot", "Bar")), Rep(), Unwrap()), F("note", 2, "string")),
		M("WideHolder", F("by_sym", 1, "", Msg(q("cxroot", "Wide")), MapOf("string")), F("one", 2, "", Msg(q("cxroot", "Wide")))),
	}, "Nums", "Scores", "BigScores", "ScoreBoard", "WideHolder"))
	return out
}
