package lib

import (
	"fmt"
	"math/rand"
)

// cat_c12.go — the rule × placement × surrounding-content catalogue of C12.
//
// Every case says, independently of the model, which documented rule it breaks (Rule, "" = none),
// where the offending construct sits (Placement) and what the offender is called (Offenders: the
// error text has to mention one of them). Offender names are distinctive (Zq…/zq_…) so that a
// substring test on the error text is meaningful.

type C12Offender struct{ Msg, Item string }

type C12Case struct {
	Req        *Request
	Rule       string // documented rule the definition breaks; "" = the definition breaks none
	Placement  string // top | nested | svcless | imported
	Surround   string // min | rich
	ClientRule bool   // a JSON-mapping rule protoc-gen-go-client implements (all but unwrap; not the HTTP rules)
	Offenders  []C12Offender
	Family     string
	Note       string
	// NestedOrder: order of nested_type (map entries interleaved) imposed on the built descriptors
	NestedOrder []C12NestedOrder
}

type c12Frag struct {
	Msgs  []*Message
	Enums []*Enum
	Off   []C12Offender
	RPCs  []*Method
}

type c12Rule struct {
	ID     string
	Client bool
	Build  func(q func(string) string) *c12Frag
}

func c12Zq(item string) []C12Offender { return []C12Offender{{Msg: "ZqBad", Item: item}} }

// c12Rules: one or more witnesses per documented rule.
func c12Rules() []c12Rule {
	child := func() *Message { return M("ZqChild", F("street", 1, "string"), F("zip_code", 2, "string")) }
	var rs []c12Rule
	add := func(id string, client bool, b func(q func(string) string) *c12Frag) {
		rs = append(rs, c12Rule{ID: id, Client: client, Build: b})
	}
	// ---- unwrap ----
	add("unwrap-non-repeated", false, func(q func(string) string) *c12Frag {
		return &c12Frag{Msgs: []*Message{M("ZqBad", F("zq_item", 1, "string", Unwrap()))}, Off: c12Zq("zq_item")}
	})
	add("unwrap-non-repeated/message", false, func(q func(string) string) *c12Frag {
		return &c12Frag{Msgs: []*Message{M("ZqBad", F("label", 1, "string"), F("zq_item", 2, "", Msg(q("ZqChild")), Unwrap())), child()}, Off: c12Zq("zq_item")}
	})
	add("unwrap-twice", false, func(q func(string) string) *c12Frag {
		return &c12Frag{Msgs: []*Message{M("ZqBad", F("first_list", 1, "string", Rep(), Unwrap()), F("zq_item", 2, "int32", Rep(), Unwrap()))}, Off: c12Zq("zq_item")}
	})
	add("unwrap-map-not-alone", false, func(q func(string) string) *c12Frag {
		return &c12Frag{Msgs: []*Message{M("ZqBad", F("zq_item", 1, "", Msg(q("ZqChild")), MapOf("string"), Unwrap()), F("label", 2, "string")), child()}, Off: c12Zq("zq_item")}
	})
	// ---- nullable ----
	add("nullable-non-optional", true, func(q func(string) string) *c12Frag {
		return &c12Frag{Msgs: []*Message{M("ZqBad", F("id", 1, "string"), F("zq_item", 2, "string", Nullable(true)))}, Off: c12Zq("zq_item")}
	})
	add("nullable-non-optional/repeated", true, func(q func(string) string) *c12Frag {
		return &c12Frag{Msgs: []*Message{M("ZqBad", F("zq_item", 1, "int32", Rep(), Nullable(true)))}, Off: c12Zq("zq_item")}
	})
	add("nullable-message", true, func(q func(string) string) *c12Frag {
		return &c12Frag{Msgs: []*Message{M("ZqBad", F("zq_item", 1, "", Msg(q("ZqChild")), Opt(), Nullable(true))), child()}, Off: c12Zq("zq_item")}
	})
	// ---- empty_behavior ----
	add("empty-behavior-wrong-type/scalar", true, func(q func(string) string) *c12Frag {
		return &c12Frag{Msgs: []*Message{M("ZqBad", F("zq_item", 1, "string", Empty("NULL")))}, Off: c12Zq("zq_item")}
	})
	add("empty-behavior-wrong-type/repeated", true, func(q func(string) string) *c12Frag {
		return &c12Frag{Msgs: []*Message{M("ZqBad", F("zq_item", 1, "", Msg(q("ZqChild")), Rep(), Empty("OMIT"))), child()}, Off: c12Zq("zq_item")}
	})
	add("empty-behavior-wrong-type/map", true, func(q func(string) string) *c12Frag {
		return &c12Frag{Msgs: []*Message{M("ZqBad", F("zq_item", 1, "", Msg(q("ZqChild")), MapOf("string"), Empty("PRESERVE"))), child()}, Off: c12Zq("zq_item")}
	})
	// ---- timestamp_format ----
	add("timestamp-format-wrong-type/string", true, func(q func(string) string) *c12Frag {
		return &c12Frag{Msgs: []*Message{M("ZqBad", F("zq_item", 1, "string", TsFmt("UNIX_SECONDS")))}, Off: c12Zq("zq_item")}
	})
	add("timestamp-format-wrong-type/message", true, func(q func(string) string) *c12Frag {
		return &c12Frag{Msgs: []*Message{M("ZqBad", F("zq_item", 1, "", Msg(q("ZqChild")), TsFmt("RFC3339"))), child()}, Off: c12Zq("zq_item")}
	})
	add("timestamp-format-wrong-type/int64", true, func(q func(string) string) *c12Frag {
		return &c12Frag{Msgs: []*Message{M("ZqBad", F("at", 1, "", Msg(Timestamp), TsFmt("DATE")), F("zq_item", 2, "int64", TsFmt("UNIX_MILLIS")))}, Off: c12Zq("zq_item")}
	})
	// ---- bytes_encoding ----
	add("bytes-encoding-wrong-type/string", true, func(q func(string) string) *c12Frag {
		return &c12Frag{Msgs: []*Message{M("ZqBad", F("zq_item", 1, "string", BytesEnc("HEX")))}, Off: c12Zq("zq_item")}
	})
	add("bytes-encoding-wrong-type/base64-on-int", true, func(q func(string) string) *c12Frag {
		return &c12Frag{Msgs: []*Message{M("ZqBad", F("raw", 1, "bytes", BytesEnc("HEX")), F("zq_item", 2, "int32", BytesEnc("BASE64")))}, Off: c12Zq("zq_item")}
	})
	// ---- flatten ----
	add("flatten-repeated", true, func(q func(string) string) *c12Frag {
		return &c12Frag{Msgs: []*Message{M("ZqBad", F("id", 1, "string"), F("zq_item", 2, "", Msg(q("ZqChild")), Rep(), Flatten(true))), child()}, Off: c12Zq("zq_item")}
	})
	add("flatten-map", true, func(q func(string) string) *c12Frag {
		return &c12Frag{Msgs: []*Message{M("ZqBad", F("id", 1, "string"), F("zq_item", 2, "", Msg(q("ZqChild")), MapOf("string"), Flatten(true))), child()}, Off: c12Zq("zq_item")}
	})
	add("flatten-scalar", true, func(q func(string) string) *c12Frag {
		return &c12Frag{Msgs: []*Message{M("ZqBad", F("id", 1, "string"), F("zq_item", 2, "int32", Flatten(true)))}, Off: c12Zq("zq_item")}
	})
	add("flatten-oneof-member", true, func(q func(string) string) *c12Frag {
		return &c12Frag{Msgs: []*Message{M("ZqBad", F("id", 1, "string"), F("zq_item", 2, "", Msg(q("ZqChild")), InOneof("pick"), Flatten(true)), F("other", 3, "string", InOneof("pick"))).WithOneofs(&Oneof{Name: "pick"}), child()}, Off: c12Zq("zq_item")}
	})
	add("flatten-collision/parent", true, func(q func(string) string) *c12Frag {
		return &c12Frag{Msgs: []*Message{M("ZqBad", F("street", 1, "string"), F("zq_item", 2, "", Msg(q("ZqChild")), Flatten(true))), child()}, Off: c12Zq("zq_item")}
	})
	add("flatten-collision/siblings", true, func(q func(string) string) *c12Frag {
		return &c12Frag{Msgs: []*Message{M("ZqBad", F("id", 1, "string"), F("home", 2, "", Msg(q("ZqChild")), Flatten(true)), F("zq_item", 3, "", Msg(q("ZqChild")), Flatten(true))), child()}, Off: c12Zq("zq_item")}
	})
	add("flatten-collision/prefix", true, func(q func(string) string) *c12Frag {
		// prefix "zip" + child "code" = "zipcode"; parent field zipcode
		return &c12Frag{Msgs: []*Message{M("ZqBad", F("zipcode", 1, "string"), F("zq_item", 2, "", Msg(q("ZqKid")), Flatten(true), FlattenPrefix("zip"))), M("ZqKid", F("code", 1, "string"))}, Off: c12Zq("zq_item")}
	})
	add("flatten-collision/json-name", true, func(q func(string) string) *c12Frag {
		// child zip_code has JSON name zipCode, parent field zipCode too (proto name differs only in spelling)
		return &c12Frag{Msgs: []*Message{M("ZqBad", F("zipCode", 1, "string"), F("zq_item", 2, "", Msg(q("ZqChild")), Flatten(true))), child()}, Off: c12Zq("zq_item")}
	})
	add("flatten-prefix-without-flatten", true, func(q func(string) string) *c12Frag {
		return &c12Frag{Msgs: []*Message{M("ZqBad", F("id", 1, "string"), F("zq_item", 2, "", Msg(q("ZqChild")), FlattenPrefix("home_"))), child()}, Off: c12Zq("zq_item")}
	})
	add("flatten-prefix-without-flatten/false", true, func(q func(string) string) *c12Frag {
		return &c12Frag{Msgs: []*Message{M("ZqBad", F("zq_item", 1, "", Msg(q("ZqChild")), Flatten(false), FlattenPrefix("p_"))), child()}, Off: c12Zq("zq_item")}
	})
	// ---- discriminated oneof ----
	oneofMsg := func(q func(string) string, o *Oneof, extra ...*Field) *Message {
		fs := append([]*Field{F("id", 1, "string")}, extra...)
		fs = append(fs, F("text", 10, "", Msg(q("ZqText")), InOneof("zq_item")), F("image", 11, "", Msg(q("ZqImage")), InOneof("zq_item"), OneofVal("img")))
		return M("ZqBad", fs...).WithOneofs(o)
	}
	variants := func() []*Message {
		return []*Message{M("ZqText", F("body", 1, "string")), M("ZqImage", F("url", 1, "string"), F("pixel_width", 2, "int32"))}
	}
	add("discriminator-collision", true, func(q func(string) string) *c12Frag {
		return &c12Frag{Msgs: append([]*Message{oneofMsg(q, &Oneof{Name: "zq_item", HasConfig: true, Discriminator: "kind"}, F("kind", 2, "string"))}, variants()...), Off: c12Zq("zq_item")}
	})
	add("discriminator-collision/json-name", true, func(q func(string) string) *c12Frag {
		return &c12Frag{Msgs: append([]*Message{oneofMsg(q, &Oneof{Name: "zq_item", HasConfig: true, Discriminator: "eventKind"}, F("event_kind", 2, "string"))}, variants()...), Off: c12Zq("zq_item")}
	})
	add("oneof-flatten-scalar-variant", true, func(q func(string) string) *c12Frag {
		return &c12Frag{Msgs: append([]*Message{oneofMsg(q, &Oneof{Name: "zq_item", HasConfig: true, Discriminator: "kind", Flatten: true}, F("note", 12, "string", InOneof("zq_item")))}, variants()...), Off: c12Zq("zq_item")}
	})
	add("oneof-flatten-child-collision/parent", true, func(q func(string) string) *c12Frag {
		return &c12Frag{Msgs: append([]*Message{oneofMsg(q, &Oneof{Name: "zq_item", HasConfig: true, Discriminator: "kind", Flatten: true}, F("url", 2, "string"))}, variants()...), Off: c12Zq("zq_item")}
	})
	add("oneof-flatten-child-collision/discriminator", true, func(q func(string) string) *c12Frag {
		return &c12Frag{Msgs: append([]*Message{oneofMsg(q, &Oneof{Name: "zq_item", HasConfig: true, Discriminator: "body", Flatten: true})}, variants()...), Off: c12Zq("zq_item")}
	})
	add("oneof-flatten-child-collision/json-name", true, func(q func(string) string) *c12Frag {
		return &c12Frag{Msgs: append([]*Message{oneofMsg(q, &Oneof{Name: "zq_item", HasConfig: true, Discriminator: "kind", Flatten: true}, F("pixelWidth", 2, "int32"))}, variants()...), Off: c12Zq("zq_item")}
	})
	// ---- enum ----
	customEnum := func() *Enum {
		return &Enum{Name: "ZqStatus", Values: []*EnumValue{{Name: "ZQ_STATUS_UNSPECIFIED", Number: 0}, {Name: "ZQ_STATUS_ACTIVE", Number: 1, EnumValue: Str("active")}}}
	}
	add("enum-number-with-custom-values", true, func(q func(string) string) *c12Frag {
		return &c12Frag{Msgs: []*Message{M("ZqBad", F("id", 1, "string"), F("zq_item", 2, "", EnumT(q("ZqStatus")), EnumEnc("NUMBER")))}, Enums: []*Enum{customEnum()}, Off: c12Zq("zq_item")}
	})
	add("enum-number-with-custom-values/repeated", true, func(q func(string) string) *c12Frag {
		return &c12Frag{Msgs: []*Message{M("ZqBad", F("zq_item", 1, "", EnumT(q("ZqStatus")), Rep(), EnumEnc("NUMBER")))}, Enums: []*Enum{customEnum()}, Off: c12Zq("zq_item")}
	})
	// the offending reference is not the FIRST use of the enum type (same message, an earlier sibling message, an earlier
	// field with the harmless STRING encoding): the rule is per field, not per enum type
	add("enum-number-with-custom-values/second-reference", true, func(q func(string) string) *c12Frag {
		return &c12Frag{Msgs: []*Message{M("ZqBad", F("first", 1, "", EnumT(q("ZqStatus"))), F("zq_item", 2, "", EnumT(q("ZqStatus")), EnumEnc("NUMBER")))}, Enums: []*Enum{customEnum()}, Off: c12Zq("zq_item")}
	})
	add("enum-number-with-custom-values/after-string-encoding", true, func(q func(string) string) *c12Frag {
		return &c12Frag{Msgs: []*Message{M("ZqBad", F("first", 1, "", EnumT(q("ZqStatus")), EnumEnc("STRING")), F("others", 2, "", EnumT(q("ZqStatus")), Rep()), F("zq_item", 3, "", EnumT(q("ZqStatus")), EnumEnc("NUMBER")))}, Enums: []*Enum{customEnum()}, Off: c12Zq("zq_item")}
	})
	add("enum-number-with-custom-values/earlier-message-uses-it", true, func(q func(string) string) *c12Frag {
		return &c12Frag{Msgs: []*Message{M("ZqAaFirst", F("st", 1, "", EnumT(q("ZqStatus")))), M("ZqBad", F("id", 1, "string"), F("zq_item", 2, "", EnumT(q("ZqStatus")), EnumEnc("NUMBER")))}, Enums: []*Enum{customEnum()}, Off: c12Zq("zq_item")}
	})
	// ---- HTTP binding rules (go-http only; the offender is the RPC ZqCall and the variable/field zq_item) ----
	http := func(id, verb, path string, fields func(q func(string) string) []*Field, aux ...*Message) {
		add(id, false, func(q func(string) string) *c12Frag {
			return &c12Frag{Msgs: append([]*Message{M("ZqBad", fields(q)...)}, aux...),
				RPCs: []*Method{RPC("ZqCall", q("ZqBad"), "", verb, path)}, Off: []C12Offender{{Msg: "ZqCall", Item: "zq_item"}}}
		})
	}
	http("path-variable-no-field", "POST", "/things/{zq_item}", func(q func(string) string) []*Field { return []*Field{F("id", 1, "string")} })
	http("path-variable-no-field/get", "GET", "/things/{id}/{zq_item}", func(q func(string) string) []*Field { return []*Field{F("id", 1, "string")} })
	http("path-variable-non-scalar/message", "POST", "/things/{zq_item}", func(q func(string) string) []*Field {
		return []*Field{F("zq_item", 1, "", Msg(q("ZqChild")))}
	}, child())
	http("path-variable-non-scalar/bytes", "PUT", "/things/{zq_item}", func(q func(string) string) []*Field { return []*Field{F("zq_item", 1, "bytes"), F("n", 2, "int32")} })
	http("path-variable-non-scalar/enum", "PATCH", "/things/{zq_item}", func(q func(string) string) []*Field {
		return []*Field{F("zq_item", 1, "", EnumT(q("ZqColor")))}
	})
	http("path-variable-non-scalar/map", "POST", "/things/{zq_item}", func(q func(string) string) []*Field {
		return []*Field{F("zq_item", 1, "string", MapOf("string"))}
	})
	http("path-and-query", "GET", "/things/{zq_item}", func(q func(string) string) []*Field {
		return []*Field{F("zq_item", 1, "string", Query("zq_item", false))}
	})
	http("path-and-query/post", "POST", "/things/{zq_item}", func(q func(string) string) []*Field {
		return []*Field{F("zq_item", 1, "string", Query("other_name", true)), F("body", 2, "string")}
	})
	http("bodiless-unbound/get", "GET", "/things/{id}", func(q func(string) string) []*Field {
		return []*Field{F("id", 1, "string"), F("page", 2, "int32", Query("page", false)), F("zq_item", 3, "string")}
	})
	http("bodiless-unbound/delete", "DELETE", "/things", func(q func(string) string) []*Field { return []*Field{F("zq_item", 1, "string")} })
	// the enum used by path-variable-non-scalar/enum
	for i := range rs {
		if rs[i].ID == "path-variable-non-scalar/enum" {
			b := rs[i].Build
			rs[i].Build = func(q func(string) string) *c12Frag {
				f := b(q)
				f.Enums = []*Enum{E("ZqColor", "ZQ_COLOR_UNSPECIFIED", "ZQ_COLOR_RED")}
				return f
			}
		}
	}
	return rs
}

// c12Gaps: definitions aimed at the places where rule and implementation part ways.
// Rule != "" : a documented rule is broken (and the current tree accepts);
// Rule == "" : no rule is broken (and the current tree refuses).
func c12Gaps() []c12Rule {
	child := func() *Message { return M("ZqChild", F("street", 1, "string"), F("zip_code", 2, "string")) }
	var rs []c12Rule
	add := func(id string, client bool, b func(q func(string) string) *c12Frag) {
		rs = append(rs, c12Rule{ID: id, Client: client, Build: b})
	}
	add("path-variable-non-scalar/repeated", false, func(q func(string) string) *c12Frag {
		return &c12Frag{Msgs: []*Message{M("ZqBad", F("zq_item", 1, "string", Rep()))},
			RPCs: []*Method{RPC("ZqCall", q("ZqBad"), "", "GET", "/things/{zq_item}")}, Off: []C12Offender{{Msg: "ZqCall", Item: "zq_item"}}}
	})
	add("path-variable-non-scalar/repeated-int", false, func(q func(string) string) *c12Frag {
		return &c12Frag{Msgs: []*Message{M("ZqBad", F("zq_item", 1, "int64", Rep()), F("note", 2, "string"))},
			RPCs: []*Method{RPC("ZqCall", q("ZqBad"), "", "POST", "/things/{zq_item}")}, Off: []C12Offender{{Msg: "ZqCall", Item: "zq_item"}}}
	})
	add("enum-number-with-custom-values/map", true, func(q func(string) string) *c12Frag {
		return &c12Frag{Msgs: []*Message{M("ZqBad", F("zq_item", 1, "", EnumT(q("ZqStatus")), MapOf("string"), EnumEnc("NUMBER")))},
			Enums: []*Enum{{Name: "ZqStatus", Values: []*EnumValue{{Name: "ZQ_STATUS_UNSPECIFIED", Number: 0}, {Name: "ZQ_STATUS_ACTIVE", Number: 1, EnumValue: Str("active")}}}}, Off: c12Zq("zq_item")}
	})
	add("timestamp-format-wrong-type/map", true, func(q func(string) string) *c12Frag {
		return &c12Frag{Msgs: []*Message{M("ZqBad", F("zq_item", 1, "", Msg(Timestamp), MapOf("string"), TsFmt("UNIX_SECONDS")))}, Off: c12Zq("zq_item")}
	})
	add("bytes-encoding-wrong-type/map", true, func(q func(string) string) *c12Frag {
		return &c12Frag{Msgs: []*Message{M("ZqBad", F("zq_item", 1, "bytes", MapOf("string"), BytesEnc("HEX")))}, Off: c12Zq("zq_item")}
	})
	// valid definitions the current tree refuses
	valid := func(id string, b func(q func(string) string) *c12Frag) {
		rs = append(rs, c12Rule{ID: "valid:" + id, Build: b})
	}
	valid("flatten+nullable", func(q func(string) string) *c12Frag {
		return &c12Frag{Msgs: []*Message{M("ZqOk", F("nick", 1, "string", Opt(), Nullable(true)), F("home", 2, "", Msg(q("ZqChild")), Flatten(true))), child()}}
	})
	valid("flatten+int64-number", func(q func(string) string) *c12Frag {
		return &c12Frag{Msgs: []*Message{M("ZqOk", F("big", 1, "int64", I64("NUMBER")), F("home", 2, "", Msg(q("ZqChild")), Flatten(true))), child()}}
	})
	valid("flatten+bytes-hex", func(q func(string) string) *c12Frag {
		return &c12Frag{Msgs: []*Message{M("ZqOk", F("home", 1, "", Msg(q("ZqChild")), Flatten(true)), F("raw", 2, "bytes", BytesEnc("HEX")))}, }
	})
	valid("flatten+timestamp-date+empty", func(q func(string) string) *c12Frag {
		return &c12Frag{Msgs: []*Message{M("ZqOk", F("home", 1, "", Msg(q("ZqChild")), Flatten(true)), F("at", 2, "", Msg(Timestamp), TsFmt("DATE")), F("meta", 3, "", Msg(q("ZqChild")), Empty("NULL"))), child()}}
	})
	valid("flatten-on-optional-message", func(q func(string) string) *c12Frag {
		return &c12Frag{Msgs: []*Message{M("ZqOk", F("id", 1, "string"), F("home", 2, "", Msg(q("ZqChild")), Opt(), Flatten(true))), child()}}
	})
	valid("oneof+int64-number", func(q func(string) string) *c12Frag {
		return &c12Frag{Msgs: []*Message{
			M("ZqOk", F("big", 1, "uint64", I64("NUMBER")), F("text", 2, "", Msg(q("ZqText")), InOneof("payload")), F("note", 3, "string", InOneof("payload"))).WithOneofs(&Oneof{Name: "payload", HasConfig: true, Discriminator: "kind"}),
			M("ZqText", F("body", 1, "string"))}}
	})
	valid("oneof+nullable+timestamp", func(q func(string) string) *c12Frag {
		return &c12Frag{Msgs: []*Message{
			M("ZqOk", F("nick", 1, "string", Opt(), Nullable(true)), F("at", 4, "", Msg(Timestamp), TsFmt("UNIX_MILLIS")), F("text", 2, "", Msg(q("ZqText")), InOneof("payload"))).WithOneofs(&Oneof{Name: "payload", HasConfig: true, Discriminator: "kind", Flatten: true}),
			M("ZqText", F("body", 1, "string"))}}
	})
	for i := range rs {
		if rs[i].ID == "valid:flatten+bytes-hex" {
			b := rs[i].Build
			rs[i].Build = func(q func(string) string) *c12Frag { f := b(q); f.Msgs = append(f.Msgs, child()); return f }
		}
	}
	return rs
}

// c12Valid: definitions that sit right next to a rule without breaking it (every plugin must accept).
func c12Valid() []c12Rule {
	child := func() *Message { return M("ZqChild", F("street", 1, "string"), F("zip_code", 2, "string")) }
	var rs []c12Rule
	valid := func(id string, b func(q func(string) string) *c12Frag) {
		rs = append(rs, c12Rule{ID: "valid:" + id, Build: b})
	}
	valid("unwrap-root-list", func(q func(string) string) *c12Frag {
		return &c12Frag{Msgs: []*Message{M("ZqOk", F("items", 1, "", Msg(q("ZqChild")), Rep(), Unwrap())), child()}}
	})
	valid("unwrap-root-map", func(q func(string) string) *c12Frag {
		return &c12Frag{Msgs: []*Message{M("ZqOk", F("by_key", 1, "", Msg(q("ZqChild")), MapOf("string"), Unwrap())), child()}}
	})
	valid("unwrap-list-beside-fields", func(q func(string) string) *c12Frag {
		return &c12Frag{Msgs: []*Message{M("ZqOk", F("items", 1, "string", Rep(), Unwrap()), F("label", 2, "string")), M("ZqHolder", F("m", 1, "", Msg(q("ZqOk")), MapOf("string")))}}
	})
	valid("unwrap-false", func(q func(string) string) *c12Frag {
		return &c12Frag{Msgs: []*Message{M("ZqOk", F("a", 1, "string", func(f *Field) { f.Unwrap = false }), F("b", 2, "string"))}}
	})
	valid("nullable-false-on-singular", func(q func(string) string) *c12Frag {
		return &c12Frag{Msgs: []*Message{M("ZqOk", F("a", 1, "string", Nullable(false)), F("b", 2, "", Msg(q("ZqChild")), Nullable(false))), child()}}
	})
	valid("nullable-all-scalars", func(q func(string) string) *c12Frag {
		return &c12Frag{Msgs: []*Message{M("ZqOk", F("a", 1, "string", Opt(), Nullable(true)), F("b", 2, "double", Opt(), Nullable(true)), F("c", 3, "bytes", Opt(), Nullable(true)), F("d", 4, "", EnumT(q("ZqColor")), Opt(), Nullable(true)))},
			Enums: []*Enum{E("ZqColor", "ZQ_COLOR_UNSPECIFIED", "ZQ_COLOR_RED")}}
	})
	valid("empty-behavior-unspecified-anywhere", func(q func(string) string) *c12Frag {
		return &c12Frag{Msgs: []*Message{M("ZqOk", F("a", 1, "string", Empty("UNSPECIFIED")), F("b", 2, "", Msg(q("ZqChild")), Opt(), Empty("OMIT"))), child()}}
	})
	valid("timestamp-format-unspecified-and-repeated", func(q func(string) string) *c12Frag {
		return &c12Frag{Msgs: []*Message{M("ZqOk", F("a", 1, "string", TsFmt("UNSPECIFIED")), F("b", 2, "", Msg(Timestamp), Rep(), TsFmt("RFC3339")), F("c", 3, "", Msg(Timestamp), Opt(), TsFmt("DATE")))}}
	})
	valid("bytes-encoding-unspecified-and-repeated", func(q func(string) string) *c12Frag {
		return &c12Frag{Msgs: []*Message{M("ZqOk", F("a", 1, "string", BytesEnc("UNSPECIFIED")), F("b", 2, "bytes", Rep(), BytesEnc("BASE64URL")), F("c", 3, "bytes", Opt(), BytesEnc("BASE64")))}}
	})
	valid("flatten-prefix-avoids-collision", func(q func(string) string) *c12Frag {
		return &c12Frag{Msgs: []*Message{M("ZqOk", F("street", 1, "string"), F("home", 2, "", Msg(q("ZqChild")), Flatten(true), FlattenPrefix("home_")), F("work", 3, "", Msg(q("ZqChild")), Flatten(true), FlattenPrefix("work_"))), child()}}
	})
	valid("flatten-false-and-empty-prefix", func(q func(string) string) *c12Frag {
		return &c12Frag{Msgs: []*Message{M("ZqOk", F("street", 1, "string"), F("home", 2, "", Msg(q("ZqChild")), Flatten(false)), F("n", 3, "int32", FlattenPrefix(""))), child()}}
	})
	valid("flatten-timestamp-child", func(q func(string) string) *c12Frag {
		return &c12Frag{Msgs: []*Message{M("ZqOk", F("id", 1, "string"), F("at", 2, "", Msg(Timestamp), Flatten(true)))}}
	})
	valid("oneof-config-empty-discriminator", func(q func(string) string) *c12Frag {
		return &c12Frag{Msgs: []*Message{M("ZqOk", F("kind", 1, "string"), F("a", 2, "string", InOneof("pick")), F("b", 3, "int32", InOneof("pick"))).WithOneofs(&Oneof{Name: "pick", HasConfig: true, Discriminator: "", Flatten: true})}}
	})
	valid("oneof-discriminator-equals-variant-name", func(q func(string) string) *c12Frag {
		return &c12Frag{Msgs: []*Message{M("ZqOk", F("id", 1, "string"), F("text", 2, "", Msg(q("ZqText")), InOneof("pick")), F("kind", 3, "string", InOneof("pick"))).WithOneofs(&Oneof{Name: "pick", HasConfig: true, Discriminator: "kind"}), M("ZqText", F("body", 1, "string"))}}
	})
	valid("oneof-flatten-variants-share-child-names", func(q func(string) string) *c12Frag {
		return &c12Frag{Msgs: []*Message{M("ZqOk", F("id", 1, "string"), F("a", 2, "", Msg(q("ZqText")), InOneof("pick")), F("b", 3, "", Msg(q("ZqText")), InOneof("pick"))).WithOneofs(&Oneof{Name: "pick", HasConfig: true, Discriminator: "kind", Flatten: true}), M("ZqText", F("body", 1, "string"))}}
	})
	valid("enum-number-without-custom-and-string-with-custom", func(q func(string) string) *c12Frag {
		return &c12Frag{Msgs: []*Message{M("ZqOk", F("a", 1, "", EnumT(q("ZqPlain")), EnumEnc("NUMBER")), F("b", 2, "", EnumT(q("ZqStatus")), EnumEnc("STRING")), F("c", 3, "", EnumT(q("ZqStatus"))), F("d", 4, "int32", EnumEnc("NUMBER")))},
			Enums: []*Enum{E("ZqPlain", "ZQ_PLAIN_UNSPECIFIED", "ZQ_PLAIN_ONE"), {Name: "ZqStatus", Values: []*EnumValue{{Name: "ZQ_STATUS_UNSPECIFIED", Number: 0}, {Name: "ZQ_STATUS_ACTIVE", Number: 1, EnumValue: Str("active")}}},
				{Name: "ZqEmptyCustom", Values: []*EnumValue{{Name: "ZQ_EC_UNSPECIFIED", Number: 0, EnumValue: Str("")}}}}}
	})
	httpOK := func(id, verb, path string, fields func(q func(string) string) []*Field) {
		valid(id, func(q func(string) string) *c12Frag {
			return &c12Frag{Msgs: []*Message{M("ZqOk", fields(q)...)}, RPCs: []*Method{RPC("ZqCall", q("ZqOk"), "", verb, path)}}
		})
	}
	httpOK("get-all-bound", "GET", "/things/{id}/{n}", func(q func(string) string) []*Field {
		return []*Field{F("id", 1, "string"), F("n", 2, "sint64"), F("page", 3, "int32", Query("page", true)), F("tags", 4, "string", Query("tag", false))}
	})
	httpOK("delete-no-fields", "DELETE", "/things", func(q func(string) string) []*Field { return nil })
	httpOK("post-unbound-body", "POST", "/things/{id}", func(q func(string) string) []*Field {
		return []*Field{F("id", 1, "string", Opt()), F("payload", 2, "bytes"), F("q", 3, "string", Query("q", false))}
	})
	httpOK("no-config-any-fields", "", "", func(q func(string) string) []*Field { return []*Field{F("a", 1, "bytes"), F("b", 2, "string", Rep())} })
	httpOK("braces-without-variable", "POST", "/things/{}/x", func(q func(string) string) []*Field { return []*Field{F("a", 1, "string")} })
	httpOK("every-scalar-kind-in-path", "GET", "/k/{a}/{b}/{c}/{d}/{e}/{f}/{g}/{h}/{i}/{j}/{k}/{l}/{m}/{n}", func(q func(string) string) []*Field {
		ks := []string{"string", "int32", "int64", "uint32", "uint64", "sint32", "sint64", "fixed32", "fixed64", "sfixed32", "sfixed64", "bool", "float", "double"}
		var fs []*Field
		for i, k := range ks {
			fs = append(fs, F(string(rune('a'+i)), int32(i+1), k))
		}
		return fs
	})
	return rs
}

// ---- collision rules × "what kind of field carries the colliding name" -------------------------------
// The colliding sibling may be a plain singular field, repeated, a map, a proto3 optional scalar or
// message (synthetic oneof in the descriptor), a member of another plain oneof or a member of another
// annotated oneof.
var c12SiblingKinds = []string{"plain", "repeated", "map", "optional", "optional-message", "other-oneof", "other-annotated-oneof"}

func c12Sibling(kind, name string, num int32, q func(string) string) ([]*Field, []*Oneof) {
	switch kind {
	case "plain":
		return []*Field{F(name, num, "string")}, nil
	case "repeated":
		return []*Field{F(name, num, "int32", Rep())}, nil
	case "map":
		return []*Field{F(name, num, "string", MapOf("string"))}, nil
	case "optional":
		return []*Field{F(name, num, "string", Opt())}, nil
	case "optional-message":
		return []*Field{F(name, num, "", Msg(q("ZqChild")), Opt())}, nil
	case "other-oneof":
		return []*Field{F(name, num, "string", InOneof("zq_other")), F("zq_other_b", num+1, "int32", InOneof("zq_other"))}, []*Oneof{{Name: "zq_other"}}
	case "other-annotated-oneof":
		return []*Field{F(name, num, "string", InOneof("zq_other")), F("zq_other_b", num+1, "int32", InOneof("zq_other"))},
			[]*Oneof{{Name: "zq_other", HasConfig: true, Discriminator: "zq_d2"}}
	}
	panic("sibling kind " + kind)
}

func c12SiblingRules() []c12Rule {
	child := func() *Message { return M("ZqChild", F("street", 1, "string"), F("zip_code", 2, "string")) }
	variants := func() []*Message {
		return []*Message{M("ZqText", F("body", 1, "string")), M("ZqImage", F("url", 1, "string"), F("pixel_width", 2, "int32"))}
	}
	var rs []c12Rule
	add := func(id string, client bool, b func(q func(string) string) *c12Frag) {
		rs = append(rs, c12Rule{ID: id, Client: client, Build: b})
	}
	for _, k := range c12SiblingKinds {
		k := k
		oneofMsg := func(q func(string) string, o *Oneof, sibName string) *Message {
			sf, so := c12Sibling(k, sibName, 2, q)
			fs := append([]*Field{F("id", 1, "string")}, sf...)
			fs = append(fs, F("text", 10, "", Msg(q("ZqText")), InOneof("zq_item")), F("image", 11, "", Msg(q("ZqImage")), InOneof("zq_item"), OneofVal("img")))
			return M("ZqBad", fs...).WithOneofs(append([]*Oneof{o}, so...)...)
		}
		add("discriminator-collision/sibling-"+k, true, func(q func(string) string) *c12Frag {
			return &c12Frag{Msgs: append([]*Message{oneofMsg(q, &Oneof{Name: "zq_item", HasConfig: true, Discriminator: "kind"}, "kind"), child()}, variants()...), Off: c12Zq("zq_item")}
		})
		add("oneof-flatten-child-collision/sibling-"+k, true, func(q func(string) string) *c12Frag {
			return &c12Frag{Msgs: append([]*Message{oneofMsg(q, &Oneof{Name: "zq_item", HasConfig: true, Discriminator: "kind", Flatten: true}, "pixel_width"), child()}, variants()...), Off: c12Zq("zq_item")}
		})
		add("flatten-collision/sibling-"+k, true, func(q func(string) string) *c12Frag {
			sf, so := c12Sibling(k, "zip_code", 1, q)
			fs := append(sf, F("zq_item", 5, "", Msg(q("ZqChild")), Flatten(true)))
			return &c12Frag{Msgs: []*Message{M("ZqBad", fs...).WithOneofs(so...), child()}, Off: c12Zq("zq_item")}
		})
		add("unwrap-map-not-alone/sibling-"+k, false, func(q func(string) string) *c12Frag {
			sf, so := c12Sibling(k, "label", 2, q)
			fs := append([]*Field{F("zq_item", 1, "", Msg(q("ZqChild")), MapOf("string"), Unwrap())}, sf...)
			return &c12Frag{Msgs: []*Message{M("ZqBad", fs...).WithOneofs(so...), child()}, Off: c12Zq("zq_item")}
		})
		if k != "plain" {
			// the colliding CHILD of a second flattened field is of that kind
			add("flatten-collision/flattened-child-"+k, true, func(q func(string) string) *c12Frag {
				sf, so := c12Sibling(k, "street", 1, q)
				return &c12Frag{Msgs: []*Message{
					M("ZqBad", F("id", 1, "string"), F("home", 2, "", Msg(q("ZqChild")), Flatten(true)), F("zq_item", 3, "", Msg(q("ZqKid")), Flatten(true))),
					child(), M("ZqKid", sf...).WithOneofs(so...)}, Off: c12Zq("zq_item")}
			})
		}
	}
	// prefix collisions between two flattened fields, and a prefixed child against an optional parent field
	add("flatten-collision/prefix-vs-prefix", true, func(q func(string) string) *c12Frag {
		return &c12Frag{Msgs: []*Message{M("ZqBad", F("home", 1, "", Msg(q("ZqChild")), Flatten(true), FlattenPrefix("a_")), F("zq_item", 2, "", Msg(q("ZqChild")), Flatten(true), FlattenPrefix("a_"))), child()}, Off: c12Zq("zq_item")}
	})
	add("flatten-collision/prefix-vs-optional", true, func(q func(string) string) *c12Frag {
		return &c12Frag{Msgs: []*Message{M("ZqBad", F("wstreet", 1, "string", Opt()), F("zq_item", 2, "", Msg(q("ZqChild")), Flatten(true), FlattenPrefix("w"))), child()}, Off: c12Zq("zq_item")}
	})
	// a second unwrap field of each shape
	add("unwrap-twice/second-repeated-message", false, func(q func(string) string) *c12Frag {
		return &c12Frag{Msgs: []*Message{M("ZqBad", F("first_list", 1, "string", Rep(), Unwrap()), F("zq_item", 2, "", Msg(q("ZqChild")), Rep(), Unwrap())), child()}, Off: c12Zq("zq_item")}
	})
	add("unwrap-twice/second-map", false, func(q func(string) string) *c12Frag {
		return &c12Frag{Msgs: []*Message{M("ZqBad", F("first_list", 1, "string", Rep(), Unwrap()), F("zq_item", 2, "", Msg(q("ZqChild")), MapOf("string"), Unwrap())), child()}, Off: c12Zq("zq_item")}
	})
	add("unwrap-twice/first-map", false, func(q func(string) string) *c12Frag {
		return &c12Frag{Msgs: []*Message{M("ZqBad", F("first_map", 1, "", Msg(q("ZqChild")), MapOf("string"), Unwrap()), F("zq_item", 2, "int64", Rep(), Unwrap())), child()}, Off: c12Zq("zq_item")}
	})
	add("unwrap-non-repeated/optional", false, func(q func(string) string) *c12Frag {
		return &c12Frag{Msgs: []*Message{M("ZqBad", F("zq_item", 1, "string", Opt(), Unwrap()))}, Off: c12Zq("zq_item")}
	})
	add("unwrap-non-repeated/oneof-member", false, func(q func(string) string) *c12Frag {
		return &c12Frag{Msgs: []*Message{M("ZqBad", F("zq_item", 1, "string", InOneof("pick"), Unwrap()), F("other", 2, "int32", InOneof("pick"))).WithOneofs(&Oneof{Name: "pick"})}, Off: c12Zq("zq_item")}
	})
	return rs
}

// c12SiblingValid: the same shapes with names that do not collide.
func c12SiblingValid() []c12Rule {
	child := func() *Message { return M("ZqChild", F("street", 1, "string"), F("zip_code", 2, "string")) }
	var rs []c12Rule
	for _, k := range c12SiblingKinds {
		k := k
		rs = append(rs, c12Rule{ID: "valid:oneof-and-flatten-beside-" + k + "-sibling", Build: func(q func(string) string) *c12Frag {
			sf, so := c12Sibling(k, "kind_label", 2, q)
			fs := append([]*Field{F("id", 1, "string")}, sf...)
			fs = append(fs, F("text", 10, "", Msg(q("ZqText")), InOneof("payload")), F("kind", 11, "", Msg(q("ZqText")), InOneof("payload")))
			sf2, so2 := c12Sibling(k, "zip", 1, q)
			return &c12Frag{Msgs: []*Message{
				M("ZqOk", fs...).WithOneofs(append([]*Oneof{{Name: "payload", HasConfig: true, Discriminator: "kind", Flatten: true}}, so...)...),
				M("ZqOkFlat", append(sf2, F("home", 5, "", Msg(q("ZqChild")), Flatten(true)))...).WithOneofs(so2...),
				M("ZqText", F("body", 1, "string")), child()}}
		}})
	}
	return rs
}

// c12Rich: valid annotated content placed around the offender.
func c12Rich(pkg, sfx string) ([]*Message, []*Enum, []*Method) {
	p := func(n string) string { return pkg + "." + n + sfx }
	n := func(s string) string { return s + sfx }
	st := &Enum{Name: n("Status"), Values: []*EnumValue{{Name: "STATUS_UNSPECIFIED" + sfx, Number: 0}, {Name: "STATUS_ACTIVE" + sfx, Number: 1, EnumValue: Str("active")}}}
	lv := E(n("Level"), "LEVEL_UNSPECIFIED"+sfx, "LEVEL_LOW"+sfx)
	ms := []*Message{
		M(n("Addr"), F("street", 1, "string"), F("zip", 2, "string")),
		M(n("WithEnum"), F("status", 1, "", EnumT(p("Status"))), F("level", 2, "", EnumT(p("Level")), EnumEnc("NUMBER"))),
		M(n("Nul"), F("nick", 1, "string", Opt(), Nullable(true)), F("id", 2, "string")),
		M(n("Emp"), F("keep", 1, "", Msg(p("Addr")), Empty("PRESERVE")), F("nul", 2, "", Msg(p("Addr")), Empty("NULL"))),
		M(n("Times"), F("s", 1, "", Msg(Timestamp), TsFmt("UNIX_SECONDS")), F("d", 2, "", Msg(Timestamp), TsFmt("DATE"))),
		M(n("Blob"), F("h", 1, "bytes", BytesEnc("HEX")), F("u", 2, "bytes", BytesEnc("BASE64URL_RAW"))),
		M(n("Person"), F("id", 1, "string"), F("home", 2, "", Msg(p("Addr")), Flatten(true)), F("work", 3, "", Msg(p("Addr")), Flatten(true), FlattenPrefix("work_"))),
		M(n("Event"), F("id", 1, "string"), F("text", 2, "", Msg(p("Addr")), InOneof("payload")), F("note", 3, "string", InOneof("payload"), OneofVal("n"))).WithOneofs(&Oneof{Name: "payload", HasConfig: true, Discriminator: "type"}),
		M(n("FlatEvent"), F("id", 1, "string"), F("addr", 2, "", Msg(p("Addr")), InOneof("payload"))).WithOneofs(&Oneof{Name: "payload", HasConfig: true, Discriminator: "kind", Flatten: true}),
		M(n("AddrList"), F("items", 1, "", Msg(p("Addr")), Rep(), Unwrap())),
		M(n("Series"), F("by_key", 1, "", Msg(p("AddrList")), MapOf("string")), F("label", 2, "string")),
		M(n("Nums"), F("a", 1, "int64", I64("NUMBER")), F("b", 2, "uint64")),
		M(n("Outer"), F("id", 1, "string")).WithNested(M("Inner", F("nick", 1, "int32", Opt(), Nullable(true)), F("raw", 2, "bytes"))),
		M(n("GetReq"), F("id", 1, "string"), F("page", 2, "int32", Query("page", false))),
	}
	rpcs := []*Method{RPC(n("GetThing"), p("GetReq"), p("Person"), "GET", "/rich"+sfx+"/{id}"), RPC(n("PutSeries"), p("Series"), p("Event"), "PUT", "/rich"+sfx+"/series")}
	return ms, []*Enum{st, lv}, rpcs
}

// c12Assemble places a fragment.
func c12Assemble(id, placement, surround string, rule c12Rule) *C12Case {
	pkg := id + ".v1"
	gp := fmt.Sprintf("verifgen/%s;%s", id, id)
	q := func(n string) string {
		if n == "" {
			return pkg + ".Res"
		}
		if placement == "nested" {
			return pkg + ".Wrap." + n
		}
		return pkg + "." + n
	}
	fr := rule.Build(q)
	for _, m := range fr.RPCs {
		if m.Out == "" {
			m.Out = pkg + ".Res"
		}
	}
	main := &File{Path: id + "/a.proto", Package: pkg, GoPackage: gp, Generate: true}
	main.Messages = []*Message{M("Req", F("id", 1, "string")), M("Res", F("ok", 1, "bool"))}
	svc := Svc("Api", "/api", RPC("Ping", pkg+".Req", pkg+".Res", "POST", "/ping"))
	var after []*Message
	if surround == "rich" {
		ms, es, rpcs := c12Rich(pkg, "")
		half := len(ms) / 2
		main.Messages = append(main.Messages, ms[:half]...)
		after = ms[half:]
		main.Enums = append(main.Enums, es...)
		svc.Methods = append(svc.Methods, rpcs...)
	}
	if len(fr.RPCs) > 0 {
		svc.Methods = append(svc.Methods, fr.RPCs...)
	} else if len(fr.Msgs) > 0 {
		svc.Methods = append(svc.Methods, RPC("Use", q(fr.Msgs[0].Name), pkg+".Res", "POST", "/use"))
	}
	if surround == "rich" {
		svc.Methods = append(svc.Methods, RPC("Last", pkg+".Req", pkg+".Res", "POST", "/last"))
	}
	main.Services = []*Service{svc}
	files := []*File{main}
	switch placement {
	case "top":
		main.Messages = append(main.Messages, fr.Msgs...)
		main.Enums = append(main.Enums, fr.Enums...)
	case "nested":
		main.Messages = append(main.Messages, M("Wrap", F("x", 1, "string")).WithNested(fr.Msgs...).WithEnums(fr.Enums...))
	case "svcless", "imported":
		other := &File{Path: id + "/types.proto", Package: pkg, GoPackage: gp, Generate: placement == "svcless", Messages: fr.Msgs, Enums: fr.Enums}
		if placement == "imported" {
			other.Path = id + "lib/types.proto"
			other.GoPackage = fmt.Sprintf("verifgen/%slib;%slib", id, id)
		}
		if surround == "rich" {
			ms, es, _ := c12Rich(pkg, "T")
			other.Messages = append(append(ms[:3:3], fr.Msgs...), ms[3:]...)
			other.Enums = append(es, fr.Enums...)
		}
		main.Imports = append(main.Imports, other.Path)
		files = []*File{other, main}
	}
	main.Messages = append(main.Messages, after...)
	c := &C12Case{Req: &Request{ID: id, Files: files, Tags: []string{"c12"}}, Placement: placement, Surround: surround, Offenders: fr.Off, ClientRule: rule.Client}
	if len(rule.ID) < 6 || rule.ID[:6] != "valid:" {
		c.Rule = rule.ID
	} else {
		c.Note = rule.ID
	}
	return c
}

var c12Placements = []string{"top", "nested", "svcless", "imported"}

// C12Catalogue: rule × placement × surrounding content, the gap witnesses, the near-miss valid definitions,
// and definitions that break several rules at once (which error is reported first).
func C12Catalogue(rng *rand.Rand, tier string) []*C12Case {
	var out []*C12Case
	n := 0
	id := func() string { n++; return fmt.Sprintf("c12x%d", n) }
	for ri, r := range c12Rules() {
		for pi, pl := range c12Placements {
			for _, su := range []string{"min", "rich"} {
				if tier != "thorough" && su == "rich" && (ri+pi)%2 == 1 {
					continue // quick tier: rich surroundings for every other (rule, placement) pair
				}
				c := c12Assemble(id(), pl, su, r)
				c.Family = "rule-placement"
				out = append(out, c)
			}
		}
	}
	for _, r := range c12Gaps() {
		for _, pl := range []string{"top", "nested", "svcless"} {
			c := c12Assemble(id(), pl, "min", r)
			c.Family = "gap"
			out = append(out, c)
		}
		c := c12Assemble(id(), "top", "rich", r)
		c.Family = "gap"
		out = append(out, c)
	}
	for _, r := range c12Valid() {
		for _, pl := range c12Placements {
			su := "min"
			if pl == "top" {
				su = "rich"
			}
			c := c12Assemble(id(), pl, su, r)
			c.Family = "near-miss-valid"
			out = append(out, c)
		}
	}
	// several rules broken at once: which one is reported
	rules := c12Rules()
	pick := func(name string) c12Rule {
		for _, r := range rules {
			if r.ID == name {
				return r
			}
		}
		panic(name)
	}
	combo := func(a, b string, swap bool) {
		ra, rb := pick(a), pick(b)
		merged := c12Rule{ID: a + "+" + b, Client: ra.Client || rb.Client, Build: func(q func(string) string) *c12Frag {
			fa, fb := ra.Build(q), rb.Build(q)
			// rename the second fragment's messages so that both fit into one scope
			ren := map[string]string{}
			for _, m := range fb.Msgs {
				ren[m.Name] = m.Name + "Two"
			}
			for _, e := range fb.Enums {
				ren[e.Name] = e.Name + "Two"
			}
			q2 := func(n string) string {
				if r, ok := ren[n]; ok {
					return q(r)
				}
				return q(n)
			}
			fb = rb.Build(q2)
			for _, m := range fb.Msgs {
				m.Name = ren[m.Name]
			}
			for _, e := range fb.Enums {
				e.Name = ren[e.Name]
				for _, v := range e.Values {
					v.Name = v.Name + "_TWO"
				}
			}
			for i := range fb.Off {
				if r, ok := ren[fb.Off[i].Msg]; ok {
					fb.Off[i].Msg = r
				}
			}
			for _, m := range fb.RPCs {
				m.Name = m.Name + "Two"
				if m.Path != "" {
					m.Path = "/two" + m.Path
				}
			}
			for i := range fb.Off {
				if fb.Off[i].Msg == "ZqCall" {
					fb.Off[i].Msg = "ZqCallTwo"
				}
			}
			f := &c12Frag{Off: append(fa.Off, fb.Off...)}
			if swap {
				f.Msgs, f.Enums, f.RPCs = append(fb.Msgs, fa.Msgs...), append(fb.Enums, fa.Enums...), append(fb.RPCs, fa.RPCs...)
			} else {
				f.Msgs, f.Enums, f.RPCs = append(fa.Msgs, fb.Msgs...), append(fa.Enums, fb.Enums...), append(fa.RPCs, fb.RPCs...)
			}
			return f
		}}
		for _, pl := range []string{"top", "nested", "svcless"} {
			c := c12Assemble(id(), pl, "min", merged)
			c.Family = "several-rules"
			out = append(out, c)
		}
	}
	pairs := [][2]string{
		{"bytes-encoding-wrong-type/string", "nullable-non-optional"}, {"flatten-scalar", "unwrap-twice"}, {"discriminator-collision", "flatten-map"},
		{"path-variable-no-field", "timestamp-format-wrong-type/string"}, {"enum-number-with-custom-values", "unwrap-map-not-alone"},
		{"empty-behavior-wrong-type/scalar", "oneof-flatten-scalar-variant"}, {"bodiless-unbound/get", "path-and-query"},
		{"nullable-message", "enum-number-with-custom-values"},
	}
	for _, p := range pairs {
		combo(p[0], p[1], false)
		combo(p[0], p[1], true)
	}
	// a rule broken in one generated file and another in a second generated file (file order decides)
	{
		a := c12Assemble(id(), "svcless", "min", pick("oneof-flatten-scalar-variant"))
		b := pick("enum-number-with-custom-values").Build(func(n string) string { return a.Req.ID + ".v1." + n })
		main := a.Req.Files[1]
		for _, m := range b.Msgs {
			m.Name += "Main"
		}
		b.Off[0].Msg += "Main"
		main.Messages = append(main.Messages, b.Msgs...)
		main.Enums = append(main.Enums, b.Enums...)
		a.Offenders = append(a.Offenders, b.Off...)
		a.Rule += "+enum-number-with-custom-values(second file)"
		a.Family = "several-rules"
		out = append(out, a)
	}
	// collision rules × kind of the field that carries the colliding name (4 placements, surroundings alternate)
	for i, r := range c12SiblingRules() {
		for j, pl := range c12Placements {
			su := "min"
			if (i+j)%4 == 1 {
				su = "rich"
			}
			c := c12Assemble(id(), pl, su, r)
			c.Family = "collision-sibling-kind"
			out = append(out, c)
		}
	}
	for i, r := range c12SiblingValid() {
		pl := c12Placements[i%3]
		c := c12Assemble(id(), pl, "min", r)
		c.Family = "near-miss-valid"
		out = append(out, c)
	}
	// seeded random: rule × placement × surround drawn at random with a random second valid near-miss fragment appended
	nr := 12
	if tier == "thorough" {
		nr = 400
	}
	valids := c12Valid()
	all := append(append([]c12Rule{}, rules...), c12Gaps()...)
	for i := 0; i < nr; i++ {
		r := all[rng.Intn(len(all))]
		v := valids[rng.Intn(len(valids))]
		pl := c12Placements[rng.Intn(3+rng.Intn(2))]
		merged := c12Rule{ID: r.ID, Client: r.Client, Build: func(q func(string) string) *c12Frag {
			fr := r.Build(q)
			ren := func(n string) string {
				if n == "ZqChild" || n == "ZqText" || n == "ZqColor" || n == "ZqStatus" || n == "ZqOk" || n == "ZqHolder" || n == "ZqPlain" || n == "ZqEmptyCustom" {
					return q(n + "V")
				}
				return q(n)
			}
			fv := v.Build(ren)
			for _, m := range fv.Msgs {
				m.Name += "V"
			}
			for _, e := range fv.Enums {
				e.Name += "V"
				for _, x := range e.Values {
					x.Name += "_V"
				}
			}
			for _, m := range fv.RPCs {
				m.Name += "V"
				if m.Path != "" {
					m.Path = "/v" + m.Path
				}
			}
			if rng.Intn(2) == 0 {
				fr.Msgs = append(fv.Msgs, fr.Msgs...)
				fr.RPCs = append(fv.RPCs, fr.RPCs...)
			} else {
				fr.Msgs = append(fr.Msgs, fv.Msgs...)
				fr.RPCs = append(fr.RPCs, fv.RPCs...)
			}
			fr.Enums = append(fr.Enums, fv.Enums...)
			return fr
		}}
		su := "min"
		if rng.Intn(3) == 0 {
			su = "rich"
		}
		c := c12Assemble(id(), pl, su, merged)
		c.Family = "random"
		if len(r.ID) >= 6 && r.ID[:6] == "valid:" {
			c.Rule, c.Note = "", r.ID
		}
		out = append(out, c)
	}
	return out
}

// ---- nested offenders × map fields of the enclosing messages ---------------------------------------
//
// protoc records the synthetic "<Field>Entry" message of a map field in nested_type at the point where
// the map field is declared, interleaved with the nested messages the user wrote:
//
//     message Profile {
//       map<string, string> labels = 1;          // nested_type[0] = LabelsEntry
//       message Settings { ... }                 // nested_type[1] = Settings
//       Settings settings = 2;
//     }
//
// A validator that walks msg.Messages must find a rule broken in Settings whatever the position of the
// entries. The spec (spec.go) has no notion of declaration order between fields and nested messages and
// descbuild.go always emits the entries first, so the order is imposed on the built descriptors
// afterwards (C12NestedOrder, applied by c12Gen). Shapes: the entry before / after / on both sides of /
// between the nested declarations, at depth 1 (Wrap.ZqBad) and depth 2 (Wrap.Mid.ZqBad) with the map on
// the outer, the inner or both enclosing messages.

// C12NestedOrder fixes the order of nested_type of one message (simple names, map entries included);
// names that are not listed keep their relative order behind the listed ones.
type C12NestedOrder struct {
	Msg   string   `json:"msg"`   // fully-qualified message name
	Order []string `json:"order"` // simple names of its nested types
}

var c12MapShapes = []string{
	"d1-map-before", "d2-outer-before", "d2-inner-before", // every rule, quick tier
	"d1-map-after", "d1-map-around", "d1-map-mid", "d2-both-before", "d2-outer-after", "d2-inner-around",
}

func c12MapField(which int, pkg string) *Field {
	switch which {
	case 0:
		return F("labels", 101, "string", MapOf("string"))
	case 1:
		return F("by_num", 102, "", Msg(pkg+".Res"), MapOf("int32"))
	case 2:
		return F("tags", 103, "int64", MapOf("string"))
	default:
		return F("more_flags", 104, "bool", MapOf("uint64"))
	}
}

// c12AssembleMap places a fragment in a nested message whose enclosing message(s) declare map fields.
func c12AssembleMap(id, shape, surround string, rule c12Rule) *C12Case {
	pkg := id + ".v1"
	gp := fmt.Sprintf("verifgen/%s;%s", id, id)
	deep := shape[:2] == "d2"
	scope := pkg + ".Wrap"
	if deep {
		scope = pkg + ".Wrap.Mid"
	}
	q := func(n string) string {
		if n == "" {
			return pkg + ".Res"
		}
		return scope + "." + n
	}
	fr := rule.Build(q)
	for _, m := range fr.RPCs {
		if m.Out == "" {
			m.Out = pkg + ".Res"
		}
	}
	main := &File{Path: id + "/a.proto", Package: pkg, GoPackage: gp, Generate: true}
	main.Messages = []*Message{M("Req", F("id", 1, "string")), M("Res", F("ok", 1, "bool"))}
	svc := Svc("Api", "/api", RPC("Ping", pkg+".Req", pkg+".Res", "POST", "/ping"))
	var after []*Message
	if surround == "rich" {
		ms, es, rpcs := c12Rich(pkg, "")
		half := len(ms) / 2
		main.Messages = append(main.Messages, ms[:half]...)
		after = ms[half:]
		main.Enums = append(main.Enums, es...)
		svc.Methods = append(svc.Methods, rpcs...)
	}
	if len(fr.RPCs) > 0 {
		svc.Methods = append(svc.Methods, fr.RPCs...)
	} else if len(fr.Msgs) > 0 {
		svc.Methods = append(svc.Methods, RPC("Use", q(fr.Msgs[0].Name), pkg+".Res", "POST", "/use"))
	}
	main.Services = []*Service{svc}

	names := func(ms []*Message) []string {
		var out []string
		for _, m := range ms {
			out = append(out, m.Name)
		}
		return out
	}
	entry := func(f *Field) string { return mapEntryName(f.Name) }
	wrap := M("Wrap", F("x", 1, "string"))
	var orders []C12NestedOrder
	inner := wrap // the message that directly encloses the fragment
	if deep {
		inner = M("Mid", F("y", 1, "int32"))
	}
	inner.Nested = append(inner.Nested, fr.Msgs...)
	inner.Enums = append(inner.Enums, fr.Enums...)
	frNames := names(fr.Msgs)
	cat := func(parts ...[]string) []string {
		var out []string
		for _, p := range parts {
			out = append(out, p...)
		}
		return out
	}
	switch shape {
	case "d1-map-before", "d2-inner-before":
		f := c12MapField(0, pkg)
		inner.Fields = append(inner.Fields, f)
		orders = append(orders, C12NestedOrder{scope, cat([]string{entry(f)}, frNames)})
	case "d1-map-after":
		f := c12MapField(1, pkg)
		inner.Fields = append(inner.Fields, f)
		orders = append(orders, C12NestedOrder{scope, cat(frNames, []string{entry(f)})})
	case "d1-map-around", "d2-inner-around":
		f, g := c12MapField(2, pkg), c12MapField(1, pkg)
		inner.Fields = append(inner.Fields, f, g)
		orders = append(orders, C12NestedOrder{scope, cat([]string{entry(f)}, frNames, []string{entry(g)})})
	case "d1-map-mid":
		// message Pre {...}  map<..> labels;  <fragment>
		f := c12MapField(3, pkg)
		inner.Fields = append(inner.Fields, f)
		inner.Nested = append([]*Message{M("ZqPre", F("p", 1, "string"))}, inner.Nested...)
		orders = append(orders, C12NestedOrder{scope, cat([]string{"ZqPre", entry(f)}, frNames)})
	case "d2-outer-before", "d2-outer-after", "d2-both-before":
	default:
		panic("c12 map shape " + shape)
	}
	if deep {
		wrap.Nested = []*Message{inner}
		wrap.Fields = append(wrap.Fields, F("mid", 2, "", Msg(pkg+".Wrap.Mid")))
		switch shape {
		case "d2-outer-before":
			f := c12MapField(0, pkg)
			wrap.Fields = append(wrap.Fields, f)
			orders = append(orders, C12NestedOrder{pkg + ".Wrap", []string{entry(f), "Mid"}})
		case "d2-outer-after":
			f := c12MapField(2, pkg)
			wrap.Fields = append(wrap.Fields, f)
			orders = append(orders, C12NestedOrder{pkg + ".Wrap", []string{"Mid", entry(f)}})
		case "d2-both-before":
			f, g := c12MapField(1, pkg), c12MapField(3, pkg)
			wrap.Fields = append(wrap.Fields, f)
			inner.Fields = append(inner.Fields, g)
			orders = append(orders, C12NestedOrder{pkg + ".Wrap", []string{entry(f), "Mid"}},
				C12NestedOrder{scope, cat([]string{entry(g)}, frNames)})
		}
	}
	main.Messages = append(main.Messages, wrap)
	main.Messages = append(main.Messages, after...)
	if surround == "rich" {
		svc.Methods = append(svc.Methods, RPC("Last", pkg+".Req", pkg+".Res", "POST", "/last"))
	}
	c := &C12Case{Req: &Request{ID: id, Files: []*File{main}, Tags: []string{"c12", "nested-map-order"}}, Placement: "nested:" + shape, Surround: surround,
		Offenders: fr.Off, ClientRule: rule.Client, NestedOrder: orders}
	if len(rule.ID) < 6 || rule.ID[:6] != "valid:" {
		c.Rule = rule.ID
	} else {
		c.Note = rule.ID
	}
	return c
}

// C12MapOrderCatalogue: every rule-breaking annotation (and the near-miss valid definitions) in a nested
// message × position of the enclosing messages' map entries. Quick: every rule under the three
// "entry first" shapes plus one rotating shape; thorough: every rule × every shape.
func C12MapOrderCatalogue(tier string) []*C12Case {
	var out []*C12Case
	n := 0
	id := func() string { n++; return fmt.Sprintf("c12m%d", n) }
	add := func(r c12Rule, shape, su, fam string) {
		c := c12AssembleMap(id(), shape, su, r)
		c.Family = fam
		out = append(out, c)
	}
	rot := c12MapShapes[3:]
	for ri, r := range c12Rules() {
		for si, sh := range c12MapShapes {
			if tier != "thorough" && si >= 3 && rot[ri%len(rot)] != sh {
				continue
			}
			su := "min"
			if (ri+si)%5 == 0 {
				su = "rich"
			}
			add(r, sh, su, "nested-map-order")
		}
	}
	for ri, r := range c12SiblingRules() {
		for si, sh := range c12MapShapes {
			if tier != "thorough" && si != ri%3 {
				continue
			}
			add(r, sh, "min", "nested-map-order")
		}
	}
	for ri, r := range c12Gaps() {
		for si, sh := range c12MapShapes {
			if tier != "thorough" && si != ri%3 && si != 3+ri%len(rot) {
				continue
			}
			add(r, sh, "min", "nested-map-order-gap")
		}
	}
	valids := append(c12Valid(), c12SiblingValid()...)
	for ri, r := range valids {
		for si, sh := range c12MapShapes {
			if tier != "thorough" && si != ri%3 && si != 3+ri%len(rot) {
				continue
			}
			add(r, sh, "min", "nested-map-order-valid")
		}
	}
	return out
}
