package lib

import (
	"bytes"
	"encoding/hex"
	"encoding/json"
	"fmt"
	"math"
	"math/rand"
	"net/url"
	"os"
	"path/filepath"
	"regexp"
	"sort"
	"strings"

	"google.golang.org/protobuf/encoding/protojson"
	"google.golang.org/protobuf/reflect/protoreflect"
	"google.golang.org/protobuf/types/dynamicpb"
)

// ---- node driver observations ------------------------------------------------------------------

type nodeErr struct {
	Class      string `json:"class"`
	Name       string `json:"name"`
	Message    string `json:"message"`
	StatusCode *int   `json:"statusCode"`
	Body       string `json:"body"`
	Violations any    `json:"violations"`
}

type nodeLoadErr struct {
	Class string `json:"error_class"`
	Msg   string `json:"error_msg"`
}

type nodeWire struct {
	Method  string      `json:"method"`
	Path    string      `json:"path"`
	Search  string      `json:"search"`
	Headers [][2]string `json:"headers"`
}

type nodeReq struct {
	URL        string         `json:"url"`
	Method     string         `json:"method"`
	RawHeaders map[string]any `json:"raw_headers"`
	Body       *string        `json:"body"`
	Wire       *nodeWire      `json:"wire"`
	WireError  *nodeErr       `json:"wire_error"`
}

type nodeResp struct {
	Status  int         `json:"status"`
	Headers [][2]string `json:"headers"`
	BodyHex string      `json:"body_hex"`
	Body    string      `json:"body"`
}

type nodeHandlerCall struct {
	Method     string `json:"method"`
	Req        any    `json:"req"`
	PathParams any    `json:"path_params"`
}

type nodeServerObs struct {
	ServerLoadError *nodeLoadErr      `json:"server_load_error"`
	HandlerCalls    []nodeHandlerCall `json:"handler_calls"`
	Matched         *struct {
		Index  int    `json:"index"`
		Method string `json:"method"`
		Path   string `json:"path"`
	} `json:"matched"`
	Response     *nodeResp `json:"response"`
	RouteThrew   *nodeErr  `json:"route_handler_threw"`
	RoutesError  *nodeErr  `json:"routes_error"`
	RequestError *nodeErr  `json:"request_error"`
	Error        string    `json:"error"`
}

type nodeObs struct {
	ID          string         `json:"id"`
	OK          *bool          `json:"ok"`
	ErrClass    string         `json:"error_class"`
	ErrMsg      string         `json:"error_msg"`
	Exports     []string       `json:"exports"`
	LoadError   *nodeLoadErr   `json:"load_error"`
	Requests    []nodeReq      `json:"requests"`
	Result      any            `json:"result"`
	HasResult   bool           `json:"-"`
	ClientError *nodeErr       `json:"client_error"`
	Construct   *nodeErr       `json:"construct_error"`
	Server      *nodeServerObs `json:"server"`
	nodeServerObs
	Out         any      `json:"out"`
	Threw       *nodeErr `json:"threw"`
	Timeout     bool     `json:"timeout"`
	DriverError *nodeErr `json:"driver_error"`
	Error2      string   `json:"error"`
}

func decodeNodeObs(raw json.RawMessage) (*nodeObs, error) {
	var o nodeObs
	dec := json.NewDecoder(bytes.NewReader(raw))
	dec.UseNumber()
	if err := dec.Decode(&o); err != nil {
		return nil, err
	}
	var probe map[string]json.RawMessage
	json.Unmarshal(raw, &probe)
	_, o.HasResult = probe["result"]
	return &o, nil
}

// ---- cases --------------------------------------------------------------------------------------------

const (
	pairTsGo = 0
	pairGoTs = 1
	pairTsTs = 2
)

var pairNames = []string{"ts-go", "go-ts", "ts-ts"}

type c08Case struct {
	req    *Request
	g      *GenOutput
	file   *File
	svc    *Service
	md     *Method
	pair   int
	reqMsg *dynamicpb.Message
	resp   *dynamicpb.Message
	family string
	// header options
	clientOpts map[string]any // TS client options (helper props, defaultHeaders)
	callOpts   map[string]any // TS call options
	goOpts     map[string]any // reg.CallOpts for the Go client
	hdrNote    string

	// pipeline state
	n1, n2 *nodeObs
	g1, g2 *RunnerObs
	skip   string
}

func tsFileFor(files map[string]string, f *File, suffix string) string {
	want := strings.TrimSuffix(f.Path, ".proto")
	base := want[strings.LastIndex(want, "/")+1:]
	for n, p := range files {
		if strings.HasSuffix(n, "/"+base+suffix) || n == base+suffix {
			return p
		}
	}
	return ""
}

// requiredQueryNonZero forces required query parameters on bodyless verbs to a non-default value:
// a default one is not sent by either client and the Go server then (correctly) answers 400.
func requiredQueryNonZero(m *dynamicpb.Message, in *Message, rng *rand.Rand) {
	for _, f := range in.Fields {
		if f.Query == nil || !f.Query.Required || f.Card != "singular" {
			continue
		}
		fd := m.Descriptor().Fields().ByName(protoreflect.Name(f.Name))
		if fd == nil || m.Has(fd) {
			continue
		}
		switch fd.Kind() {
		case protoreflect.StringKind:
			m.Set(fd, protoreflect.ValueOfString(strPool[1+rng.Intn(4)]))
		case protoreflect.BoolKind:
			m.Set(fd, protoreflect.ValueOfBool(true))
		case protoreflect.Int32Kind, protoreflect.Sint32Kind, protoreflect.Sfixed32Kind:
			m.Set(fd, protoreflect.ValueOfInt32(7))
		case protoreflect.Int64Kind, protoreflect.Sint64Kind, protoreflect.Sfixed64Kind:
			m.Set(fd, protoreflect.ValueOfInt64(7))
		case protoreflect.Uint32Kind, protoreflect.Fixed32Kind:
			m.Set(fd, protoreflect.ValueOfUint32(7))
		case protoreflect.Uint64Kind, protoreflect.Fixed64Kind:
			m.Set(fd, protoreflect.ValueOfUint64(7))
		case protoreflect.FloatKind:
			m.Set(fd, protoreflect.ValueOfFloat32(1.5))
		case protoreflect.DoubleKind:
			m.Set(fd, protoreflect.ValueOfFloat64(1.5))
		}
	}
}

// noNegativeZero replaces -0.0 by +0.0 everywhere: JSON.stringify(-0) is "0" in every JS engine,
// a property of the language and not of the emitted code (recorded under "unmodelled" in the evidence).
func noNegativeZero(m protoreflect.Message) {
	m.Range(func(fd protoreflect.FieldDescriptor, v protoreflect.Value) bool {
		fix := func(k protoreflect.Kind, x protoreflect.Value) (protoreflect.Value, bool) {
			if (k == protoreflect.FloatKind || k == protoreflect.DoubleKind) && x.Float() == 0 && math.Signbit(x.Float()) {
				if k == protoreflect.FloatKind {
					return protoreflect.ValueOfFloat32(0), true
				}
				return protoreflect.ValueOfFloat64(0), true
			}
			return x, false
		}
		switch {
		case fd.IsMap():
			vk := fd.MapValue().Kind()
			v.Map().Range(func(k protoreflect.MapKey, mv protoreflect.Value) bool {
				if vk == protoreflect.MessageKind {
					noNegativeZero(mv.Message())
				} else if nv, ok := fix(vk, mv); ok {
					v.Map().Set(k, nv)
				}
				return true
			})
		case fd.IsList():
			l := v.List()
			for i := 0; i < l.Len(); i++ {
				if fd.Kind() == protoreflect.MessageKind {
					noNegativeZero(l.Get(i).Message())
				} else if nv, ok := fix(fd.Kind(), l.Get(i)); ok {
					l.Set(i, nv)
				}
			}
		case fd.Kind() == protoreflect.MessageKind:
			noNegativeZero(v.Message())
		default:
			if nv, ok := fix(fd.Kind(), v); ok {
				if fd.HasPresence() {
					m.Set(fd, nv)
				} else {
					m.Clear(fd)
				}
			}
		}
		return true
	})
}

func decodedQuery(raw string) [][]string {
	q := [][]string{}
	raw = strings.TrimPrefix(raw, "?")
	if raw == "" {
		return q
	}
	for _, p := range strings.Split(raw, "&") {
		k, v, _ := strings.Cut(p, "=")
		ku, e1 := url.QueryUnescape(k)
		vu, e2 := url.QueryUnescape(v)
		if e1 != nil || e2 != nil {
			ku, vu = "!"+k, "!"+v
		}
		q = append(q, []string{ku, vu})
	}
	return q
}

func bodyClass(verb string, body []byte, reqMsg *dynamicpb.Message) string {
	hasBodyVerb := verb == "POST" || verb == "PUT" || verb == "PATCH"
	if !hasBodyVerb {
		if len(body) > 0 {
			return "unexpected-body"
		}
		return "none"
	}
	switch {
	case reqMsg != nil && bytes.Equal(body, Wire(reqMsg)) && !json.Valid(body):
		return "proto"
	case json.Valid(body):
		return "json"
	}
	return "other"
}

// firstViolationField reads {"violations":[{"field":..}]} bodies (both servers write this JSON shape).
func firstViolationField(body []byte) string {
	var v struct {
		Violations []struct {
			Field string `json:"field"`
		} `json:"violations"`
	}
	if json.Unmarshal(body, &v) != nil || len(v.Violations) == 0 {
		return ""
	}
	return v.Violations[0].Field
}

func protoMethodFor(svc *Service, tsName string) *Method {
	for _, m := range svc.Methods {
		if lowerFirst(GoCamelCase(m.Name)) == tsName {
			return m
		}
	}
	return nil
}

func hdrList(h map[string][]string) [][2]string {
	var out [][2]string
	keys := make([]string, 0, len(h))
	for k := range h {
		keys = append(keys, k)
	}
	sort.Strings(keys)
	for _, k := range keys {
		lk := strings.ToLower(k)
		if lk == "content-length" || lk == "user-agent" || lk == "accept-encoding" || lk == "host" {
			continue
		}
		for _, v := range h[k] {
			out = append(out, [2]string{k, v})
		}
	}
	return out
}

// ---- C08 -------------------------------------------------------------------------------------------------

func CheckC08(run *Run) {
	run.Proof = CheckProofs("C08")
	run.Prepare()
	if _, err := TsNodeBin(); err != nil {
		run.Fatal("%v", err)
	}
	reqs := TsRuntimeCatalogue()
	rng := rand.New(rand.NewSource(run.Seed + 808))
	nRandom, perRPC := 3, 1
	if run.Tier == "thorough" {
		nRandom, perRPC = 40, 6
	}
	reqs = append(reqs, RandomRouteRequests(rng, nRandom)...)
	s := NewSession(run, reqs)
	s.BuildRuntime(false)
	tsFiles, err := WriteTsFiles(run.WorkDir+"/ts", reqs, s.Gens)
	if err != nil {
		run.Fatal("%v", err)
	}
	serverOnly := map[string]bool{}
	for _, r := range reqs {
		for _, t := range r.Tags {
			if t == "server-only" {
				serverOnly[r.ID] = true
			}
		}
	}

	var defs strings.Builder
	defIdx := map[string]int{}
	for i, r := range reqs {
		defIdx[r.ID] = i
		fmt.Fprintf(&defs, "Definition sc_%d : schema := %s.\n", i, CoqSchema(r))
	}

	// ---- family: module load -------------------------------------------------------------------------
	type loadCase struct {
		r      *Request
		fi     int
		client bool
		path   string
	}
	var loads []loadCase
	for _, r := range reqs {
		for fi, f := range r.Files {
			if !f.Generate || len(f.Services) == 0 {
				continue
			}
			for _, client := range []bool{true, false} {
				suffix := "_server.ts"
				if client {
					suffix = "_client.ts"
				}
				p := tsFileFor(tsFiles[r.ID], f, suffix)
				loads = append(loads, loadCase{r, fi, client, p})
			}
		}
	}

	// ---- family: calls ---------------------------------------------------------------------------------
	var cases []*c08Case
	vg := &ValueGen{Rng: rng}
	for i, r := range reqs {
		g := s.Gens[i]
		hasHeaders := false
		routesOnly := false
		for _, t := range r.Tags {
			if t == "headers" {
				hasHeaders = true
			}
			if t == "routes" {
				routesOnly = true
			}
		}
		for _, f := range r.Files {
			for _, svc := range f.Services {
				for _, md := range svc.Methods {
					in := g.Built.MessageDesc(md.In)
					out := g.Built.MessageDesc(md.Out)
					inSpec, _ := r.FindMessage(md.In)
					mk := func(k int) (*dynamicpb.Message, *dynamicpb.Message) {
						var rm, rs *dynamicpb.Message
						if k < 0 {
							rm, rs = dynamicpb.NewMessage(in), dynamicpb.NewMessage(out)
						} else {
							p := 0.7
							if k == 0 {
								p = 1.0
							}
							rm, rs = vg.Random(in, p), vg.Random(out, p)
						}
						pathBoundNonEmpty(rm, md, rng)
						if (md.Verb == "GET" || md.Verb == "DELETE") && k > 0 {
							requiredQueryNonZero(rm, inSpec, rng)
						}
						noNegativeZero(rm)
						noNegativeZero(rs)
						return rm, rs
					}
					for k := -1; k < perRPC; k++ {
						rm, rs := mk(k)
						fam := "call"
						if k < 0 {
							fam = "call-default"
						}
						for pair := 0; pair < 3; pair++ {
							if routesOnly && k >= 0 && run.Tier != "thorough" && pair != (len(cases)/3+k)%3 {
								continue // route catalogues: the random value goes through one pair (rotating), the default through all
							}
							c := &c08Case{req: r, g: g, file: f, svc: svc, md: md, pair: pair, reqMsg: rm, resp: rs, family: fam + ":" + pairNames[pair]}
							if hasHeaders {
								c.family = "hdr-call:" + pairNames[pair]
								helperOptions(c, k)
							}
							cases = append(cases, c)
						}
					}
				}
			}
		}
	}
	// directed path values on a string path variable: every printable ASCII byte, dot segments, slash,
	// multi-byte UTF-8, percent shapes — for every pair (tsk GetP0 / DelP0 / PutP0 have string pv)
	for i, r := range reqs {
		if r.ID != "tsk" {
			continue
		}
		g := s.Gens[i]
		f := r.Files[0]
		svc := f.Services[0]
		var vals []string
		for b := 0x20; b < 0x7f; b++ {
			vals = append(vals, string([]byte{byte(b)}), "a"+string([]byte{byte(b)})+"b")
		}
		vals = append(vals, "\x01", "\t", "\n", "é", "߿", "ࠀ", "￿", "\U00010000", "\U0010ffff", "a%2Fb", "%", "%%", "%zz", "%2e", "%2E%2e", "a+b",
			"..", ".", "...", ".a", "a/../b", "//", "a//b", "undefined", "null", "{pv}", "$&", "$1", "a b")
		if run.Tier != "thorough" {
			// quick: the single bytes and specials; the a<byte>b forms only in thorough
			var q []string
			for _, v := range vals {
				if len(v) == 3 && v[0] == 'a' && v[2] == 'b' && v[1] < 0x7f {
					continue
				}
				q = append(q, v)
			}
			vals = q
		}
		for _, mn := range []string{"GetP0", "PutP0", "DelP0"} {
			var md *Method
			for _, m := range svc.Methods {
				if m.Name == mn {
					md = m
				}
			}
			in := g.Built.MessageDesc(md.In)
			for _, v := range vals {
				for pair := 0; pair < 3; pair++ {
					if mn != "GetP0" && len(v) == 1 && v[0] > 0x20 && v[0] < 0x7f && v != "." && v != "/" && v != "%" && v != "+" {
						continue // the other two verbs take the specials only
					}
					rm := dynamicpb.NewMessage(in)
					SetField(rm, "pv", v)
					if mn == "DelP0" {
						SetField(rm, "second_part", v)
					}
					cases = append(cases, &c08Case{req: r, g: g, file: f, svc: svc, md: md, pair: pair, reqMsg: rm,
						resp: dynamicpb.NewMessage(g.Built.MessageDesc(md.Out)), family: "path-sweep:" + pairNames[pair]})
				}
			}
		}
		// query sweep on GetQ0 (string qv)
		var mdq *Method
		for _, m := range svc.Methods {
			if m.Name == "GetQ0" {
				mdq = m
			}
		}
		in := g.Built.MessageDesc(mdq.In)
		for _, v := range vals {
			for pair := 0; pair < 3; pair++ {
				rm := dynamicpb.NewMessage(in)
				SetField(rm, "qv", v)
				SetField(rm, "req_q", "r")
				cases = append(cases, &c08Case{req: r, g: g, file: f, svc: svc, md: mdq, pair: pair, reqMsg: rm,
					resp: dynamicpb.NewMessage(g.Built.MessageDesc(mdq.Out)), family: "query-sweep:" + pairNames[pair]})
			}
		}
	}
	for i, r := range reqs {
		if r.ID != "rtsib" {
			continue
		}
		g := s.Gens[i]
		f := r.Files[0]
		svc := f.Services[0]
		for _, md := range svc.Methods {
			in := g.Built.MessageDesc(md.In)
			if in.Fields().ByName("id") == nil {
				continue
			}
			for _, v := range []string{"special", "Special", "special/", "x"} {
				for pair := 0; pair < 3; pair++ {
					rm := dynamicpb.NewMessage(in)
					SetField(rm, "id", v)
					if in.Fields().ByName("mode") != nil {
						SetField(rm, "mode", "m")
					}
					cases = append(cases, &c08Case{req: r, g: g, file: f, svc: svc, md: md, pair: pair, reqMsg: rm,
						resp: dynamicpb.NewMessage(g.Built.MessageDesc(md.Out)), family: "sibling:" + pairNames[pair]})
				}
			}
		}
	}
	// which pairs can be driven at all
	for _, c := range cases {
		cf := tsFileFor(tsFiles[c.req.ID], c.file, "_client.ts")
		sf := tsFileFor(tsFiles[c.req.ID], c.file, "_server.ts")
		switch c.pair {
		case pairTsGo:
			if !s.InRunner[c.req.ID] {
				c.skip = "emitted Go package does not build"
			} else if cf == "" {
				c.skip = "no TS client emitted"
			}
		case pairGoTs:
			if !s.InRunner[c.req.ID] || serverOnly[c.req.ID] {
				c.skip = "no Go client for this package"
			} else if sf == "" {
				c.skip = "no TS server emitted"
			}
		case pairTsTs:
			if cf == "" || sf == "" {
				c.skip = "TS client or server not emitted"
			}
		}
	}
	// a server module that does not load answers every call the same way: a few calls per package suffice
	{
		var ls []any
		for i, l := range loads {
			ls = append(ls, map[string]any{"id": fmt.Sprintf("load%d", i), "kind": "load", "file": l.path})
		}
		rawl, err := RunNode(ls)
		if err != nil {
			run.Fatal("node (load): %v", err)
		}
		noLoad := map[string]bool{}
		for i, l := range loads {
			o, err := decodeNodeObs(rawl[i])
			if err != nil {
				run.Fatal("node observation: %v", err)
			}
			if !l.client && !(o.OK != nil && *o.OK) {
				noLoad[l.r.ID] = true
			}
		}
		perPkg := map[string]int{}
		for _, c := range cases {
			if c.skip == "" && c.pair != pairTsGo && noLoad[c.req.ID] {
				k := c.req.ID + pairNames[c.pair]
				perPkg[k]++
				if perPkg[k] > 6 {
					c.skip = "TS server module does not load (first 6 calls of the package driven)"
				}
			}
		}
	}
	var live []*c08Case
	skipped := map[string]int{}
	for _, c := range cases {
		if c.skip != "" {
			skipped[c.req.ID+": "+pairNames[c.pair]+": "+c.skip]++
			continue
		}
		live = append(live, c)
	}
	cases = live
	for k, n := range skipped {
		run.Notes = append(run.Notes, fmt.Sprintf("%s (%d cases not driven)", k, n))
	}

	// ---- family: header helper names ---------------------------------------------------------------------
	hdrCases := buildHdrCases(reqs, s, tsFiles, serverOnly)

	// ---- family: JS built-ins ----------------------------------------------------------------------------
	jsCases := buildJsCases(run.Tier)

	// ================= node pass 1 =========================================================================
	var n1 []any
	for i, l := range loads {
		n1 = append(n1, map[string]any{"id": fmt.Sprintf("load%d", i), "kind": "load", "file": l.path})
	}
	loadBase := 0
	jsBase := len(n1)
	for i, j := range jsCases {
		n1 = append(n1, map[string]any{"id": fmt.Sprintf("js%d", i), "kind": "js", "fn": j.nodeFn, "args": j.nodeArgs})
	}
	hdrBase := len(n1)
	for i, h := range hdrCases {
		if h.ts {
			n1 = append(n1, h.nodeScenario(fmt.Sprintf("hdr%d", i)))
		} else {
			n1 = append(n1, map[string]any{"id": fmt.Sprintf("hdr%d", i), "kind": "js", "fn": "String", "args": []any{"unused"}})
		}
	}
	rawCases := buildTsRawCases(reqs, s, tsFiles)
	rawBase := len(n1)
	for i, rc := range rawCases {
		n1 = append(n1, rc.scenario(fmt.Sprintf("raw%d", i)))
	}
	callBase := len(n1)
	for i, c := range cases {
		cf := tsFileFor(tsFiles[c.req.ID], c.file, "_client.ts")
		sf := tsFileFor(tsFiles[c.req.ID], c.file, "_server.ts")
		tsMethod := lowerFirst(GoCamelCase(c.md.Name))
		id := fmt.Sprintf("c%d", i)
		switch c.pair {
		case pairTsGo:
			n1 = append(n1, map[string]any{"id": id, "kind": "ts_client_call", "file": cf, "service": GoCamelCase(c.svc.Name), "method": tsMethod,
				"req": TsArg(c.reqMsg), "client_options": c.clientOpts, "call_options": c.callOpts})
		case pairTsTs:
			n1 = append(n1, map[string]any{"id": id, "kind": "ts_ts_call", "client_file": cf, "server_file": sf, "service": GoCamelCase(c.svc.Name), "method": tsMethod,
				"req": TsArg(c.reqMsg), "client_options": c.clientOpts, "call_options": c.callOpts, "script": map[string]any{"result": TsArg(c.resp)}})
		default:
			n1 = append(n1, map[string]any{"id": id, "kind": "js", "fn": "String", "args": []any{"unused"}})
		}
	}
	raw1, err := RunNode(n1)
	if err != nil {
		run.Fatal("node pass 1: %v", err)
	}
	obs1 := make([]*nodeObs, len(raw1))
	for i, r := range raw1 {
		o, err := decodeNodeObs(r)
		if err != nil {
			run.Fatal("node observation: %v: %s", err, tail(string(r), 300))
		}
		if o.DriverError != nil || o.Timeout {
			run.Fatal("node driver failed on scenario %d: %s", i, tail(string(r), 400))
		}
		obs1[i] = o
	}
	for i, c := range cases {
		c.n1 = obs1[callBase+i]
	}

	// ================= Go pass 1 ============================================================================
	var g1 []any
	for i, c := range cases {
		id := fmt.Sprintf("c%d", i)
		switch c.pair {
		case pairTsGo:
			sc := map[string]any{"id": id, "kind": "raw", "pkg": c.req.ID, "service": c.svc.Name, "script": map[string]any{"resp": WireHex(c.resp)}}
			if len(c.n1.Requests) > 0 && c.n1.Requests[0].Wire != nil {
				w := c.n1.Requests[0].Wire
				sc["verb"] = w.Method
				sc["target"] = w.Path + w.Search
				hs := [][2]string{}
				for _, h := range w.Headers {
					hs = append(hs, h)
				}
				sc["headers"] = hs
				if b := c.n1.Requests[0].Body; b != nil {
					sc["body"] = hexOf(*b)
				}
			} else {
				sc["kind"] = "ids"
			}
			g1 = append(g1, sc)
		case pairGoTs:
			sc := map[string]any{"id": id, "kind": "call", "pkg": c.req.ID, "service": c.svc.Name, "method": c.md.Name, "req": WireHex(c.reqMsg),
				"canned_resp": map[string]any{"status": 200, "headers": [][2]string{{"Content-Type", "application/json"}}, "body_hex": hexOf("{}")}}
			if c.goOpts != nil {
				sc["opts"] = c.goOpts
			}
			g1 = append(g1, sc)
		default:
			g1 = append(g1, map[string]any{"id": id, "kind": "ids"})
		}
	}
	hdrGoBase := len(g1)
	for i, h := range hdrCases {
		if !h.ts {
			g1 = append(g1, h.goScenario(fmt.Sprintf("hdr%d", i)))
		} else {
			g1 = append(g1, map[string]any{"id": fmt.Sprintf("hdr%d", i), "kind": "ids"})
		}
	}
	rawg1, err := RunScenarios(s.Runner, g1, 8)
	if err != nil {
		run.Fatal("runner pass 1: %v", err)
	}
	gobs1 := make([]*RunnerObs, len(rawg1))
	for i, r := range rawg1 {
		var o RunnerObs
		if err := json.Unmarshal(r, &o); err != nil {
			run.Fatal("bad runner observation: %v", err)
		}
		if o.Error != "" {
			run.Fatal("runner error on scenario %d: %s", i, o.Error)
		}
		gobs1[i] = &o
	}
	for i, c := range cases {
		c.g1 = gobs1[i]
	}

	// ================= node pass 2 ==========================================================================
	var n2 []any
	for i, c := range cases {
		id := fmt.Sprintf("c%d", i)
		cf := tsFileFor(tsFiles[c.req.ID], c.file, "_client.ts")
		sf := tsFileFor(tsFiles[c.req.ID], c.file, "_server.ts")
		tsMethod := lowerFirst(GoCamelCase(c.md.Name))
		switch {
		case c.pair == pairTsGo && c.g1.Panic == "" && c.g1.Status != 0:
			hs := [][2]string{}
			for k, vs := range c.g1.RespHeader {
				for _, v := range vs {
					hs = append(hs, [2]string{k, v})
				}
			}
			n2 = append(n2, map[string]any{"id": id, "kind": "ts_client_call", "file": cf, "service": GoCamelCase(c.svc.Name), "method": tsMethod,
				"req": TsArg(c.reqMsg), "client_options": c.clientOpts, "call_options": c.callOpts,
				"response": map[string]any{"status": c.g1.Status, "headers": hs, "body_hex": c.g1.RespBodyHex}})
		case c.pair == pairGoTs && len(c.g1.Requests) > 0:
			rq := c.g1.Requests[0]
			u := "http://verif.test" + rq.Path
			if rq.RawQuery != "" {
				u += "?" + rq.RawQuery
			}
			sc := map[string]any{"id": id, "kind": "ts_server_call", "file": sf, "service": GoCamelCase(c.svc.Name),
				"request": map[string]any{"method": rq.Method, "url": u, "headers": hdrList(rq.Header), "body_hex": rq.BodyHex},
				"script":  map[string]any{"result": TsArg(c.resp)}}
			if rq.BodyHex == "" {
				delete(sc["request"].(map[string]any), "body_hex")
			}
			n2 = append(n2, sc)
		default:
			n2 = append(n2, map[string]any{"id": id, "kind": "js", "fn": "String", "args": []any{"unused"}})
		}
	}
	raw2, err := RunNode(n2)
	if err != nil {
		run.Fatal("node pass 2: %v", err)
	}
	for i, c := range cases {
		o, err := decodeNodeObs(raw2[i])
		if err != nil {
			run.Fatal("node observation: %v", err)
		}
		if o.DriverError != nil || o.Timeout {
			run.Fatal("node driver failed (pass 2) on case %d: %s", i, tail(string(raw2[i]), 400))
		}
		c.n2 = o
	}

	// ================= Go pass 2 ============================================================================
	var g2 []any
	for i, c := range cases {
		id := fmt.Sprintf("c%d", i)
		if c.pair == pairGoTs && c.n2.Response != nil {
			sc := map[string]any{"id": id, "kind": "call", "pkg": c.req.ID, "service": c.svc.Name, "method": c.md.Name, "req": WireHex(c.reqMsg),
				"canned_resp": map[string]any{"status": c.n2.Response.Status, "headers": c.n2.Response.Headers, "body_hex": c.n2.Response.BodyHex}}
			if c.goOpts != nil {
				sc["opts"] = c.goOpts
			}
			g2 = append(g2, sc)
		} else {
			g2 = append(g2, map[string]any{"id": id, "kind": "ids"})
		}
	}
	rawg2, err := RunScenarios(s.Runner, g2, 8)
	if err != nil {
		run.Fatal("runner pass 2: %v", err)
	}
	for i, c := range cases {
		var o RunnerObs
		if err := json.Unmarshal(rawg2[i], &o); err != nil {
			run.Fatal("bad runner observation: %v", err)
		}
		c.g2 = &o
	}

	// ================= observations, oracle, model ==========================================================
	// -- load
	{
		var ccs []CoqCase
		var results []*CaseResult
		for i, l := range loads {
			o := obs1[loadBase+i]
			loaded := o.OK != nil && *o.OK
			kind := "server"
			if l.client {
				kind = "client"
			}
			note := ""
			if !loaded {
				note = fmt.Sprintf("emitted %s module does not load: %s: %s", kind, o.ErrClass, firstLine(o.ErrMsg))
				if l.path == "" {
					note = "no " + kind + " module was emitted"
				}
			}
			obs := map[string]any{"loads": loaded}
			cr := &CaseResult{ID: fmt.Sprintf("%s/%s:%s", l.r.ID, l.r.Files[l.fi].Path, kind), Family: "load:" + kind,
				Input: map[string]any{"schema": l.r.ID, "file": l.r.Files[l.fi].Path, "module": kind}, Obs: obs, OracleHolds: loaded, OracleNote: note,
				NonTrivial: true, Features: []string{"load:" + kind}}
			results = append(results, cr)
			ccs = append(ccs, CoqCase{Term: fmt.Sprintf("(sc_%d, %d%%nat, %s)", defIdx[l.r.ID], l.fi, CoqBool(l.client)), Obs: obs})
		}
		vs, err := CoqRun(run.WorkDir, "c08load", "From Sebuf Require Import Text Json Route Schema Value GoRt TsRt.\n", defs.String(), "c08_load_case", "predict_C08_load", ccs, 4)
		if err != nil {
			run.Fatal("model evaluation (load): %v", err)
		}
		for i, cr := range results {
			cr.Apply(vs[i])
			run.Results = append(run.Results, cr)
		}
	}
	// -- js
	{
		var ccs []CoqCase
		var results []*CaseResult
		for i, j := range jsCases {
			o := obs1[jsBase+i]
			obs := map[string]any{"out": j.project(o)}
			cr := &CaseResult{ID: fmt.Sprintf("js/%s#%d", j.fn, i), Family: "js:" + j.fn, Input: map[string]any{"fn": j.fn, "arg_hex": hexOf(j.arg)},
				Obs: obs, OracleHolds: true, NonTrivial: true, Features: []string{"js:" + j.fn}}
			results = append(results, cr)
			ccs = append(ccs, CoqCase{Term: fmt.Sprintf("(%s, %s)", CoqStr(j.fn), CoqStr(j.arg)), Obs: obs})
		}
		vs, err := CoqRun(run.WorkDir, "c08js", "From Sebuf Require Import Text Json Route Schema Value GoRt TsRt.\n", "", "c08_js_case", "predict_C08_js", ccs, 8)
		if err != nil {
			run.Fatal("model evaluation (js): %v", err)
		}
		for i, cr := range results {
			cr.Apply(vs[i])
			run.Results = append(run.Results, cr)
		}
	}
	// -- header helper names
	{
		var ccs []CoqCase
		var results []*CaseResult
		for i, h := range hdrCases {
			var obs map[string]any
			var holds bool
			var note string
			if h.ts {
				obs, holds, note = h.tsObservation(obs1[hdrBase+i])
			} else {
				obs, holds, note = h.goObservation(gobs1[hdrGoBase+i])
			}
			side := "go"
			if h.ts {
				side = "ts"
			}
			cr := &CaseResult{ID: fmt.Sprintf("%s/%s.%s:%s:%s", h.req.ID, h.svc.Name, h.md.Name, side, h.header), Family: "hdr-helper:" + side,
				Input: map[string]any{"schema": h.req.ID, "service": h.svc.Name, "method": h.md.Name, "header": h.header, "declared": h.declared, "level": h.level},
				Obs:   obs, OracleHolds: holds, OracleNote: note, NonTrivial: true, Features: []string{"hdr-helper:" + side, "level:" + h.level}}
			results = append(results, cr)
			ccs = append(ccs, CoqCase{Term: fmt.Sprintf("(%s, %s, %s)", CoqBool(h.ts), CoqStrList(h.declared), CoqStr(h.header)), Obs: obs})
		}
		vs, err := CoqRun(run.WorkDir, "c08hdr", "From Sebuf Require Import Text Json Route Schema Value GoRt TsRt.\n", "", "c08_hdr_case", "predict_C08_hdr", ccs, 4)
		if err != nil {
			run.Fatal("model evaluation (hdr): %v", err)
		}
		for i, cr := range results {
			cr.Apply(vs[i])
			run.Results = append(run.Results, cr)
		}
	}
	// -- TS server facing arbitrary requests (exploration of its URL binding; no generated client sends these)
	{
		var ccs []CoqCase
		var results []*CaseResult
		for i, rc := range rawCases {
			obs := rc.observation(obs1[rawBase+i])
			cr := &CaseResult{ID: fmt.Sprintf("%s/%s:raw#%d", rc.req.ID, rc.svc.Name, i), Family: "ts-raw",
				Input: map[string]any{"schema": rc.req.ID, "service": rc.svc.Name, "verb": rc.verb, "path": rc.path, "query": rc.query, "body": rc.bodyText},
				Obs:   obs, OracleHolds: true, NonTrivial: true, Features: []string{"ts-raw", "verb:" + rc.verb}}
			results = append(results, cr)
			body := "None"
			if rc.body != nil {
				_, bc := MsgCanon(rc.body)
				body = "(Some " + bc + ")"
			}
			ccs = append(ccs, CoqCase{Term: fmt.Sprintf("(sc_%d, %s, %d%%nat, %s, %s, %s, [])", defIdx[rc.req.ID], CoqStr(rc.svc.Name), verbNum[rc.verb], CoqStr(rc.path), CoqStr(rc.query), body), Obs: obs})
		}
		vs, err := CoqRun(run.WorkDir, "c08raw", "From Sebuf Require Import Text Json Route Schema Value GoRt TsRt.\n", defs.String(), "c08_raw_case", "predict_C08_raw", ccs, 4)
		if err != nil {
			run.Fatal("model evaluation (raw): %v", err)
		}
		for i, cr := range results {
			cr.Apply(vs[i])
			run.Results = append(run.Results, cr)
		}
	}
	// -- calls
	{
		var ccs []CoqCase
		var results []*CaseResult
		for i, c := range cases {
			obs, holds, note, hs := c.observation()
			reqJ, reqC := MsgCanon(c.reqMsg)
			respJ, respC := MsgCanon(c.resp)
			fam := c.family
			cr := &CaseResult{ID: fmt.Sprintf("%s/%s.%s:%s#%d", c.req.ID, c.svc.Name, c.md.Name, pairNames[c.pair], i), Family: fam,
				Input: map[string]any{"schema": c.req.ID, "service": c.svc.Name, "method": c.md.Name, "verb": c.md.Verb, "path": c.md.Path, "pair": pairNames[c.pair],
					"request": reqJ, "response": respJ, "ts_client_options": c.clientOpts, "ts_call_options": c.callOpts, "go_options": c.goOpts},
				Obs: obs, OracleHolds: holds, OracleNote: note, NonTrivial: len(reqJ) > 0 || len(respJ) > 0,
				Features: []string{"pair:" + pairNames[c.pair], "verb:" + c.md.Verb, strings.SplitN(fam, ":", 2)[0]}}
			results = append(results, cr)
			var hl []string
			for _, h := range hs {
				hl = append(hl, "("+CoqStr(h[0])+", "+CoqStr(h[1])+")")
			}
			ccs = append(ccs, CoqCase{Term: fmt.Sprintf("(sc_%d, (%s, %s), %d%%nat, [%s], %s, %s)", defIdx[c.req.ID], CoqStr(c.svc.Name), CoqStr(c.md.Name), c.pair, strings.Join(hl, "; "), reqC, respC), Obs: obs})
		}
		vs, err := CoqRun(run.WorkDir, "c08", "From Sebuf Require Import Text Json Route Schema Value GoRt TsRt.\n", defs.String(), "c08_case", "predict_C08", ccs, 16)
		if err != nil {
			run.Fatal("model evaluation: %v", err)
		}
		for i, cr := range results {
			cr.Apply(vs[i])
			if cr.Unmodelled != "" && !cr.OracleHolds {
				cr.Tags = z3TagsC08(cases[i], cr)
			}
			run.Results = append(run.Results, cr)
		}
	}
	tsDebugDump(run)
	run.Extra["schemas"] = len(reqs)
	run.Extra["node"] = "node --experimental-strip-types (type stripping only; no TypeScript type check)"
	run.Notes = append(run.Notes,
		"float fields never hold -0.0 in this check: JSON.stringify(-0) is \"0\" in every JS engine (language semantics, outside the emitted code)",
		"TS-side values are the proto3-JSON form with every implicit-presence field present (the shape the emitted interfaces require)")
	run.Finish()
}

// observation projects the pipeline state of one call case onto the C08 observables.
func (c *c08Case) observation() (map[string]any, bool, string, [][2]string) {
	obs := map[string]any{}
	want, _ := MsgCanon(c.reqMsg)
	wantResp, _ := MsgCanon(c.resp)
	in := c.g.Built
	holds := false
	note := ""
	var seenHeaders [][2]string
	tsRequest := func(o *nodeObs) any {
		if len(o.Requests) == 0 || o.Requests[0].Wire == nil {
			return nil
		}
		w := o.Requests[0].Wire
		seenHeaders = w.Headers
		body := []byte{}
		if b := o.Requests[0].Body; b != nil {
			body = []byte(*b)
		}
		return map[string]any{"method": w.Method, "path": w.Path, "query": decodedQuery(w.Search), "body": bodyClass(w.Method, body, nil)}
	}
	tsServerOutcome := func(so *nodeServerObs, clientGot func() (any, string)) {
		switch {
		case so == nil:
			obs["outcome"] = map[string]any{"class": "no-server-observation"}
			note = "no server observation"
		case so.ServerLoadError != nil:
			obs["outcome"] = map[string]any{"class": "load-error"}
			note = "TS server module does not load: " + so.ServerLoadError.Class + ": " + firstLine(so.ServerLoadError.Msg)
		case len(so.HandlerCalls) >= 1:
			hc := so.HandlerCalls[len(so.HandlerCalls)-1]
			pm := protoMethodFor(c.svc, hc.Method)
			var saw any = "undecodable"
			disp := hc.Method
			if pm != nil {
				disp = pm.Name
				saw = TsCanon(in.MessageDesc(pm.In), hc.Req)
			}
			got, gerr := clientGot()
			if gerr != "" {
				obs["outcome"] = map[string]any{"class": "client-error", "dispatched": disp, "handler_saw": saw}
				note = "handler ran but the client failed: " + gerr
				return
			}
			obs["outcome"] = map[string]any{"class": "delivered", "dispatched": disp, "handler_saw": saw, "client_got": got}
			holds = disp == c.md.Name && Diff(Canon(saw), Canon(want)) == "" && Diff(Canon(got), Canon(wantResp)) == ""
			if !holds {
				note = "handler-seen request or caller-seen response differs from what was passed/returned"
				if d := Diff(Canon(saw), Canon(want)); d != "" {
					note += " (request " + d + ")"
				}
			}
		case so.Matched == nil && so.Response != nil && so.Response.Status == 404:
			obs["outcome"] = map[string]any{"class": "not-routed"}
			note = "no TS route accepts the request line"
		case so.Response != nil && so.Response.Status == 400:
			body, _ := hex.DecodeString(so.Response.BodyHex)
			f := firstViolationField(body)
			obs["outcome"] = map[string]any{"class": "rejected", "field": f}
			note = "TS server answered 400 (field " + f + ")"
		case so.Response != nil && so.Response.Status == 500:
			obs["outcome"] = map[string]any{"class": "server-error"}
			note = "TS server answered 500: " + firstLine(so.Response.Body)
		default:
			obs["outcome"] = map[string]any{"class": "other"}
			note = "unexpected TS server behaviour: " + so.Error
		}
	}
	switch c.pair {
	case pairTsGo:
		if c.n1.LoadError != nil {
			obs["request"] = nil
			obs["outcome"] = map[string]any{"class": "client-load-error"}
			return obs, false, "TS client module does not load", nil
		}
		obs["request"] = tsRequest(c.n1)
		o := c.g1
		switch {
		case o.Panic != "":
			obs["request"] = nil
			obs["outcome"] = map[string]any{"class": "panic"}
			note = "panic: " + firstLine(o.Panic)
		case len(o.HandlerCalls) >= 1:
			hc := o.HandlerCalls[len(o.HandlerCalls)-1]
			var saw any = "undecodable"
			for _, m := range c.svc.Methods {
				if m.Name == hc.Method {
					if dm, err := in.FromWireHex(m.In, hc.Req); err == nil {
						saw, _ = MsgCanon(dm)
					}
				}
			}
			if c.n2 != nil && c.n2.HasResult && c.n2.ClientError == nil {
				got := TsCanon(in.MessageDesc(c.md.Out), c.n2.Result)
				obs["outcome"] = map[string]any{"class": "delivered", "dispatched": hc.Method, "handler_saw": saw, "client_got": got}
				holds = hc.Method == c.md.Name && Diff(Canon(saw), Canon(want)) == "" && Diff(Canon(got), Canon(wantResp)) == ""
				if !holds {
					note = "handler-seen request or caller-seen response differs from what was passed/returned"
				}
			} else {
				obs["outcome"] = map[string]any{"class": "client-error", "dispatched": hc.Method, "handler_saw": saw}
				note = "handler ran but the TS client threw"
				if c.n2 != nil && c.n2.ClientError != nil {
					note += ": " + c.n2.ClientError.Class + " " + firstLine(c.n2.ClientError.Message)
				}
			}
		case o.Status == 400:
			fs := violationFields(o)
			f := ""
			if len(fs) > 0 {
				f = fs[0]
			}
			obs["outcome"] = map[string]any{"class": "rejected", "field": f}
			note = "Go server answered 400 (field " + f + ")"
			if c.n2 != nil && c.n2.ClientError != nil && c.n2.ClientError.Class != "ValidationError" {
				note += "; TS client threw " + c.n2.ClientError.Class
			}
		default:
			obs["outcome"] = map[string]any{"class": "not-routed"}
			note = fmt.Sprintf("no Go handler reached, status %d", o.Status)
		}
	case pairGoTs:
		o := c.g1
		if len(o.Requests) > 0 {
			rq := o.Requests[0]
			body, _ := hex.DecodeString(rq.BodyHex)
			obs["request"] = map[string]any{"method": rq.Method, "path": rq.Path, "query": decodedQuery(rq.RawQuery), "body": bodyClass(rq.Method, body, c.reqMsg)}
			seenHeaders = hdrList(rq.Header)
		} else {
			obs["request"] = nil
		}
		tsServerOutcome(&c.n2.nodeServerObs, func() (any, string) {
			if c.g2 == nil || c.g2.Client == nil {
				return nil, "no client observation"
			}
			if c.g2.Client.Resp == nil {
				return nil, c.g2.Client.ErrType + ": " + firstLine(c.g2.Client.ErrMsg)
			}
			dm, err := in.FromWireHex(c.md.Out, *c.g2.Client.Resp)
			if err != nil {
				return "undecodable", ""
			}
			j, _ := MsgCanon(dm)
			return j, ""
		})
	case pairTsTs:
		if c.n1.LoadError != nil {
			obs["request"] = nil
			obs["outcome"] = map[string]any{"class": "client-load-error"}
			return obs, false, "TS client module does not load", nil
		}
		obs["request"] = tsRequest(c.n1)
		tsServerOutcome(c.n1.Server, func() (any, string) {
			if c.n1.ClientError != nil {
				return nil, c.n1.ClientError.Class + ": " + firstLine(c.n1.ClientError.Message)
			}
			if !c.n1.HasResult {
				return nil, "no result"
			}
			return TsCanon(in.MessageDesc(c.md.Out), c.n1.Result), ""
		})
	}
	return obs, holds, note, seenHeaders
}

// z3TagsC08 classifies oracle failures on cases the model does not cover (float kinds on the URL):
// the same causes as in the modelled region, recognised from the case itself.
func z3TagsC08(c *c08Case, cr *CaseResult) []string {
	var tags []string
	oc, _ := Canon(cr.Obs).(map[string]any)
	out, _ := oc["outcome"].(map[string]any)
	_ = out
	toTs := c.pair != pairTsGo
	if strings.Contains(c.svc.BasePath, "{") {
		tags = append(tags, "base-path-variable-unbound")
	}
	if !toTs && (c.md.Verb == "GET" || c.md.Verb == "DELETE") {
		if in, _ := c.req.FindMessage(c.md.In); in != nil {
			for _, f := range in.Fields {
				if f.Query != nil && f.Query.Required && f.Card == "singular" {
					fd := c.reqMsg.Descriptor().Fields().ByName(protoreflect.Name(f.Name))
					if fd != nil && !c.reqMsg.Has(fd) {
						tags = append(tags, "required-query-zero-value-elided")
						break
					}
				}
			}
		}
	}
	// Go client -> TS server: the Go client spells an infinite float/double query value "+Inf" / "-Inf"
	// (fmt), the TS server reads query numbers with Number(), which gives NaN for that spelling
	if c.pair == pairGoTs && (c.md.Verb == "GET" || c.md.Verb == "DELETE") {
		if in, _ := c.req.FindMessage(c.md.In); in != nil {
			for _, f := range in.Fields {
				if f.Query == nil || (f.Kind != "float" && f.Kind != "double") {
					continue
				}
				fd := c.reqMsg.Descriptor().Fields().ByName(protoreflect.Name(f.Name))
				if fd != nil && !fd.IsList() && c.reqMsg.Has(fd) && math.IsInf(c.reqMsg.Get(fd).Float(), 0) {
					tags = append(tags, "z3:go-client-infinity-spelling-unreadable-by-ts-server")
					break
				}
			}
		}
	}
	for _, pv := range rePathVar.FindAllStringSubmatch(c.md.Path, -1) {
		fd := c.reqMsg.Descriptor().Fields().ByName(protoreflect.Name(pv[1]))
		if fd == nil {
			continue
		}
		switch fd.Kind() {
		case protoreflect.StringKind:
			switch c.reqMsg.Get(fd).String() {
			case ".", "..":
				tags = append(tags, "dot-segment-path-value")
			case "/":
				if !toTs {
					tags = append(tags, "slash-path-value")
				}
			}
		case protoreflect.Int64Kind, protoreflect.Sint64Kind, protoreflect.Sfixed64Kind, protoreflect.Uint64Kind, protoreflect.Fixed64Kind:
		default:
			if toTs {
				tags = append(tags, "ts-server-path-param-string")
			}
		}
	}
	return tags
}

// ---- header helpers -------------------------------------------------------------------------------------------

var uuidSample = "123e4567-e89b-12d3-a456-426614174000"

func headerSample(h *Header, k int) string {
	switch h.Type {
	case "integer":
		return []string{"42", "-7", "0"}[((k%3)+3)%3]
	case "boolean":
		return []string{"true", "false", "1"}[((k%3)+3)%3]
	case "number":
		return "1.5"
	}
	if h.Format == "uuid" {
		return uuidSample
	}
	return []string{"v-1", "abc def", "x"}[((k%3)+3)%3]
}

// helperOptions sets every required header (and on odd k the optional ones too) through the typed
// helper options: service headers at client level on even k, at call level on odd k; method headers
// at call level.
func helperOptions(c *c08Case, k int) {
	c.clientOpts = map[string]any{}
	c.callOpts = map[string]any{}
	hc, hcall := map[string]string{}, map[string]string{}
	owner := map[string]string{} // option name -> the service header that owns it
	for _, h := range c.svc.Headers {
		owner[tsHeaderProp(h.Name)] = strings.ToLower(h.Name)
		owner[headerFuncName(h.Name)] = strings.ToLower(h.Name)
	}
	for _, h := range c.svc.Headers {
		if !h.Required && k%2 == 0 {
			continue
		}
		v := headerSample(h, k)
		if k%2 == 0 {
			c.clientOpts[tsHeaderProp(h.Name)] = v
			hc[headerFuncName(h.Name)] = v
		} else {
			c.callOpts[tsHeaderProp(h.Name)] = v
			hcall[headerFuncName(h.Name)] = v
		}
	}
	for _, h := range c.md.Headers {
		if !h.Required && k%2 == 0 {
			continue
		}
		if o, ok := owner[tsHeaderProp(h.Name)]; ok && o != strings.ToLower(h.Name) {
			continue
		}
		if o, ok := owner[headerFuncName(h.Name)]; ok && o != strings.ToLower(h.Name) {
			continue // option name shared with another (service) header (header-helper-name-collision): left to the hdr-helper family
		}
		v := headerSample(h, k)
		c.callOpts[tsHeaderProp(h.Name)] = v
		hcall[headerFuncName(h.Name)] = v
	}
	c.goOpts = map[string]any{"HelperClient": hc, "HelperCall": hcall}
}

// tsHeaderProp is the harness's own reading of the property name (checked against the emitted text
// by the hdr-helper family; a wrong name makes the option a no-op and the call is rejected).
func tsHeaderProp(h string) string {
	name := strings.TrimPrefix(h, "X-")
	parts := strings.Split(name, "-")
	for i, p := range parts {
		if p == "" {
			continue
		}
		if i == 0 {
			parts[i] = strings.ToLower(p)
		} else {
			parts[i] = strings.ToUpper(p[:1]) + strings.ToLower(p[1:])
		}
	}
	return strings.Join(parts, "")
}

type hdrCase struct {
	req      *Request
	file     *File
	svc      *Service
	md       *Method
	ts       bool
	header   string
	declared []string
	level    string // client | call
	optName  string // the option name read from the emitted code ("" when not found)
	tsFile   string
}

const hdrProbe = "probe-7f3a"

var reIdent = regexp.MustCompile(`^[A-Za-z_$][A-Za-z0-9_$]*$`)

func buildHdrCases(reqs []*Request, s *Session, tsFiles map[string]map[string]string, serverOnly map[string]bool) []*hdrCase {
	var out []*hdrCase
	for i, r := range reqs {
		g := s.Gens[i]
		for _, f := range r.Files {
			for _, svc := range f.Services {
				for _, md := range svc.Methods {
					var declared []string
					for _, h := range svc.Headers {
						declared = append(declared, h.Name)
					}
					for _, h := range md.Headers {
						declared = append(declared, h.Name)
					}
					if len(declared) == 0 {
						continue
					}
					// the Go helpers are emitted once per service: service headers, then every method's headers
					var declaredGo []string
					for _, h := range svc.Headers {
						declaredGo = append(declaredGo, h.Name)
					}
					for _, m2 := range svc.Methods {
						for _, h := range m2.Headers {
							declaredGo = append(declaredGo, h.Name)
						}
					}
					cf := tsFileFor(tsFiles[r.ID], f, "_client.ts")
					var tsText, goText string
					for n, c := range g.Results["ts-client"].Files {
						if strings.HasSuffix(n, "_client.ts") {
							tsText += c
						}
					}
					for _, c := range g.Results["go-client"].Files {
						goText += c
					}
					seen := map[string]bool{}
					for _, h := range declared {
						if seen[h] {
							continue
						}
						seen[h] = true
						// TS: the property the emitted client reads for this header at call level
						hc := &hdrCase{req: r, file: f, svc: svc, md: md, ts: true, header: h, declared: declared, level: "call", tsFile: cf}
						re := regexp.MustCompile(`if \(options\?\.([A-Za-z0-9_$]*)\) headers\["` + regexp.QuoteMeta(h) + `"\] = options\.`)
						if m := re.FindStringSubmatch(tsText); m != nil {
							hc.optName = m[1]
						}
						if cf != "" {
							out = append(out, hc)
						}
						// Go: the call option whose body sets this header
						if s.InRunner[r.ID] && !serverOnly[r.ID] {
							gc := &hdrCase{req: r, file: f, svc: svc, md: md, ts: false, header: h, declared: declaredGo, level: "call"}
							reg := regexp.MustCompile(`func With` + GoCamelCase(svc.Name) + `Call([A-Za-z0-9_]*)\(value string\) ` + GoCamelCase(svc.Name) + `CallOption \{\n\s*return With` + GoCamelCase(svc.Name) + `Header\("` + regexp.QuoteMeta(h) + `", value\)`)
							if m := reg.FindStringSubmatch(goText); m != nil {
								gc.optName = m[1]
							} else if fn := headerFuncName(h); strings.Contains(goText, "func With"+GoCamelCase(svc.Name)+"Call"+fn+"(value string)") {
								// no helper of its own: the helper carrying the name derived from this header belongs to another header
								gc.optName = fn
							}
							out = append(out, gc)
						}
					}
				}
			}
		}
	}
	return out
}

func (h *hdrCase) nodeScenario(id string) map[string]any {
	in := h.req
	_ = in
	opts := map[string]any{}
	if h.optName != "" {
		opts[h.optName] = hdrProbe
	}
	return map[string]any{"id": id, "kind": "ts_client_call", "file": h.tsFile, "service": GoCamelCase(h.svc.Name),
		"method": lowerFirst(GoCamelCase(h.md.Name)), "req": map[string]any{}, "call_options": opts}
}

func (h *hdrCase) goScenario(id string) map[string]any {
	hc := map[string]string{}
	if h.optName != "" {
		hc[h.optName] = hdrProbe
	}
	return map[string]any{"id": id, "kind": "call", "pkg": h.req.ID, "service": h.svc.Name, "method": h.md.Name, "req": "",
		"opts":        map[string]any{"HelperCall": hc},
		"canned_resp": map[string]any{"status": 200, "headers": [][2]string{{"Content-Type", "application/json"}}, "body_hex": hexOf("{}")}}
}

func lowerSorted(xs []string) []string {
	out := []string{}
	seen := map[string]bool{}
	for _, x := range xs {
		l := strings.ToLower(x)
		if !seen[l] {
			seen[l] = true
			out = append(out, l)
		}
	}
	sort.Strings(out)
	return out
}

func (h *hdrCase) tsObservation(o *nodeObs) (map[string]any, bool, string) {
	var sets []string
	if len(o.Requests) > 0 {
		for k, v := range o.Requests[0].RawHeaders {
			if s, ok := v.(string); ok && s == hdrProbe {
				sets = append(sets, k)
			}
		}
	}
	obs := map[string]any{"option": h.optName, "sets": lowerSorted(sets)}
	holds := len(sets) == 1 && strings.EqualFold(sets[0], h.header)
	note := ""
	if !holds {
		note = fmt.Sprintf("TS option %q sets %v, declared header %q", h.optName, sets, h.header)
	}
	return obs, holds, note
}

func (h *hdrCase) goObservation(o *RunnerObs) (map[string]any, bool, string) {
	var sets []string
	if len(o.Requests) > 0 {
		for k, vs := range o.Requests[0].Header {
			for _, v := range vs {
				if v == hdrProbe {
					sets = append(sets, k)
				}
			}
		}
	}
	obs := map[string]any{"option": h.optName, "sets": lowerSorted(sets)}
	holds := len(sets) == 1 && strings.EqualFold(sets[0], h.header)
	note := ""
	if !holds {
		note = fmt.Sprintf("Go option %q sets %v, declared header %q", h.optName, sets, h.header)
	}
	return obs, holds, note
}

// ---- JS built-ins ---------------------------------------------------------------------------------------------

type jsCase struct {
	fn       string // model function name
	arg      string
	nodeFn   string
	nodeArgs []any
	project  func(o *nodeObs) any
}

func buildJsCases(tier string) []*jsCase {
	var out []*jsCase
	str := func(o *nodeObs) any {
		if o.Threw != nil {
			return nil
		}
		s, _ := o.Out.(string)
		return s
	}
	var inputs []string
	for b := 1; b < 128; b++ {
		inputs = append(inputs, string([]byte{byte(b)}))
	}
	inputs = append(inputs, "", "é", "߿", "ࠀ", "￿", "\U00010000", "\U0010ffff", "a b/c?d#e%f", "日本語", "a+b=c&d", "-_.!~*'()", "%41%zz")
	for _, x := range inputs {
		x := x
		out = append(out, &jsCase{fn: "encodeURIComponent", arg: x, nodeFn: "encodeURIComponent", nodeArgs: []any{x}, project: str})
		out = append(out, &jsCase{fn: "form_escape", arg: x, nodeFn: "form_encode", nodeArgs: []any{[]any{[]any{"k", x}}}, project: func(o *nodeObs) any {
			s, _ := o.Out.(string)
			return strings.TrimPrefix(s, "k=")
		}})
	}
	// decoding: escaped forms of the inputs under three escapers + malformed
	var encoded []string
	for _, x := range inputs {
		encoded = append(encoded, url.PathEscape(x), url.QueryEscape(x), strings.ReplaceAll(url.QueryEscape(x), "+", "%20"))
	}
	encoded = append(encoded, "%", "%4", "%zz", "%C3", "%C3%28", "%E0%80%80", "%ED%A0%80", "%F4%90%80%80", "%C0%AF", "a%2fb", "%e9", "%FF", "+", "a+b%2Bc")
	seen := map[string]bool{}
	for _, x := range encoded {
		if seen[x] || !isASCII(x) {
			continue
		}
		seen[x] = true
		x := x
		out = append(out, &jsCase{fn: "decodeURIComponent", arg: x, nodeFn: "decodeURIComponent", nodeArgs: []any{x}, project: str})
		if !strings.ContainsAny(x, "&=#") && validAfterFormDecode(x) {
			out = append(out, &jsCase{fn: "form_unescape", arg: x, nodeFn: "form_decode", nodeArgs: []any{"k=" + x}, project: func(o *nodeObs) any {
				arr, _ := o.Out.([]any)
				if len(arr) == 0 {
					return ""
				}
				kv, _ := arr[0].([]any)
				if len(kv) < 2 {
					return ""
				}
				s, _ := kv[1].(string)
				return s
			}})
		}
	}
	for _, p := range []string{"/a/./b/../c/%2e%2E/d", "/s/items/..", "/s/items/.", "/..", "/a//b/", "/", "/a/%2e", "/a/.%2E/b", "/a/b/..", "/a/b/../", "/x/%2F/y", "/a/.../b", "/a/..b/c", "/./a", "/../../a"} {
		p := p
		out = append(out, &jsCase{fn: "pathname", arg: p, nodeFn: "url", nodeArgs: []any{"http://verif.test" + p}, project: func(o *nodeObs) any {
			m, _ := o.Out.(map[string]any)
			s, _ := m["path"].(string)
			return s
		}})
	}
	for _, n := range []string{"", "0", "7", "-12", "+5", "007", "abc", "true", "x1", "9007199254740992", "2147483648", "Z"} {
		n := n
		out = append(out, &jsCase{fn: "Number", arg: n, nodeFn: "Number", nodeArgs: []any{n}, project: func(o *nodeObs) any { return o.Out }})
	}
	return out
}

func isASCII(s string) bool {
	for i := 0; i < len(s); i++ {
		if s[i] >= 0x80 {
			return false
		}
	}
	return true
}

// validAfterFormDecode: URLSearchParams replaces invalid UTF-8 by U+FFFD, which the byte-level model
// does not do; such inputs are left to decodeURIComponent (which throws).
func validAfterFormDecode(x string) bool {
	u, err := url.QueryUnescape(x)
	if err != nil {
		// lenient decoding keeps malformed escapes: valid when the rest is ASCII
		return !strings.Contains(x, "%C") && !strings.Contains(x, "%E") && !strings.Contains(x, "%F") && !strings.Contains(x, "%e") && !strings.Contains(x, "%f")
	}
	return strings.ToValidUTF8(u, "�") == u
}

// tsDebugDump writes every case result to .cache/<property>-results.json when VERIF_DEBUG is set.
func tsDebugDump(run *Run) {
	if os.Getenv("VERIF_DEBUG") == "" {
		return
	}
	b, _ := json.Marshal(run.Results)
	os.WriteFile(filepath.Join(CacheRoot(), run.Property+"-results.json"), b, 0o644)
}

// ---- the TS server facing arbitrary requests -----------------------------------------------------------------

type tsRawCase struct {
	req      *Request
	g        *GenOutput
	svc      *Service
	file     string
	verb     string
	path     string
	query    string
	bodyText string
	body     *dynamicpb.Message
}

func buildTsRawCases(reqs []*Request, s *Session, tsFiles map[string]map[string]string) []*tsRawCase {
	var out []*tsRawCase
	for i, r := range reqs {
		if r.ID != "tsk" {
			continue
		}
		g := s.Gens[i]
		f := r.Files[0]
		svc := f.Services[0]
		sf := tsFileFor(tsFiles[r.ID], f, "_server.ts")
		if sf == "" {
			continue
		}
		add := func(verb, path, query, bodyMsg, bodyJSON string) {
			rc := &tsRawCase{req: r, g: g, svc: svc, file: sf, verb: verb, path: path, query: query, bodyText: bodyJSON}
			if bodyMsg != "" {
				m := dynamicpb.NewMessage(g.Built.MessageDesc(bodyMsg))
				if err := protojsonUnmarshal([]byte(bodyJSON), m); err != nil {
					panic(err)
				}
				rc.body = m
			}
			out = append(out, rc)
		}
		// Number(): int32 query parameter (GetQ1), uint32 (GetQ3 is uint32? kinds: 0 string 1 int32 2 int64 3 uint32 ...)
		for _, q := range []string{"qv=abc&r=1", "qv=12&r=1", "qv=-7", "qv=&r=2", "", "qv=007", "qv=%2B5", "qv=x1&qv=3", "qv=2147483648", "other=1&o=hello+world%21"} {
			add("GET", "/tk/gq1", q, "", "")
		}
		// 64-bit query parameter read as a string (GetQ2 int64, GetQ4 uint64)
		for _, q := range []string{"", "qv=5", "qv=abc", "qv=0", "qv=-0", "qv=05", "qv=9223372036854775808", "r=7&qv=-9223372036854775808"} {
			add("GET", "/tk/gq2", q, "", "")
			add("GET", "/tk/gq4", q, "", "")
		}
		// bool: only the exact text "true"
		for _, q := range []string{"qv=true", "qv=1", "qv=True", "qv=false", "qv=t&r=true", ""} {
			add("GET", "/tk/gq11", q, "", "")
		}
		// string query, escapes
		for _, q := range []string{"qv=a+b%20c", "qv=%zz", "qv=%41&o=x%26y", "qv=a&qv=b", "qv", "=x", "&&qv=1&"} {
			add("GET", "/tk/gq0", q, "", "")
		}
		// path parameters: decoding, malformed escapes, invalid UTF-8, numbers and booleans as strings
		for _, p := range []string{"/tk/gp0/abc", "/tk/gp0/a%2Fb", "/tk/gp0/%41%zz", "/tk/gp0/%C3%28", "/tk/gp0/%E0%A4%A", "/tk/gp0/%C3%A9", "/tk/gp0/a+b", "/tk/gp0/", "/tk/gp0", "/tk/gp0/a/b",
			"/tk/gp1/12", "/tk/gp1/abc", "/tk/gp2/12", "/tk/gp2/012", "/tk/gp2/abc", "/tk/gp4/18446744073709551615", "/tk/gp11/true", "/tk/gp0/x/../y", "/tk/gp0/%2e%2e", "/tk/gp0/%2E"} {
			add("GET", p, "", "", "")
		}
		// body verbs: the query string is never read; a missing or non-JSON body is a 500
		add("PUT", "/tk/mode/abc", "mode=x&n=5", "tsk.v1.ModeReq", `{"note":"n"}`)
		add("PUT", "/tk/mode/abc", "mode=x&n=5", "tsk.v1.ModeReq", `{"id":"other","mode":"m","n":3}`)
		add("PUT", "/tk/mode/abc", "mode=x&n=5", "", "")
		add("PUT", "/tk/mode/%ZZ", "", "tsk.v1.ModeReq", `{"note":"n"}`)
		add("POST", "/tk/big", "", "tsk.v1.Big", `{"id":"i","u64":"5","color":"COLOR_RED","inner":{"a":"x"}}`)
		add("DELETE", "/tk/d0/a/x/b", "", "", "")
		add("DELETE", "/tk/d1/5/x/b%20c", "", "", "")
		add("PATCH", "/tk/big/zz", "", "tsk.v1.Big", `{"id":"in-body","f64":1.5}`)
		add("GET", "/tk/nope", "", "", "")
		add("POST", "/tk/gp0/abc", "", "", "")
	}
	return out
}

func (rc *tsRawCase) scenario(id string) map[string]any {
	u := "http://verif.test" + rc.path
	if rc.query != "" {
		u += "?" + rc.query
	}
	rq := map[string]any{"method": rc.verb, "url": u, "headers": [][2]string{{"Content-Type", "application/json"}}}
	if rc.body != nil {
		rq["body"] = rc.bodyText
	}
	return map[string]any{"id": id, "kind": "ts_server_call", "file": rc.file, "service": GoCamelCase(rc.svc.Name), "request": rq,
		"script": map[string]any{"result": map[string]any{}}}
}

func (rc *tsRawCase) observation(o *nodeObs) map[string]any {
	so := &o.nodeServerObs
	switch {
	case so.ServerLoadError != nil:
		return map[string]any{"outcome": map[string]any{"class": "load-error"}}
	case len(so.HandlerCalls) >= 1:
		hc := so.HandlerCalls[len(so.HandlerCalls)-1]
		pm := protoMethodFor(rc.svc, hc.Method)
		if pm == nil {
			return map[string]any{"outcome": map[string]any{"class": "delivered", "dispatched": hc.Method, "handler_saw": "undecodable"}}
		}
		return map[string]any{"outcome": map[string]any{"class": "delivered", "dispatched": pm.Name, "handler_saw": TsCanon(rc.g.Built.MessageDesc(pm.In), hc.Req)}}
	case so.Matched == nil && so.Response != nil && so.Response.Status == 404:
		return map[string]any{"outcome": map[string]any{"class": "not-routed"}}
	case so.Response != nil && so.Response.Status == 400:
		body, _ := hex.DecodeString(so.Response.BodyHex)
		return map[string]any{"outcome": map[string]any{"class": "rejected", "field": firstViolationField(body)}}
	case so.Response != nil && so.Response.Status == 500:
		return map[string]any{"outcome": map[string]any{"class": "server-error"}}
	}
	return map[string]any{"outcome": map[string]any{"class": "other"}}
}

func protojsonUnmarshal(b []byte, m *dynamicpb.Message) error { return protojson.Unmarshal(b, m) }
