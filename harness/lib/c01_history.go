package lib

import (
	"encoding/json"
	"fmt"
	"math/rand"
	"strings"

	"google.golang.org/protobuf/proto"
	"google.golang.org/protobuf/reflect/protoreflect"
	"google.golang.org/protobuf/types/dynamicpb"
)

// Request histories (C01): the property speaks about every call, not only the first one a server
// registration serves.  A "call" scenario mounts the emitted server afresh for each call, so state the
// emitted server keeps between requests of one route (recycled request messages, cached decoders, ...)
// never meets a second request.  A history is ONE registration of the service (runner kind "seq": one
// mux, one client instance per content type) that serves a sequence of calls of one RPC:
//
//	A D A D A D A E ...      A every field non-default; D entirely default (zero-length binary body);
//	                         E "present but empty" (optional scalars explicitly zero, message fields set
//	                         to the empty message)
//
// with the content type rotating so that every all-default message travels under each transport
// directly after a non-default one (same and different transport).  Every step is an ordinary C01 case:
// the model predicts it as if it were issued alone (the model has no state, which is what the property
// demands), the oracle compares the handler-seen request and the caller-seen response with what was
// passed.  Steps with the same (message, content type, observation) are one case.

type c01Hist struct {
	req  *Request
	g    *GenOutput
	svc  *Service
	md   *Method
	msgs []*dynamicpb.Message // distinct request messages
	rsps []*dynamicpb.Message // the response scripted for each
	kind []string             // non-default | default | present-empty
	step []int                // message index per step
	ct   []int                // content type per step
	// first: body verb, no path variable, at least one field (a zero-length body is possible)
	first bool
}

func (h *c01Hist) scenario(id string) map[string]any {
	var cls, sts []any
	for ct := 0; ct < 3; ct++ {
		cls = append(cls, map[string]any{"service": h.svc.Name, "opts": map[string]any{"ContentType": ctNames[ct]}})
	}
	wire := make([]string, len(h.msgs))
	rwire := make([]string, len(h.msgs))
	for i := range h.msgs {
		wire[i], rwire[i] = WireHex(h.msgs[i]), WireHex(h.rsps[i])
	}
	for i, mi := range h.step {
		sts = append(sts, map[string]any{"client": h.ct[i], "method": h.md.Name, "req": wire[mi],
			"script": map[string]any{"resp": rwire[mi]}, "opts": map[string]any{}})
	}
	return map[string]any{"id": id, "kind": "seq", "pkg": h.req.ID, "seq_clients": cls, "steps": sts, "parallelism": 1}
}

// expand turns the observation of a history into call cases (one per distinct message x content type x
// observation), their observations, and the position in the history where each was first seen.
func (h *c01Hist) expand(o *RunnerObs) (cs []*callCase, os []*RunnerObs, infos []map[string]any, note string, dependent, delivered bool) {
	where := fmt.Sprintf("%s/%s.%s", h.req.ID, h.svc.Name, h.md.Name)
	if o.Error != "" || o.Panic != "" || o.Timeout || len(o.Sub) != len(h.step) {
		// registration failures are the subject of the single calls (which predict them); a history needs a server
		note = fmt.Sprintf("history %s not driven: error=%q panic=%q timeout=%v steps=%d/%d", where, o.Error, firstLine(o.Panic), o.Timeout, len(o.Sub), len(h.step))
		return
	}
	seen := map[string]map[string]any{}
	perMsg := map[[2]int]int{}
	rejected := 0
	for i := range o.Sub {
		so := &o.Sub[i]
		if so.Error != "" {
			return nil, nil, nil, fmt.Sprintf("history %s not driven: step %d: %s", where, i, so.Error), false, false
		}
		if len(so.HandlerCalls) > 0 {
			delivered = true
		}
		if so.Status == 400 && len(so.HandlerCalls) == 0 && so.Panic == "" {
			// the seq kind does not record the 400 body (the violation's field); rejections are the single calls' subject
			rejected++
			continue
		}
		mi, ct := h.step[i], h.ct[i]
		cc := &callCase{req: h.req, g: h.g, svc: h.svc, md: h.md, ct: ct, reqMsg: h.msgs[mi], resp: h.rsps[mi], family: "history"}
		obs, _, _ := callObservation(cc, so)
		ob, _ := json.Marshal(Canon(obs))
		key := fmt.Sprintf("%d/%d/%s", mi, ct, ob)
		if info := seen[key]; info != nil {
			info["occurrences"] = info["occurrences"].(int) + 1
			continue
		}
		info := map[string]any{"step": i, "of": len(h.step), "message": h.kind[mi], "occurrences": 1}
		if i > 0 {
			pj, _ := MsgCanon(h.msgs[h.step[i-1]])
			info["previous_request"] = pj
			info["previous_content_type"] = ctNames[h.ct[i-1]]
			info["previous_message"] = h.kind[h.step[i-1]]
		}
		seen[key] = info
		if perMsg[[2]int{mi, ct}]++; perMsg[[2]int{mi, ct}] > 1 {
			dependent = true // the same message under the same content type was treated in two ways
		}
		cs = append(cs, cc)
		os = append(os, so)
		infos = append(infos, info)
	}
	if rejected > 0 {
		note = fmt.Sprintf("history %s: %d of %d steps answered 400 without reaching the handler; left to the single calls", where, rejected, len(h.step))
	}
	return
}

// c01SelectHistories: which histories go to the model.  Thorough: all.  Quick: every history in which one
// message under one content type was treated in two ways (no stateless model can agree with that), then
// histories that reached a handler - up to 40 of the zero-length-body class, up to 60 in all - in the
// seeded order of c01Histories.
func c01SelectHistories(run *Run, hists []*c01Hist, dependent, delivered []bool) []bool {
	sel := make([]bool, len(hists))
	if run.Tier == "thorough" {
		for i := range sel {
			sel[i] = true
		}
		return sel
	}
	n := 0
	for i := range hists {
		if dependent[i] {
			sel[i] = true
			n++
		}
	}
	pick := func(limit int, want func(i int) bool) {
		for i := range hists {
			if n >= limit {
				return
			}
			if !sel[i] && want(i) {
				sel[i] = true
				n++
			}
		}
	}
	pick(40, func(i int) bool { return hists[i].first && delivered[i] })
	pick(60, func(i int) bool { return delivered[i] })
	pick(60, func(i int) bool { return true })
	return sel
}

// presentEmpty: every optional scalar explicitly set to its zero value, every singular message field of
// the request's own package set to the empty message (nothing but presence travels).
func presentEmpty(md protoreflect.MessageDescriptor, depth int) *dynamicpb.Message {
	m := dynamicpb.NewMessage(md)
	fs := md.Fields()
	for i := 0; i < fs.Len(); i++ {
		fd := fs.Get(i)
		if fd.IsList() || fd.IsMap() || !fd.HasPresence() {
			continue
		}
		if od := fd.ContainingOneof(); od != nil && !od.IsSynthetic() {
			continue
		}
		switch fd.Kind() {
		case protoreflect.MessageKind, protoreflect.GroupKind:
			if depth < 2 && fd.Message().ParentFile() == md.ParentFile() && fd.Message() != md {
				m.Set(fd, protoreflect.ValueOfMessage(presentEmpty(fd.Message(), depth+1)))
			}
		default:
			m.Set(fd, fd.Default())
		}
	}
	return m
}

// c01Histories builds one history per RPC of the packages that consist of one service (on a shared mux the
// services of a package could shadow each other's routes, which the per-service model does not follow).
func c01Histories(run *Run, reqs []*Request, s *Session, featIDs map[string]bool) []*c01Hist {
	rng := rand.New(rand.NewSource(run.Seed + 131))
	vg := &ValueGen{Rng: rng}
	nSteps := 48
	if run.Tier == "thorough" {
		nSteps = 96
	}
	type cand struct {
		r   *Request
		g   *GenOutput
		svc *Service
		md  *Method
	}
	var first, rest []cand
	skipped := 0
	for i, r := range reqs {
		if !s.InRunner[r.ID] {
			continue
		}
		nsvc := 0
		for _, f := range r.Files {
			nsvc += len(f.Services)
		}
		if nsvc != 1 {
			skipped++
			continue
		}
		for _, f := range r.Files {
			for _, svc := range f.Services {
				for _, md := range svc.Methods {
					c := cand{r, s.Gens[i], svc, md}
					bodyVerb := md.Verb == "" || md.Verb == "POST" || md.Verb == "PUT" || md.Verb == "PATCH"
					if bodyVerb && !strings.Contains(md.Path, "{") && c.g.Built.MessageDesc(md.In).Fields().Len() > 0 {
						first = append(first, c)
					} else {
						rest = append(rest, c)
					}
				}
			}
		}
	}
	// every RPC is driven on the implementation (cheap); c01SelectHistories decides which histories the model
	// evaluates in the quick tier, in this seeded order
	rng.Shuffle(len(first), func(a, b int) { first[a], first[b] = first[b], first[a] })
	rng.Shuffle(len(rest), func(a, b int) { rest[a], rest[b] = rest[b], rest[a] })
	nFirst := len(first)
	var out []*c01Hist
	for ci, c := range append(first, rest...) {
		r, g, svc, md := c.r, c.g, c.svc, c.md
		in := g.Built.MessageDesc(md.In)
		outD := g.Built.MessageDesc(md.Out)
		h := &c01Hist{req: r, g: g, svc: svc, md: md, first: ci < nFirst}
		add := func(m, rsp *dynamicpb.Message, kind string) int {
			pathBoundNonEmpty(m, md, rng)
			clearPathDots(m, md) // dot segments are the route catalogue's subject
			for k, e := range h.msgs {
				if proto.Equal(e, m) {
					return k
				}
			}
			h.msgs, h.rsps, h.kind = append(h.msgs, m), append(h.rsps, rsp), append(h.kind, kind)
			return len(h.msgs) - 1
		}
		a := add(vg.Random(in, 1.0), vg.Random(outD, 1.0), "non-default")
		d := add(dynamicpb.NewMessage(in), dynamicpb.NewMessage(outD), "default")
		e := add(presentEmpty(in, 0), vg.Random(outD, 0.7), "present-empty")
		for k := 0; k < nSteps; k++ {
			mi := d
			switch {
			case k%2 == 0:
				mi = a
			case (k/2)%4 == 3:
				mi = e
			}
			h.step = append(h.step, mi)
			h.ct = append(h.ct, ((k+1)/2)%3)
		}
		out = append(out, h)
	}
	run.Extra["histories"] = len(out)
	run.Extra["history_steps"] = len(out) * nSteps
	if skipped > 0 {
		run.Notes = append(run.Notes, fmt.Sprintf("histories: %d packages with more than one service are driven by single calls only", skipped))
	}
	return out
}
