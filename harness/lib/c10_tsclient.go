package lib

import (
	"bytes"
	"encoding/hex"
	"encoding/json"
	"fmt"
	"sort"
	"strings"
	"unicode/utf8"
)

// ---- C10 family "ts-client-error": the emitted TS client on every failed response ------------------------
//
// "... the Go and TS clients turn a 400 into a validation error carrying the same violations and any other
// failure into an error carrying the same status and message or body."
//
// Responses come from two streams:
//   go-server : the answers the emitted Go server REALLY gave in this run (every error source x hook of the
//               hook algebra x content type of c10Cases that did not come back in binary): status, headers
//               and body bytes are replayed to the TS client through its `fetch` option;
//   matrix    : status (400 and a dozen other 4xx/5xx) x body shape (violations / empty list / {} / null /
//               violations of another JSON type / {"message"} / custom message / text / empty / non-JSON /
//               not UTF-8 / large) x response content type.
// Observed: the thrown value's class, and what it carries (violations; statusCode and body).

type c10TSCResp struct {
	origin string
	status int
	ct     string // "" = no Content-Type header
	hdr    [][2]string
	body   []byte
	label  string
}

func c10TSClientMatrix() []*c10TSCResp {
	var out []*c10TSCResp
	statuses := []int{400, 401, 403, 404, 409, 418, 422, 429, 500, 502, 503, 599, 300, 304}
	big := `{"violations":[` + strings.Repeat(`{"field":"items.name","description":"value is required and must be between 1 and 64 characters long"},`, 400) + `{"field":"last","description":"d"}]}`
	bodies := []struct {
		label string
		b     string
	}{
		{"violations", `{"violations":[{"field":"a.b","description":"bad"},{"field":"c","description":"worse"}]}`},
		{"violations-one", `{"violations":[{"field":"name","description":"required"}]}`},
		{"violations-unicode", `{"violations":[{"field":"ünï","description":"\"q\" \\ <tag> あ 😀"}]}`},
		{"violations-extra-members", `{"violations":[{"field":"a","description":"b","extra":1}],"message":"m"}`},
		{"violations-empty-list", `{"violations":[]}`},
		{"violations-null", `{"violations":null}`},
		{"violations-string", `{"violations":"x"}`},
		{"violations-empty-string", `{"violations":""}`},
		{"violations-zero", `{"violations":0}`},
		{"violations-false", `{"violations":false}`},
		{"violations-object", `{"violations":{}}`},
		{"empty-object", `{}`},
		{"message", `{"message":"boom"}`},
		{"message-empty", `{"message":""}`},
		{"custom-message", `{"resourceType":"user","resourceId":"42","code":404}`},
		{"json-null", `null`},
		{"json-array", `[]`},
		{"json-array-of-violations", `[{"field":"a","description":"b"}]`},
		{"json-number", `42`},
		{"json-string", `"violations"`},
		{"text", "error processing request\n"},
		{"text-raw", "raw!"},
		{"html", "<html><body><h1>400 Bad Request</h1></body></html>"},
		{"empty", ""},
		{"truncated-json", `{"violations":[{"field":"a"`},
		{"trailing-garbage", `{"violations":[{"field":"a","description":"b"}]} x`},
		{"whitespace-around", " \n{\"violations\":[{\"field\":\"a\",\"description\":\"b\"}]}\n "},
		{"not-utf8", "\xff\xfe{}"},
		{"violations-large", big},
	}
	cts := []string{"application/json", "text/plain; charset=utf-8", "", "application/json; charset=utf-8", "application/x-protobuf"}
	for _, st := range statuses {
		for bi, bd := range bodies {
			// every status x body under application/json; the other content types rotate
			for ci, ct := range cts {
				if ci > 0 && st != 400 && (bi+ci+st)%4 != 0 {
					continue
				}
				out = append(out, &c10TSCResp{origin: "matrix", status: st, ct: ct, body: []byte(bd.b), label: bd.label})
			}
		}
	}
	return out
}

// c10TSClient: replay responses to the emitted TS client.  goResp: what the Go server answered in this run.
func c10TSClient(run *Run, s *Session, req *Request, goResp []*c10TSCResp) (string, []*CaseResult) {
	if _, err := TsNodeBin(); err != nil {
		return "node (>= 22.6) not available: the TS client's handleError is covered by the model and its theorems only", nil
	}
	tsFiles, err := WriteTsFiles(run.WorkDir+"/ts-client", []*Request{req}, s.Gens[:1])
	if err != nil {
		run.Fatal("writing the emitted TS client: %v", err)
	}
	clientFile := ""
	for n, p := range tsFiles[req.ID] {
		if strings.HasSuffix(n, "_client.ts") {
			clientFile = p
		}
	}
	if clientFile == "" {
		return "protoc-gen-ts-client produced no client module for the error catalogue", nil
	}
	// distinct responses only
	var resps []*c10TSCResp
	seen := map[string]bool{}
	for _, r := range append(append([]*c10TSCResp{}, goResp...), c10TSClientMatrix()...) {
		k := fmt.Sprintf("%d|%s|%x", r.status, r.ct, r.body)
		if r.origin == "go-server" {
			k += "|" + fmt.Sprint(r.hdr)
		}
		if seen[k] {
			continue
		}
		seen[k] = true
		resps = append(resps, r)
	}
	scen := make([]any, len(resps))
	for i, r := range resps {
		hs := [][2]string{}
		if r.origin == "go-server" {
			hs = append(hs, r.hdr...)
		} else if r.ct != "" {
			hs = append(hs, [2]string{"Content-Type", r.ct})
		}
		scen[i] = map[string]any{"id": fmt.Sprint(i), "kind": "ts_client_call", "file": clientFile, "service": "Errs", "method": "create", "req": map[string]any{"name": "n"},
			"response": map[string]any{"status": r.status, "headers": hs, "body_hex": hex.EncodeToString(r.body)}}
	}
	raw, err := RunNode(scen)
	if err != nil {
		run.Fatal("node (TS client): %v", err)
	}
	var results []*CaseResult
	var ccs []CoqCase
	for i, r := range resps {
		o, err := decodeNodeObs(raw[i])
		if err != nil {
			run.Fatal("node observation (TS client): %v: %s", err, tail(string(raw[i]), 300))
		}
		if o.DriverError != nil || o.Timeout || o.Error2 != "" || o.LoadError != nil || o.Construct != nil {
			run.Fatal("node driver failed on TS client scenario %d: %s", i, tail(string(raw[i]), 400))
		}
		// the body as a JSON document (harness's own parser)
		var doc any
		isJSON := false
		if utf8.Valid(r.body) {
			dec := json.NewDecoder(bytes.NewReader(r.body))
			dec.UseNumber()
			if err := dec.Decode(&doc); err == nil && !dec.More() {
				if _, err := dec.Token(); err != nil { // io.EOF: nothing but white space follows
					isJSON = true
				}
			}
		}
		var wantViol []any // the violations a 400 carries (a sebuf ValidationError document with at least one)
		if m, ok := doc.(map[string]any); ok && isJSON && r.status == 400 {
			if vs, ok := m["violations"].([]any); ok && len(vs) > 0 {
				wantViol = vs
			}
		}
		obs := map[string]any{}
		holds, note := true, ""
		e := o.ClientError
		switch {
		case r.status < 400:
			// not an error status for this property: observed for the record only
			if e != nil {
				obs["class"] = e.Class
			} else {
				obs["class"] = "no-error"
			}
		case e == nil:
			obs["class"] = "no-error"
			holds, note = false, fmt.Sprintf("TS client: HTTP %d did not make the call fail", r.status)
		case e.Class == "ValidationError":
			obs["class"], obs["violations"] = "ValidationError", e.Violations
			var got any
			if m, ok := doc.(map[string]any); ok && isJSON {
				got = m["violations"]
			}
			if r.status != 400 {
				holds, note = false, fmt.Sprintf("TS client: HTTP %d became a ValidationError", r.status)
			} else if d := Diff(Canon(e.Violations), Canon(got)); d != "" {
				holds, note = false, "TS client: the ValidationError's violations differ from the body's: "+d
			}
		case e.Class == "ApiError":
			same := e.StatusCode != nil && *e.StatusCode == r.status
			bodySame := !utf8.Valid(r.body) || e.Body == string(r.body)
			obs["class"], obs["body_same"] = "ApiError", bodySame
			if e.StatusCode != nil {
				obs["status"] = *e.StatusCode
			}
			switch {
			case wantViol != nil:
				holds, note = false, "TS client: a 400 with violations became an ApiError"
			case !same:
				holds, note = false, fmt.Sprintf("TS client: the ApiError carries status %v, the response had %d", obs["status"], r.status)
			case !bodySame:
				holds, note = false, fmt.Sprintf("TS client: the ApiError's body %q is not the response body %q", textShort([]byte(e.Body)), textShort(r.body))
			}
		default:
			obs["class"], obs["message"] = e.Class, e.Message
			holds, note = false, fmt.Sprintf("TS client: HTTP %d with body %q (Content-Type %q) made the call throw a %s (%q) instead of a ValidationError / an ApiError with the status and the body",
				r.status, textShort(r.body), r.ct, e.Class, e.Message)
		}
		bodyTerm := "None"
		if isJSON {
			bodyTerm = "(Some " + CoqJSON(doc) + ")"
		}
		cr := &CaseResult{ID: fmt.Sprintf("ts-client-error/%s/%d/%s#%d", r.origin, r.status, r.label, i), Family: "ts-client-error",
			Input: map[string]any{"origin": r.origin, "source": r.label, "status": r.status, "content_type": r.ct, "headers": r.hdr, "body_text": textShort(r.body), "body_hex": hexShort(r.body)},
			Obs:   obs, OracleHolds: holds, OracleNote: note, NonTrivial: r.status >= 400,
			Features: []string{"ts-client", "origin:" + r.origin, fmt.Sprintf("status:%d", r.status), "ct:" + r.ct, "json:" + fmt.Sprint(isJSON)}}
		if r.status < 400 {
			cr.Unmodelled = "status below 400: not a failed response"
		}
		results = append(results, cr)
		ccs = append(ccs, CoqCase{Term: fmt.Sprintf("((%d)%%Z, %s)", r.status, bodyTerm), Obs: obs})
	}
	vs, err := coqRunDedup(run.WorkDir, "c10tsclient", "From Sebuf Require Import Text Json Schema Value Headers Errors.\n", "", "c10_ts_client_case", "predict_C10_ts_client", ccs, 8)
	if err != nil {
		run.Fatal("model evaluation (TS client): %v", err)
	}
	for i, cr := range results {
		if cr.Unmodelled == "" {
			cr.Apply(vs[i])
		} else {
			cr.Obs = Canon(cr.Obs)
		}
	}
	nGo := 0
	for _, r := range resps {
		if r.origin == "go-server" {
			nGo++
		}
	}
	return fmt.Sprintf("the emitted *_client.ts was given %d distinct failed responses (%d of them the emitted Go server's own answers of this run)", len(resps), nGo), results
}

// c10GoResponses: the answers of the emitted Go server a TS client can meet (not binary), labelled by source.
func c10GoResponses(cases []*c10Case, obs []*RunnerObsX) []*c10TSCResp {
	var out []*c10TSCResp
	for i, c := range cases {
		o := obs[i]
		if o == nil || o.Status < 300 || o.Status > 599 {
			continue
		}
		ct := ""
		if v := o.SentHeader["Content-Type"]; len(v) > 0 {
			ct = v[0]
		}
		if c10BinaryCT(ct) {
			continue
		}
		body, _ := hex.DecodeString(o.RespBodyHex)
		var hdr [][2]string
		var names []string
		for k := range o.SentHeader {
			names = append(names, k)
		}
		sort.Strings(names)
		for _, k := range names {
			if k == "Content-Length" || k == "Date" {
				continue
			}
			for _, v := range o.SentHeader[k] {
				hdr = append(hdr, [2]string{k, v})
			}
		}
		hk := "no hook"
		if c.hook != nil {
			j, _ := json.Marshal(c.hook.spec())
			hk = "hook " + string(j)
		}
		src := c.srcKind
		if c.herr != nil {
			src += ":" + c.herr.Kind
			if c.herr.Wrap {
				src += "(wrapped)"
			}
		}
		out = append(out, &c10TSCResp{origin: "go-server", status: o.Status, ct: ct, hdr: hdr, body: body, label: c.family + "/" + src + "/" + hk})
	}
	return out
}
