package lib

import (
	"fmt"
	"math/rand"
	"regexp"
	"strings"
)

var rePathVar = regexp.MustCompile(`\{([^}]+)\}`)

// routeRPC builds one RPC and its request message so that the definition is accepted by all
// plugins: every path variable has a scalar field; for GET/DELETE every field is path- or query-bound.
func routeRPC(pkg string, idx int, name, verb, path string, hasCfg bool, nQuery int, kinds []string) (*Method, *Message) {
	reqName := fmt.Sprintf("%sReq", name)
	m := &Message{Name: reqName}
	num := int32(1)
	eff := verb
	if eff == "" {
		eff = "POST"
	}
	seen := map[string]bool{}
	for i, pv := range rePathVar.FindAllStringSubmatch(path, -1) {
		if seen[pv[1]] {
			continue
		}
		seen[pv[1]] = true
		k := "string"
		if len(kinds) > 0 {
			k = kinds[i%len(kinds)]
		}
		m.Fields = append(m.Fields, F(pv[1], num, k))
		num++
	}
	for q := 0; q < nQuery; q++ {
		k := []string{"string", "int32", "bool", "int64", "double"}[q%5]
		fn := fmt.Sprintf("q_%d", q)
		qn := fn
		if q%2 == 1 {
			qn = fmt.Sprintf("qp%d", q) // custom query name
		}
		m.Fields = append(m.Fields, F(fn, num, k, Query(qn, q%3 == 2)))
		num++
	}
	if eff == "POST" || eff == "PUT" || eff == "PATCH" {
		m.Fields = append(m.Fields, F("note", num, "string"), F("count", num+1, "int32"))
	}
	meth := &Method{Name: name, In: pkg + "." + reqName, Out: pkg + ".Resp", Verb: verb, Path: path, HasConfig: hasCfg}
	return meth, m
}

var routeBases = []string{"", "/api", "api", "/api/", "/api/v1", "/", "/a//", "api/v2/"}
var routeNames = []string{"Get", "GetUserByID", "V2List", "ListHTTPRoutes", "A", "CreateX9", "DoIt"}
var routePathShapes = []string{"/r%d", "r%d", "/r%d/{id}", "/w%d/{id}/r%d", "/r%d/{id}/{name}", "/a/{id}/r%d/{name}/{n}", "/r%d/", "r%d/{id}/x", "/r%d/{user_id}/{post_id}"}
var routeVerbs = []string{"GET", "POST", "PUT", "DELETE", "PATCH"}

// RouteCatalogue: one request per base-path variant; each service exercises every config mode,
// verb and path shape. Deterministic.
func RouteCatalogue() []*Request {
	var out []*Request
	for bi, base := range routeBases {
		id := fmt.Sprintf("rt%d", bi)
		pkg := id + ".v1"
		f := &File{Messages: []*Message{M("Resp", F("ok", 1, "bool"), F("echo", 2, "string"))}}
		svc := &Service{Name: "Svc" + strings.ToUpper(id[:1]) + id[1:], BasePath: base, HasConfig: base != "" || bi%2 == 0}
		idx := 0
		add := func(name, verb, path string, hasCfg bool, nq int) {
			idx++
			if base == "" && path != "" && !strings.HasPrefix(path, "/") {
				return // registration panics without a leading slash: see NoSlashRequest
			}
			if strings.Count(path, "%d") == 2 {
				path = fmt.Sprintf(path, idx, idx)
			} else if strings.Contains(path, "%d") {
				path = fmt.Sprintf(path, idx)
			}
			meth, msg := routeRPC(pkg, idx, fmt.Sprintf("%s%d", name, idx), verb, path, hasCfg, nq, []string{"string", "int64", "uint32", "bool"})
			svc.Methods = append(svc.Methods, meth)
			f.Messages = append(f.Messages, msg)
		}
		// no config at all
		for _, n := range routeNames {
			add(n, "", "", false, 0)
		}
		// config present but empty
		add("EmptyCfg", "", "", true, 0)
		// verb only
		for _, v := range routeVerbs {
			add("VerbOnly", v, "", true, idx%3)
		}
		// path only
		for _, p := range routePathShapes {
			add("PathOnly", "", p, true, 0)
		}
		// both
		for vi, v := range routeVerbs {
			for pi, p := range routePathShapes {
				if (vi+pi+bi)%2 == 0 || pi < 3 {
					add("Both", v, p, true, (vi+pi)%3)
				}
			}
		}
		f.Services = []*Service{svc}
		r := OneFile(id, pkg, f)
		if bi%3 == 1 {
			f.GoPackage = fmt.Sprintf("verifgen/%s;%spb", id, id) // Go package name differs from the last path element
		}
		r.Tags = []string{"routes"}
		out = append(out, r)
	}
	// two services in one file, second without any annotation
	{
		id := "rtmulti"
		pkg := "rtmulti.v1"
		f := &File{Messages: []*Message{M("Resp", F("ok", 1, "bool")), M("Req", F("id", 1, "string"), F("note", 2, "string"))}}
		f.Services = []*Service{
			Svc("Alpha", "/alpha", RPC("Get", pkg+".Req", pkg+".Resp", "POST", "/items/{id}"), RPC("Put", pkg+".Req", pkg+".Resp", "PUT", "/items/{id}")),
			Svc("Beta", "", RPC("Plain", pkg+".Req", pkg+".Resp", "", ""), RPC("WithPath", pkg+".Req", pkg+".Resp", "PATCH", "/beta/{id}")),
		}
		r := OneFile(id, pkg, f)
		r.Tags = []string{"routes"}
		out = append(out, r)
	}
	return out
}

// DoubleSlashRequest: method paths starting with "//" (accepted by every plugin).
func DoubleSlashRequest() *Request {
	pkg := "rtdbl.v1"
	f := &File{Messages: []*Message{M("Resp", F("ok", 1, "bool")), M("Req", F("id", 1, "string"), F("note", 2, "string"))}}
	f.Services = []*Service{
		Svc("Dbl", "/api", RPC("One", pkg+".Req", pkg+".Resp", "POST", "//dbl/{id}"), RPC("Two", pkg+".Req", pkg+".Resp", "PUT", "/ok/{id}")),
		Svc("DblNoBase", "", RPC("Three", pkg+".Req", pkg+".Resp", "GET", "//x/{id}")),
	}
	f.Messages = append(f.Messages, M("GReq", F("id", 1, "string")))
	f.Services[1].Methods[0].In = pkg + ".GReq"
	r := OneFile("rtdbl", pkg, f)
	r.Tags = []string{"routes", "double-slash"}
	return r
}

// NoSlashRequest: method paths without a leading slash and no base path; a variable-first route.
func NoSlashRequest() *Request {
	pkg := "rtnoslash.v1"
	f := &File{Messages: []*Message{M("Resp", F("ok", 1, "bool")), M("Req", F("id", 1, "string"), F("note", 2, "string")), M("GReq", F("id", 1, "string"))}}
	f.Services = []*Service{
		Svc("Bare", "", RPC("One", pkg+".Req", pkg+".Resp", "POST", "bare"), RPC("Two", pkg+".Req", pkg+".Resp", "PUT", "/ok/{id}")),
		Svc("Hosty", "", RPC("Three", pkg+".GReq", pkg+".Resp", "GET", "x/{id}"), RPC("Four", pkg+".Req", pkg+".Resp", "PUT", "/fine/{id}")),
		Svc("VarFirst", "/vf", RPC("Five", pkg+".GReq", pkg+".Resp", "GET", "/{id}/tail"), RPC("Six", pkg+".GReq", pkg+".Resp", "DELETE", "/{id}")),
	}
	r := OneFile("rtnoslash", pkg, f)
	r.Tags = []string{"routes", "no-slash"}
	return r
}

// RootPathRequest: collection roots — method path exactly "/" (a ServeMux subtree pattern), with and
// without a base path. Static route agreement only (C03): at run time a subtree route also answers
// redirected and unmatched requests of its verb, which the C01 model does not cover.
func RootPathRequest() *Request {
	pkg := "rtroot.v1"
	f := &File{Messages: []*Message{M("Resp", F("ok", 1, "bool")), M("Req", F("note", 1, "string")), M("QReq", F("page", 1, "int32", Query("page", false)))}}
	f.Services = []*Service{
		Svc("Items", "/api/v1/items", RPC("List", pkg+".QReq", pkg+".Resp", "GET", "/"), RPC("Create", pkg+".Req", pkg+".Resp", "POST", "/"), RPC("Get", pkg+".QReq", pkg+".Resp", "GET", "/one")),
		Svc("Bare", "", RPC("Top", pkg+".QReq", pkg+".Resp", "GET", "/")),
		Svc("Slashy", "/s/", RPC("Both", pkg+".Req", pkg+".Resp", "PUT", "/"), RPC("Trail", pkg+".Req", pkg+".Resp", "PATCH", "/x/")),
	}
	r := OneFile("rtroot", pkg, f)
	r.Tags = []string{"routes", "root-path"}
	return r
}

// SharedRouteRequest: two RPCs on one (verb, path) — the OpenAPI document loses one of them.
func SharedRouteRequest() *Request {
	pkg := "rtshared.v1"
	f := &File{Messages: []*Message{M("Resp", F("ok", 1, "bool")), M("Req", F("id", 1, "string"), F("note", 2, "string"))}}
	f.Services = []*Service{Svc("Dup", "/d",
		RPC("First", pkg+".Req", pkg+".Resp", "POST", "/same/{id}"),
		RPC("Second", pkg+".Req", pkg+".Resp", "POST", "/same/{id}"),
		RPC("Third", pkg+".Req", pkg+".Resp", "PUT", "/same/{id}"))}
	r := OneFile("rtshared", pkg, f)
	r.Tags = []string{"routes", "shared-route"}
	return r
}

// RandomRouteRequests: seeded random services.
func RandomRouteRequests(rng *rand.Rand, n int) []*Request {
	var out []*Request
	segs := []string{"a", "items", "v1", "x-y", "u_v", "{id}", "{name}", "{user_id}", "{k9}", "Z"}
	for i := 0; i < n; i++ {
		id := fmt.Sprintf("rtrand%d", i)
		pkg := id + ".v1"
		f := &File{Messages: []*Message{M("Resp", F("ok", 1, "bool"))}}
		base := ""
		switch rng.Intn(5) {
		case 0:
		case 1:
			base = "/" + segs[rng.Intn(5)]
		case 2:
			base = "/" + segs[rng.Intn(5)] + "/" + segs[rng.Intn(5)]
		case 3:
			base = "/" + segs[rng.Intn(5)] + "/"
		case 4:
			base = segs[rng.Intn(5)]
		}
		svc := &Service{Name: fmt.Sprintf("R%d", i), BasePath: base, HasConfig: base != ""}
		nm := 3 + rng.Intn(6)
		for j := 0; j < nm; j++ {
			verb := ""
			if rng.Intn(4) > 0 {
				verb = routeVerbs[rng.Intn(5)]
			}
			path := ""
			hasCfg := verb != ""
			if rng.Intn(5) > 0 {
				hasCfg = true
				n := 1 + rng.Intn(4)
				var ps []string
				used := map[string]bool{}
				for k := 0; k < n; k++ {
					sg := segs[rng.Intn(len(segs))]
					if strings.HasPrefix(sg, "{") {
						if used[sg] {
							sg = "w"
						}
						used[sg] = true
					}
					ps = append(ps, sg)
				}
				path = fmt.Sprintf("/m%d/", j) + strings.Join(ps, "/")
				if rng.Intn(6) == 0 {
					path = strings.TrimPrefix(path, "/")
				}
				if rng.Intn(8) == 0 {
					path += "/"
				}
			}
			name := fmt.Sprintf("%s%d", routeNames[rng.Intn(len(routeNames))], j)
			meth, msg := routeRPC(pkg, j, name, verb, path, hasCfg, rng.Intn(3), []string{"string", "int32", "uint64", "double"})
			svc.Methods = append(svc.Methods, meth)
			f.Messages = append(f.Messages, msg)
		}
		f.Services = []*Service{svc}
		r := OneFile(id, pkg, f)
		r.Tags = []string{"routes", "random"}
		out = append(out, r)
	}
	return out
}

// ---- template families: RPCs of one service that share a path hierarchy -------------------------
//
// Two request messages of one resource often name their key field differently (GetItemRequest.id,
// DeleteItemRequest.item_id); the path variable has to be spelled like the field, so one service ends
// up with GET /items/{id} and DELETE /items/{item_id}. Every generator must keep each RPC's own
// template and its own path fields. The family varies: variable names (same / different / swapped /
// one of two different), verbs, number and position of the variables, the order of the RPCs, literal
// siblings of a variable segment, and the base path shape. RPCs of one hierarchy carry different
// verbs, so the definitions are valid for net/http's ServeMux as well.

type tmplRPC struct{ name, verb, path string }

func templateFamilyService(pkg, svcName, base string, rpcs []tmplRPC, f *File) *Service {
	svc := &Service{Name: svcName, BasePath: base, HasConfig: base != ""}
	for i, t := range rpcs {
		nq := 0
		if t.verb == "GET" && i%2 == 0 {
			nq = 1
		}
		meth, msg := routeRPC(pkg, i, svcName+t.name, t.verb, t.path, true, nq, []string{"string", "int64", "uint32", "bool"})
		svc.Methods = append(svc.Methods, meth)
		f.Messages = append(f.Messages, msg)
	}
	return svc
}

// TemplateFamilyRequests: deterministic catalogue of same-hierarchy services.
func TemplateFamilyRequests() []*Request {
	var out []*Request
	families := []struct {
		id   string
		rpcs []tmplRPC
	}{
		// the resource pattern: one variable, different names, every verb once
		{"one", []tmplRPC{{"Get", "GET", "/items/{id}"}, {"Delete", "DELETE", "/items/{item_id}"}, {"Put", "PUT", "/items/{id}"},
			{"Patch", "PATCH", "/items/{item}"}, {"Post", "POST", "/items/{item_id}"}, {"List", "GET", "/items"}, {"Special", "GET", "/items/special"}}},
		// the later RPC carries the shorter / the longer name; same names in between
		{"order", []tmplRPC{{"Delete", "DELETE", "/things/{thing_id}"}, {"Get", "GET", "/things/{id}"}, {"Put", "PUT", "/things/{thing_id}"}}},
		// two variables: both differ, one differs (first / second), swapped names
		{"two", []tmplRPC{{"Get", "GET", "/users/{user_id}/posts/{id}"}, {"Delete", "DELETE", "/users/{uid}/posts/{post_id}"},
			{"Put", "PUT", "/users/{user_id}/posts/{post_id}"}, {"Patch", "PATCH", "/users/{uid}/posts/{id}"}, {"Post", "POST", "/users/{id}/posts/{user_id}"}}},
		// adjacent variables, variable first, variable last with a literal tail
		{"adjacent", []tmplRPC{{"Get", "GET", "/pair/{a}/{b}"}, {"Delete", "DELETE", "/pair/{b}/{a}"}, {"Put", "PUT", "/pair/{left}/{right}"},
			{"Head", "PATCH", "/{id}/tail"}, {"Tail", "DELETE", "/{key}/tail"}, {"Lit", "GET", "/docs/{id}/raw"}, {"Lit2", "PUT", "/docs/{doc_id}/raw"}}},
		// the same variables at different positions (different hierarchies that look alike)
		{"position", []tmplRPC{{"Mid", "GET", "/a/{id}/b"}, {"End", "PUT", "/a/b/{id}"}, {"Mid2", "DELETE", "/a/{key}/b"}, {"End2", "PATCH", "/a/b/{key}"},
			{"Deep", "GET", "/a/{id}/b/{key}"}, {"Deep2", "DELETE", "/a/{key}/b/{id}"}}},
		// a prefix of another template, trailing slash, repeated variable name across hierarchies
		{"prefix", []tmplRPC{{"Coll", "GET", "/orgs/{org}"}, {"Sub", "GET", "/orgs/{org_id}/members"}, {"SubOne", "GET", "/orgs/{org}/members/{id}"},
			{"SubDel", "DELETE", "/orgs/{o}/members/{member_id}"}, {"CollDel", "DELETE", "/orgs/{org_id}"}, {"Slash", "PUT", "/orgs/{org_id}/"}}},
	}
	bases := []string{"/api/v1", "", "/api/", "/"}
	for fi, fam := range families {
		for bi, base := range bases {
			if (fi+bi)%2 == 1 && bi > 1 {
				continue // the odd base shapes for every other family
			}
			id := fmt.Sprintf("rttmpl%s%d", fam.id, bi)
			pkg := id + ".v1"
			f := &File{Messages: []*Message{M("Resp", F("ok", 1, "bool"))}}
			f.Services = []*Service{templateFamilyService(pkg, "T", base, fam.rpcs, f)}
			if bi == 0 {
				// the same family in a second service of the same file, RPCs reversed: path items are per document
				rev := make([]tmplRPC, len(fam.rpcs))
				for i, t := range fam.rpcs {
					rev[len(fam.rpcs)-1-i] = t
				}
				f.Services = append(f.Services, templateFamilyService(pkg, "Rev", "/rev", rev, f))
			}
			r := OneFile(id, pkg, f)
			r.Tags = []string{"routes", "template-family"}
			out = append(out, r)
		}
	}
	return out
}

// RandomTemplateFamilyRequests: seeded services made of hierarchies (literal and variable slots) with
// 2-5 RPCs each, one per verb, whose variable names are drawn independently per RPC.
func RandomTemplateFamilyRequests(rng *rand.Rand, n int) []*Request {
	var out []*Request
	names := []string{"id", "item_id", "key", "user_id", "uid", "name", "k9", "n"}
	lits := []string{"items", "v1", "x-y", "u_v", "Z", "parts"}
	for i := 0; i < n; i++ {
		id := fmt.Sprintf("rttmplrand%d", i)
		pkg := id + ".v1"
		f := &File{Messages: []*Message{M("Resp", F("ok", 1, "bool"))}}
		base := []string{"", "/api", "/api/v1", "/b/", "/"}[rng.Intn(5)]
		var rpcs []tmplRPC
		nh := 1 + rng.Intn(3)
		for h := 0; h < nh; h++ {
			// hierarchy: /h<h>/ then 1-3 slots, at least one variable
			ns := 1 + rng.Intn(3)
			slots := make([]bool, ns)
			slots[rng.Intn(ns)] = true
			for k := range slots {
				if rng.Intn(2) == 0 {
					slots[k] = true
				}
			}
			litAt := make([]string, ns)
			for k := range litAt {
				litAt[k] = lits[rng.Intn(len(lits))]
			}
			verbs := rng.Perm(5)[:2+rng.Intn(4)]
			for _, vi := range verbs {
				perm := rng.Perm(len(names))
				var segs []string
				pi := 0
				for k, isVar := range slots {
					if isVar {
						segs = append(segs, "{"+names[perm[pi]]+"}")
						pi++
					} else {
						segs = append(segs, litAt[k])
					}
				}
				rpcs = append(rpcs, tmplRPC{fmt.Sprintf("H%d%s", h, routeVerbs[vi]), routeVerbs[vi], fmt.Sprintf("/h%d/", h) + strings.Join(segs, "/")})
			}
		}
		rng.Shuffle(len(rpcs), func(a, b int) { rpcs[a], rpcs[b] = rpcs[b], rpcs[a] })
		f.Services = []*Service{templateFamilyService(pkg, "R", base, rpcs, f)}
		r := OneFile(id, pkg, f)
		r.Tags = []string{"routes", "template-family", "random"}
		out = append(out, r)
	}
	return out
}

// ---- body shapes: what is left for the body once the URL has taken its fields ---------------------
//
// A POST/PUT/PATCH RPC is "body-carrying" for every generator whatever its request message looks like:
// the Go server reads a body, the clients send one, the TS server parses one, OpenAPI declares one.
// The family varies what is LEFT for that body: nothing at all (empty request message), nothing because
// the path variables carry every field (one, two, three variables), nothing but query-annotated fields,
// exactly one non-URL field, and the ordinary several-field request; for every body verb, the
// defaulted verb, with and without a base path, with a request message that is shared with a bodiless
// RPC, and with GET/DELETE controls of the same shapes.

type bodyShape struct {
	name   string
	path   string   // %s = a per-RPC literal
	fields []*Field // in declaration order
}

func bodyShapes() []bodyShape {
	return []bodyShape{
		{"Empty", "/%s/purge", nil},
		{"AllPath1", "/%s/{id}/archive", []*Field{F("id", 1, "string")}},
		{"AllPath2", "/%s/{id}/tags/{tag}", []*Field{F("id", 1, "string"), F("tag", 2, "int64")}},
		{"AllPath3", "/%s/{a}/{b}/x/{c}", []*Field{F("c", 1, "uint32"), F("a", 2, "string"), F("b", 3, "bool")}},
		{"PathPlusQuery", "/%s/{id}/q", []*Field{F("id", 1, "string"), F("mode", 2, "string", Query("mode", false))}},
		{"QueryOnly", "/%s/q", []*Field{F("page", 1, "int32", Query("page", false)), F("sort", 2, "string", Query("", false))}},
		{"OneLeft", "/%s/{id}/one", []*Field{F("id", 1, "string"), F("note", 2, "string")}},
		{"OneLeftFirst", "/%s/{id}/first", []*Field{F("note", 1, "string"), F("id", 2, "string")}},
		{"OneOnly", "/%s/only", []*Field{F("note", 1, "string")}},
		{"OneMsgLeft", "/%s/{id}/msg", []*Field{F("id", 1, "string"), F("inner", 2, "", Msg("%PKG%.Inner"))}},
		{"OneListLeft", "/%s/{id}/list", []*Field{F("id", 1, "string"), F("tags", 2, "string", Rep())}},
		{"Several", "/%s/{id}/several", []*Field{F("id", 1, "string"), F("note", 2, "string"), F("count", 3, "int32")}},
	}
}

func cloneField(f *Field, pkg string) *Field {
	c := *f
	c.TypeName = strings.ReplaceAll(c.TypeName, "%PKG%", pkg)
	if f.Query != nil {
		q := *f.Query
		c.Query = &q
	}
	return &c
}

// BodyShapeRequests: deterministic catalogue of the family above.
func BodyShapeRequests() []*Request {
	var out []*Request
	verbs := []string{"POST", "PUT", "PATCH", ""}
	for bi, base := range []string{"/api/v1", ""} {
		id := fmt.Sprintf("rtbody%d", bi)
		pkg := id + ".v1"
		f := &File{Messages: []*Message{M("Resp", F("ok", 1, "bool")), M("Inner", F("a", 1, "string"))}}
		svc := &Service{Name: "Notes", BasePath: base, HasConfig: base != ""}
		for vi, v := range verbs {
			for si, sh := range bodyShapes() {
				if bi == 1 && (vi+si)%2 == 1 {
					continue // the base-less service takes every other combination
				}
				vn := v
				if vn == "" {
					vn = "Dflt"
				}
				name := lowerTitle(vn) + sh.name
				m := &Message{Name: name + "Request"}
				for _, fl := range sh.fields {
					m.Fields = append(m.Fields, cloneField(fl, pkg))
				}
				f.Messages = append(f.Messages, m)
				svc.Methods = append(svc.Methods, &Method{Name: name, In: pkg + "." + m.Name, Out: pkg + ".Resp", Verb: v,
					Path: fmt.Sprintf(sh.path, strings.ToLower(name)), HasConfig: true})
			}
		}
		// bodiless controls: the shapes whose fields are all URL-bound
		for _, v := range []string{"GET", "DELETE"} {
			for _, sh := range bodyShapes()[:6] {
				name := lowerTitle(v) + sh.name
				m := &Message{Name: name + "Request"}
				for _, fl := range sh.fields {
					m.Fields = append(m.Fields, cloneField(fl, pkg))
				}
				f.Messages = append(f.Messages, m)
				svc.Methods = append(svc.Methods, &Method{Name: name, In: pkg + "." + m.Name, Out: pkg + ".Resp", Verb: v,
					Path: fmt.Sprintf(sh.path, strings.ToLower(name)), HasConfig: true})
			}
		}
		// one request message serving a bodiless and a body-carrying RPC; an empty request without any config
		f.Messages = append(f.Messages, M("ByID", F("id", 1, "string")), M("Nothing"))
		svc.Methods = append(svc.Methods,
			RPC("SharedGet", pkg+".ByID", pkg+".Resp", "GET", "/shared/{id}"),
			RPC("SharedPost", pkg+".ByID", pkg+".Resp", "POST", "/shared/{id}/restore"),
			RPC("SharedDelete", pkg+".ByID", pkg+".Resp", "DELETE", "/shared/{id}"),
			RPC("SharedPut", pkg+".ByID", pkg+".Resp", "PUT", "/shared/{id}"),
			RPC("NothingPost", pkg+".Nothing", pkg+".Resp", "POST", "/nothing"),
			RPC("NothingGet", pkg+".Nothing", pkg+".Resp", "GET", "/nothing"),
			&Method{Name: "NothingBare", In: pkg + ".Nothing", Out: pkg + ".Resp"},
			&Method{Name: "NothingVerbOnly", In: pkg + ".Nothing", Out: pkg + ".Resp", Verb: "PATCH", HasConfig: true})
		f.Services = []*Service{svc}
		r := OneFile(id, pkg, f)
		r.Tags = []string{"routes", "body-shape"}
		out = append(out, r)
	}
	return out
}

func lowerTitle(s string) string {
	if s == "" {
		return s
	}
	return strings.ToUpper(s[:1]) + strings.ToLower(s[1:])
}

// RandomBodyShapeRequests: seeded services whose RPCs draw verb, number of path variables, number of
// query fields and number of remaining (body) fields independently, 0 included everywhere; the bound
// fields are declared in a random order relative to the template.
func RandomBodyShapeRequests(rng *rand.Rand, n int) []*Request {
	var out []*Request
	kinds := []string{"string", "int64", "uint32", "bool", "int32"}
	for i := 0; i < n; i++ {
		id := fmt.Sprintf("rtbodyrand%d", i)
		pkg := id + ".v1"
		f := &File{Messages: []*Message{M("Resp", F("ok", 1, "bool"))}}
		base := []string{"", "/api", "/b/v2"}[rng.Intn(3)]
		svc := &Service{Name: fmt.Sprintf("B%d", i), BasePath: base, HasConfig: base != ""}
		nm := 4 + rng.Intn(5)
		for j := 0; j < nm; j++ {
			verb := []string{"POST", "PUT", "PATCH", "", "GET", "DELETE"}[rng.Intn(6)]
			bodiless := verb == "GET" || verb == "DELETE"
			np, nq, nb := rng.Intn(4), rng.Intn(3), rng.Intn(3)
			if rng.Intn(2) == 0 {
				nb = 0
			}
			if bodiless {
				nb = 0
			}
			var fields []*Field
			path := fmt.Sprintf("/m%d", j)
			for k := 0; k < np; k++ {
				fn := fmt.Sprintf("p_%d", k)
				fields = append(fields, F(fn, 0, kinds[rng.Intn(len(kinds))]))
				path += "/{" + fn + "}"
				if rng.Intn(2) == 0 {
					path += fmt.Sprintf("/l%d", k)
				}
			}
			for k := 0; k < nq; k++ {
				fn := fmt.Sprintf("q_%d", k)
				fields = append(fields, F(fn, 0, kinds[rng.Intn(len(kinds))], Query([]string{"", "qq" + fmt.Sprint(k)}[rng.Intn(2)], false)))
			}
			for k := 0; k < nb; k++ {
				fields = append(fields, F(fmt.Sprintf("b_%d", k), 0, kinds[rng.Intn(len(kinds))]))
			}
			rng.Shuffle(len(fields), func(a, b int) { fields[a], fields[b] = fields[b], fields[a] })
			for k, fl := range fields {
				fl.Number = int32(k + 1)
			}
			name := fmt.Sprintf("M%d", j)
			f.Messages = append(f.Messages, &Message{Name: name + "Req", Fields: fields})
			svc.Methods = append(svc.Methods, &Method{Name: name, In: pkg + "." + name + "Req", Out: pkg + ".Resp", Verb: verb, Path: path, HasConfig: true})
		}
		f.Services = []*Service{svc}
		r := OneFile(id, pkg, f)
		r.Tags = []string{"routes", "body-shape", "random"}
		out = append(out, r)
	}
	return out
}
