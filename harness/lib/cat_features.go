package lib

import "fmt"

// featureReq wraps messages into a single-file request with an Echo service: each listed top-level
// message T gets RPC Echo<T>(T) returns (T) on POST /echo/<T>.
func featureReq(id string, enums []*Enum, msgs []*Message, tops ...string) *Request {
	pkg := id + ".v1"
	f := &File{Enums: enums, Messages: msgs}
	svc := &Service{Name: "Echo", BasePath: "/" + id, HasConfig: true}
	for _, t := range tops {
		svc.Methods = append(svc.Methods, RPC("Echo"+t, pkg+"."+t, pkg+"."+t, "POST", "/echo/"+t))
	}
	f.Services = []*Service{svc}
	r := OneFile(id, pkg, f)
	r.Tags = []string{"features"}
	return r
}

// FeatureCatalogue: one request per JSON-mapping feature × shape, kept separate so that a package
// that does not build (C13) does not hide the others.
func FeatureCatalogue() []*Request {
	var out []*Request
	add := func(r *Request, tags ...string) { r.Tags = append(r.Tags, tags...); out = append(out, r) }
	q := func(id, t string) string { return id + ".v1." + t }

	// plain proto3 (no annotation): the reference behaviour
	add(featureReq("ftplain", []*Enum{E("Color", "COLOR_UNSPECIFIED", "COLOR_RED", "COLOR_BLUE")},
		[]*Message{
			M("Inner", F("a", 1, "string"), F("big_num", 2, "int64"), F("deep", 3, "", Msg(q("ftplain", "Inner")))),
			M("Plain", F("id", 1, "string"), F("count", 2, "int32"), F("big", 3, "int64"), F("ubig", 4, "uint64"), F("ratio", 5, "double"), F("f32", 6, "float"),
				F("ok", 7, "bool"), F("raw", 8, "bytes"), F("color", 9, "", EnumT(q("ftplain", "Color"))), F("inner", 10, "", Msg(q("ftplain", "Inner"))),
				F("items", 11, "", Msg(q("ftplain", "Inner")), Rep()), F("names", 12, "string", Rep()), F("by_key", 13, "", Msg(q("ftplain", "Inner")), MapOf("string")),
				F("counts", 14, "int64", MapOf("int32")), F("opt_s", 15, "string", Opt()), F("opt_n", 16, "int32", Opt()), F("at", 17, "", Msg(Timestamp)),
				F("multi_word_name", 18, "string"), F("c_a", 19, "string", InOneof("choice")), F("c_b", 20, "", Msg(q("ftplain", "Inner")), InOneof("choice")),
				F("colors", 21, "", EnumT(q("ftplain", "Color")), Rep())).WithOneofs(&Oneof{Name: "choice"}),
		}, "Plain", "Inner"))

	// int64_encoding = NUMBER
	add(featureReq("fti64", nil, []*Message{
		M("Nums", F("a", 1, "int64", I64("NUMBER")), F("b", 2, "uint64", I64("NUMBER")), F("c", 3, "sint64", I64("NUMBER")),
			F("d", 4, "fixed64", I64("NUMBER")), F("e", 5, "sfixed64", I64("NUMBER")), F("s", 6, "int64", I64("STRING")), F("plain", 7, "int64"), F("name", 8, "string")),
		M("Holder", F("id", 1, "string"), F("nums", 2, "", Msg(q("fti64", "Nums"))), F("list", 3, "", Msg(q("fti64", "Nums")), Rep()), F("m", 4, "", Msg(q("fti64", "Nums")), MapOf("string"))),
	}, "Nums", "Holder"), "int64")
	add(featureReq("fti64rep", nil, []*Message{M("NumsRep", F("xs", 1, "int64", Rep(), I64("NUMBER")), F("id", 2, "string"))}, "NumsRep"), "int64", "card")
	add(featureReq("fti64opt", nil, []*Message{M("NumsOpt", F("x", 1, "int64", Opt(), I64("NUMBER")), F("id", 2, "string"))}, "NumsOpt"), "int64", "card")
	add(featureReq("fti64map", nil, []*Message{M("NumsMap", F("m", 1, "int64", MapOf("string"), I64("NUMBER")), F("id", 2, "string"))}, "NumsMap"), "int64", "card")

	// enum custom values / numeric encoding
	st := &Enum{Name: "Status", Values: []*EnumValue{{Name: "STATUS_UNSPECIFIED", Number: 0}, {Name: "STATUS_ACTIVE", Number: 1, EnumValue: Str("active")}, {Name: "STATUS_GONE", Number: 2, EnumValue: Str("gone")}}}
	add(featureReq("ftenum", []*Enum{st, E("Level", "LEVEL_UNSPECIFIED", "LEVEL_LOW", "LEVEL_HIGH")}, []*Message{
		M("WithEnum", F("status", 1, "", EnumT(q("ftenum", "Status"))), F("level", 2, "", EnumT(q("ftenum", "Level")), EnumEnc("NUMBER")), F("plain_level", 3, "", EnumT(q("ftenum", "Level"))),
			F("statuses", 4, "", EnumT(q("ftenum", "Status")), Rep()), F("id", 5, "string")),
		M("EnumHolder", F("inner", 1, "", Msg(q("ftenum", "WithEnum"))), F("id", 2, "string")),
	}, "WithEnum", "EnumHolder"), "enum")

	// nullable
	add(featureReq("ftnull", nil, []*Message{
		M("Nul", F("nick", 1, "string", Opt(), Nullable(true)), F("age", 2, "int32", Opt(), Nullable(true)), F("big", 3, "int64", Opt(), Nullable(true)),
			F("on", 4, "bool", Opt(), Nullable(true)), F("plain_opt", 5, "string", Opt()), F("id", 6, "string"), F("not_null", 7, "string", Opt(), Nullable(false))),
		M("NulHolder", F("n", 1, "", Msg(q("ftnull", "Nul"))), F("ns", 2, "", Msg(q("ftnull", "Nul")), Rep())),
	}, "Nul", "NulHolder"), "nullable")

	// empty_behavior
	add(featureReq("ftempty", nil, []*Message{
		M("Meta", F("k", 1, "string"), F("n", 2, "int32")),
		M("Emp", F("keep", 1, "", Msg(q("ftempty", "Meta")), Empty("PRESERVE")), F("nul", 2, "", Msg(q("ftempty", "Meta")), Empty("NULL")),
			F("omit", 3, "", Msg(q("ftempty", "Meta")), Empty("OMIT")), F("plain", 4, "", Msg(q("ftempty", "Meta"))), F("id", 5, "string")),
	}, "Emp"), "empty")

	// timestamp_format
	add(featureReq("ftts", nil, []*Message{
		M("Times", F("r", 1, "", Msg(Timestamp), TsFmt("RFC3339")), F("s", 2, "", Msg(Timestamp), TsFmt("UNIX_SECONDS")), F("ms", 3, "", Msg(Timestamp), TsFmt("UNIX_MILLIS")),
			F("d", 4, "", Msg(Timestamp), TsFmt("DATE")), F("plain", 5, "", Msg(Timestamp)), F("id", 6, "string")),
		M("TimesHolder", F("t", 1, "", Msg(q("ftts", "Times"))), F("id", 2, "string")),
	}, "Times", "TimesHolder"), "timestamp")
	add(featureReq("fttsrep", nil, []*Message{M("TimesRep", F("xs", 1, "", Msg(Timestamp), Rep(), TsFmt("UNIX_SECONDS")), F("id", 2, "string"))}, "TimesRep"), "timestamp", "card")

	// bytes_encoding
	add(featureReq("ftbytes", nil, []*Message{
		M("Blob", F("h", 1, "bytes", BytesEnc("HEX")), F("b64", 2, "bytes", BytesEnc("BASE64")), F("raw", 3, "bytes", BytesEnc("BASE64_RAW")),
			F("u", 4, "bytes", BytesEnc("BASE64URL")), F("ur", 5, "bytes", BytesEnc("BASE64URL_RAW")), F("plain", 6, "bytes"), F("id", 7, "string")),
		M("BlobHolder", F("b", 1, "", Msg(q("ftbytes", "Blob"))), F("m", 2, "", Msg(q("ftbytes", "Blob")), MapOf("string"))),
	}, "Blob", "BlobHolder"), "bytes")
	add(featureReq("ftbytesrep", nil, []*Message{M("BlobRep", F("xs", 1, "bytes", Rep(), BytesEnc("HEX")), F("id", 2, "string"))}, "BlobRep"), "bytes", "card")
	add(featureReq("ftbytesopt", nil, []*Message{M("BlobOpt", F("x", 1, "bytes", Opt(), BytesEnc("HEX")), F("id", 2, "string"))}, "BlobOpt"), "bytes", "card")

	// flatten
	add(featureReq("ftflat", nil, []*Message{
		M("Addr", F("street", 1, "string"), F("zip", 2, "string"), F("floor", 3, "int32")),
		M("Person", F("id", 1, "string"), F("home", 2, "", Msg(q("ftflat", "Addr")), Flatten(true)), F("work", 3, "", Msg(q("ftflat", "Addr")), Flatten(true), FlattenPrefix("work_")), F("age", 4, "int32")),
	}, "Person"), "flatten")
	add(featureReq("ftflatmw", nil, []*Message{
		M("Detail", F("body_text", 1, "string"), F("big_count", 2, "int64"), F("made_at", 3, "", Msg(Timestamp))),
		M("Post", F("id", 1, "string"), F("detail", 2, "", Msg(q("ftflatmw", "Detail")), Flatten(true))),
	}, "Post"), "flatten", "multiword")

	// discriminated oneof
	add(featureReq("ftoneof", nil, []*Message{
		M("TextP", F("body", 1, "string")), M("ImageP", F("url", 1, "string"), F("width", 2, "int32")),
		M("Event", F("id", 1, "string"), F("text", 2, "", Msg(q("ftoneof", "TextP")), InOneof("payload")), F("image", 3, "", Msg(q("ftoneof", "ImageP")), InOneof("payload"), OneofVal("img")),
			F("note", 4, "string", InOneof("payload"))).WithOneofs(&Oneof{Name: "payload", HasConfig: true, Discriminator: "type"}),
	}, "Event"), "oneof")
	add(featureReq("ftoneofflat", nil, []*Message{
		M("TextP", F("body", 1, "string")), M("ImageP", F("url", 1, "string"), F("width", 2, "int32")),
		M("FlatEvent", F("id", 1, "string"), F("text", 2, "", Msg(q("ftoneofflat", "TextP")), InOneof("payload")), F("image", 3, "", Msg(q("ftoneofflat", "ImageP")), InOneof("payload"), OneofVal("img"))).WithOneofs(&Oneof{Name: "payload", HasConfig: true, Discriminator: "kind", Flatten: true}),
	}, "FlatEvent"), "oneof", "flatten")

	// unwrap
	add(featureReq("ftunwrap", nil, []*Message{
		M("Bar", F("t", 1, "int64"), F("px", 2, "double"), F("sym", 3, "string")),
		M("BarList", F("bars", 1, "", Msg(q("ftunwrap", "Bar")), Rep(), Unwrap())),
		M("RootList", F("items", 1, "", Msg(q("ftunwrap", "Bar")), Rep(), Unwrap())),
		M("RootMap", F("by_sym", 1, "", Msg(q("ftunwrap", "Bar")), MapOf("string"), Unwrap())),
		M("Combined", F("by_sym", 1, "", Msg(q("ftunwrap", "BarList")), MapOf("string"), Unwrap())),
		M("MapValue", F("series", 1, "", Msg(q("ftunwrap", "BarList")), MapOf("string")), F("total_count", 2, "int64"), F("label", 3, "string")),
		M("Strs", F("vals", 1, "string", Rep(), Unwrap())),
	}, "RootList", "RootMap", "Combined", "MapValue", "Strs"), "unwrap")

	// two JSON features on one message
	add(featureReq("fttwo", nil, []*Message{M("Two", F("big", 1, "int64", I64("NUMBER")), F("nick", 2, "string", Opt(), Nullable(true)))}, "Two"), "two-features")
	add(featureReq("fttwob", nil, []*Message{M("TwoB", F("h", 1, "bytes", BytesEnc("HEX")), F("at", 2, "", Msg(Timestamp), TsFmt("DATE")))}, "TwoB"), "two-features")

	// field / message names whose Go spelling differs from naive conversion
	add(featureReq("ftnames", nil, []*Message{
		M("Names", F("field_1", 1, "string"), F("a1b", 2, "string"), F("x__y", 3, "string"), F("type", 4, "string"), F("user_id", 5, "string"), F("string", 6, "string"), F("get_name", 7, "string")),
	}, "Names"), "names")

	// headers
	{
		r := featureReq("fthdr", nil, []*Message{M("Ping", F("msg", 1, "string"))}, "Ping")
		svc := r.Files[0].Services[0]
		svc.Headers = []*Header{{Name: "X-API-Key", Type: "string", Required: true, Format: "uuid"}, {Name: "X-Trace", Type: "string", Required: false}}
		svc.Methods[0].Headers = []*Header{{Name: "X-Request-ID", Type: "integer", Required: true}, {Name: "X-Trace", Type: "string", Required: true}}
		svc.Methods = append(svc.Methods, RPC("Second", "fthdr.v1.Ping", "fthdr.v1.Ping", "PUT", "/second"))
		add(r, "headers")
	}

	// nested declarations and same short names
	add(featureReq("ftnest", nil, []*Message{
		M("Outer", F("id", 1, "string"), F("item", 2, "", Msg("ftnest.v1.Outer.Item")), F("other", 3, "", Msg("ftnest.v1.Other.Item"))).WithNested(M("Item", F("a", 1, "string"))),
		M("Other", F("id", 1, "string")).WithNested(M("Item", F("b", 1, "int32"))),
	}, "Outer"), "nested")

	// multi-file, same Go package: types in a second file
	{
		pkg := "ftmulti.v1"
		types := &File{Path: "ftmulti/types.proto", Package: pkg, GoPackage: "verifgen/ftmulti;ftmulti", Generate: true,
			Messages: []*Message{
				M("Bar", F("t", 1, "int64", I64("NUMBER")), F("sym", 2, "string")),
				M("BarList", F("bars", 1, "", Msg(pkg+".Bar"), Rep(), Unwrap())),
			}}
		api := &File{Path: "ftmulti/api.proto", Package: pkg, GoPackage: "verifgen/ftmulti;ftmulti", Generate: true, Imports: []string{"ftmulti/types.proto"},
			Messages: []*Message{M("Series", F("by_sym", 1, "", Msg(pkg+".BarList"), MapOf("string")), F("label", 2, "string")), M("Req", F("id", 1, "string"))},
			Services: []*Service{Svc("Market", "/m", RPC("GetSeries", pkg+".Req", pkg+".Series", "POST", "/series"), RPC("GetBar", pkg+".Req", pkg+".Bar", "POST", "/bar"))}}
		other := &File{Path: "ftmulti/other.proto", Package: pkg, GoPackage: "verifgen/ftmulti;ftmulti", Generate: true,
			Messages: []*Message{M("Unrelated", F("x", 1, "string"), F("when", 2, "", Msg(Timestamp), TsFmt("UNIX_SECONDS")))}}
		add(&Request{ID: "ftmulti", Files: []*File{types, api, other}, Tags: []string{"features"}}, "multi-file")
	}
	return out
}

// CallFeatureRequests: the feature packages that are CALLED (generated Go client -> generated Go server,
// C01) with boundary values in both directions. They are the packages whose emitted codecs write JSON
// that differs from plain protojson in a way a transport layer could damage — 64-bit integers as bare
// JSON numbers (int64_encoding = NUMBER on singular / repeated / optional / map fields, scalar root
// unwrap of 64-bit lists and maps, 64-bit siblings of an unwrap map), custom bytes alphabets, nullable
// scalars — plus the plain package as the reference. Packages whose codecs do not round-trip on the
// unchanged tree (flatten, flattened oneof: C04's findings) are left to C04.
func CallFeatureRequests() []*Request {
	want := map[string]bool{"ftplain": true, "fti64": true, "fti64rep": true, "fti64opt": true, "fti64map": true, "ftunwrap": true,
		"ftbytes": true, "ftbytesrep": true, "ftnull": true, "ftmulti": true}
	var out []*Request
	for _, r := range FeatureCatalogue() {
		if want[r.ID] {
			out = append(out, r)
		}
	}
	q := func(id, t string) string { return id + ".v1." + t }
	tag := func(r *Request, tags ...string) *Request { r.Tags = append(r.Tags, tags...); return r }
	// scalar root unwrap of 64-bit integers (written as bare JSON numbers by the emitted MarshalJSON),
	// message root unwrap whose elements carry NUMBER fields, 64-bit siblings of an unwrap map
	out = append(out, tag(featureReq("ftunwrapnum", nil, []*Message{
		M("I64List", F("vals", 1, "int64", Rep(), Unwrap())),
		M("U64List", F("vals", 1, "uint64", Rep(), Unwrap())),
		M("S64List", F("vals", 1, "sfixed64", Rep(), Unwrap())),
		M("I64Map", F("by_key", 1, "int64", MapOf("string"), Unwrap())),
		M("U64Map", F("by_key", 1, "uint64", MapOf("string"), Unwrap())),
		M("I32List", F("vals", 1, "int32", Rep(), Unwrap())),
		M("Tick", F("t", 1, "int64", I64("NUMBER")), F("seq", 2, "uint64", I64("NUMBER")), F("sym", 3, "string")),
		M("TickList", F("ticks", 1, "", Msg(q("ftunwrapnum", "Tick")), Rep(), Unwrap())),
		M("Series", F("by_sym", 1, "", Msg(q("ftunwrapnum", "I64List")), MapOf("string")), F("total", 2, "int64"), F("utotal", 3, "uint64"), F("count", 4, "int32"), F("label", 5, "string")),
		M("ListSibling", F("vals", 1, "int64", Rep(), Unwrap()), F("total", 2, "int64"), F("label", 3, "string")),
	}, "I64List", "U64List", "S64List", "I64Map", "U64Map", "I32List", "TickList", "Series", "ListSibling"), "unwrap", "int64"))
	// NUMBER-encoded responses behind every verb (path and query binding on the request side)
	{
		id := "fti64verbs"
		pkg := id + ".v1"
		f := &File{Messages: []*Message{
			M("Entry", F("id", 1, "string"), F("amount_minor", 2, "int64", I64("NUMBER")), F("sequence", 3, "uint64", I64("NUMBER")), F("history", 4, "int64", Rep(), I64("NUMBER")),
				F("plain_big", 5, "int64"), F("ratio", 6, "double"), F("count", 7, "int32"), F("note", 8, "string")),
			M("LastReq", F("account_id", 1, "string"), F("amount_minor", 2, "int64", Query("amount_minor", false))),
			M("DropReq", F("sequence", 1, "uint64")),
			M("PutReq", F("id", 1, "string"), F("amount_minor", 2, "int64", I64("NUMBER")), F("sequence", 3, "uint64", I64("NUMBER"))),
		}}
		f.Services = []*Service{Svc("Ledger", "/api/v1",
			RPC("Record", pkg+".Entry", pkg+".Entry", "POST", "/entries"),
			RPC("Last", pkg+".LastReq", pkg+".Entry", "GET", "/accounts/{account_id}/last"),
			RPC("Drop", pkg+".DropReq", pkg+".Entry", "DELETE", "/entries/{sequence}"),
			RPC("Put", pkg+".PutReq", pkg+".Entry", "PUT", "/entries/{id}"),
			RPC("Patch", pkg+".PutReq", pkg+".Entry", "PATCH", "/entries/{id}"))}
		out = append(out, tag(OneFile(id, pkg, f), "features", "int64", "verbs"))
	}
	return out
}

func init() { _ = fmt.Sprint }
