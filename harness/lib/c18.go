package lib

// c18.go — C18: each OpenAPI document is well-formed, complete and format-independent.
// Families:
//   document      per service: the parsed .yaml and .json renderings (projected) vs OpenApi.document_y
//                 under the YAML 1.2 reader and the re-reading YAML 1.1 reader; oracle = the C18 clauses
//                 evaluated directly on the parsed real documents + structural equality of the renderings
//                 + identical text for format in {default, yaml, yml}
//   files         per (request, parameter): emitted file names vs OpenApi.emitted_files; oracle = one file
//                 per service, named <Service>.openapi.<yaml|json>

import (
	"encoding/json"
	"fmt"
	"math/rand"
	"os"
	"path/filepath"
	"sort"
	"strings"
	"sync"
	"time"

	"google.golang.org/protobuf/proto"
	"google.golang.org/protobuf/types/pluginpb"
)

// OASFile is one file of a plugin response, in response order (names may repeat).
type OASFile struct {
	Name    string
	Content string
}

func ResponseFiles(res *PluginResult) []OASFile {
	var resp pluginpb.CodeGeneratorResponse
	if err := proto.Unmarshal(res.Raw, &resp); err != nil {
		return nil
	}
	var out []OASFile
	for _, f := range resp.File {
		out = append(out, OASFile{f.GetName(), f.GetContent()})
	}
	return out
}

var oasFormatParams = []string{"", "format=yaml", "format=yml", "format=json"}

// OASGen is what protoc-gen-openapiv3 did with one request under each format parameter.
type OASGen struct {
	Req      *Request
	Built    *Built
	BuildErr string
	ByParam  map[string]*PluginResult
}

// OASGenAll runs only the OpenAPI plugin, once per format parameter (plus extras).
func OASGenAll(binDir string, reqs []*Request, params []string) []*OASGen {
	out := make([]*OASGen, len(reqs))
	var wg sync.WaitGroup
	sem := make(chan struct{}, 12)
	for i, r := range reqs {
		wg.Add(1)
		go func(i int, r *Request) {
			defer wg.Done()
			sem <- struct{}{}
			defer func() { <-sem }()
			g := &OASGen{Req: r, ByParam: map[string]*PluginResult{}}
			out[i] = g
			b, err := BuildDescriptors(r)
			if err != nil {
				g.BuildErr = err.Error()
				return
			}
			g.Built = b
			for _, p := range params {
				g.ByParam[p] = RunPlugin(filepath.Join(binDir, "protoc-gen-openapiv3"), "openapiv3", MakeCGR(b.All, ToGenerate(r), p), 20*time.Second, 4096)
			}
		}(i, r)
	}
	wg.Wait()
	return out
}

// oasGeneratedServices lists (file index, service index, service) of the files to generate, in order.
type oasSvcRef struct {
	FI, SI int
	File   *File
	Svc    *Service
}

func oasGeneratedServices(r *Request) []oasSvcRef {
	var out []oasSvcRef
	for fi, f := range r.Files {
		if !f.Generate {
			continue
		}
		for si, s := range f.Services {
			out = append(out, oasSvcRef{fi, si, f, s})
		}
	}
	return out
}

func oasExpectedFileNames(r *Request, json bool) []string {
	ext := "yaml"
	if json {
		ext = "json"
	}
	var out []string
	for _, s := range oasGeneratedServices(r) {
		out = append(out, s.Svc.Name+".openapi."+ext)
	}
	return out
}

func oasHasDup(l []string) bool {
	seen := map[string]bool{}
	for _, x := range l {
		if seen[x] {
			return true
		}
		seen[x] = true
	}
	return false
}

func oasDocFeatures(r *Request, s *Service) []string {
	fs := append([]string{}, r.Tags...)
	if len(s.Headers) > 0 {
		fs = append(fs, "service-headers")
	}
	for _, m := range s.Methods {
		if len(m.Headers) > 0 {
			fs = append(fs, "method-headers")
		}
		if strings.Contains(m.Path, "{") {
			fs = append(fs, "path-vars")
		}
	}
	sort.Strings(fs)
	return fs
}

// UseReplaySeed makes a --replay run repeat the tier and seed recorded in the replay file, so that the
// same (deterministic) cases are regenerated and re-evaluated against the current tree.
func UseReplaySeed(run *Run) {
	if run.Replay == "" {
		return
	}
	b, err := os.ReadFile(run.Replay)
	if err != nil {
		run.Fatal("cannot read replay file: %v", err)
	}
	var r struct {
		Seed int64  `json:"seed"`
		Tier string `json:"tier"`
	}
	if err := json.Unmarshal(b, &r); err != nil {
		run.Fatal("replay file: %v", err)
	}
	run.Seed = r.Seed
	if r.Tier == "quick" || r.Tier == "thorough" {
		run.Tier = r.Tier
	}
}

func CheckC18(run *Run) {
	UseReplaySeed(run)
	run.Proof = CheckProofs("C18")
	run.Prepare()
	reqs := OASStructureCatalogue()
	reqs = append(reqs, OASRulesRequests(OASRuleFields(), "oasrules")...)
	reqs = append(reqs, FeatureCatalogue()...)
	reqs = append(reqs, RuntimeCatalogue()...)
	reqs = append(reqs, SharedRouteRequest())
	nRand := 6
	if run.Tier == "thorough" {
		nRand = 500
	}
	rng := rand.New(rand.NewSource(run.Seed + 18))
	reqs = append(reqs, RandomRouteRequests(rng, nRand)...)
	reqs = append(reqs, OASRulesRequests(RandomRuleFields(rng, nRand*4), "oasrnd")...)

	extraParams := []string{"format=json,foo=bar", "format= json", "format=xml", "x=1,format=yaml,format=json", "format"}
	gens := OASGenAll(run.BinDir, reqs, append(append([]string{}, oasFormatParams...), extraParams...))

	imports := "From Sebuf Require Import OasCheck.\n"
	docGroups := make([]CoqGroup, len(reqs))
	fileGroups := make([]CoqGroup, len(reqs))
	docRes := make([][]*CaseResult, len(reqs))
	fileRes := make([][]*CaseResult, len(reqs))
	for ri, r := range reqs {
		g := gens[ri]
		if g.BuildErr != "" {
			run.Fatal("descriptor build failed for %s: %s", r.ID, g.BuildErr)
		}
		docGroups[ri].Defs = fmt.Sprintf("Definition sc_%d : schema := %s.\nDefinition sd_%d : side := %s.\n", ri, CoqSchema(r), ri, CoqSide(r))
		svcs := oasGeneratedServices(r)
		var svcNames []string
		for _, sr := range svcs {
			svcNames = append(svcNames, sr.Svc.Name)
		}
		// ---- files family
		for _, p := range append(append([]string{}, oasFormatParams...), extraParams...) {
			res := g.ByParam[p]
			var names []string
			for _, f := range ResponseFiles(res) {
				names = append(names, f.Name)
			}
			if names == nil {
				names = []string{}
			}
			wantJSON := false
			// the documented behaviour: format=json selects JSON, anything else YAML (last pair wins)
			for _, pair := range strings.Split(p, ",") {
				if kv := strings.SplitN(pair, "=", 2); len(kv) == 2 && strings.TrimSpace(kv[0]) == "format" {
					wantJSON = strings.TrimSpace(kv[1]) == "json"
				}
			}
			want := oasExpectedFileNames(r, wantJSON)
			holds := res.Exit == "ok" && Diff(Canon(names), Canon(want)) == "" && !oasHasDup(names)
			note := ""
			if !holds {
				note = fmt.Sprintf("exit=%s files=%v, expected one file per service %v", res.Exit, names, want)
				if oasHasDup(names) {
					note = "two services share a file name: " + note
				}
			}
			obs := map[string]any{"files": names}
			if res.Exit != "ok" {
				obs["exit"] = res.Exit
			}
			c := &CaseResult{ID: fmt.Sprintf("%s#files[%s]", r.ID, p), Family: "files", Input: map[string]any{"schema": r.ID, "param": p, "services": len(svcs)},
				Obs: obs, OracleHolds: holds, OracleNote: note, NonTrivial: len(svcs) > 0, Features: []string{"param:" + p}}
			fileRes[ri] = append(fileRes[ri], c)
			fileGroups[ri].Cases = append(fileGroups[ri].Cases, CoqCase{Term: fmt.Sprintf("(%s, %s)", CoqStrList(svcNames), CoqStr(p)), Obs: obs})
		}
		// ---- document family
		def := ResponseFiles(g.ByParam[""])
		ya := ResponseFiles(g.ByParam["format=yaml"])
		ym := ResponseFiles(g.ByParam["format=yml"])
		js := ResponseFiles(g.ByParam["format=json"])
		for k, sref := range svcs {
			id := fmt.Sprintf("%s/%s#%d", r.ID, sref.Svc.Name, k)
			c := &CaseResult{ID: id, Family: "document", Input: map[string]any{"schema": r.ID, "service": sref.Svc.Name, "methods": len(sref.Svc.Methods)},
				NonTrivial: len(sref.Svc.Methods) > 0, Features: oasDocFeatures(r, sref.Svc)}
			var notes []string
			obs := map[string]any{}
			var yamlDoc, jsonDoc any
			if k < len(def) {
				d, err := ParseOASYAML(def[k].Content)
				if err != nil {
					notes = append(notes, "yaml rendering does not parse: "+err.Error())
					obs["yaml"] = "unparsable"
				} else {
					yamlDoc = d
					obs["yaml"] = StripDoc(d)
				}
				if k >= len(ya) || k >= len(ym) || ya[k].Content != def[k].Content || ym[k].Content != def[k].Content {
					notes = append(notes, "format=yaml / format=yml / default do not give the same text")
				}
			} else {
				notes = append(notes, "no yaml document for the service: "+g.ByParam[""].Exit+" "+firstLine(g.ByParam[""].Stderr))
				obs["yaml"] = "missing"
			}
			if k < len(js) {
				d, err := ParseOASJSON(js[k].Content)
				if err != nil {
					notes = append(notes, "json rendering does not parse: "+err.Error())
					obs["json"] = "unparsable"
				} else {
					jsonDoc = d
					obs["json"] = StripDoc(d)
				}
			} else {
				notes = append(notes, "no json document for the service: "+g.ByParam["format=json"].Exit+" "+firstLine(g.ByParam["format=json"].Stderr))
				obs["json"] = "missing"
			}
			if yamlDoc != nil {
				var rpcs []string
				for _, m := range sref.Svc.Methods {
					rpcs = append(rpcs, m.Name)
				}
				notes = append(notes, OASCheckWellFormed(yamlDoc, rpcs, ReachableMessages(r, sref.Svc))...)
			}
			if yamlDoc != nil && jsonDoc != nil {
				if d := JSONEqualDocs(yamlDoc, jsonDoc); d != "" {
					notes = append(notes, "yaml and json renderings differ: "+d)
				}
			}
			c.Obs = obs
			c.OracleHolds = len(notes) == 0
			if len(notes) > 6 {
				notes = append(notes[:6], fmt.Sprintf("(+%d more)", len(notes)-6))
			}
			c.OracleNote = strings.Join(notes, "; ")
			docRes[ri] = append(docRes[ri], c)
			docGroups[ri].Cases = append(docGroups[ri].Cases, CoqCase{Term: fmt.Sprintf("(sc_%d, sd_%d, (%d%%nat, %d%%nat))", ri, ri, sref.FI, sref.SI), Obs: obs})
		}
	}
	vs, err := CoqRunGroups(run.WorkDir, "c18doc", imports, "(schema * side * (nat * nat))", "predict_C18", docGroups, 16)
	if err != nil {
		run.Fatal("model evaluation: %v", err)
	}
	for ri := range reqs {
		for i, c := range docRes[ri] {
			c.Apply(vs[ri][i])
			if c.Unmodelled != "" && !c.OracleHolds {
				c.Tags = z3TagsC18(c)
			}
			// keep evidence small: drop the documents of agreeing cases
			if c.Agree {
				c.Obs = map[string]any{"documents": "agree with the model (omitted)"}
			}
			run.Results = append(run.Results, c)
		}
	}
	vs, err = CoqRunGroups(run.WorkDir, "c18files", imports, "(list str * str)", "predict_C18_files", fileGroups, 16)
	if err != nil {
		run.Fatal("model evaluation: %v", err)
	}
	for ri := range reqs {
		for i, c := range fileRes[ri] {
			c.Apply(vs[ri][i])
			run.Results = append(run.Results, c)
		}
	}
	run.Extra["oracle_failures"] = OracleFailureSummary(run.Results)
	run.Extra["oracle_failures_by_tags"] = OracleFailureCounts(run.Results)
	run.Extra["schemas"] = len(reqs)
	run.Extra["format_parameters"] = append(append([]string{}, oasFormatParams...), extraParams...)
	run.Finish()
}

// OracleFailureSummary lists (id, tags, note) of every case on which the property oracle failed.
func OracleFailureSummary(rs []*CaseResult) []map[string]any {
	var out []map[string]any
	for _, c := range rs {
		if !c.OracleHolds {
			n := c.OracleNote
			if len(n) > 240 {
				n = n[:240]
			}
			out = append(out, map[string]any{"id": c.ID, "tags": c.Tags, "unmodelled": c.Unmodelled, "agree": c.Agree, "note": n})
		}
		if len(out) >= 400 {
			break
		}
	}
	return out
}

// OracleFailureCounts counts oracle failures per tag set.
func OracleFailureCounts(rs []*CaseResult) map[string]int {
	out := map[string]int{}
	for _, c := range rs {
		if !c.OracleHolds {
			k := strings.Join(c.Tags, "+")
			if c.Unmodelled != "" {
				k = "unmodelled"
			} else if !c.Agree {
				k += " (model disagrees)"
			}
			out[k]++
		}
	}
	return out
}

// z3TagsC18: oracle failures on documents the model does not cover (scalars outside the modelled
// YAML resolution subset), classified from the input and the oracle's note.
func z3TagsC18(cr *CaseResult) []string {
	tags := []string{}
	in, _ := cr.Input.(map[string]any)
	if id, _ := in["schema"].(string); id == "oasbeyond64" && strings.HasPrefix(cr.OracleNote, "yaml and json renderings differ: $.components.schemas.Acct.properties.code.example") {
		tags = append(tags, "z3:integer-literal-beyond-64-bit-rounded-in-json")
	}
	return tags
}
