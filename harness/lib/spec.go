// Package lib is the correspondence harness for the sebuf verification framework.
// spec.go: the schema specification — a direct rendering of the Coq `request` term
// (coq/theories/Schema.v). descbuild.go turns it into real descriptors; coqprint.go
// prints the same term in Coq concrete syntax.
package lib

// Request is one code-generation request (ordered files + per-plugin parameter).
type Request struct {
	ID     string            `json:"id"`
	Params map[string]string `json:"params,omitempty"` // plugin name -> parameter string
	Files  []*File           `json:"files"`
	// Tags are free-form labels used by the catalogue to say which branch this schema targets.
	Tags []string `json:"tags,omitempty"`
}

type File struct {
	Path      string     `json:"path"`
	Package   string     `json:"package"`
	GoPackage string     `json:"go_package"` // "import/path;name" ("" = omit option)
	Generate  bool       `json:"generate"`
	Imports   []string   `json:"imports,omitempty"`
	Enums     []*Enum    `json:"enums,omitempty"`
	Messages  []*Message `json:"messages,omitempty"`
	Services  []*Service `json:"services,omitempty"`
}

type Enum struct {
	Name   string       `json:"name"`
	Values []*EnumValue `json:"values"`
}

type EnumValue struct {
	Name      string  `json:"name"`
	Number    int32   `json:"number"`
	EnumValue *string `json:"enum_value,omitempty"`
}

type Message struct {
	Name   string     `json:"name"`
	Fields []*Field   `json:"fields,omitempty"`
	Oneofs []*Oneof   `json:"oneofs,omitempty"`
	Nested []*Message `json:"nested,omitempty"`
	Enums  []*Enum    `json:"enums,omitempty"`
}

type Oneof struct {
	Name          string  `json:"name"`
	HasConfig     bool    `json:"has_config,omitempty"`
	Discriminator string  `json:"discriminator,omitempty"`
	Flatten       bool    `json:"flatten,omitempty"`
}

// Field kinds: double float int32 int64 uint32 uint64 sint32 sint64 fixed32 fixed64
// sfixed32 sfixed64 bool string bytes enum message (TypeName = fully-qualified, no leading dot).
// Well-known types are kind "message" with TypeName "google.protobuf.Timestamp" etc.
// Card: singular | optional | repeated | map (MapKey = key kind; Kind/TypeName = value).
type Field struct {
	Name     string `json:"name"`
	Number   int32  `json:"number"`
	Kind     string `json:"kind"`
	TypeName string `json:"type_name,omitempty"`
	Card     string `json:"card"`
	MapKey   string `json:"map_key,omitempty"`
	Oneof    string `json:"oneof,omitempty"`

	Query           *QueryCfg `json:"query,omitempty"`
	Unwrap          bool      `json:"unwrap,omitempty"`
	Int64Encoding   string    `json:"int64_encoding,omitempty"`   // "", UNSPECIFIED, STRING, NUMBER
	EnumEncoding    string    `json:"enum_encoding,omitempty"`    // "", UNSPECIFIED, STRING, NUMBER
	Nullable        *bool     `json:"nullable,omitempty"`
	EmptyBehavior   string    `json:"empty_behavior,omitempty"`   // "", UNSPECIFIED, PRESERVE, NULL, OMIT
	TimestampFormat string    `json:"timestamp_format,omitempty"` // "", UNSPECIFIED, RFC3339, UNIX_SECONDS, UNIX_MILLIS, DATE
	BytesEncoding   string    `json:"bytes_encoding,omitempty"`   // "", UNSPECIFIED, BASE64, BASE64_RAW, BASE64URL, BASE64URL_RAW, HEX
	OneofValue      *string   `json:"oneof_value,omitempty"`
	Flatten         *bool     `json:"flatten,omitempty"`
	FlattenPrefix   *string   `json:"flatten_prefix,omitempty"`
	Examples        []string  `json:"examples,omitempty"`
	Rules           *Rules    `json:"rules,omitempty"`
	// PresentEmpty names sebuf field annotations to set in their PRESENT-BUT-EMPTY form (the option is on
	// the field, its value is the zero value): field_examples ({}), query ({}), unwrap / nullable / flatten
	// (false), oneof_value / flatten_prefix (""), int64_encoding / enum_encoding / empty_behavior /
	// timestamp_format / bytes_encoding (UNSPECIFIED). Ignored for an annotation the field sets otherwise.
	PresentEmpty []string `json:"present_empty,omitempty"`
}

type QueryCfg struct {
	Name     string `json:"name,omitempty"`
	Required bool   `json:"required,omitempty"`
}

// Rules is the supported buf.validate subset. Numeric bounds are decimal strings
// (exact for 64-bit; floats as Go literal syntax).
type Rules struct {
	Required bool `json:"required,omitempty"`
	// string
	MinLen  *uint64  `json:"min_len,omitempty"`
	MaxLen  *uint64  `json:"max_len,omitempty"`
	Len     *uint64  `json:"len,omitempty"`
	Pattern *string  `json:"pattern,omitempty"`
	StrIn   []string `json:"str_in,omitempty"`
	StrNotIn []string `json:"str_not_in,omitempty"`
	StrConst *string `json:"str_const,omitempty"`
	WellKnown string `json:"well_known,omitempty"` // email uuid uri hostname ip ipv4 ipv6
	// WellKnownOff: the well-known rule is present with the value false (`email: false`): it demands nothing
	// (protovalidate: `!rules.email || ...`) and no format may be published for it
	WellKnownOff string `json:"well_known_off,omitempty"`
	// numeric (applies to the field's own kind)
	NumGt    *string  `json:"gt,omitempty"`
	NumGte   *string  `json:"gte,omitempty"`
	NumLt    *string  `json:"lt,omitempty"`
	NumLte   *string  `json:"lte,omitempty"`
	NumConst *string  `json:"num_const,omitempty"`
	NumIn    []string `json:"num_in,omitempty"`
	// repeated
	MinItems *uint64 `json:"min_items,omitempty"`
	MaxItems *uint64 `json:"max_items,omitempty"`
	Unique   *bool   `json:"unique,omitempty"`
	// map
	MinPairs *uint64 `json:"min_pairs,omitempty"`
	MaxPairs *uint64 `json:"max_pairs,omitempty"`
}

type Header struct {
	Name        string `json:"name"`
	Description string `json:"description,omitempty"`
	Type        string `json:"type,omitempty"`
	Required    bool   `json:"required,omitempty"`
	Format      string `json:"format,omitempty"`
	Example     string `json:"example,omitempty"`
	Deprecated  bool   `json:"deprecated,omitempty"`
}

type Service struct {
	Name        string    `json:"name"`
	HasConfig   bool      `json:"has_config,omitempty"`
	BasePath    string    `json:"base_path,omitempty"`
	Headers     []*Header `json:"headers,omitempty"`
	Methods     []*Method `json:"methods,omitempty"`
	// HeadersEmpty: (sebuf.http.service_headers) = {} — present, no required_headers (only when Headers is empty)
	HeadersEmpty bool `json:"headers_empty,omitempty"`
}

type Method struct {
	Name      string    `json:"name"`
	In        string    `json:"in"`  // fully-qualified message name
	Out       string    `json:"out"` // fully-qualified message name
	HasConfig bool      `json:"has_config,omitempty"`
	Path      string    `json:"path,omitempty"`
	Verb      string    `json:"verb,omitempty"` // "", GET, POST, PUT, DELETE, PATCH
	Headers   []*Header `json:"headers,omitempty"`
	// HeadersEmpty: (sebuf.http.method_headers) = {} — present, no required_headers (only when Headers is empty)
	HeadersEmpty bool `json:"headers_empty,omitempty"`
}

// FindMessage resolves a fully-qualified message name within the request.
func (r *Request) FindMessage(fq string) (*Message, *File) {
	for _, f := range r.Files {
		if m := findMsg(f.Package, f.Messages, fq); m != nil {
			return m, f
		}
	}
	return nil, nil
}

func findMsg(prefix string, ms []*Message, fq string) *Message {
	for _, m := range ms {
		name := m.Name
		if prefix != "" {
			name = prefix + "." + m.Name
		}
		if name == fq {
			return m
		}
		if x := findMsg(name, m.Nested, fq); x != nil {
			return x
		}
	}
	return nil
}

// FindEnum resolves a fully-qualified enum name within the request.
func (r *Request) FindEnum(fq string) *Enum {
	for _, f := range r.Files {
		for _, e := range f.Enums {
			if qual(f.Package, e.Name) == fq {
				return e
			}
		}
		if e := findEnumIn(f.Package, f.Messages, fq); e != nil {
			return e
		}
	}
	return nil
}

func findEnumIn(prefix string, ms []*Message, fq string) *Enum {
	for _, m := range ms {
		name := qual(prefix, m.Name)
		for _, e := range m.Enums {
			if qual(name, e.Name) == fq {
				return e
			}
		}
		if x := findEnumIn(name, m.Nested, fq); x != nil {
			return x
		}
	}
	return nil
}

func qual(prefix, name string) string {
	if prefix == "" {
		return name
	}
	return prefix + "." + name
}
