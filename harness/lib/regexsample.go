package lib

import (
	"regexp"
	"regexp/syntax"
	"strings"
)

// RegexSamples returns strings derived from the pattern's syntax tree: a few that match (verified with
// Go's regexp) and near misses (one character replaced, appended or removed).  Used to build probes
// around pattern rules (C19); the verdicts themselves come from the regex engines, never from here.
func RegexSamples(pattern string) []string {
	re, err := syntax.Parse(pattern, syntax.Perl)
	if err != nil {
		return nil
	}
	var gen func(r *syntax.Regexp, alt int) string
	gen = func(r *syntax.Regexp, alt int) string {
		switch r.Op {
		case syntax.OpLiteral:
			return string(r.Rune)
		case syntax.OpCharClass:
			if len(r.Rune) == 0 {
				return ""
			}
			// prefer a letter or digit inside the class, else the first range's low end
			for _, c := range "atz5AZ_-." {
				for i := 0; i+1 < len(r.Rune); i += 2 {
					if r.Rune[i] <= c && c <= r.Rune[i+1] {
						if alt == 0 || c != 'a' {
							return string(c)
						}
					}
				}
			}
			return string(r.Rune[0])
		case syntax.OpAnyChar, syntax.OpAnyCharNotNL:
			return "x"
		case syntax.OpCapture:
			return gen(r.Sub[0], alt)
		case syntax.OpStar:
			if alt == 0 {
				return ""
			}
			return gen(r.Sub[0], alt) + gen(r.Sub[0], 0)
		case syntax.OpPlus:
			if alt == 0 {
				return gen(r.Sub[0], 0)
			}
			return gen(r.Sub[0], alt) + gen(r.Sub[0], 0)
		case syntax.OpQuest:
			if alt == 0 {
				return ""
			}
			return gen(r.Sub[0], alt)
		case syntax.OpRepeat:
			n := r.Min
			if alt > 0 && (r.Max < 0 || r.Max > r.Min) {
				n++
			}
			return strings.Repeat(gen(r.Sub[0], 0), n)
		case syntax.OpConcat:
			var b strings.Builder
			for _, s := range r.Sub {
				b.WriteString(gen(s, alt))
			}
			return b.String()
		case syntax.OpAlternate:
			return gen(r.Sub[alt%len(r.Sub)], alt)
		}
		return ""
	}
	set := map[string]bool{}
	var out []string
	add := func(s string) {
		if !set[s] && len(s) < 80 {
			set[s] = true
			out = append(out, s)
		}
	}
	rx, err := regexp.Compile(pattern)
	for alt := 0; alt < 3; alt++ {
		s := gen(re, alt)
		add(s)
		if err == nil && rx.MatchString(s) {
			// near misses of a matching sample
			add(s + "x")
			add("x" + s)
			if len(s) > 0 {
				add(s[:len(s)-1])
				for _, c := range []string{"^", "$", "\\", "A", "0"} {
					for i := 0; i < len(s) && i < 6; i++ {
						add(s[:i] + c + s[i+1:])
					}
				}
			}
		}
	}
	return out
}
