package lib

import (
	"bytes"
	"encoding/hex"
	"encoding/json"
	"fmt"
	"math/rand"
	"strings"

	"google.golang.org/protobuf/encoding/protojson"
	"google.golang.org/protobuf/reflect/protoreflect"
	"google.golang.org/protobuf/types/dynamicpb"
)

// ---- catalogue additions for C07 -------------------------------------------------------------------------

const Duration = "google.protobuf.Duration"

// TsTypeCatalogue: schemas aimed at the declaration emitter's branches that FeatureCatalogue does not reach.
func TsTypeCatalogue() []*Request {
	var out []*Request
	q := func(id, t string) string { return id + ".v1." + t }
	// plain oneof with scalar, enum and message members; proto3 optional of every shape; error message at file level
	{
		r := featureReq("t7oneof", []*Enum{E("Mode", "MODE_UNSPECIFIED", "MODE_A")}, []*Message{
			M("Leaf", F("v", 1, "string")),
			M("Choice", F("id", 1, "string"), F("a_text", 2, "string", InOneof("pick")), F("a_num", 3, "int64", InOneof("pick")),
				F("a_mode", 4, "", EnumT(q("t7oneof", "Mode")), InOneof("pick")), F("a_leaf", 5, "", Msg(q("t7oneof", "Leaf")), InOneof("pick")),
				F("o_flag", 6, "bool", Opt()), F("o_leaf", 7, "", Msg(q("t7oneof", "Leaf")), Opt()), F("o_mode", 8, "", EnumT(q("t7oneof", "Mode")), Opt())).WithOneofs(&Oneof{Name: "pick"}),
			M("NotFoundError", F("resource", 1, "string"), F("code", 2, "int32")),
			M("Unused", F("x", 1, "string")),
		}, "Choice")
		r.Tags = append(r.Tags, "plain-oneof")
		out = append(out, r)
	}
	// well-known types other than Timestamp
	{
		r := featureReq("t7wkt", nil, []*Message{
			M("Wk", F("id", 1, "string"), F("ttl", 2, "", Msg(Duration)), F("at", 3, "", Msg(Timestamp))),
		}, "Wk")
		r.Tags = append(r.Tags, "wkt")
		out = append(out, r)
	}
	// the same short name in two packages (second file, other package)
	{
		pkgA, pkgB := "t7pa.v1", "t7pb.v1"
		other := &File{Path: "t7pkg/b.proto", Package: pkgB, GoPackage: "verifgen/t7pkgb;t7pkgb", Generate: false,
			Messages: []*Message{M("Item", F("sku", 1, "string"), F("qty", 2, "int32"))},
			Enums:    []*Enum{E("Kind", "KIND_UNSPECIFIED", "KIND_B")}}
		api := &File{Path: "t7pkg/a.proto", Package: pkgA, GoPackage: "verifgen/t7pkg;t7pkg", Generate: true, Imports: []string{"t7pkg/b.proto"},
			Enums: []*Enum{E("Kind", "KIND_UNSPECIFIED", "KIND_A")},
			Messages: []*Message{M("Item", F("name", 1, "string")),
				M("Both", F("mine", 1, "", Msg(pkgA+".Item")), F("theirs", 2, "", Msg(pkgB+".Item")), F("k1", 3, "", EnumT(pkgA+".Kind")), F("k2", 4, "", EnumT(pkgB+".Kind")))},
			Services: []*Service{Svc("Pk", "/pk", RPC("EchoBoth", pkgA+".Both", pkgA+".Both", "POST", "/both"))}}
		out = append(out, &Request{ID: "t7pkg", Files: []*File{other, api}, Tags: []string{"features", "two-packages", "no-runtime"}})
	}
	// enum with a single value, empty message, deep recursion, map of every key kind, repeated enum NUMBER
	{
		r := featureReq("t7misc", []*Enum{E("One", "ONE_ONLY"), E("Lvl", "LVL_UNSPECIFIED", "LVL_HI")}, []*Message{
			M("Empty"),
			M("Tree", F("label", 1, "string"), F("kids", 2, "", Msg(q("t7misc", "Tree")), Rep()), F("parent", 3, "", Msg(q("t7misc", "Tree")))),
			M("Misc", F("one", 1, "", EnumT(q("t7misc", "One"))), F("e", 2, "", Msg(q("t7misc", "Empty"))), F("tree", 3, "", Msg(q("t7misc", "Tree"))),
				F("by_i32", 4, "string", MapOf("int32")), F("by_u64", 5, "bool", MapOf("uint64")), F("by_bool", 6, "", Msg(q("t7misc", "Empty")), MapOf("bool")),
				F("lvls", 7, "", EnumT(q("t7misc", "Lvl")), Rep(), EnumEnc("NUMBER")), F("lvl_by", 8, "", EnumT(q("t7misc", "Lvl")), MapOf("string")),
				F("times", 9, "", Msg(Timestamp), MapOf("string")), F("blobs", 10, "bytes", Rep())),
		}, "Misc", "Empty")
		out = append(out, r)
	}
	return out
}

func C07Catalogue() []*Request {
	out := FeatureCatalogue()
	out = append(out, TsTypeCatalogue()...)
	out = append(out, TsKindsRequest(), SiblingRequest(), TsHeaderRequest())
	// every annotated construct in every context (child, list element, map value, oneof variant, flatten child, ...)
	for _, r := range CodecCatalogue() {
		if hasTag(r, "contexts") {
			out = append(out, r)
		}
	}
	for _, r := range RouteCatalogue() {
		if r.ID == "rtmulti" || r.ID == "rt1" {
			out = append(out, r)
		}
	}
	return out
}

// jsonForModel maps a decoded JSON value (UseNumber) to the value handed to the Coq model: numbers that
// are not integers become 0 (the model's json has integers only; inhabitation looks at the JSON type).
func jsonForModel(v any) any {
	switch x := v.(type) {
	case json.Number:
		if strings.ContainsAny(x.String(), ".eE") {
			return json.Number("0")
		}
		return x
	case []any:
		out := make([]any, len(x))
		for i := range x {
			out[i] = jsonForModel(x[i])
		}
		return out
	case map[string]any:
		out := make(map[string]any, len(x))
		for k, e := range x {
			out[k] = jsonForModel(e)
		}
		return out
	}
	return v
}

func decodeJSONNumber(b []byte) (any, error) {
	var v any
	dec := json.NewDecoder(bytes.NewReader(b))
	dec.UseNumber()
	if err := dec.Decode(&v); err != nil {
		return nil, err
	}
	return v, nil
}

// ---- classification of inhabitation failures from the case itself (schema + value) ------------------------

type c07Ctx struct {
	req *Request
}

func (c *c07Ctx) hasAnnotation(m *Message, seen map[string]bool) bool {
	if m == nil || seen[m.Name] {
		return false
	}
	seen[m.Name] = true
	for _, o := range m.Oneofs {
		if o.HasConfig && o.Discriminator != "" {
			return true
		}
	}
	for _, f := range m.Fields {
		if f.Unwrap || (f.Int64Encoding != "" && f.Int64Encoding != "UNSPECIFIED" && f.Int64Encoding != "STRING") || (f.EnumEncoding != "" && f.EnumEncoding != "UNSPECIFIED" && f.EnumEncoding != "STRING") ||
			f.Nullable != nil || (f.EmptyBehavior != "" && f.EmptyBehavior != "UNSPECIFIED") || (f.TimestampFormat != "" && f.TimestampFormat != "UNSPECIFIED" && f.TimestampFormat != "RFC3339") ||
			(f.BytesEncoding != "" && f.BytesEncoding != "UNSPECIFIED" && f.BytesEncoding != "BASE64") || f.Flatten != nil {
			return true
		}
		if f.Kind == "enum" {
			if e := c.req.FindEnum(f.TypeName); e != nil {
				for _, v := range e.Values {
					if v.EnumValue != nil {
						return true
					}
				}
			}
		}
		if f.Kind == "message" && f.TypeName != Timestamp {
			sub, _ := c.req.FindMessage(f.TypeName)
			if c.hasAnnotation(sub, seen) {
				return true
			}
		}
	}
	return false
}

// ---- C07 ------------------------------------------------------------------------------------------------------

type c07Inh struct {
	req      *Request
	g        *GenOutput
	fi       int
	family   string // inh-response | inh-request | inh-handler-arg
	msg      string // message full name
	asResult bool
	value    *dynamicpb.Message
	text     []byte // the captured JSON text
	note     string
	tsType   *TsType
	env      *TsEnv
	extra    map[string]any
}

func CheckC07(run *Run) {
	run.Proof = CheckProofs("C07")
	run.Prepare()
	if _, err := TsNodeBin(); err != nil {
		run.Fatal("%v", err)
	}
	reqs := C07Catalogue()
	rng := rand.New(rand.NewSource(run.Seed + 707))
	perMsg := 6
	if run.Tier == "thorough" {
		perMsg = 60
	}
	s := NewSession(run, reqs)
	// runtime only for the packages that can build as one Go package
	var rtReqs []*Request
	for _, r := range reqs {
		skip := false
		for _, t := range r.Tags {
			if t == "no-runtime" {
				skip = true
			}
		}
		if !skip {
			rtReqs = append(rtReqs, r)
		}
	}
	rs := &Session{Run: run, Reqs: rtReqs, ByID: s.ByID}
	for _, r := range rtReqs {
		rs.Gens = append(rs.Gens, s.ByID[r.ID])
	}
	rs.BuildRuntime(false)
	tsFiles, err := WriteTsFiles(run.WorkDir+"/ts", reqs, s.Gens)
	if err != nil {
		run.Fatal("%v", err)
	}
	var defs strings.Builder
	defIdx := map[string]int{}
	for i, r := range reqs {
		defIdx[r.ID] = i
		fmt.Fprintf(&defs, "Definition sc_%d : schema := %s.\n", i, CoqSchema(r))
	}
	imports := "From Sebuf Require Import Text Json Schema Value TsTypes.\n"

	// ---- family: declarations ------------------------------------------------------------------------------
	type declCase struct {
		r    *Request
		fi   int
		env  *TsEnv
		sigs map[string]*TsSig // by TS method name (client)
	}
	var declCases []*declCase
	{
		var ccs []CoqCase
		var results []*CaseResult
		for i, r := range reqs {
			g := s.Gens[i]
			for fi, f := range r.Files {
				if !f.Generate || len(f.Services) == 0 {
					continue
				}
				var ctext, stext string
				for n, c := range g.Results["ts-client"].Files {
					if tsFileFor(map[string]string{n: n}, f, "_client.ts") != "" {
						ctext = c
					}
				}
				for n, c := range g.Results["ts-server"].Files {
					if tsFileFor(map[string]string{n: n}, f, "_server.ts") != "" {
						stext = c
					}
				}
				dc := &declCase{r: r, fi: fi, sigs: map[string]*TsSig{}}
				obs := map[string]any{}
				holds := true
				note := ""
				if ctext == "" || stext == "" {
					holds = false
					note = fmt.Sprintf("client emitted: %v (%s), server emitted: %v (%s)", ctext != "", g.Results["ts-client"].Error, stext != "", firstLine(g.Results["ts-server"].Error))
					obs["error"] = "not-emitted"
				} else {
					cd, err1 := ParseTsDecls(ctext)
					sd, err2 := ParseTsDecls(stext)
					cs, err3 := ParseTsSigs(ctext, true)
					ss, err4 := ParseTsSigs(stext, false)
					if err1 != nil || err2 != nil || err3 != nil || err4 != nil {
						run.Fatal("%s: emitted declarations are outside the parsed dialect: %v %v %v %v", r.ID, err1, err2, err3, err4)
					}
					same := TsMessageSection(ctext) == TsMessageSection(stext) && Diff(Canon(cs), Canon(ss)) == ""
					obs["decls"] = cd
					obs["sigs"] = cs
					obs["same"] = same
					if !same {
						holds = false
						note = "ts-client and ts-server declare the messages differently: " + Diff(Canon(cd), Canon(sd)) + " " + Diff(Canon(cs), Canon(ss))
					}
					dc.env = NewTsEnv(cd)
					for _, sg := range cs {
						dc.sigs[sg.Method] = sg
					}
					for n := range dc.env.Duplicate {
						note += " duplicate type alias " + n
					}
				}
				declCases = append(declCases, dc)
				cr := &CaseResult{ID: fmt.Sprintf("%s/%s:decls", r.ID, f.Path), Family: "decls", Input: map[string]any{"schema": r.ID, "file": f.Path},
					Obs: obs, OracleHolds: holds, OracleNote: strings.TrimSpace(note), NonTrivial: true, Features: append([]string{"decls"}, r.Tags...)}
				results = append(results, cr)
				ccs = append(ccs, CoqCase{Term: fmt.Sprintf("(sc_%d, %d%%nat)", defIdx[r.ID], fi), Obs: obs})
			}
		}
		vs, err := CoqRun(run.WorkDir, "c07decl", imports, defs.String(), "c07_decl_case", "predict_C07_decls", ccs, 8)
		if err != nil {
			run.Fatal("model evaluation (decls): %v", err)
		}
		for i, cr := range results {
			cr.Apply(vs[i])
			run.Results = append(run.Results, cr)
		}
	}
	envFor := func(id string, fi int) *declCase {
		for _, d := range declCases {
			if d.r.ID == id && d.fi == fi {
				return d
			}
		}
		return nil
	}

	// ---- families: wire JSON of responses and requests --------------------------------------------------------
	vg := &ValueGen{Rng: rng}
	var inh []*c07Inh
	type codecJob struct {
		c   *c07Inh
		idx int
	}
	var scen []any
	var jobs []codecJob
	for _, r := range rtReqs {
		g := s.ByID[r.ID]
		if !rs.InRunner[r.ID] {
			run.Notes = append(run.Notes, fmt.Sprintf("%s: emitted Go package does not build (C13's subject): its wire JSON is not captured", r.ID))
			continue
		}
		for fi, f := range r.Files {
			if !f.Generate {
				continue
			}
			dc := envFor(r.ID, fi)
			if dc == nil || dc.env == nil {
				continue
			}
			for _, svc := range f.Services {
				for _, md := range svc.Methods {
					sg := dc.sigs[lowerFirst(GoCamelCase(md.Name))]
					if sg == nil {
						continue
					}
					for k := -1; k < perMsg; k++ {
						for _, side := range []string{"inh-response", "inh-request"} {
							full := md.Out
							if side == "inh-request" {
								full = md.In
							}
							desc := g.Built.MessageDesc(full)
							var m *dynamicpb.Message
							switch {
							case k < 0:
								m = dynamicpb.NewMessage(desc)
							case k == 0:
								m = vg.Random(desc, 1.0)
							default:
								m = vg.Random(desc, 0.6)
							}
							if k%2 == 1 {
								clearFloatsAndTimes(m)
							}
							c := &c07Inh{req: r, g: g, fi: fi, family: side, msg: full, value: m, env: dc.env}
							if side == "inh-response" {
								c.asResult = true
								c.tsType = sg.Result
							} else {
								c.tsType = &TsType{T: "ref", Name: sg.Request}
							}
							jobs = append(jobs, codecJob{c, len(scen)})
							scen = append(scen, map[string]any{"id": fmt.Sprint(len(scen)), "kind": "codec", "pkg": r.ID, "message": full, "op": "marshal", "wire": WireHex(m)})
							inh = append(inh, c)
						}
					}
				}
			}
		}
	}
	rawc, err := RunScenarios(rs.Runner, scen, 8)
	if err != nil {
		run.Fatal("runner: %v", err)
	}
	// request forms are "accepted in contract form" when the server's decoder reads them back
	var scen2 []any
	for _, j := range jobs {
		var o RunnerObs
		if err := json.Unmarshal(rawc[j.idx], &o); err != nil {
			run.Fatal("bad observation: %v", err)
		}
		if o.Error != "" {
			run.Fatal("runner error: %s", o.Error)
		}
		if o.OutErr != "" {
			j.c.note = "marshal failed: " + firstLine(o.OutErr)
			scen2 = append(scen2, map[string]any{"id": "x", "kind": "ids"})
			continue
		}
		j.c.text, _ = hex.DecodeString(o.OutHex)
		j.c.extra = map[string]any{"custom_codec": o.Custom}
		if j.c.family == "inh-request" {
			scen2 = append(scen2, map[string]any{"id": "x", "kind": "codec", "pkg": j.c.req.ID, "message": j.c.msg, "op": "unmarshal", "json": o.OutHex})
		} else {
			scen2 = append(scen2, map[string]any{"id": "x", "kind": "ids"})
		}
	}
	rawc2, err := RunScenarios(rs.Runner, scen2, 8)
	if err != nil {
		run.Fatal("runner: %v", err)
	}
	for i, j := range jobs {
		if j.c.family != "inh-request" || j.c.text == nil {
			continue
		}
		var o RunnerObs
		json.Unmarshal(rawc2[i], &o)
		if o.OutErr != "" {
			j.c.note = "not accepted by the server's own decoder (C04's subject): " + firstLine(o.OutErr)
			j.c.text = nil
		}
	}

	// ---- family: what the TS server hands to a handler ----------------------------------------------------------
	var nodeScen []any
	var argCases []*c07Inh
	for i, r := range reqs {
		if r.ID != "tsk" && r.ID != "rtsib" {
			continue
		}
		g := s.Gens[i]
		f := r.Files[0]
		dc := envFor(r.ID, 0)
		cf := tsFileFor(tsFiles[r.ID], f, "_client.ts")
		sf := tsFileFor(tsFiles[r.ID], f, "_server.ts")
		if dc == nil || dc.env == nil || cf == "" || sf == "" {
			continue
		}
		for _, svc := range f.Services {
			for _, md := range svc.Methods {
				in := g.Built.MessageDesc(md.In)
				inSpec, _ := r.FindMessage(md.In)
				for k := 0; k < 2; k++ {
					m := vg.Random(in, 0.8)
					pathBoundNonEmpty(m, md, rng)
					if md.Verb == "GET" || md.Verb == "DELETE" {
						requiredQueryNonZero(m, inSpec, rng)
					}
					noNegativeZero(m)
					clearPathDots(m, md)
					for _, via := range []string{"ts-client", "go-client-json"} {
						c := &c07Inh{req: r, g: g, fi: 0, family: "inh-handler-arg", msg: md.In, value: m, env: dc.env,
							tsType: &TsType{T: "ref", Name: string(in.Name())}, extra: map[string]any{"via": via, "method": md.Name, "verb": md.Verb, "path": md.Path}}
						arg := TsArg(m)
						if via == "go-client-json" {
							arg = TsArgSparse(m) // the Go client's protojson.Marshal: defaults omitted
						}
						nodeScen = append(nodeScen, map[string]any{"id": fmt.Sprint(len(nodeScen)), "kind": "ts_ts_call", "client_file": cf, "server_file": sf,
							"service": GoCamelCase(svc.Name), "method": lowerFirst(GoCamelCase(md.Name)), "req": arg, "script": map[string]any{"result": map[string]any{}}})
						argCases = append(argCases, c)
					}
				}
			}
		}
	}
	rawn, err := RunNode(nodeScen)
	if err != nil {
		run.Fatal("node: %v", err)
	}
	for i, c := range argCases {
		o, err := decodeNodeObs(rawn[i])
		if err != nil {
			run.Fatal("node observation: %v", err)
		}
		if o.Server == nil || len(o.Server.HandlerCalls) == 0 {
			c.note = "handler not reached"
			continue
		}
		b, _ := json.Marshal(o.Server.HandlerCalls[len(o.Server.HandlerCalls)-1].Req)
		c.text = b
		inh = append(inh, c)
	}

	// ---- evaluate inhabitation on the real declarations; model on the same values ---------------------------------
	{
		var ccs []CoqCase
		var results []*CaseResult
		skipped := 0
		for i, c := range inh {
			if c.text == nil {
				skipped++
				continue
			}
			v, err := decodeJSONNumber(c.text)
			if err != nil {
				run.Fatal("captured JSON does not parse: %v: %s", err, tail(string(c.text), 200))
			}
			ok, why := c.env.Inhabits(c.tsType, v)
			obs := map[string]any{"inhabits": ok}
			valJ, valC := MsgCanon(c.value)
			input := map[string]any{"schema": c.req.ID, "message": c.msg, "as_result": c.asResult, "value": valJ, "json": string(c.text)}
			for k, e := range c.extra {
				input[k] = e
			}
			note := ""
			if !ok {
				note = "not a value of the declared type: " + why
			}
			cr := &CaseResult{ID: fmt.Sprintf("%s/%s:%s#%d", c.req.ID, c.msg, c.family, i), Family: c.family, Input: input,
				Obs: obs, OracleHolds: ok, OracleNote: note, NonTrivial: len(valJ) > 0, Features: append([]string{c.family, "fail:" + TsFailClass(why)}, c.req.Tags...)}
			results = append(results, cr)
			pathFields := "[]"
			if c.family == "inh-handler-arg" {
				var ps []string
				for _, pv := range rePathVar.FindAllStringSubmatch(fmt.Sprint(c.extra["path"]), -1) {
					ps = append(ps, pv[1])
				}
				pathFields = CoqStrList(ps)
			}
			ccs = append(ccs, CoqCase{Term: fmt.Sprintf("(sc_%d, %d%%nat, (%s, %s), %s, %s, %s, %s)", defIdx[c.req.ID], c.fi, CoqBool(c.asResult), CoqStr(c.msg),
				CoqStr(c.family), pathFields, valC, CoqJSON(Canon(jsonForModel(v)))), Obs: obs})
		}
		vs, err := CoqRun(run.WorkDir, "c07inh", imports, defs.String(), "c07_inh_case", "predict_C07_inh", ccs, 16)
		if err != nil {
			run.Fatal("model evaluation (inhabits): %v", err)
		}
		for i, cr := range results {
			cr.Apply(vs[i])
			if cr.Unmodelled != "" && !cr.OracleHolds {
				cr.Tags = z3TagsC07(cr)
			}
			run.Results = append(run.Results, cr)
		}
		if skipped > 0 {
			run.Notes = append(run.Notes, fmt.Sprintf("%d captured values were not usable (marshal failed or the server's own decoder refuses its encoder's output: C04)", skipped))
		}
	}

	// ---- family: proto3-JSON form (the model's local protojson against protojson.Marshal) ---------------------------
	{
		var ccs []CoqCase
		var results []*CaseResult
		for _, r := range reqs {
			if r.ID != "ftplain" && r.ID != "tsk" && r.ID != "t7misc" && r.ID != "t7oneof" {
				continue
			}
			g := s.ByID[r.ID]
			for _, f := range r.Files {
				for _, m := range f.Messages {
					full := qual(f.Package, m.Name)
					desc := g.Built.MessageDesc(full)
					for k := 0; k < perMsg/2+1; k++ {
						v := vg.Random(desc, 0.7)
						if k%3 != 2 {
							clearFloatsAndTimes(v)
						}
						b, err := protojson.Marshal(v)
						if err != nil {
							continue
						}
						jv, _ := decodeJSONNumber(b)
						obs := map[string]any{"json": jv}
						valJ, valC := MsgCanon(v)
						cr := &CaseResult{ID: fmt.Sprintf("%s/%s:pj#%d", r.ID, full, k), Family: "pj", Input: map[string]any{"schema": r.ID, "message": full, "value": valJ},
							Obs: obs, OracleHolds: true, NonTrivial: len(valJ) > 0, Features: []string{"pj"}}
						results = append(results, cr)
						ccs = append(ccs, CoqCase{Term: fmt.Sprintf("(sc_%d, %s, %s)", defIdx[r.ID], CoqStr(full), valC), Obs: obs})
					}
				}
			}
		}
		vs, err := CoqRun(run.WorkDir, "c07pj", imports, defs.String(), "c07_pj_case", "predict_C07_pj", ccs, 8)
		if err != nil {
			run.Fatal("model evaluation (pj): %v", err)
		}
		for i, cr := range results {
			cr.Apply(vs[i])
			run.Results = append(run.Results, cr)
		}
	}
	tsDebugDump(run)
	run.Extra["schemas"] = len(reqs)
	run.Notes = append(run.Notes,
		"no TypeScript compiler is available: the declared types are read by the harness's parser for the emitted declaration dialect and inhabitation is decided structurally (required present, declared type respected, excess property = failure)",
		"wire JSON of a Go server response = output of the emitted type's own JSON encoder (json.Marshaler if the plugin emitted one, protojson otherwise), the dispatch marshalResponse uses")
	run.Finish()
}

func clearFloatsAndTimes(m protoreflect.Message) {
	m.Range(func(fd protoreflect.FieldDescriptor, v protoreflect.Value) bool {
		k := fd.Kind()
		if fd.IsMap() {
			k = fd.MapValue().Kind()
		}
		switch {
		case k == protoreflect.FloatKind || k == protoreflect.DoubleKind:
			m.Clear(fd)
		case k == protoreflect.MessageKind:
			var md protoreflect.MessageDescriptor
			if fd.IsMap() {
				md = fd.MapValue().Message()
			} else {
				md = fd.Message()
			}
			if md.FullName() == "google.protobuf.Timestamp" || md.FullName() == "google.protobuf.Duration" {
				m.Clear(fd)
				return true
			}
			switch {
			case fd.IsMap():
				v.Map().Range(func(_ protoreflect.MapKey, mv protoreflect.Value) bool { clearFloatsAndTimes(mv.Message()); return true })
			case fd.IsList():
				for i := 0; i < v.List().Len(); i++ {
					clearFloatsAndTimes(v.List().Get(i).Message())
				}
			default:
				clearFloatsAndTimes(v.Message())
			}
		}
		return true
	})
}

// clearPathDots replaces "." / ".." / "/" path values (C08's subject) by a plain token.
func clearPathDots(m *dynamicpb.Message, md *Method) {
	for _, pv := range rePathVar.FindAllStringSubmatch(md.Path, -1) {
		fd := m.Descriptor().Fields().ByName(protoreflect.Name(pv[1]))
		if fd == nil || fd.Kind() != protoreflect.StringKind || fd.IsList() {
			continue
		}
		switch m.Get(fd).String() {
		case ".", "..", "/":
			m.Set(fd, protoreflect.ValueOfString("tok"))
		}
	}
}

// z3TagsC07: failures on schemas the declaration model does not cover (well-known types other than Timestamp).
func z3TagsC07(cr *CaseResult) []string {
	tags := []string{}
	in, _ := cr.Input.(map[string]any)
	if id, _ := in["schema"].(string); id == "t7wkt" {
		if strings.Contains(cr.OracleNote, "ttl") {
			tags = append(tags, "z3:wkt-declared-as-message")
		}
		if strings.Contains(cr.OracleNote, "required property missing") {
			tags = append(tags, "implicit-presence-omitted")
		}
	}
	return tags
}
