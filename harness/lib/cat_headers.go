package lib

import "fmt"

// Catalogues for C09 (header gate) and C10 (error surface).

// HdrCombo is one (type, format) declaration shape of the header catalogue.
type HdrCombo struct{ Type, Format string }

// HeaderCombos: every declared type with no format, every format on string/unset, and two
// combinations where the format sits on a non-string type (the Go validator ignores it there).
var HeaderCombos = []HdrCombo{
	{"string", ""}, {"integer", ""}, {"number", ""}, {"boolean", ""}, {"array", ""}, {"", ""},
	{"string", "uuid"}, {"string", "email"}, {"string", "date-time"}, {"string", "date"}, {"string", "time"},
	{"", "uuid"}, {"", "email"}, {"", "date-time"}, {"", "date"}, {"", "time"},
	{"integer", "date"}, {"array", "uuid"},
}

// HeaderCatalogue: one package (client + server; before e425100 the Go client did not compile when one
// header name was declared more than once: duplicate helper function) with three services.
//
//	Types : no service headers; method T<i> requires X-Val of HeaderCombos[i]
//	Merge : service headers X-Tenant (required uuid), X-Opt (optional integer), X-Both (required integer);
//	        methods exercise override / optional override / case variants / duplicates / GET
//	Multi : one service header and three method headers (several offenders at once)
func HeaderCatalogue() *Request {
	id := "rthdr"
	pkg := "rthdr.v1"
	f := &File{Messages: []*Message{
		M("Req", F("note", 1, "string")),
		M("Resp", F("ok", 1, "bool")),
	}}
	types := Svc("Types", "/t")
	for i, c := range HeaderCombos {
		types.Methods = append(types.Methods, RPC(fmt.Sprintf("T%d", i), pkg+".Req", pkg+".Resp", "POST", fmt.Sprintf("/m%d", i)).
			WithHeaders(&Header{Name: "X-Val", Type: c.Type, Format: c.Format, Required: true}))
	}
	merge := Svc("Merge", "/g",
		RPC("Plain", pkg+".Req", pkg+".Resp", "POST", "/plain"),
		RPC("Override", pkg+".Req", pkg+".Resp", "POST", "/override").
			WithHeaders(&Header{Name: "X-Both", Type: "string", Format: "date", Required: true}),
		RPC("OverrideOptional", pkg+".Req", pkg+".Resp", "POST", "/overrideopt").
			WithHeaders(&Header{Name: "X-Both", Type: "string", Required: false}),
		RPC("CaseVariant", pkg+".Req", pkg+".Resp", "PUT", "/casevariant").
			WithHeaders(&Header{Name: "x-both", Type: "boolean", Required: true}),
		RPC("Extra", pkg+".Req", pkg+".Resp", "PATCH", "/extra").
			WithHeaders(&Header{Name: "X-Extra", Type: "number", Required: true}, &Header{Name: "X-Tenant", Type: "string", Format: "email", Required: true}),
		RPC("OptionalOnly", pkg+".Req", pkg+".Resp", "POST", "/optonly").
			WithHeaders(&Header{Name: "X-Free", Type: "integer", Required: false}, &Header{Name: "X-Opt", Type: "boolean", Required: true}),
		RPC("DupInMethod", pkg+".Req", pkg+".Resp", "POST", "/dup").
			WithHeaders(&Header{Name: "X-D", Type: "integer", Required: true}, &Header{Name: "x-d", Type: "boolean", Required: true}),
		RPC("GetPlain", pkg+".Req", pkg+".Resp", "GET", "/get/{note}"),
		RPC("DelOverride", pkg+".Req", pkg+".Resp", "DELETE", "/del/{note}").
			WithHeaders(&Header{Name: "X-TENANT", Type: "string", Format: "time", Required: true}),
	).WithHeaders(
		&Header{Name: "X-Tenant", Type: "string", Format: "uuid", Required: true},
		&Header{Name: "X-Opt", Type: "integer", Required: false},
		&Header{Name: "X-Both", Type: "integer", Required: true},
	)
	multi := Svc("Multi", "/u",
		RPC("Three", pkg+".Req", pkg+".Resp", "POST", "/three").
			WithHeaders(&Header{Name: "X-A", Type: "integer", Required: true}, &Header{Name: "X-B", Type: "string", Format: "date", Required: true},
				&Header{Name: "X-C", Type: "boolean", Required: true}),
	).WithHeaders(&Header{Name: "X-S", Type: "string", Format: "email", Required: true})
	// header names that HTTP itself gives a meaning to (the servers enforce them like any other declared header)
	named := Svc("Named", "/n",
		RPC("Acc", pkg+".Req", pkg+".Resp", "POST", "/acc").WithHeaders(&Header{Name: "Accept", Type: "string", Required: true}),
		RPC("Cook", pkg+".Req", pkg+".Resp", "POST", "/cook").WithHeaders(&Header{Name: "Cookie", Type: "string", Required: true}, &Header{Name: "If-Match", Type: "string", Required: true}),
		RPC("Lower", pkg+".Req", pkg+".Resp", "POST", "/lower").WithHeaders(&Header{Name: "accept-language", Type: "string", Required: true}),
	).WithHeaders(&Header{Name: "Authorization", Type: "string", Required: true})
	f.Services = []*Service{types, merge, multi, named}
	r := OneFile(id, pkg, f)
	// not "server-only": since e425100 the Go client emits each header helper once and compiles
	r.Tags = []string{"runtime", "headers"}
	return r
}

// ErrorCatalogue: client + server package for C10 with messages named *Error (the server emits
// Error() for them), one of them carrying a JSON-mapping annotation, nested / repeated / map fields
// for scripted rule-violation paths, a required query parameter and a required header.
func ErrorCatalogue() *Request {
	id := "rterr"
	pkg := "rterr.v1"
	f := &File{Messages: []*Message{
		M("Inner", F("a", 1, "string"), F("n", 2, "int32")),
		M("CreateReq", F("name", 1, "string"), F("inner", 2, "", Msg(pkg+".Inner")), F("items", 3, "", Msg(pkg+".Inner"), Rep()),
			F("by_key", 4, "", Msg(pkg+".Inner"), MapOf("string")), F("count", 5, "int32")),
		M("GetReq", F("id", 1, "string"), F("limit", 2, "int32", Query("limit", false)), F("mode", 3, "string", Query("mode", true))),
		M("UpdReq", F("id", 1, "string"), F("limit", 2, "int32", Query("limit", false)), F("name", 3, "string")),
		M("Resp", F("ok", 1, "bool"), F("echo", 2, "string")),
		M("NotFoundError", F("resource_type", 1, "string"), F("resource_id", 2, "string"), F("code", 3, "int32")),
		M("QuotaError", F("limit", 1, "int64", I64("NUMBER")), F("reason", 2, "string")),
		M("CodeFirstError", F("code", 1, "int32"), F("detail", 2, "string")),
	}}
	f.Services = []*Service{Svc("Errs", "/e",
		RPC("Create", pkg+".CreateReq", pkg+".Resp", "POST", "/items"),
		RPC("Get", pkg+".GetReq", pkg+".Resp", "GET", "/items/{id}"),
		RPC("Guarded", pkg+".CreateReq", pkg+".Resp", "POST", "/guarded").
			WithHeaders(&Header{Name: "X-Token", Type: "integer", Required: true}),
		// every stage of the binding middleware can fail on this one: header, body, path/query value, rule
		RPC("Update", pkg+".UpdReq", pkg+".Resp", "PUT", "/things/{id}").
			WithHeaders(&Header{Name: "X-Upd", Type: "integer", Required: true}),
	)}
	r := OneFile(id, pkg, f)
	r.Tags = []string{"runtime", "errors"}
	return r
}

// ---- C17: per-route configuration isolation and client history -----------------------------------------

// RouteIsolationCatalogue: one server-only package whose services are the product of
//
//	service-header lists : none | required | optional | required+optional | optional+required |
//	                       optional+optional | required+required
//	                       (an optional service header is configuration the gate filters out: a list with
//	                       spare room next to the required ones)
//	method sets (2-4 routes): routes with one / two required headers of their own, with optional ones only,
//	                       with none; siblings that declare the SAME name with another type or another
//	                       requiredness; a route overriding a service header
//
// Method names are unique in the package (the server plugin emits get<Method>Headers per package).
// Every route has its own verb/path. What a route demands follows from its service's and its own
// declaration alone; C17 calls every route with its own headers, with each sibling's, with none.
func RouteIsolationCatalogue() *Request {
	id := "rtiso"
	pkg := "rtiso.v1"
	f := &File{Messages: []*Message{
		M("Req", F("note", 1, "string")),
		M("Resp", F("ok", 1, "bool")),
	}}
	req := func(n, ty, format string) *Header { return &Header{Name: n, Type: ty, Format: format, Required: true} }
	opt := func(n, ty, format string) *Header { return &Header{Name: n, Type: ty, Format: format, Required: false} }
	svcHeaders := [][]*Header{
		nil,
		{req("X-S0", "string", "")},
		{opt("X-S0", "integer", "")},
		{req("X-S0", "string", "uuid"), opt("X-S1", "integer", "")},
		{opt("X-S0", "boolean", ""), req("X-S1", "integer", "")},
		{opt("X-S0", "integer", ""), opt("X-S1", "string", "")},
		{req("X-S0", "string", ""), req("X-S1", "integer", "")},
	}
	methodSets := [][][]*Header{
		// four routes; A and D declare X-A with different types
		{{req("X-A", "integer", "")}, {req("X-B", "string", "date")}, nil, {req("X-A", "boolean", ""), req("X-D", "string", "")}},
		// three routes; optional declarations next to required ones; B declares optionally what A requires
		{{req("X-A", "string", "uuid"), opt("X-N", "integer", "")}, {opt("X-A", "boolean", "")}, {req("X-C", "number", "")}},
		// two routes with two required headers each
		{{req("X-A", "integer", ""), req("X-B", "boolean", "")}, {req("X-C", "string", "email"), req("X-D", "integer", "")}},
		// three routes; the first overrides the service's X-S0 (where there is one) with another type
		{{req("X-S0", "integer", "")}, {req("X-B", "string", "")}, nil},
	}
	verbs := []string{"POST", "GET", "PUT", "DELETE"}
	for si, sh := range svcHeaders {
		for mi, set := range methodSets {
			svc := Svc(fmt.Sprintf("S%dM%d", si, mi), fmt.Sprintf("/s%dm%d", si, mi))
			for j, mh := range set {
				verb := verbs[(si+mi+j)%len(verbs)]
				path := fmt.Sprintf("/r%d", j)
				if verb == "GET" || verb == "DELETE" {
					path += "/{note}"
				}
				svc.Methods = append(svc.Methods, RPC(fmt.Sprintf("S%dM%dR%d", si, mi, j), pkg+".Req", pkg+".Resp", verb, path).WithHeaders(mh...))
			}
			svc.WithHeaders(sh...)
			f.Services = append(f.Services, svc)
		}
	}
	// routes over SHARED request messages (family "shared-message", c17_families.go): services named Sh*
	f.Messages = append(f.Messages, SharedMessageMessages(pkg)...)
	f.Services = append(f.Services, SharedMessageServices(pkg)...)
	r := OneFile(id, pkg, f)
	r.Tags = []string{"runtime", "headers", "server-only"}
	return r
}

// SharedMessageMessages / SharedMessageServices: RPCs that take the SAME request message with different
// path-variable sets, verbs and (for GET/DELETE, where every field must be URL-bound) query parameters:
//
//	Item (project_id, id, name, tag?query)     ShItems : POST /projects/{project_id}/items        {project_id}
//	                                                     PUT  /projects/{project_id}/items/{id}   {project_id,id}
//	                                                     PATCH /items/{id}                        {id}
//	                                                     PUT  /swap/{id}/{project_id}             {id,project_id} (same set, other order)
//	                                                     POST /touch                              {}
//	                                           ShAdmin : POST /import/{id}/{name}                 {id,name}  (another SERVICE, same message)
//	Ref  (org, id, rev!query int32, q?query)   ShRefs  : GET  /orgs/{org}/refs/{id}               {org,id}
//	                                                     DELETE /orgs/{org}/refs/{id}             {org,id}
//	                                                     PUT  /refs/{id}                          {id}
//	                                                     POST /orgs/{org}/move                    {org}
//	                                                     PATCH /refs                              {}
//
// What a route binds follows from its own template; the family calls 2-3 routes of one message in every
// order, each order in a process of its own.
func SharedMessageMessages(pkg string) []*Message {
	return []*Message{
		M("Item", F("project_id", 1, "string"), F("id", 2, "string"), F("name", 3, "string"), F("tag", 4, "string", Query("tag", false))),
		M("Ref", F("org", 1, "string"), F("id", 2, "string"), F("rev", 3, "int32", Query("rev", true)), F("q", 4, "string", Query("q", false))),
	}
}

func SharedMessageServices(pkg string) []*Service {
	item, ref, resp := pkg+".Item", pkg+".Ref", pkg+".Resp"
	return []*Service{
		Svc("ShItems", "/shi",
			RPC("ShCreateItem", item, resp, "POST", "/projects/{project_id}/items"),
			RPC("ShUpdateItem", item, resp, "PUT", "/projects/{project_id}/items/{id}"),
			RPC("ShRenameItem", item, resp, "PATCH", "/items/{id}"),
			RPC("ShSwapItem", item, resp, "PUT", "/swap/{id}/{project_id}"),
			RPC("ShTouchItem", item, resp, "POST", "/touch"),
		),
		Svc("ShAdmin", "/sha",
			RPC("ShImportItem", item, resp, "POST", "/import/{id}/{name}"),
		),
		Svc("ShRefs", "/shr",
			RPC("ShGetRef", ref, resp, "GET", "/orgs/{org}/refs/{id}"),
			RPC("ShDropRef", ref, resp, "DELETE", "/orgs/{org}/refs/{id}"),
			RPC("ShPutRef", ref, resp, "PUT", "/refs/{id}"),
			RPC("ShMoveRef", ref, resp, "POST", "/orgs/{org}/move"),
			RPC("ShPatchRef", ref, resp, "PATCH", "/refs"),
		),
	}
}

// ClientHistoryCatalogue: client + server package for the call-sequence family of C17. Body routes carry
// a Timestamp (a value outside 0001..9999 cannot be marshalled to JSON: the call fails before anything
// is sent), GET/DELETE routes a path variable or a query parameter; the services declare optional
// headers only (so that typed per-call helper options exist and no request is refused for a header).
func ClientHistoryCatalogue() *Request {
	id := "rtseq"
	pkg := "rtseq.v1"
	f := &File{Messages: []*Message{
		M("CreateReq", F("text", 1, "string"), F("at", 2, "", Msg(Timestamp)), F("labels", 3, "string", Rep())),
		M("ListReq", F("tag", 1, "string", Query("tag", false))),
		M("GetReq", F("id", 1, "string")),
		M("UpdReq", F("id", 1, "string"), F("text", 2, "string"), F("at", 3, "", Msg(Timestamp))),
		M("Note", F("id", 1, "string"), F("text", 2, "string")),
		M("NoteList", F("ids", 1, "string", Rep())),
	}}
	notes := Svc("Notes", "/api",
		RPC("Create", pkg+".CreateReq", pkg+".Note", "POST", "/notes").WithHeaders(&Header{Name: "X-Idem", Type: "string", Required: false}),
		RPC("List", pkg+".ListReq", pkg+".NoteList", "GET", "/notes"),
		RPC("Get", pkg+".GetReq", pkg+".Note", "GET", "/notes/{id}"),
		RPC("Update", pkg+".UpdReq", pkg+".Note", "PUT", "/notes/{id}"),
		RPC("Patch", pkg+".UpdReq", pkg+".Note", "PATCH", "/notes/{id}"),
		RPC("Delete", pkg+".GetReq", pkg+".Note", "DELETE", "/notes/{id}"),
	).WithHeaders(&Header{Name: "X-Trace", Type: "string", Required: false})
	audit := Svc("Audit", "/audit",
		RPC("Log", pkg+".CreateReq", pkg+".Note", "POST", "/log"),
		RPC("Tail", pkg+".ListReq", pkg+".NoteList", "GET", "/tail"),
	)
	f.Services = []*Service{notes, audit}
	r := OneFile(id, pkg, f)
	r.Tags = []string{"runtime", "headers"}
	return r
}
