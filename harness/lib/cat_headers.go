package lib

import "fmt"

// Catalogues for C09 (header gate) and C10 (error surface).

// HdrCombo is one (type, format) declaration shape of the header catalogue.
type HdrCombo struct{ Type, Format string }

// HeaderCombos: every declared type with no format, every format on string/unset, and two
// combinations where the format sits on a non-string type (the Go validator ignores it there).
var HeaderCombos = []HdrCombo{
	{"string", ""}, {"integer", ""}, {"number", ""}, {"boolean", ""}, {"array", ""}, {"", ""},
	{"string", "uuid"}, {"string", "email"}, {"string", "date-time"}, {"string", "date"}, {"string", "time"},
	{"", "uuid"}, {"", "email"}, {"", "date-time"}, {"", "date"}, {"", "time"},
	{"integer", "date"}, {"array", "uuid"},
}

// HeaderCatalogue: one package (client + server; before e425100 the Go client did not compile when one
// header name was declared more than once: duplicate helper function) with three services.
//
//	Types : no service headers; method T<i> requires X-Val of HeaderCombos[i]
//	Merge : service headers X-Tenant (required uuid), X-Opt (optional integer), X-Both (required integer);
//	        methods exercise override / optional override / case variants / duplicates / GET
//	Multi : one service header and three method headers (several offenders at once)
func HeaderCatalogue() *Request {
	id := "rthdr"
	pkg := "rthdr.v1"
	f := &File{Messages: []*Message{
		M("Req", F("note", 1, "string")),
		M("Resp", F("ok", 1, "bool")),
	}}
	types := Svc("Types", "/t")
	for i, c := range HeaderCombos {
		types.Methods = append(types.Methods, RPC(fmt.Sprintf("T%d", i), pkg+".Req", pkg+".Resp", "POST", fmt.Sprintf("/m%d", i)).
			WithHeaders(&Header{Name: "X-Val", Type: c.Type, Format: c.Format, Required: true}))
	}
	merge := Svc("Merge", "/g",
		RPC("Plain", pkg+".Req", pkg+".Resp", "POST", "/plain"),
		RPC("Override", pkg+".Req", pkg+".Resp", "POST", "/override").
			WithHeaders(&Header{Name: "X-Both", Type: "string", Format: "date", Required: true}),
		RPC("OverrideOptional", pkg+".Req", pkg+".Resp", "POST", "/overrideopt").
			WithHeaders(&Header{Name: "X-Both", Type: "string", Required: false}),
		RPC("CaseVariant", pkg+".Req", pkg+".Resp", "PUT", "/casevariant").
			WithHeaders(&Header{Name: "x-both", Type: "boolean", Required: true}),
		RPC("Extra", pkg+".Req", pkg+".Resp", "PATCH", "/extra").
			WithHeaders(&Header{Name: "X-Extra", Type: "number", Required: true}, &Header{Name: "X-Tenant", Type: "string", Format: "email", Required: true}),
		RPC("OptionalOnly", pkg+".Req", pkg+".Resp", "POST", "/optonly").
			WithHeaders(&Header{Name: "X-Free", Type: "integer", Required: false}, &Header{Name: "X-Opt", Type: "boolean", Required: true}),
		RPC("DupInMethod", pkg+".Req", pkg+".Resp", "POST", "/dup").
			WithHeaders(&Header{Name: "X-D", Type: "integer", Required: true}, &Header{Name: "x-d", Type: "boolean", Required: true}),
		RPC("GetPlain", pkg+".Req", pkg+".Resp", "GET", "/get/{note}"),
		RPC("DelOverride", pkg+".Req", pkg+".Resp", "DELETE", "/del/{note}").
			WithHeaders(&Header{Name: "X-TENANT", Type: "string", Format: "time", Required: true}),
	).WithHeaders(
		&Header{Name: "X-Tenant", Type: "string", Format: "uuid", Required: true},
		&Header{Name: "X-Opt", Type: "integer", Required: false},
		&Header{Name: "X-Both", Type: "integer", Required: true},
	)
	multi := Svc("Multi", "/u",
		RPC("Three", pkg+".Req", pkg+".Resp", "POST", "/three").
			WithHeaders(&Header{Name: "X-A", Type: "integer", Required: true}, &Header{Name: "X-B", Type: "string", Format: "date", Required: true},
				&Header{Name: "X-C", Type: "boolean", Required: true}),
	).WithHeaders(&Header{Name: "X-S", Type: "string", Format: "email", Required: true})
	f.Services = []*Service{types, merge, multi}
	r := OneFile(id, pkg, f)
	// not "server-only": since e425100 the Go client emits each header helper once and compiles
	r.Tags = []string{"runtime", "headers"}
	return r
}

// ErrorCatalogue: client + server package for C10 with messages named *Error (the server emits
// Error() for them), one of them carrying a JSON-mapping annotation, nested / repeated / map fields
// for scripted rule-violation paths, a required query parameter and a required header.
func ErrorCatalogue() *Request {
	id := "rterr"
	pkg := "rterr.v1"
	f := &File{Messages: []*Message{
		M("Inner", F("a", 1, "string"), F("n", 2, "int32")),
		M("CreateReq", F("name", 1, "string"), F("inner", 2, "", Msg(pkg+".Inner")), F("items", 3, "", Msg(pkg+".Inner"), Rep()),
			F("by_key", 4, "", Msg(pkg+".Inner"), MapOf("string")), F("count", 5, "int32")),
		M("GetReq", F("id", 1, "string"), F("limit", 2, "int32", Query("limit", false)), F("mode", 3, "string", Query("mode", true))),
		M("UpdReq", F("id", 1, "string"), F("limit", 2, "int32", Query("limit", false)), F("name", 3, "string")),
		M("Resp", F("ok", 1, "bool"), F("echo", 2, "string")),
		M("NotFoundError", F("resource_type", 1, "string"), F("resource_id", 2, "string"), F("code", 3, "int32")),
		M("QuotaError", F("limit", 1, "int64", I64("NUMBER")), F("reason", 2, "string")),
		M("CodeFirstError", F("code", 1, "int32"), F("detail", 2, "string")),
	}}
	f.Services = []*Service{Svc("Errs", "/e",
		RPC("Create", pkg+".CreateReq", pkg+".Resp", "POST", "/items"),
		RPC("Get", pkg+".GetReq", pkg+".Resp", "GET", "/items/{id}"),
		RPC("Guarded", pkg+".CreateReq", pkg+".Resp", "POST", "/guarded").
			WithHeaders(&Header{Name: "X-Token", Type: "integer", Required: true}),
		// every stage of the binding middleware can fail on this one: header, body, path/query value, rule
		RPC("Update", pkg+".UpdReq", pkg+".Resp", "PUT", "/things/{id}").
			WithHeaders(&Header{Name: "X-Upd", Type: "integer", Required: true}),
	)}
	r := OneFile(id, pkg, f)
	r.Tags = []string{"runtime", "errors"}
	return r
}
