package lib

import (
	"encoding/json"
	"fmt"
	"math/rand"
	"os"
	"path/filepath"
	"strings"
	"sync"
	"time"

	"google.golang.org/protobuf/reflect/protodesc"
	"google.golang.org/protobuf/reflect/protoregistry"
	"google.golang.org/protobuf/types/descriptorpb"
)

// c12.go — C12 "Misused annotations stop generation; valid definitions are never refused".
//
// Implementation side: every case of the rule × placement × surrounding-content catalogue (plus the
// valid corpora) is turned into descriptors and given to the five plugins built from the working
// tree; per plugin we record accepted / refused, and for the two Go plugins the class of the error
// (by the annotation keyword every message of that class contains), whether the text names the
// offender, and whether files came back with the error.
// Model side: coq/theories/Validate.v evaluated in Coq on the same schema term.
// Oracle (implementation observables + the case's declared intent only): a rule-breaking definition
// is refused by go-http (and by go-client for the rules it implements) with the offender named and
// no files; a definition that breaks no rule is accepted by all five plugins.

// c12Family maps an error text of a Go plugin to the validator family that produced it.
func c12Family(e string) string {
	switch {
	case strings.HasPrefix(e, "validation error:"):
		return "http"
	case strings.Contains(e, "invalid unwrap annotation"):
		return "unwrap"
	case strings.HasPrefix(e, "enum annotation validation failed"):
		return "enum"
	case strings.Contains(e, "invalid nullable annotation"):
		return "nullable"
	case strings.Contains(e, "invalid empty_behavior annotation"):
		return "empty_behavior"
	case strings.Contains(e, "invalid timestamp_format annotation"):
		return "timestamp_format"
	case strings.Contains(e, "invalid bytes_encoding annotation"):
		return "bytes_encoding"
	case strings.HasPrefix(e, "oneof ") || strings.Contains(e, "oneof_config requires"):
		return "oneof"
	case strings.Contains(e, "flatten"):
		return "flatten"
	}
	return "other"
}

// ModelOrder returns a copy of the request whose files are in the order the plugins see them
// (CodeGeneratorRequest.proto_file order: dependencies first).
func ModelOrder(r *Request, b *Built) *Request {
	byPath := map[string]*File{}
	for _, f := range r.Files {
		byPath[f.Path] = f
	}
	cp := *r
	cp.Files = nil
	for _, fdp := range b.All {
		if f, ok := byPath[fdp.GetName()]; ok {
			cp.Files = append(cp.Files, f)
		}
	}
	return &cp
}

func c12PluginObs(x *PluginResult, offs []C12Offender, goPlugin bool) map[string]any {
	o := map[string]any{}
	switch x.Exit {
	case "ok":
		o["refused"] = false
		return o
	case "error-response":
		o["refused"] = true
	default:
		o["refused"] = "no-answer:" + x.Exit
		return o
	}
	if !goPlugin {
		return o
	}
	o["family"] = c12Family(x.Error)
	nw, ni := false, false
	for _, f := range offs {
		if f.Msg != "" && strings.Contains(x.Error, f.Msg) {
			nw = true
		}
		if f.Item != "" && strings.Contains(x.Error, f.Item) {
			ni = true
		}
	}
	o["names_where"], o["names_item"] = nw, ni
	o["partial_output"] = len(x.Names) > 0
	return o
}

// DumpResults writes all case results to $VERIF_DUMP_CASES (debugging aid).
func DumpResults(run *Run) {
	if p := os.Getenv("VERIF_DUMP_CASES"); p != "" {
		b, _ := json.MarshalIndent(run.Results, "", " ")
		os.WriteFile(p, b, 0o644)
	}
}

// c12Gen runs the five sebuf plugins (not protoc-gen-go, whose output C12 does not look at) on every request.
func c12Gen(binDir string, reqs []*Request, orders [][]C12NestedOrder) []*GenOutput {
	out := make([]*GenOutput, len(reqs))
	var wg sync.WaitGroup
	sem := make(chan struct{}, 12)
	for i, r := range reqs {
		wg.Add(1)
		go func(i int, r *Request) {
			defer wg.Done()
			sem <- struct{}{}
			defer func() { <-sem }()
			g := &GenOutput{Req: r, Results: map[string]*PluginResult{}}
			out[i] = g
			b, err := BuildDescriptors(r)
			if err != nil {
				g.BuildErr = err.Error()
				return
			}
			g.Built = b
			if i < len(orders) && len(orders[i]) > 0 {
				if err := c12ApplyNestedOrder(b, orders[i]); err != nil {
					g.BuildErr = err.Error()
					return
				}
			}
			tg := ToGenerate(r)
			for _, p := range Plugins {
				param := ""
				if p == "go-http" || p == "go-client" {
					param = "paths=source_relative"
				}
				g.Results[p] = RunPlugin(filepath.Join(binDir, "protoc-gen-"+p), p, MakeCGR(b.All, tg, param), 20*time.Second, 4096)
			}
		}(i, r)
	}
	wg.Wait()
	return out
}

// c12ApplyNestedOrder reorders nested_type of the named messages in the built FileDescriptorProtos (the
// plugins see b.All; the resolved registry is not used by C12) and checks that the result is still a
// valid descriptor set.
func c12ApplyNestedOrder(b *Built, orders []C12NestedOrder) error {
	var find func(prefix string, ms []*descriptorpb.DescriptorProto, fq string) *descriptorpb.DescriptorProto
	find = func(prefix string, ms []*descriptorpb.DescriptorProto, fq string) *descriptorpb.DescriptorProto {
		for _, m := range ms {
			name := qual(prefix, m.GetName())
			if name == fq {
				return m
			}
			if x := find(name, m.NestedType, fq); x != nil {
				return x
			}
		}
		return nil
	}
	for _, o := range orders {
		var md *descriptorpb.DescriptorProto
		for _, f := range b.All {
			if md = find(f.GetPackage(), f.MessageType, o.Msg); md != nil {
				break
			}
		}
		if md == nil {
			return fmt.Errorf("nested order: no message %s", o.Msg)
		}
		var sorted []*descriptorpb.DescriptorProto
		used := map[*descriptorpb.DescriptorProto]bool{}
		for _, n := range o.Order {
			hit := false
			for _, nt := range md.NestedType {
				if nt.GetName() == n && !used[nt] {
					sorted = append(sorted, nt)
					used[nt] = true
					hit = true
					break
				}
			}
			if !hit {
				return fmt.Errorf("nested order: %s has no nested type %s", o.Msg, n)
			}
		}
		for _, nt := range md.NestedType {
			if !used[nt] {
				sorted = append(sorted, nt)
			}
		}
		md.NestedType = sorted
	}
	// the reordered set must still resolve
	reg := &protoregistry.Files{}
	for _, f := range b.All {
		fd, err := protodesc.NewFile(f, reg)
		if err != nil {
			return fmt.Errorf("nested order: %v", err)
		}
		if err := reg.RegisterFile(fd); err != nil {
			return fmt.Errorf("nested order: %v", err)
		}
	}
	return nil
}

func CheckC12(run *Run) {
	run.Proof = CheckProofs("C12")
	run.Prepare()
	rng := rand.New(rand.NewSource(run.Seed + 1212))
	cases := C12Catalogue(rng, run.Tier)
	cases = append(cases, C12MapOrderCatalogue(run.Tier)...)
	// the valid corpora of the other checks: every plugin must accept them
	var corpus []*Request
	corpus = append(corpus, FeatureCatalogue()...)
	corpus = append(corpus, RuntimeCatalogue()...)
	corpus = append(corpus, RouteCatalogue()...)
	nrr := 6
	if run.Tier == "thorough" {
		nrr = 120
	}
	corpus = append(corpus, RandomRouteRequests(rng, nrr)...)
	for _, r := range corpus {
		cases = append(cases, &C12Case{Req: r, Family: "valid-corpus", Placement: "-", Surround: "-", Note: r.ID})
	}
	reqs := make([]*Request, len(cases))
	orders := make([][]C12NestedOrder, len(cases))
	for i, c := range cases {
		reqs[i] = c.Req
		orders[i] = c.NestedOrder
	}
	gens := c12Gen(run.BinDir, reqs, orders)
	var ccs []CoqCase
	var crs []*CaseResult
	for i, c := range cases {
		g := gens[i]
		if g.BuildErr != "" {
			run.Fatal("descriptor build failed for %s (%s %s): %s", c.Req.ID, c.Rule, c.Placement, g.BuildErr)
		}
		obs := map[string]any{}
		for _, p := range Plugins {
			obs[p] = c12PluginObs(g.Results[p], c.Offenders, p == "go-http" || p == "go-client")
		}
		// ---- oracle ----
		holds, notes := true, []string{}
		refusedWell := func(p string) bool {
			x := g.Results[p]
			if x.Exit != "error-response" {
				notes = append(notes, fmt.Sprintf("%s accepts a definition that breaks rule %q (%s placement)", p, c.Rule, c.Placement))
				return false
			}
			ok := true
			if len(x.Names) > 0 {
				notes = append(notes, p+" answers with an error AND files")
				ok = false
			}
			named := false
			for _, f := range c.Offenders {
				if strings.Contains(x.Error, f.Item) {
					named = true
				}
			}
			if !named {
				notes = append(notes, p+" refuses without naming the offender: "+firstLine(x.Error))
				ok = false
			}
			return ok
		}
		if c.Rule != "" {
			if !refusedWell("go-http") {
				holds = false
			}
			if c.ClientRule && !refusedWell("go-client") {
				holds = false
			}
		} else {
			for _, p := range Plugins {
				if x := g.Results[p]; x.Exit != "ok" {
					holds = false
					notes = append(notes, fmt.Sprintf("%s refuses a definition that breaks no rule: %s %s", p, x.Exit, firstLine(x.Error)))
				}
			}
		}
		for _, p := range Plugins {
			if x := g.Results[p]; x.Exit != "ok" && x.Exit != "error-response" {
				holds = false
				notes = append(notes, fmt.Sprintf("%s did not answer: %s %s", p, x.Exit, firstLine(x.Stderr)))
			}
		}
		var offs []string
		for _, f := range c.Offenders {
			offs = append(offs, fmt.Sprintf("(%s, %s)", CoqStr(f.Msg), CoqStr(f.Item)))
		}
		feats := []string{"family:" + c.Family, "placement:" + c.Placement, "surround:" + c.Surround}
		if c.Rule != "" {
			feats = append(feats, "rule:"+strings.SplitN(c.Rule, "/", 2)[0])
		} else {
			feats = append(feats, "rule:none")
		}
		cr := &CaseResult{ID: c.Req.ID, Family: c.Family,
			Input: map[string]any{"schema": c.Req.ID, "rule": c.Rule, "placement": c.Placement, "surround": c.Surround, "note": c.Note, "offenders": c.Offenders, "request": c.Req, "nested_type_order": c.NestedOrder},
			Obs:   obs, OracleHolds: holds, OracleNote: strings.Join(notes, " | "), NonTrivial: true, Features: feats}
		crs = append(crs, cr)
		ccs = append(ccs, CoqCase{Term: "(" + CoqSchema(ModelOrder(c.Req, g.Built)) + ",\n   [" + strings.Join(offs, "; ") + "])", Obs: obs})
	}
	vs, err := CoqRun(run.WorkDir, "c12", "From Sebuf Require Import Text Json Schema Validate.\n", "", "(schema * list (str * str))", "predict_C12", ccs, 12)
	if err != nil {
		run.Fatal("model evaluation: %v", err)
	}
	for i, cr := range crs {
		cr.Apply(vs[i])
		// keep the evidence small: the full request is only needed for failing / disagreeing cases
		if cr.OracleHolds && (cr.Agree || cr.Unmodelled != "") {
			if m, ok := cr.Input.(map[string]any); ok {
				delete(m, "request")
			}
		}
		run.Results = append(run.Results, cr)
	}
	DumpResults(run)
	run.Extra["plugin_runs"] = len(cases) * len(Plugins)
	run.Extra["rules"] = len(c12Rules())
	run.Extra["placements"] = c12Placements
	run.Extra["nested_map_order_shapes"] = c12MapShapes
	run.Finish()
}
