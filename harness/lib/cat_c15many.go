package lib

import (
	"fmt"
	"strings"
)

// C15ManyCatalogue: schemas with MANY SIBLINGS of every construct whose emission a generator could
// drive from a Go map — discriminated oneofs of one message (flattened and not: the TS intersection
// alias `type M = MBase & MA & MB`, the union declarations, the Go marshal/unmarshal switch), flattened
// message fields of one parent, unwrap wrappers referenced from one message, enums with custom values,
// headers of one service / one method, query parameters of one request, services of one file, RPCs of
// one service, nested declarations of one message.  Every construct occurs once as a PAIR (a Go map of
// two entries yields the reversed order in about 1 of 8 processes: one bucket, random start slot) and
// once with five to eight siblings (reordered in well over half of the processes), and the sibling
// names are declared in an order that is neither ascending nor descending, so that "sorted by name"
// and "declaration order" differ as well.  The requests carry the tag "many": CheckC15 repeats them
// c15ManyRepeats times (fresh process = fresh map seed) instead of the usual three.
func C15ManyCatalogue() []*Request {
	var out []*Request
	// declaration order of sibling names: not sorted either way
	greek := []string{"zeta", "alpha", "mid", "beta", "omega", "delta", "kappa", "eta"}
	tag := func(r *Request, more ...string) *Request {
		r.Tags = append([]string{"order", "many"}, more...)
		return r
	}
	echo := func(id string, tops ...string) *Service {
		svc := &Service{Name: "Echo", BasePath: "/" + id, HasConfig: true}
		for _, t := range tops {
			svc.Methods = append(svc.Methods, RPC("Echo"+t, id+".v1."+t, id+".v1."+t, "POST", "/echo/"+t))
		}
		return svc
	}

	{ // ---- several discriminated oneofs in ONE message ------------------------------------------
		id := "ordmanyoneof"
		pkg := id + ".v1"
		var msgs []*Message
		var tops []string
		// multi builds parent <name> with one discriminated oneof per entry of flats (true = flatten);
		// every variant message and every child field has a name of its own (the validator refuses
		// collisions between flattened children, parent fields and discriminators).
		multi := func(name string, flats []bool, customValues bool) {
			low := strings.ToLower(name)
			parent := M(name, F(low+"_id", 1, "string"))
			num := int32(2)
			for k, flat := range flats {
				on := greek[k]
				o := &Oneof{Name: on, HasConfig: true, Discriminator: low + "_" + on + "_kind", Flatten: flat}
				parent.Oneofs = append(parent.Oneofs, o)
				for j, vn := range []string{"second", "first"} {
					vm := M(name+SnakeToCamelLocal(on)+SnakeToCamelLocal(vn),
						F(fmt.Sprintf("%s_%s_%s_x", low, on, vn), 1, "string"), F(fmt.Sprintf("%s_%s_%s_n", low, on, vn), 2, "int32"))
					msgs = append(msgs, vm)
					opts := []FieldOpt{Msg(pkg + "." + vm.Name), InOneof(on)}
					if customValues && j == 1 {
						opts = append(opts, OneofVal(on+"-"+vn))
					}
					parent.Fields = append(parent.Fields, F(fmt.Sprintf("%s_%s", on, vn), num, "", opts...))
					num++
				}
				if !flat { // a scalar variant is allowed only without flatten
					parent.Fields = append(parent.Fields, F(on+"_note", num, "string", InOneof(on)))
					num++
				}
			}
			parent.Fields = append(parent.Fields, F(low+"_tail", num, "string"))
			msgs = append(msgs, parent)
			tops = append(tops, name)
		}
		multi("Pair", []bool{true, false}, false)
		multi("PairFlat", []bool{true, true}, true)
		multi("PairNest", []bool{false, false}, true)
		multi("Trio", []bool{false, true, true}, false)
		multi("Quad", []bool{true, false, true, false}, true)
		multi("Five", []bool{false, false, false, false, false}, false)
		multi("Six", []bool{true, true, false, true, false, true}, true)
		multi("SixFlat", []bool{true, true, true, true, true, true}, false)
		// a holder that reaches them all a second time, nested and repeated
		holder := M("Holder", F("id", 1, "string"))
		for i, t := range tops {
			holder.Fields = append(holder.Fields, F("h_"+strings.ToLower(t), int32(2+2*i), "", Msg(pkg+"."+t)),
				F("hs_"+strings.ToLower(t), int32(3+2*i), "", Msg(pkg+"."+t), Rep()))
		}
		msgs = append(msgs, holder)
		out = append(out, tag(buildReq(id, nil, msgs, echo(id, append(tops, "Holder")...)), "oneof"))
	}

	{ // ---- many flattened children of one parent -------------------------------------------------
		id := "ordmanyflat"
		pkg := id + ".v1"
		var msgs []*Message
		child := func(n string) *Message {
			return M(SnakeToCamelLocal(n)+"Part", F("street", 1, "string"), F("zip", 2, "string"), F("n", 3, "int64", I64("NUMBER")))
		}
		for _, g := range greek[:6] {
			msgs = append(msgs, child(g))
		}
		wide := M("Wide", F("id", 1, "string"))
		for i, g := range greek[:6] {
			wide.Fields = append(wide.Fields, F(g, int32(2+i), "", Msg(pkg+"."+SnakeToCamelLocal(g)+"Part"), Flatten(true), FlattenPrefix(g+"_")))
		}
		wide.Fields = append(wide.Fields, F("tail", 20, "string"))
		pair := M("PairWide", F("id", 1, "string"),
			F("zeta", 2, "", Msg(pkg+".ZetaPart"), Flatten(true), FlattenPrefix("z_")),
			F("alpha", 3, "", Msg(pkg+".AlphaPart"), Flatten(true), FlattenPrefix("a_")))
		// a flattened child that is itself a parent of flattened children, next to a plain one
		inner := M("Inner", F("label", 1, "string"),
			F("mid", 2, "", Msg(pkg+".MidPart"), Flatten(true), FlattenPrefix("m_")),
			F("beta", 3, "", Msg(pkg+".BetaPart"), Flatten(true), FlattenPrefix("b_")))
		deep := M("Deep", F("id", 1, "string"),
			F("inner", 2, "", Msg(pkg+".Inner"), Flatten(true), FlattenPrefix("in_")),
			F("omega", 3, "", Msg(pkg+".OmegaPart"), Flatten(true), FlattenPrefix("o_")),
			F("plain", 4, "", Msg(pkg+".DeltaPart")))
		msgs = append(msgs, wide, pair, inner, deep)
		out = append(out, tag(buildReq(id, nil, msgs, echo(id, "Wide", "PairWide", "Deep", "Inner")), "flatten"))
	}

	{ // ---- many unwrap wrappers, many maps of them in one message, several root unwraps ----------
		id := "ordmanyunwrap"
		pkg := id + ".v1"
		msgs := []*Message{M("Bar", F("t", 1, "int64"), F("sym", 2, "string")), M("Tick", F("px", 1, "double"), F("at", 2, "", Msg(Timestamp), TsFmt("UNIX_MILLIS")))}
		book := M("Book", F("id", 1, "string"))
		pair := M("PairBook", F("id", 1, "string"))
		for i, g := range greek {
			wn := SnakeToCamelLocal(g) + "List"
			var w *Message
			switch i % 4 {
			case 0:
				w = M(wn, F("bars", 1, "", Msg(pkg+".Bar"), Rep(), Unwrap()))
			case 1:
				w = M(wn, F("vals", 1, "string", Rep(), Unwrap()))
			case 2:
				w = M(wn, F("ticks", 1, "", Msg(pkg+".Tick"), Rep(), Unwrap()), F("next", 2, "string"))
			default:
				w = M(wn, F("nums", 1, "int64", Rep(), Unwrap()))
			}
			msgs = append(msgs, w)
			key := []string{"string", "int32", "string", "int64"}[i%4]
			book.Fields = append(book.Fields, F("by_"+g, int32(2+i), "", Msg(pkg+"."+wn), MapOf(key)))
			if i < 2 {
				pair.Fields = append(pair.Fields, F("by_"+g, int32(2+i), "", Msg(pkg+"."+wn), MapOf("string")))
			}
		}
		book.Fields = append(book.Fields, F("label", 30, "string"))
		msgs = append(msgs, book, pair,
			M("RootZ", F("all", 1, "", Msg(pkg+".ZetaList"), MapOf("string"), Unwrap())),
			M("RootA", F("items", 1, "", Msg(pkg+".Bar"), Rep(), Unwrap())),
			M("RootM", F("by", 1, "", Msg(pkg+".Tick"), MapOf("string"), Unwrap())),
			M("RootB", F("all", 1, "", Msg(pkg+".BetaList"), MapOf("string"), Unwrap())))
		out = append(out, tag(buildReq(id, nil, msgs, echo(id, "Book", "PairBook", "RootZ", "RootA", "RootM", "RootB")), "unwrap"))
	}

	{ // ---- many enums with custom values: top level, nested, singular / repeated / map / optional ----
		id := "ordmanyenum"
		pkg := id + ".v1"
		custom := func(name string, n int) *Enum {
			up := strings.ToUpper(name)
			e := &Enum{Name: SnakeToCamelLocal(name)}
			e.Values = append(e.Values, &EnumValue{Name: up + "_UNSPECIFIED", Number: 0})
			for k := 1; k <= n; k++ {
				v := &EnumValue{Name: fmt.Sprintf("%s_V%d", up, k), Number: int32(k)}
				if k%3 != 0 {
					v.EnumValue = Str(fmt.Sprintf("%s-%c", name, 'z'-rune(k)))
				}
				e.Values = append(e.Values, v)
			}
			return e
		}
		var enums []*Enum
		all := M("All", F("id", 1, "string"))
		for i, g := range greek {
			enums = append(enums, custom(g, 2+i%4))
			tn := pkg + "." + SnakeToCamelLocal(g)
			var f *Field
			switch i % 4 {
			case 0:
				f = F("e_"+g, int32(2+i), "", EnumT(tn))
			case 1:
				f = F("e_"+g, int32(2+i), "", EnumT(tn), Rep())
			case 2:
				f = F("e_"+g, int32(2+i), "", EnumT(tn), MapOf("string"))
			default:
				f = F("e_"+g, int32(2+i), "", EnumT(tn), Opt())
			}
			all.Fields = append(all.Fields, f)
		}
		pair := M("PairEnum", F("one", 1, "", EnumT(pkg+".Zeta")), F("two", 2, "", EnumT(pkg+".Alpha")))
		nest := M("Nest", F("id", 1, "string"))
		for i, g := range []string{"yy", "bb", "pp", "cc", "xx"} {
			e := custom("nest_"+g, 3)
			nest.Enums = append(nest.Enums, e)
			nest.Fields = append(nest.Fields, F("n_"+g, int32(2+i), "", EnumT(pkg+".Nest."+e.Name)))
		}
		out = append(out, tag(buildReq(id, enums, []*Message{all, pair, nest}, echo(id, "All", "PairEnum", "Nest")), "enum"))
	}

	{ // ---- many services in one file, many RPCs, many headers at both levels, many query / path parameters ----
		id := "ordmanysvc"
		pkg := id + ".v1"
		hdr := func(names ...string) []*Header {
			var l []*Header
			for i, n := range names {
				h := &Header{Name: n, Type: "string", Required: i%2 == 0}
				if i%3 == 1 {
					h.Type, h.Format = "string", "uuid"
				}
				if i%4 == 3 {
					h.Type = "integer"
				}
				l = append(l, h)
			}
			return l
		}
		q := M("Find", F("tenant", 1, "string"), F("shelf", 2, "string"))
		for i, g := range greek {
			kind := []string{"string", "int32", "bool", "int64"}[i%4]
			q.Fields = append(q.Fields, F("q_"+g, int32(3+i), kind, Query(g, i%3 == 0)))
		}
		pq := M("PairFind", F("tenant", 1, "string"), F("q_zeta", 2, "string", Query("zeta", false)), F("q_alpha", 3, "int32", Query("alpha", true)))
		oq := M("PairOnly", F("q_zeta", 1, "string", Query("zeta", false)), F("q_alpha", 2, "int32", Query("alpha", true)))
		msgs := []*Message{q, pq, oq, M("Req", F("tenant", 1, "string"), F("shelf", 2, "string"), F("body", 3, "string")), M("Resp", F("ok", 1, "bool"), F("items", 2, "string", Rep()))}
		var svcs []*Service
		for i, g := range greek[:6] {
			sn := SnakeToCamelLocal(g)
			svc := &Service{Name: sn + "Service", BasePath: "/" + g, HasConfig: true}
			for j, r := range []string{"yank", "build", "open", "close", "merge", "audit"} {
				rn := SnakeToCamelLocal(r) + sn
				var m *Method
				switch j % 6 {
				case 0:
					m = RPC(rn, pkg+".Find", pkg+".Resp", "GET", "/"+r+"/{tenant}/{shelf}")
				case 1:
					m = RPC(rn, pkg+".Req", pkg+".Resp", "POST", "/"+r)
				case 2:
					m = RPC(rn, pkg+".Req", pkg+".Resp", "PUT", "/"+r+"/{shelf}/by/{tenant}")
				case 3:
					m = RPC(rn, pkg+".PairFind", pkg+".Resp", "DELETE", "/"+r+"/{tenant}")
				case 4:
					m = RPC(rn, pkg+".Req", pkg+".Resp", "PATCH", "/"+r+"/{tenant}")
				default:
					m = RPC(rn, pkg+".PairOnly", pkg+".Resp", "GET", "/"+r)
				}
				switch {
				case i == 0 && j == 0:
					m.Headers = hdr("X-Zulu", "X-Alpha", "X-Mike", "X-Bravo", "X-Yankee", "X-Charlie", "X-Whisky", "X-Delta")
				case j == 1:
					m.Headers = hdr("X-Yankee", "X-Bravo")
				case j == 2:
					m.Headers = hdr("X-Svc-C", "X-Mike", "X-Svc-A") // overrides two service headers
				}
				svc.Methods = append(svc.Methods, m)
			}
			switch i {
			case 0:
				svc.Headers = hdr("X-Svc-H", "X-Svc-C", "X-Svc-A", "X-Svc-G", "X-Svc-B", "X-Svc-F", "X-Svc-D", "X-Svc-E")
			case 1:
				svc.Headers = hdr("X-Svc-C", "X-Svc-A")
			case 2:
				svc.Headers = hdr("X-Svc-B", "X-Svc-C", "X-Svc-A")
			}
			svcs = append(svcs, svc)
		}
		out = append(out, tag(buildReq(id, nil, msgs, svcs...), "service"))
	}

	{ // ---- all of it spread over two generated files that share the definitions of a third ------
		id := "ordmanymix"
		pkg := id + ".v1"
		gp := "verifgen/" + id + ";" + id
		st := &Enum{Name: "Mode", Values: []*EnumValue{{Name: "MODE_UNSPECIFIED", Number: 0}, {Name: "MODE_ON", Number: 1, EnumValue: Str("on")}, {Name: "MODE_OFF", Number: 2, EnumValue: Str("off")}}}
		lvl := &Enum{Name: "Level", Values: []*EnumValue{{Name: "LEVEL_UNSPECIFIED", Number: 0}, {Name: "LEVEL_HI", Number: 1, EnumValue: Str("hi")}}}
		common := &File{Path: id + "/common.proto", Package: pkg, GoPackage: gp, Generate: true, Enums: []*Enum{st, lvl},
			Messages: []*Message{
				M("TextP", F("body", 1, "string")), M("ImageP", F("url", 1, "string"), F("width", 2, "int32")),
				M("AudioP", F("codec", 1, "string"), F("secs", 2, "int64", I64("NUMBER"))), M("GeoP", F("lat", 1, "double"), F("lon", 2, "double")),
				M("Bar", F("t", 1, "int64"), F("mode", 2, "", EnumT(pkg+".Mode"))), M("BarList", F("bars", 1, "", Msg(pkg+".Bar"), Rep(), Unwrap())),
				M("Names", F("vals", 1, "string", Rep(), Unwrap())),
				M("Addr", F("street", 1, "string"), F("level", 2, "", EnumT(pkg+".Level"))),
				M("Event", F("id", 1, "string"),
					F("text", 2, "", Msg(pkg+".TextP"), InOneof("payload")), F("image", 3, "", Msg(pkg+".ImageP"), InOneof("payload"), OneofVal("img")),
					F("audio", 4, "", Msg(pkg+".AudioP"), InOneof("extra")), F("geo", 5, "", Msg(pkg+".GeoP"), InOneof("extra")),
					F("home", 6, "", Msg(pkg+".Addr"), Flatten(true), FlattenPrefix("home_")), F("work", 7, "", Msg(pkg+".Addr"), Flatten(true), FlattenPrefix("work_")),
					F("by_sym", 8, "", Msg(pkg+".BarList"), MapOf("string")), F("names", 9, "", Msg(pkg+".Names"), MapOf("string")),
					F("mode", 10, "", EnumT(pkg+".Mode")), F("level", 11, "", EnumT(pkg+".Level"))).
					WithOneofs(&Oneof{Name: "payload", HasConfig: true, Discriminator: "kind", Flatten: true},
						&Oneof{Name: "extra", HasConfig: true, Discriminator: "extra_kind", Flatten: true}),
				M("Req", F("id", 1, "string"), F("mode", 2, "", EnumT(pkg+".Mode"), Query("mode", false)), F("level", 3, "", EnumT(pkg+".Level"), Query("level", false))),
				M("ListReq", F("mode", 1, "", EnumT(pkg+".Mode"), Query("mode", false)), F("level", 2, "", EnumT(pkg+".Level"), Query("level", true)), F("cursor", 3, "string", Query("cursor", false))),
			}}
		side := func(name string) *File {
			low := strings.ToLower(name)
			return &File{Path: id + "/" + low + ".proto", Package: pkg, GoPackage: gp, Generate: true, Imports: []string{common.Path},
				Messages: []*Message{M(name+"Page", F("one", 1, "", Msg(pkg+".Event")), F("many", 2, "", Msg(pkg+".Event"), Rep()), F("cursor", 3, "string"))},
				Services: []*Service{
					Svc(name+"Service", "/"+low, RPC("Get"+name, pkg+".Req", pkg+".Event", "GET", "/events/{id}"), RPC("List"+name, pkg+".ListReq", pkg+"."+name+"Page", "GET", "/events"),
						RPC("Put"+name, pkg+".Event", pkg+".Event", "PUT", "/events/{id}")).
						WithHeaders(&Header{Name: "X-Tenant", Type: "string", Required: true}, &Header{Name: "X-Api-Key", Type: "string", Required: true}),
					Svc(name+"AdminService", "/"+low+"/admin", RPC("Purge"+name, pkg+"."+name+"Page", pkg+".Event", "POST", "/purge")).
						WithHeaders(&Header{Name: "X-Trace", Type: "string"}, &Header{Name: "X-Admin", Type: "string", Required: true}),
				}}
		}
		out = append(out, &Request{ID: id, Files: []*File{common, side("Feed"), side("Audit")}, Tags: []string{"order", "many", "shared"}})
	}
	return out
}

// SnakeToCamelLocal: "nest_yy" -> "NestYy" (names of the catalogue only; not the generators' conversion).
func SnakeToCamelLocal(s string) string {
	var b strings.Builder
	for _, part := range strings.Split(s, "_") {
		if part == "" {
			continue
		}
		b.WriteString(strings.ToUpper(part[:1]) + part[1:])
	}
	return b.String()
}
