package lib

import (
	"encoding/json"
	"fmt"
	"math/big"
	"strings"
)

// ---- C10, family "error-size" ---------------------------------------------------------------------------
// Error bodies of every size class — 1 / 60 / 600 violations, messages of 10 B / 5 KiB / 200 KiB — for JSON
// and protobuf, for rule failures, handler-made ValidationError, plain errors, sebuf Error and generated
// *Error messages, all through the generated Go client.  The model (Errors.v) is indifferent to size; the
// case term builds the long texts with Coq-side generators (sized_text, gen_viols, gen_rules) that mirror
// the Go ones below, and prediction and observation are compared after the same digest (digest_json /
// c10Digest), which replaces long strings / arrays by length + position-sensitive sums.  The oracle works
// on the undigested observation.

const c10Unit64 = "0123456789abcdefghijklmnopqrstuvwxyzABCDEFGHIJKLMNOPQRSTUVWXYZ-_"

func c10SizedText(n int) string { return strings.Repeat(c10Unit64, n) }

func c10ViolText(i int) string {
	return fmt.Sprintf("value is required and must be between 1 and 64 characters long (element %d)", i)
}

func c10GenViols(n int) [][2]string {
	out := make([][2]string, n)
	for i := range out {
		out[i] = [2]string{fmt.Sprintf("items[%d].name", i), c10ViolText(i)}
	}
	return out
}

func c10GenRules(n int) []c10Rule {
	out := make([]c10Rule, n)
	for i := range out {
		out[i] = c10Rule{Path: []string{"items", "name"}, Msg: c10ViolText(i)}
	}
	return out
}

// c10SizeCases: sources x size classes x {JSON, protobuf}, through the client.
func c10SizeCases(thorough bool) []*c10Case {
	var out []*c10Case
	cts := []string{"application/json", "application/x-protobuf"}
	add := func(c *c10Case, label, coq string) {
		c.family, c.call, c.sizeLabel, c.coqSrc = "error-size", true, label, coq
		if c.method == "" {
			c.method, c.callReq = "Create", map[string]any{"name": "n"}
		}
		out = append(out, c)
	}
	type msgSize struct {
		label string
		units int
		text  string
		coq   string
	}
	msgs := []msgSize{{"10B", 0, "0123456789", CoqStr("0123456789")}, {"5KiB", 80, c10SizedText(80), "(sized_text 80)"}, {"200KiB", 3200, c10SizedText(3200), "(sized_text 3200)"}}
	for _, ct := range cts {
		for _, n := range []int{1, 60, 600} {
			add(&c10Case{srcKind: "rule", rules: c10GenRules(n), ct: ct}, fmt.Sprintf("rule-violations:%d", n), fmt.Sprintf("SRule (gen_rules %d)", n))
			add(&c10Case{srcKind: "handler", herr: &c10Err{Kind: "validation", Violations: c10GenViols(n)}, ct: ct}, fmt.Sprintf("handler-violations:%d", n),
				fmt.Sprintf("SHandler (HValidation (gen_viols %d))", n))
		}
		// a wrapped ValidationError and a hook that answers with its own message, at the middle size
		add(&c10Case{srcKind: "handler", herr: &c10Err{Kind: "validation", Violations: c10GenViols(60), Wrap: true}, ct: ct}, "wrapped-violations:60", "SHandler (HWrap (HValidation (gen_viols 60)))")
		add(&c10Case{srcKind: "handler", herr: &c10Err{Kind: "validation", Violations: c10GenViols(60)}, hook: &c10Hook{RetMsg: true}, ct: ct}, "hooked-violations:60", "SHandler (HValidation (gen_viols 60))")
		add(&c10Case{srcKind: "handler", herr: &c10Err{Kind: "validation", Violations: c10GenViols(60)}, hook: &c10Hook{Status: 422}, ct: ct}, "hook-422-violations:60", "SHandler (HValidation (gen_viols 60))")
		for _, m := range msgs {
			add(&c10Case{srcKind: "handler", herr: &c10Err{Kind: "plain", Msg: m.text}, ct: ct}, "plain-error:"+m.label, "SHandler (HPlain "+m.coq+")")
			add(&c10Case{srcKind: "handler", herr: &c10Err{Kind: "sebuf", Msg: m.text}, ct: ct}, "sebuf-error:"+m.label, "SHandler (HSebuf "+m.coq+")")
			// generated *Error messages: a string field of that size (and an int64 NUMBER sibling for the codec path)
			nf := &c10Custom{Type: "rterr.v1.NotFoundError", Fields: []c10Field{{1, "resource_type", "string", false, "user", 0}, {2, "resource_id", "string", false, m.text, 0}, {3, "code", "int32", false, "", 404}}}
			add(&c10Case{srcKind: "handler", herr: &c10Err{Kind: "custom", Custom: nf}, ct: ct}, "custom-error:"+m.label,
				"SHandler (HCustom {| cm_type := "+CoqStr(nf.Type)+"; cm_fields := [CStr 1 "+CoqStr("resource_type")+" "+CoqStr("user")+"; CStr 2 "+CoqStr("resource_id")+" "+m.coq+"; CInt32 3 "+CoqStr("code")+" (404)%Z] |})")
			if m.label == "5KiB" {
				q := &c10Custom{Type: "rterr.v1.QuotaError", Fields: []c10Field{{1, "limit", "int64", true, "", 5000000000}, {2, "reason", "string", false, m.text, 0}}}
				add(&c10Case{srcKind: "handler", herr: &c10Err{Kind: "custom", Custom: q}, ct: ct}, "custom-number-error:"+m.label,
					"SHandler (HCustom {| cm_type := "+CoqStr(q.Type)+"; cm_fields := [CInt64 1 "+CoqStr("limit")+" true (5000000000)%Z; CStr 2 "+CoqStr("reason")+" "+m.coq+"] |})")
				add(&c10Case{srcKind: "handler", herr: &c10Err{Kind: "plain", Msg: m.text, Wrap: true}, ct: ct}, "wrapped-plain-error:"+m.label, "SHandler (HWrap (HPlain "+m.coq+"))")
				add(&c10Case{srcKind: "handler", herr: &c10Err{Kind: "plain", Msg: m.text}, hook: &c10Hook{Status: 503}, ct: ct}, "hook-503-plain-error:"+m.label, "SHandler (HPlain "+m.coq+")")
			}
		}
	}
	// the per-call override path and the JSON-with-charset type at the middle sizes
	pc := "application/x-protobuf"
	for _, c := range []*c10Case{
		{srcKind: "rule", rules: c10GenRules(60), split: true, clientCT: "application/json", callCT: &pc, ct: pc},
		{srcKind: "handler", herr: &c10Err{Kind: "plain", Msg: c10SizedText(80)}, split: true, clientCT: "application/json", callCT: &pc, ct: pc},
	} {
		if c.srcKind == "rule" {
			add(c, "override-rule-violations:60", "SRule (gen_rules 60)")
		} else {
			add(c, "override-plain-error:5KiB", "SHandler (HPlain (sized_text 80))")
		}
	}
	add(&c10Case{srcKind: "rule", rules: c10GenRules(60), ct: "application/json; charset=utf-8"}, "charset-rule-violations:60", "SRule (gen_rules 60)")
	add(&c10Case{srcKind: "handler", herr: &c10Err{Kind: "sebuf", Msg: c10SizedText(80)}, ct: "application/json; charset=utf-8"}, "charset-sebuf-error:5KiB", "SHandler (HSebuf (sized_text 80))")
	_ = thorough
	return out
}

// ---- the digest (mirror of Errors.v: byte_sums, str_hash, json_hash, digest_json) --------------------------

const c10LongLimit = 256
const c10LongArrayLimit = 32

func c10StrHash(x string) *big.Int {
	var a, b uint64
	for i := 0; i < len(x); i++ {
		a += uint64(x[i])
		b += a
	}
	h := new(big.Int).SetUint64(7 + a)
	h.Add(h, new(big.Int).Mul(big.NewInt(3), new(big.Int).SetUint64(b)))
	h.Add(h, big.NewInt(int64(11*len(x))))
	return h
}

func c10JSONHash(v any) *big.Int {
	switch x := v.(type) {
	case nil:
		return big.NewInt(1)
	case bool:
		if x {
			return big.NewInt(2)
		}
		return big.NewInt(3)
	case json.Number:
		s := x.String()
		if strings.ContainsAny(s, ".eE") {
			return c10StrHash("float:" + s)
		}
		z, _ := new(big.Int).SetString(s, 10)
		h := new(big.Int).Mul(big.NewInt(2), new(big.Int).Abs(z))
		if z.Sign() < 0 {
			h.Add(h, big.NewInt(1))
		}
		return h.Add(h, big.NewInt(5))
	case string:
		return c10StrHash(x)
	case []any:
		acc := big.NewInt(13)
		for i, e := range x {
			acc.Add(acc, new(big.Int).Mul(big.NewInt(int64(i+1)), c10JSONHash(e)))
		}
		return acc
	case map[string]any:
		acc := big.NewInt(17)
		for k, e := range x {
			a := new(big.Int).Add(c10StrHash(k), big.NewInt(1))
			b := new(big.Int).Add(c10JSONHash(e), big.NewInt(1))
			acc.Add(acc, a.Mul(a, b))
		}
		return acc
	}
	return big.NewInt(0)
}

// c10Digest works on canonical values (Canon).
func c10Digest(v any) any {
	mark := func(kind string, n int, h *big.Int) any {
		return map[string]any{kind: []any{json.Number(fmt.Sprint(n)), json.Number(h.String())}}
	}
	switch x := v.(type) {
	case string:
		if len(x) > c10LongLimit {
			return mark("$long-string", len(x), c10StrHash(x))
		}
		return x
	case []any:
		if len(x) > c10LongArrayLimit {
			return mark("$long-array", len(x), c10JSONHash(x))
		}
		out := make([]any, len(x))
		for i, e := range x {
			out[i] = c10Digest(e)
		}
		return out
	case map[string]any:
		out := map[string]any{}
		for k, e := range x {
			out[k] = c10Digest(e)
		}
		return out
	}
	return v
}

// c10SizeInput: a short description of a size case for evidence and replays (the scenario itself may be 200 KiB).
func (c *c10Case) sizeInput() map[string]any {
	in := map[string]any{"size_class": c.sizeLabel, "content_type": c.ct, "source": c.srcKind, "model_source": c.coqSrc, "method": c.method}
	if c.hook != nil {
		in["hook"] = c.hook.spec()
	}
	if c.herr != nil {
		in["error_kind"] = c.herr.Kind
		in["wrapped"] = c.herr.Wrap
		in["message_bytes"] = len(c.herr.Msg)
		in["violations"] = len(c.herr.Violations)
	}
	if c.rules != nil {
		in["violations"] = len(c.rules)
	}
	return in
}
