package lib

import "fmt"

// Small DSL for writing catalogue schemas concisely.

func Str(s string) *string { return &s }
func B(b bool) *bool       { return &b }
func U(u uint64) *uint64   { return &u }

type FieldOpt func(*Field)

func F(name string, num int32, kind string, opts ...FieldOpt) *Field {
	f := &Field{Name: name, Number: num, Kind: kind, Card: "singular"}
	for _, o := range opts {
		o(f)
	}
	return f
}
func Msg(tn string) FieldOpt          { return func(f *Field) { f.Kind = "message"; f.TypeName = tn } }
func EnumT(tn string) FieldOpt        { return func(f *Field) { f.Kind = "enum"; f.TypeName = tn } }
func Opt() FieldOpt                   { return func(f *Field) { f.Card = "optional" } }
func Rep() FieldOpt                   { return func(f *Field) { f.Card = "repeated" } }
func MapOf(key string) FieldOpt       { return func(f *Field) { f.Card = "map"; f.MapKey = key } }
func InOneof(o string) FieldOpt       { return func(f *Field) { f.Oneof = o } }
func Query(name string, req bool) FieldOpt {
	return func(f *Field) { f.Query = &QueryCfg{Name: name, Required: req} }
}
func Unwrap() FieldOpt                { return func(f *Field) { f.Unwrap = true } }
func I64(enc string) FieldOpt         { return func(f *Field) { f.Int64Encoding = enc } }
func EnumEnc(enc string) FieldOpt     { return func(f *Field) { f.EnumEncoding = enc } }
func Nullable(b bool) FieldOpt        { return func(f *Field) { f.Nullable = &b } }
func Empty(b string) FieldOpt         { return func(f *Field) { f.EmptyBehavior = b } }
func TsFmt(b string) FieldOpt         { return func(f *Field) { f.TimestampFormat = b } }
func BytesEnc(b string) FieldOpt      { return func(f *Field) { f.BytesEncoding = b } }
func OneofVal(v string) FieldOpt      { return func(f *Field) { f.OneofValue = &v } }
func Flatten(b bool) FieldOpt         { return func(f *Field) { f.Flatten = &b } }
func FlattenPrefix(p string) FieldOpt { return func(f *Field) { f.FlattenPrefix = &p } }
func Examples(v ...string) FieldOpt   { return func(f *Field) { f.Examples = v } }
func WithRules(r *Rules) FieldOpt     { return func(f *Field) { f.Rules = r } }

// PresentEmpty: the named sebuf annotations are on the field with their zero value (see Field.PresentEmpty).
func PresentEmpty(names ...string) FieldOpt {
	return func(f *Field) { f.PresentEmpty = append(f.PresentEmpty, names...) }
}

const Timestamp = "google.protobuf.Timestamp"

func M(name string, fields ...*Field) *Message { return &Message{Name: name, Fields: fields} }
func (m *Message) WithOneofs(os ...*Oneof) *Message { m.Oneofs = os; return m }
func (m *Message) WithNested(ms ...*Message) *Message { m.Nested = ms; return m }
func (m *Message) WithEnums(es ...*Enum) *Message { m.Enums = es; return m }

func E(name string, values ...string) *Enum {
	e := &Enum{Name: name}
	for i, v := range values {
		e.Values = append(e.Values, &EnumValue{Name: v, Number: int32(i)})
	}
	return e
}

func Svc(name, base string, methods ...*Method) *Service {
	return &Service{Name: name, BasePath: base, HasConfig: base != "", Methods: methods}
}
func (s *Service) WithHeaders(h ...*Header) *Service { s.Headers = h; return s }
func (s *Service) WithEmptyHeaders() *Service        { s.HeadersEmpty = true; return s }

func RPC(name, in, out, verb, path string) *Method {
	return &Method{Name: name, In: in, Out: out, Verb: verb, Path: path, HasConfig: verb != "" || path != ""}
}
func (m *Method) WithHeaders(h ...*Header) *Method { m.Headers = h; return m }
func (m *Method) WithEmptyHeaders() *Method        { m.HeadersEmpty = true; return m }

// OneFile wraps messages/services into a single-file request with package pkg.
func OneFile(id, pkg string, f *File) *Request {
	if f.Path == "" {
		f.Path = id + "/a.proto"
	}
	f.Package = pkg
	if f.GoPackage == "" {
		f.GoPackage = fmt.Sprintf("verifgen/%s;%s", id, id)
	}
	f.Generate = true
	return &Request{ID: id, Files: []*File{f}}
}
