package lib

import (
	"fmt"
	"strings"

	validate "buf.build/gen/go/bufbuild/protovalidate/protocolbuffers/go/buf/validate"
	"google.golang.org/protobuf/encoding/prototext"
	"google.golang.org/protobuf/proto"
	"google.golang.org/protobuf/reflect/protodesc"
	"google.golang.org/protobuf/reflect/protoreflect"
	"google.golang.org/protobuf/reflect/protoregistry"
	"google.golang.org/protobuf/types/descriptorpb"
	"google.golang.org/protobuf/types/known/anypb"
	"google.golang.org/protobuf/types/known/durationpb"
	"google.golang.org/protobuf/types/known/emptypb"
	"google.golang.org/protobuf/types/known/fieldmaskpb"
	"google.golang.org/protobuf/types/known/structpb"
	"google.golang.org/protobuf/types/known/timestamppb"
	"google.golang.org/protobuf/types/known/wrapperspb"

	sebufhttp "github.com/SebastienMelki/sebuf/http"
)

const (
	AnnotationsProto = "proto/sebuf/http/annotations.proto"
	HeadersProto     = "proto/sebuf/http/headers.proto"
	ValidateProto    = "buf/validate/validate.proto"
)

var scalarTypes = map[string]descriptorpb.FieldDescriptorProto_Type{
	"double": descriptorpb.FieldDescriptorProto_TYPE_DOUBLE, "float": descriptorpb.FieldDescriptorProto_TYPE_FLOAT,
	"int32": descriptorpb.FieldDescriptorProto_TYPE_INT32, "int64": descriptorpb.FieldDescriptorProto_TYPE_INT64,
	"uint32": descriptorpb.FieldDescriptorProto_TYPE_UINT32, "uint64": descriptorpb.FieldDescriptorProto_TYPE_UINT64,
	"sint32": descriptorpb.FieldDescriptorProto_TYPE_SINT32, "sint64": descriptorpb.FieldDescriptorProto_TYPE_SINT64,
	"fixed32": descriptorpb.FieldDescriptorProto_TYPE_FIXED32, "fixed64": descriptorpb.FieldDescriptorProto_TYPE_FIXED64,
	"sfixed32": descriptorpb.FieldDescriptorProto_TYPE_SFIXED32, "sfixed64": descriptorpb.FieldDescriptorProto_TYPE_SFIXED64,
	"bool": descriptorpb.FieldDescriptorProto_TYPE_BOOL, "string": descriptorpb.FieldDescriptorProto_TYPE_STRING,
	"bytes": descriptorpb.FieldDescriptorProto_TYPE_BYTES,
}

// wellKnownFiles maps an importable well-known path to its descriptor.
func wellKnownFiles() map[string]protoreflect.FileDescriptor {
	m := map[string]protoreflect.FileDescriptor{}
	for _, fd := range []protoreflect.FileDescriptor{
		timestamppb.File_google_protobuf_timestamp_proto, durationpb.File_google_protobuf_duration_proto,
		emptypb.File_google_protobuf_empty_proto, wrapperspb.File_google_protobuf_wrappers_proto,
		structpb.File_google_protobuf_struct_proto, anypb.File_google_protobuf_any_proto,
		fieldmaskpb.File_google_protobuf_field_mask_proto,
		descriptorpb.File_google_protobuf_descriptor_proto,
		sebufhttp.File_proto_sebuf_http_annotations_proto, sebufhttp.File_proto_sebuf_http_headers_proto,
		sebufhttp.File_proto_sebuf_http_errors_proto,
		validate.File_buf_validate_validate_proto,
	} {
		m[fd.Path()] = fd
	}
	return m
}

// Built is the result of building descriptors for a request.
type Built struct {
	// All files in dependency order (dependencies first), including library files.
	All []*descriptorpb.FileDescriptorProto
	// User files in request order.
	User  []*descriptorpb.FileDescriptorProto
	Files *protoregistry.Files
}

// BuildDescriptors converts the spec to FileDescriptorProtos and validates them with protodesc.
func BuildDescriptors(r *Request) (*Built, error) {
	wk := wellKnownFiles()
	b := &Built{Files: &protoregistry.Files{}}
	added := map[string]bool{}
	var addLib func(path string) error
	addLib = func(path string) error {
		if added[path] {
			return nil
		}
		fd, ok := wk[path]
		if !ok {
			return fmt.Errorf("unknown library import %q", path)
		}
		imps := fd.Imports()
		for i := 0; i < imps.Len(); i++ {
			if err := addLib(imps.Get(i).Path()); err != nil {
				return err
			}
		}
		added[path] = true
		b.All = append(b.All, protodesc.ToFileDescriptorProto(fd))
		return b.Files.RegisterFile(fd)
	}
	userByPath := map[string]*File{}
	for _, f := range r.Files {
		userByPath[f.Path] = f
	}
	var addUser func(f *File, stack map[string]bool) error
	addUser = func(f *File, stack map[string]bool) error {
		if added[f.Path] {
			return nil
		}
		if stack[f.Path] {
			return fmt.Errorf("import cycle at %s", f.Path)
		}
		stack[f.Path] = true
		fdp, deps, err := buildFile(f)
		if err != nil {
			return err
		}
		for _, d := range deps {
			if u, ok := userByPath[d]; ok {
				if err := addUser(u, stack); err != nil {
					return err
				}
			} else if err := addLib(d); err != nil {
				return err
			}
		}
		fd, err := protodesc.NewFile(fdp, b.Files)
		if err != nil {
			return fmt.Errorf("%s: %w", f.Path, err)
		}
		if err := b.Files.RegisterFile(fd); err != nil {
			return err
		}
		added[f.Path] = true
		b.All = append(b.All, fdp)
		return nil
	}
	for _, f := range r.Files {
		if err := addUser(f, map[string]bool{}); err != nil {
			return nil, err
		}
	}
	for _, f := range r.Files {
		for _, fdp := range b.All {
			if fdp.GetName() == f.Path {
				b.User = append(b.User, fdp)
			}
		}
	}
	return b, nil
}

func buildFile(f *File) (*descriptorpb.FileDescriptorProto, []string, error) {
	fdp := &descriptorpb.FileDescriptorProto{
		Name:   proto.String(f.Path),
		Syntax: proto.String("proto3"),
	}
	if f.Package != "" {
		fdp.Package = proto.String(f.Package)
	}
	if f.GoPackage != "" {
		fdp.Options = &descriptorpb.FileOptions{GoPackage: proto.String(f.GoPackage)}
	}
	deps := map[string]bool{}
	var depOrder []string
	need := func(p string) {
		if !deps[p] {
			deps[p] = true
			depOrder = append(depOrder, p)
		}
	}
	for _, i := range f.Imports {
		need(i)
	}
	for _, e := range f.Enums {
		ed, usesAnn := buildEnum(e)
		if usesAnn {
			need(AnnotationsProto)
		}
		fdp.EnumType = append(fdp.EnumType, ed)
	}
	for _, m := range f.Messages {
		md, err := buildMessage(m, need)
		if err != nil {
			return nil, nil, err
		}
		fdp.MessageType = append(fdp.MessageType, md)
	}
	for _, s := range f.Services {
		sd := &descriptorpb.ServiceDescriptorProto{Name: proto.String(s.Name)}
		so := &descriptorpb.ServiceOptions{}
		has := false
		if s.HasConfig || s.BasePath != "" {
			proto.SetExtension(so, sebufhttp.E_ServiceConfig, &sebufhttp.ServiceConfig{BasePath: s.BasePath})
			need(AnnotationsProto)
			has = true
		}
		if len(s.Headers) > 0 {
			proto.SetExtension(so, sebufhttp.E_ServiceHeaders, &sebufhttp.ServiceHeaders{RequiredHeaders: buildHeaders(s.Headers)})
			need(HeadersProto)
			has = true
		} else if s.HeadersEmpty {
			proto.SetExtension(so, sebufhttp.E_ServiceHeaders, &sebufhttp.ServiceHeaders{})
			need(HeadersProto)
			has = true
		}
		if has {
			sd.Options = so
		}
		for _, m := range s.Methods {
			md := &descriptorpb.MethodDescriptorProto{
				Name:       proto.String(m.Name),
				InputType:  proto.String("." + m.In),
				OutputType: proto.String("." + m.Out),
			}
			mo := &descriptorpb.MethodOptions{}
			mhas := false
			if m.HasConfig || m.Path != "" || m.Verb != "" {
				cfg := &sebufhttp.HttpConfig{Path: m.Path}
				switch m.Verb {
				case "":
				case "GET":
					cfg.Method = sebufhttp.HttpMethod_HTTP_METHOD_GET
				case "POST":
					cfg.Method = sebufhttp.HttpMethod_HTTP_METHOD_POST
				case "PUT":
					cfg.Method = sebufhttp.HttpMethod_HTTP_METHOD_PUT
				case "DELETE":
					cfg.Method = sebufhttp.HttpMethod_HTTP_METHOD_DELETE
				case "PATCH":
					cfg.Method = sebufhttp.HttpMethod_HTTP_METHOD_PATCH
				default:
					return nil, nil, fmt.Errorf("bad verb %q", m.Verb)
				}
				proto.SetExtension(mo, sebufhttp.E_Config, cfg)
				need(AnnotationsProto)
				mhas = true
			}
			if len(m.Headers) > 0 {
				proto.SetExtension(mo, sebufhttp.E_MethodHeaders, &sebufhttp.MethodHeaders{RequiredHeaders: buildHeaders(m.Headers)})
				need(HeadersProto)
				mhas = true
			} else if m.HeadersEmpty {
				proto.SetExtension(mo, sebufhttp.E_MethodHeaders, &sebufhttp.MethodHeaders{})
				need(HeadersProto)
				mhas = true
			}
			if mhas {
				md.Options = mo
			}
			sd.Method = append(sd.Method, md)
		}
		fdp.Service = append(fdp.Service, sd)
	}
	for _, md := range fdp.MessageType {
		fixMapEntries(f.Package, md)
	}
	fdp.Dependency = depOrder
	return fdp, depOrder, nil
}

func buildHeaders(hs []*Header) []*sebufhttp.Header {
	var out []*sebufhttp.Header
	for _, h := range hs {
		out = append(out, &sebufhttp.Header{Name: h.Name, Description: h.Description, Type: h.Type,
			Required: h.Required, Format: h.Format, Example: h.Example, Deprecated: h.Deprecated})
	}
	return out
}

func buildEnum(e *Enum) (*descriptorpb.EnumDescriptorProto, bool) {
	ed := &descriptorpb.EnumDescriptorProto{Name: proto.String(e.Name)}
	uses := false
	for _, v := range e.Values {
		vd := &descriptorpb.EnumValueDescriptorProto{Name: proto.String(v.Name), Number: proto.Int32(v.Number)}
		if v.EnumValue != nil {
			o := &descriptorpb.EnumValueOptions{}
			proto.SetExtension(o, sebufhttp.E_EnumValue, *v.EnumValue)
			vd.Options = o
			uses = true
		}
		ed.Value = append(ed.Value, vd)
	}
	return ed, uses
}

func enumByName[T ~int32](m map[string]int32, prefix, v string) (T, error) {
	n, ok := m[prefix+v]
	if !ok {
		return 0, fmt.Errorf("bad enum value %s%s", prefix, v)
	}
	return T(n), nil
}

// UpperCamel as protoc does for map entry names.
func mapEntryName(field string) string {
	var b strings.Builder
	up := true
	for _, c := range field {
		if c == '_' {
			up = true
			continue
		}
		if up && c >= 'a' && c <= 'z' {
			c = c - 'a' + 'A'
		}
		up = false
		b.WriteRune(c)
	}
	return b.String() + "Entry"
}

// JSONName is protoc's json_name rule.
func JSONName(name string) string {
	var b strings.Builder
	up := false
	for _, c := range name {
		if c == '_' {
			up = true
			continue
		}
		if up && c >= 'a' && c <= 'z' {
			c = c - 'a' + 'A'
		}
		up = false
		b.WriteRune(c)
	}
	return b.String()
}

func buildMessage(m *Message, need func(string)) (*descriptorpb.DescriptorProto, error) {
	md := &descriptorpb.DescriptorProto{Name: proto.String(m.Name)}
	oneofIdx := map[string]int32{}
	for i, o := range m.Oneofs {
		od := &descriptorpb.OneofDescriptorProto{Name: proto.String(o.Name)}
		if o.HasConfig {
			oo := &descriptorpb.OneofOptions{}
			proto.SetExtension(oo, sebufhttp.E_OneofConfig, &sebufhttp.OneofConfig{Discriminator: o.Discriminator, Flatten: o.Flatten})
			od.Options = oo
			need(AnnotationsProto)
		}
		md.OneofDecl = append(md.OneofDecl, od)
		oneofIdx[o.Name] = int32(i)
	}
	var synthetic []*descriptorpb.FieldDescriptorProto
	for _, f := range m.Fields {
		fd := &descriptorpb.FieldDescriptorProto{
			Name:     proto.String(f.Name),
			Number:   proto.Int32(f.Number),
			JsonName: proto.String(JSONName(f.Name)),
			Label:    descriptorpb.FieldDescriptorProto_LABEL_OPTIONAL.Enum(),
		}
		setType := func(fd *descriptorpb.FieldDescriptorProto, kind, tn string) error {
			switch kind {
			case "enum":
				fd.Type = descriptorpb.FieldDescriptorProto_TYPE_ENUM.Enum()
				fd.TypeName = proto.String("." + tn)
			case "message":
				fd.Type = descriptorpb.FieldDescriptorProto_TYPE_MESSAGE.Enum()
				fd.TypeName = proto.String("." + tn)
				if strings.HasPrefix(tn, "google.protobuf.") {
					need(wktPath(tn))
				}
			default:
				t, ok := scalarTypes[kind]
				if !ok {
					return fmt.Errorf("bad kind %q", kind)
				}
				fd.Type = t.Enum()
			}
			return nil
		}
		switch f.Card {
		case "singular":
			if err := setType(fd, f.Kind, f.TypeName); err != nil {
				return nil, err
			}
		case "optional":
			if err := setType(fd, f.Kind, f.TypeName); err != nil {
				return nil, err
			}
			fd.Proto3Optional = proto.Bool(true)
			synthetic = append(synthetic, fd)
		case "repeated":
			if err := setType(fd, f.Kind, f.TypeName); err != nil {
				return nil, err
			}
			fd.Label = descriptorpb.FieldDescriptorProto_LABEL_REPEATED.Enum()
		case "map":
			entry := &descriptorpb.DescriptorProto{
				Name:    proto.String(mapEntryName(f.Name)),
				Options: &descriptorpb.MessageOptions{MapEntry: proto.Bool(true)},
			}
			k := &descriptorpb.FieldDescriptorProto{Name: proto.String("key"), Number: proto.Int32(1), JsonName: proto.String("key"),
				Label: descriptorpb.FieldDescriptorProto_LABEL_OPTIONAL.Enum()}
			if err := setType(k, f.MapKey, ""); err != nil {
				return nil, err
			}
			v := &descriptorpb.FieldDescriptorProto{Name: proto.String("value"), Number: proto.Int32(2), JsonName: proto.String("value"),
				Label: descriptorpb.FieldDescriptorProto_LABEL_OPTIONAL.Enum()}
			if err := setType(v, f.Kind, f.TypeName); err != nil {
				return nil, err
			}
			entry.Field = []*descriptorpb.FieldDescriptorProto{k, v}
			md.NestedType = append(md.NestedType, entry)
			fd.Label = descriptorpb.FieldDescriptorProto_LABEL_REPEATED.Enum()
			fd.Type = descriptorpb.FieldDescriptorProto_TYPE_MESSAGE.Enum()
			fd.TypeName = proto.String("") // patched by caller (needs full name)
			fd.TypeName = proto.String("\x00MAPENTRY:" + entry.GetName())
		default:
			return nil, fmt.Errorf("bad card %q", f.Card)
		}
		if f.Oneof != "" {
			idx, ok := oneofIdx[f.Oneof]
			if !ok {
				return nil, fmt.Errorf("unknown oneof %q", f.Oneof)
			}
			fd.OneofIndex = proto.Int32(idx)
		}
		opts, err := buildFieldOptions(f, need)
		if err != nil {
			return nil, fmt.Errorf("field %s: %w", f.Name, err)
		}
		if opts != nil {
			fd.Options = opts
		}
		md.Field = append(md.Field, fd)
	}
	// proto3 optional: synthetic oneofs after real ones
	for _, fd := range synthetic {
		md.OneofDecl = append(md.OneofDecl, &descriptorpb.OneofDescriptorProto{Name: proto.String("_" + fd.GetName())})
		fd.OneofIndex = proto.Int32(int32(len(md.OneofDecl) - 1))
	}
	for _, e := range m.Enums {
		ed, uses := buildEnum(e)
		if uses {
			need(AnnotationsProto)
		}
		md.EnumType = append(md.EnumType, ed)
	}
	for _, n := range m.Nested {
		nd, err := buildMessage(n, need)
		if err != nil {
			return nil, err
		}
		md.NestedType = append(md.NestedType, nd)
	}
	return md, nil
}

func wktPath(tn string) string {
	switch tn {
	case "google.protobuf.Timestamp":
		return "google/protobuf/timestamp.proto"
	case "google.protobuf.Duration":
		return "google/protobuf/duration.proto"
	case "google.protobuf.Empty":
		return "google/protobuf/empty.proto"
	case "google.protobuf.Any":
		return "google/protobuf/any.proto"
	case "google.protobuf.FieldMask":
		return "google/protobuf/field_mask.proto"
	case "google.protobuf.Struct", "google.protobuf.Value", "google.protobuf.ListValue":
		return "google/protobuf/struct.proto"
	}
	return "google/protobuf/wrappers.proto"
}

func buildFieldOptions(f *Field, need func(string)) (*descriptorpb.FieldOptions, error) {
	o := &descriptorpb.FieldOptions{}
	has := false
	ann := func() { has = true; need(AnnotationsProto) }
	if f.Query != nil {
		proto.SetExtension(o, sebufhttp.E_Query, &sebufhttp.QueryConfig{Name: f.Query.Name, Required: f.Query.Required})
		ann()
	}
	if f.Unwrap {
		proto.SetExtension(o, sebufhttp.E_Unwrap, true)
		ann()
	}
	if f.Int64Encoding != "" {
		v, err := enumByName[sebufhttp.Int64Encoding](sebufhttp.Int64Encoding_value, "INT64_ENCODING_", f.Int64Encoding)
		if err != nil {
			return nil, err
		}
		proto.SetExtension(o, sebufhttp.E_Int64Encoding, v)
		ann()
	}
	if f.EnumEncoding != "" {
		v, err := enumByName[sebufhttp.EnumEncoding](sebufhttp.EnumEncoding_value, "ENUM_ENCODING_", f.EnumEncoding)
		if err != nil {
			return nil, err
		}
		proto.SetExtension(o, sebufhttp.E_EnumEncoding, v)
		ann()
	}
	if f.Nullable != nil {
		proto.SetExtension(o, sebufhttp.E_Nullable, *f.Nullable)
		ann()
	}
	if f.EmptyBehavior != "" {
		v, err := enumByName[sebufhttp.EmptyBehavior](sebufhttp.EmptyBehavior_value, "EMPTY_BEHAVIOR_", f.EmptyBehavior)
		if err != nil {
			return nil, err
		}
		proto.SetExtension(o, sebufhttp.E_EmptyBehavior, v)
		ann()
	}
	if f.TimestampFormat != "" {
		v, err := enumByName[sebufhttp.TimestampFormat](sebufhttp.TimestampFormat_value, "TIMESTAMP_FORMAT_", f.TimestampFormat)
		if err != nil {
			return nil, err
		}
		proto.SetExtension(o, sebufhttp.E_TimestampFormat, v)
		ann()
	}
	if f.BytesEncoding != "" {
		v, err := enumByName[sebufhttp.BytesEncoding](sebufhttp.BytesEncoding_value, "BYTES_ENCODING_", f.BytesEncoding)
		if err != nil {
			return nil, err
		}
		proto.SetExtension(o, sebufhttp.E_BytesEncoding, v)
		ann()
	}
	if f.OneofValue != nil {
		proto.SetExtension(o, sebufhttp.E_OneofValue, *f.OneofValue)
		ann()
	}
	if f.Flatten != nil {
		proto.SetExtension(o, sebufhttp.E_Flatten, *f.Flatten)
		ann()
	}
	if f.FlattenPrefix != nil {
		proto.SetExtension(o, sebufhttp.E_FlattenPrefix, *f.FlattenPrefix)
		ann()
	}
	if len(f.Examples) > 0 {
		proto.SetExtension(o, sebufhttp.E_FieldExamples, &sebufhttp.FieldExamples{Values: f.Examples})
		ann()
	}
	for _, name := range f.PresentEmpty {
		// present-but-empty forms; an annotation already set above keeps its value
		switch name {
		case "field_examples":
			if !proto.HasExtension(o, sebufhttp.E_FieldExamples) {
				proto.SetExtension(o, sebufhttp.E_FieldExamples, &sebufhttp.FieldExamples{})
			}
		case "query":
			if !proto.HasExtension(o, sebufhttp.E_Query) {
				proto.SetExtension(o, sebufhttp.E_Query, &sebufhttp.QueryConfig{})
			}
		case "unwrap":
			if !proto.HasExtension(o, sebufhttp.E_Unwrap) {
				proto.SetExtension(o, sebufhttp.E_Unwrap, false)
			}
		case "nullable":
			if !proto.HasExtension(o, sebufhttp.E_Nullable) {
				proto.SetExtension(o, sebufhttp.E_Nullable, false)
			}
		case "flatten":
			if !proto.HasExtension(o, sebufhttp.E_Flatten) {
				proto.SetExtension(o, sebufhttp.E_Flatten, false)
			}
		case "flatten_prefix":
			if !proto.HasExtension(o, sebufhttp.E_FlattenPrefix) {
				proto.SetExtension(o, sebufhttp.E_FlattenPrefix, "")
			}
		case "oneof_value":
			if !proto.HasExtension(o, sebufhttp.E_OneofValue) {
				proto.SetExtension(o, sebufhttp.E_OneofValue, "")
			}
		case "int64_encoding":
			if !proto.HasExtension(o, sebufhttp.E_Int64Encoding) {
				proto.SetExtension(o, sebufhttp.E_Int64Encoding, sebufhttp.Int64Encoding(0))
			}
		case "enum_encoding":
			if !proto.HasExtension(o, sebufhttp.E_EnumEncoding) {
				proto.SetExtension(o, sebufhttp.E_EnumEncoding, sebufhttp.EnumEncoding(0))
			}
		case "empty_behavior":
			if !proto.HasExtension(o, sebufhttp.E_EmptyBehavior) {
				proto.SetExtension(o, sebufhttp.E_EmptyBehavior, sebufhttp.EmptyBehavior(0))
			}
		case "timestamp_format":
			if !proto.HasExtension(o, sebufhttp.E_TimestampFormat) {
				proto.SetExtension(o, sebufhttp.E_TimestampFormat, sebufhttp.TimestampFormat(0))
			}
		case "bytes_encoding":
			if !proto.HasExtension(o, sebufhttp.E_BytesEncoding) {
				proto.SetExtension(o, sebufhttp.E_BytesEncoding, sebufhttp.BytesEncoding(0))
			}
		default:
			return nil, fmt.Errorf("field %s: unknown present-empty annotation %q", f.Name, name)
		}
		ann()
	}
	if f.Rules != nil {
		txt := RulesText(f)
		fr := &validate.FieldRules{}
		if err := prototext.Unmarshal([]byte(txt), fr); err != nil {
			return nil, fmt.Errorf("rules %q: %w", txt, err)
		}
		proto.SetExtension(o, validate.E_Field, fr)
		need(ValidateProto)
		has = true
	}
	if !has {
		return nil, nil
	}
	return o, nil
}

// RulesText renders the structured rule subset as buf.validate.FieldRules text format.
func RulesText(f *Field) string {
	r := f.Rules
	var top []string
	if r.Required {
		top = append(top, "required: true")
	}
	q := func(s string) string { return fmt.Sprintf("%q", s) }
	var str []string
	if r.MinLen != nil {
		str = append(str, fmt.Sprintf("min_len: %d", *r.MinLen))
	}
	if r.MaxLen != nil {
		str = append(str, fmt.Sprintf("max_len: %d", *r.MaxLen))
	}
	if r.Len != nil {
		str = append(str, fmt.Sprintf("len: %d", *r.Len))
	}
	if r.Pattern != nil {
		str = append(str, "pattern: "+q(*r.Pattern))
	}
	for _, s := range r.StrIn {
		str = append(str, "in: "+q(s))
	}
	for _, s := range r.StrNotIn {
		str = append(str, "not_in: "+q(s))
	}
	if r.StrConst != nil {
		str = append(str, "const: "+q(*r.StrConst))
	}
	if r.WellKnownOff != "" {
		str = append(str, r.WellKnownOff+": false")
	}
	if r.WellKnown != "" {
		str = append(str, r.WellKnown+": true")
	}
	var num []string
	if r.NumGt != nil {
		num = append(num, "gt: "+*r.NumGt)
	}
	if r.NumGte != nil {
		num = append(num, "gte: "+*r.NumGte)
	}
	if r.NumLt != nil {
		num = append(num, "lt: "+*r.NumLt)
	}
	if r.NumLte != nil {
		num = append(num, "lte: "+*r.NumLte)
	}
	if r.NumConst != nil {
		num = append(num, "const: "+*r.NumConst)
	}
	for _, s := range r.NumIn {
		num = append(num, "in: "+s)
	}
	inner := ""
	if len(str) > 0 {
		inner = "string { " + strings.Join(str, " ") + " }"
	}
	if len(num) > 0 {
		inner = f.Kind + " { " + strings.Join(num, " ") + " }"
	}
	switch f.Card {
	case "repeated":
		var rep []string
		if r.MinItems != nil {
			rep = append(rep, fmt.Sprintf("min_items: %d", *r.MinItems))
		}
		if r.MaxItems != nil {
			rep = append(rep, fmt.Sprintf("max_items: %d", *r.MaxItems))
		}
		if r.Unique != nil {
			rep = append(rep, fmt.Sprintf("unique: %v", *r.Unique))
		}
		if inner != "" {
			rep = append(rep, "items { "+inner+" }")
		}
		if len(rep) > 0 {
			top = append(top, "repeated { "+strings.Join(rep, " ")+" }")
		}
	case "map":
		var mp []string
		if r.MinPairs != nil {
			mp = append(mp, fmt.Sprintf("min_pairs: %d", *r.MinPairs))
		}
		if r.MaxPairs != nil {
			mp = append(mp, fmt.Sprintf("max_pairs: %d", *r.MaxPairs))
		}
		if inner != "" {
			mp = append(mp, "values { "+inner+" }")
		}
		if len(mp) > 0 {
			top = append(top, "map { "+strings.Join(mp, " ")+" }")
		}
	default:
		if inner != "" {
			top = append(top, inner)
		}
	}
	return strings.Join(top, " ")
}

// FixMapEntryNames patches the placeholder map-entry type names with fully-qualified names.
func fixMapEntries(prefix string, md *descriptorpb.DescriptorProto) {
	full := qual(prefix, md.GetName())
	for _, f := range md.Field {
		if strings.HasPrefix(f.GetTypeName(), "\x00MAPENTRY:") {
			f.TypeName = proto.String("." + full + "." + strings.TrimPrefix(f.GetTypeName(), "\x00MAPENTRY:"))
		}
	}
	for _, n := range md.NestedType {
		fixMapEntries(full, n)
	}
}
