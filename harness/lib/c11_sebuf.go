package lib

import (
	"google.golang.org/protobuf/encoding/protojson"
	"google.golang.org/protobuf/proto"

	sebufhttp "github.com/SebastienMelki/sebuf/http"
)

var dynamicpbVE sebufhttp.ValidationError

// decodesAsSebuf: does the body decode as sebuf.http.ValidationError / sebuf.http.Error under the
// client's format (0 = JSON, 1 = binary)?
func decodesAsSebuf(body []byte, ct int) (bool, bool) {
	ve, e := &sebufhttp.ValidationError{}, &sebufhttp.Error{}
	if ct == 0 {
		return protojson.Unmarshal(body, ve) == nil, protojson.Unmarshal(body, e) == nil
	}
	return proto.Unmarshal(body, ve) == nil, proto.Unmarshal(body, e) == nil
}
