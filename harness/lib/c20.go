package lib

import (
	"encoding/hex"
	"encoding/json"
	"fmt"
	"math/rand"
	"regexp"
	"sort"
	"strconv"
	"strings"

	"google.golang.org/protobuf/reflect/protoreflect"
)

// ---- projecting a mock response ------------------------------------------------------------------

var uuidRe = regexp.MustCompile(`^[0-9a-f]{8}-[0-9a-f]{4}-[0-9a-f]{4}-[0-9a-f]{4}-[0-9a-f]{12}$`)

func fmtFloat(v float64) string { return strconv.FormatFloat(v, 'g', -1, 64) }

func mockHandled(k protoreflect.Kind) bool {
	switch k {
	case protoreflect.StringKind, protoreflect.Int32Kind, protoreflect.Int64Kind, protoreflect.BoolKind, protoreflect.FloatKind, protoreflect.DoubleKind:
		return true
	}
	return false
}

func scalarText(fd protoreflect.FieldDescriptor, v protoreflect.Value) string {
	switch fd.Kind() {
	case protoreflect.StringKind:
		if uuidRe.MatchString(v.String()) {
			return "<uuid>"
		}
		return v.String()
	case protoreflect.BoolKind:
		return strconv.FormatBool(v.Bool())
	case protoreflect.FloatKind:
		return strconv.FormatFloat(v.Float(), 'g', -1, 32)
	case protoreflect.DoubleKind:
		return fmtFloat(v.Float())
	case protoreflect.BytesKind:
		return string(v.Bytes())
	case protoreflect.EnumKind:
		if ev := fd.Enum().Values().ByNumber(v.Enum()); ev != nil {
			return string(ev.Name())
		}
		return strconv.Itoa(int(v.Enum()))
	case protoreflect.Uint32Kind, protoreflect.Uint64Kind, protoreflect.Fixed32Kind, protoreflect.Fixed64Kind:
		return strconv.FormatUint(v.Uint(), 10)
	default:
		return strconv.FormatInt(v.Int(), 10)
	}
}

func mapKeyText(k protoreflect.MapKey) string {
	switch x := k.Interface().(type) {
	case string:
		return x
	case bool:
		return strconv.FormatBool(x)
	default:
		return fmt.Sprint(x)
	}
}

// mockLeaves walks a response the way Mock.v does: handled scalar kinds of singular fields, set
// message fields, map entries; repeated fields are not looked at.
func mockLeaves(m protoreflect.Message, p string, leaves map[string]string, present map[string]bool, all map[string][]string) {
	fs := m.Descriptor().Fields()
	for i := 0; i < fs.Len(); i++ {
		fd := fs.Get(i)
		here := string(fd.Name())
		if p != "" {
			here = p + "." + here
		}
		switch {
		case fd.IsMap():
			m.Get(fd).Map().Range(func(k protoreflect.MapKey, v protoreflect.Value) bool {
				keyed := here + "[" + mapKeyText(k) + "]"
				if fd.MapValue().Message() != nil {
					present[keyed] = true
					mockLeaves(v.Message(), keyed, leaves, present, all)
				} else {
					leaves[keyed] = scalarText(fd.MapValue(), v)
				}
				return true
			})
		case fd.IsList():
			l := m.Get(fd).List()
			for j := 0; j < l.Len(); j++ {
				if fd.Message() == nil {
					all[here] = append(all[here], scalarText(fd, l.Get(j)))
				}
			}
			if l.Len() == 0 {
				all[here] = append(all[here], "<empty list>")
			}
		case fd.Message() != nil:
			if m.Has(fd) {
				present[here] = true
				mockLeaves(m.Get(fd).Message(), here, leaves, present, all)
			}
		default:
			t := scalarText(fd, m.Get(fd))
			if mockHandled(fd.Kind()) {
				leaves[here] = t
			}
			all[here] = append(all[here], t)
		}
	}
}

// exampleOK: does text v equal one of the examples parsed to the field's type (Go's own parsers)?
func exampleOK(fd protoreflect.FieldDescriptor, examples []string, v string) bool {
	for _, e := range examples {
		var want string
		ok := true
		switch fd.Kind() {
		case protoreflect.StringKind, protoreflect.BytesKind, protoreflect.EnumKind:
			want = e
		case protoreflect.BoolKind:
			b, err := strconv.ParseBool(e)
			ok, want = err == nil, strconv.FormatBool(b)
		case protoreflect.FloatKind, protoreflect.DoubleKind:
			f, err := strconv.ParseFloat(e, 64)
			ok, want = err == nil, fmtFloat(f)
		case protoreflect.Uint32Kind, protoreflect.Uint64Kind, protoreflect.Fixed32Kind, protoreflect.Fixed64Kind:
			u, err := strconv.ParseUint(e, 10, 64)
			ok, want = err == nil, strconv.FormatUint(u, 10)
		default:
			n, err := strconv.ParseInt(e, 10, 64)
			ok, want = err == nil, strconv.FormatInt(n, 10)
		}
		if ok && want == v {
			return true
		}
	}
	return false
}

// coqExamples renders the example table and the float-parse table of a request.
func coqExamples(r *Request) (string, string) {
	var ex, ft []string
	seenF := map[string]bool{}
	var walk func(pkg string, prefix []string, ms []*Message)
	walk = func(pkg string, prefix []string, ms []*Message) {
		for _, m := range ms {
			p := append(append([]string{}, prefix...), m.Name)
			for _, f := range m.Fields {
				if len(f.Examples) == 0 {
					continue
				}
				ex = append(ex, fmt.Sprintf("(%s, %s, %s)", CoqStr(qual(pkg, strings.Join(p, "."))), CoqStr(f.Name), CoqStrList(f.Examples)))
				if f.Kind == "float" || f.Kind == "double" {
					for _, e := range f.Examples {
						if seenF[e] {
							continue
						}
						seenF[e] = true
						if v, err := strconv.ParseFloat(e, 64); err == nil {
							ft = append(ft, fmt.Sprintf("(%s, Some %s)", CoqStr(e), CoqStr(fmtFloat(v))))
						} else {
							ft = append(ft, fmt.Sprintf("(%s, None)", CoqStr(e)))
						}
					}
				}
			}
			walk(pkg, p, m.Nested)
		}
	}
	for _, f := range r.Files {
		walk(f.Package, nil, f.Messages)
	}
	return "[" + strings.Join(ex, "; ") + "]", "[" + strings.Join(ft, "; ") + "]"
}

func findFieldSpec(r *Request, full string, name string) *Field {
	m, _ := r.FindMessage(full)
	if m == nil {
		return nil
	}
	for _, f := range m.Fields {
		if f.Name == name {
			return f
		}
	}
	return nil
}

// declaredExamples maps every leaf path of a response value to the examples its field declares.
func checkExamples(r *Request, m protoreflect.Message, notes *[]string) bool {
	ok := true
	var walk func(m protoreflect.Message)
	walk = func(m protoreflect.Message) {
		fs := m.Descriptor().Fields()
		for i := 0; i < fs.Len(); i++ {
			fd := fs.Get(i)
			spec := findFieldSpec(r, string(m.Descriptor().FullName()), string(fd.Name()))
			var exs []string
			if spec != nil {
				exs = spec.Examples
			}
			switch {
			case fd.IsMap():
				if len(exs) > 0 {
					good := false
					m.Get(fd).Map().Range(func(k protoreflect.MapKey, v protoreflect.Value) bool {
						if fd.MapValue().Message() == nil && exampleOK(fd.MapValue(), exs, scalarText(fd.MapValue(), v)) {
							good = true
						}
						return true
					})
					if !good {
						ok = false
						*notes = append(*notes, fmt.Sprintf("%s.%s declares examples %v, none of them appears in the map", m.Descriptor().Name(), fd.Name(), exs))
					}
				}
				m.Get(fd).Map().Range(func(k protoreflect.MapKey, v protoreflect.Value) bool {
					if fd.MapValue().Message() != nil {
						walk(v.Message())
					}
					return true
				})
			case fd.IsList():
				if len(exs) > 0 && fd.Message() == nil {
					l := m.Get(fd).List()
					good := l.Len() > 0
					for j := 0; j < l.Len(); j++ {
						if !exampleOK(fd, exs, scalarText(fd, l.Get(j))) {
							good = false
						}
					}
					if !good {
						ok = false
						*notes = append(*notes, fmt.Sprintf("%s.%s declares examples %v, the list holds %d elements", m.Descriptor().Name(), fd.Name(), exs, l.Len()))
					}
				}
			case fd.Message() != nil:
				if m.Has(fd) {
					walk(m.Get(fd).Message())
				}
			default:
				if len(exs) > 0 {
					v := scalarText(fd, m.Get(fd))
					if !exampleOK(fd, exs, v) {
						ok = false
						*notes = append(*notes, fmt.Sprintf("%s.%s = %q is none of its examples %v", m.Descriptor().Name(), fd.Name(), v, exs))
					}
				}
			}
		}
	}
	walk(m)
	return ok
}

func CheckC20(run *Run) {
	run.Proof = CheckProofs("C20")
	run.Prepare()
	reqs := MockCatalogue()
	// the selector is random: with k examples per field the chance that n calls never show one of them is about
	// k*(1-1/k)^n; 13 examples (the largest list of the catalogue) and 64 calls missed one in every 13th run
	nCalls, nRandom := 600, 12
	if run.Tier == "thorough" {
		nCalls, nRandom = 1500, 200
	}
	reqs = append(reqs, RandomMockRequests(rand.New(rand.NewSource(run.Seed+20)), nRandom)...)
	nShared := 3
	if run.Tier == "thorough" {
		nShared = 40
	}
	reqs = append(reqs, RandomSharedMockRequests(rand.New(rand.NewSource(run.Seed+2020)), nShared)...)
	s := NewSession(run, reqs)
	// build verdict on the emitted files alone (no harness shim)
	w, err := NewGoWork(fmt.Sprintf("%s-%s-%s-v", run.Property, run.Tier, run.TreeHash))
	if err != nil {
		run.Fatal("%v", err)
	}
	var dirs []string
	refused := map[string]string{}
	unanswered := map[string]string{}
	for i, r := range reqs {
		g := s.Gens[i]
		for _, p := range []string{"go-http", "go-client"} {
			if g.Results[p].Exit != "ok" {
				refused[r.ID] = fmt.Sprintf("%s: %s %s", p, g.Results[p].Exit, firstLine(g.Results[p].Error))
				if g.Results[p].Exit != "error-response" {
					// no answer at all (timeout, crash, killed): the mock generator must terminate on every
					// response type, recursive ones included
					unanswered[r.ID] = refused[r.ID]
				}
			}
		}
		if refused[r.ID] != "" {
			continue
		}
		files, ok := s.PackageFiles(g, true, true)
		if !ok {
			run.Fatal("no files for %s", r.ID)
		}
		hasMock := false
		renamed := map[string]string{}
		for n, c := range files {
			parts := strings.SplitN(n, "/", 2)
			renamed["m_"+r.ID+"/"+parts[1]] = c
			if strings.HasSuffix(n, "_http_mock.pb.go") {
				hasMock = true
			}
		}
		if !hasMock {
			run.Fatal("%s: generate_mock=true produced no *_http_mock.pb.go", r.ID)
		}
		if err := w.WritePackage(renamed); err != nil {
			run.Fatal("%v", err)
		}
		dirs = append(dirs, "m_"+r.ID)
	}
	verdicts := w.BuildVet(dirs, 14)
	// the runner links the packages that build (with shim)
	s.BuildRuntime(false)

	type rpcRef struct {
		r        *Request
		svc, md  string
		out      string
		from, to int
	}
	var scenarios []any
	var refs []*rpcRef
	for i, r := range reqs {
		_ = i
		if refused[r.ID] != "" || !s.InRunner[r.ID] {
			continue
		}
		for _, f := range r.Files {
			if !f.Generate {
				continue
			}
			for _, sv := range f.Services {
				for _, m := range sv.Methods {
					ref := &rpcRef{r: r, svc: sv.Name, md: m.Name, out: m.Out, from: len(scenarios)}
					for k := 0; k < nCalls; k++ {
						scenarios = append(scenarios, map[string]any{"id": fmt.Sprintf("%s/%s.%s/%d", r.ID, sv.Name, m.Name, k), "kind": "call", "pkg": r.ID,
							"service": sv.Name, "method": m.Name, "req": "", "script": map[string]any{"mock": true}})
					}
					ref.to = len(scenarios)
					refs = append(refs, ref)
				}
			}
		}
	}
	raws, err := RunScenarios(s.Runner, scenarios, 8)
	if err != nil {
		run.Fatal("runner: %v", err)
	}
	type rpcObs struct {
		leaves  map[string]map[string]bool
		present map[string]bool
		notes   []string
		ok      bool
	}
	byReq := map[string]map[string]*rpcObs{}
	notEscape, sawExampleFailure := map[string]bool{}, map[string]bool{}
	for _, ref := range refs {
		b := s.ByID[ref.r.ID].Built
		o := &rpcObs{leaves: map[string]map[string]bool{}, present: map[string]bool{}, ok: true}
		if byReq[ref.r.ID] == nil {
			byReq[ref.r.ID] = map[string]*rpcObs{}
		}
		byReq[ref.r.ID][ref.svc+"."+ref.md] = o
		for k := ref.from; k < ref.to; k++ {
			var ro RunnerObs
			if err := json.Unmarshal(raws[k], &ro); err != nil {
				run.Fatal("bad observation: %v", err)
			}
			if ro.Status != 200 || ro.Client == nil || ro.Client.Resp == nil || ro.Panic != "" {
				o.ok = false
				notEscape[ref.r.ID] = true
				body, _ := hex.DecodeString(ro.RespBodyHex)
				o.notes = append(o.notes, fmt.Sprintf("%s.%s: status %d panic=%q error=%q body=%s", ref.svc, ref.md, ro.Status, firstLine(ro.Panic), ro.Error, tail(string(body), 120)))
				break
			}
			msg, err := b.FromWireHex(ref.out, *ro.Client.Resp)
			if err != nil {
				run.Fatal("decoding response of %s: %v", ref.md, err)
			}
			lv, pr, all := map[string]string{}, map[string]bool{}, map[string][]string{}
			mockLeaves(msg.ProtoReflect(), "", lv, pr, all)
			for p, v := range lv {
				if o.leaves[p] == nil {
					o.leaves[p] = map[string]bool{}
				}
				o.leaves[p][v] = true
			}
			for p := range pr {
				o.present[p] = true
			}
			if !checkExamples(ref.r, msg.ProtoReflect(), &o.notes) {
				o.ok = false
				sawExampleFailure[ref.r.ID] = true
				if !goEscapeExplains(ref.r, msg.ProtoReflect()) {
					notEscape[ref.r.ID] = true
				}
			}
		}
	}

	// requests whose ONLY failure is that an example text with a backslash came back as what the Go string literal
	// it was printed into denotes
	escapeOnly := map[string]bool{}
	for id := range sawExampleFailure {
		if !notEscape[id] {
			escapeOnly[id] = true
		}
	}
	var ccs []CoqCase
	var crs []*CaseResult
	for _, r := range reqs {
		if unanswered[r.ID] != "" {
			run.Results = append(run.Results, &CaseResult{ID: r.ID, Family: "mock", Input: map[string]any{"schema": r.ID}, Obs: map[string]any{"plugin": unanswered[r.ID]},
				Unmodelled: "plugin did not answer", OracleHolds: false, OracleNote: "generate_mock=true: " + unanswered[r.ID], NonTrivial: true, Features: []string{"mock"}})
			continue
		}
		if refused[r.ID] != "" {
			run.Notes = append(run.Notes, "refused: "+r.ID+": "+refused[r.ID])
			continue
		}
		v := verdicts["m_"+r.ID]
		obs := map[string]any{"build": v.Build, "classes": v.Classes}
		holds := v.Build
		var notes []string
		if !v.Build {
			notes = append(notes, "build: "+firstDiag(v.Output))
		}
		rpcs := map[string]any{}
		if v.Build {
			if !s.InRunner[r.ID] {
				run.Fatal("%s builds without the harness shim but not with it: %s", r.ID, s.Verdict[r.ID].Output)
			}
			for name, o := range byReq[r.ID] {
				lj := map[string]any{}
				for p, set := range o.leaves {
					var vs []string
					for x := range set {
						vs = append(vs, x)
					}
					sort.Strings(vs)
					lj[p] = vs
				}
				var pr []string
				for p := range o.present {
					pr = append(pr, p)
				}
				sort.Strings(pr)
				if pr == nil {
					pr = []string{}
				}
				rpcs[name] = map[string]any{"leaves": lj, "present": pr}
				if !o.ok {
					holds = false
					seen := map[string]bool{}
					for _, n := range o.notes {
						if !seen[n] && len(seen) < 4 {
							seen[n] = true
							notes = append(notes, n)
						}
					}
				}
			}
		}
		obs["rpcs"] = rpcs
		ex, ft := coqExamples(r)
		cr := &CaseResult{ID: r.ID, Family: "mock", Input: map[string]any{"schema": r.ID, "calls_per_rpc": nCalls}, Obs: obs,
			OracleHolds: holds, OracleNote: strings.Join(notes, " | "), NonTrivial: true, Features: []string{"mock"}}
		crs = append(crs, cr)
		ccs = append(ccs, CoqCase{Term: "(" + CoqSchema(r) + ",\n " + ex + ",\n " + ft + ")", Obs: obs})
	}
	vs, err := CoqRun(run.WorkDir, "c20", "From Sebuf Require Import Text Json Schema Emit Mock.\n", "", "mcase", "predict_C20", ccs, 8)
	if err != nil {
		run.Fatal("model evaluation: %v", err)
	}
	for i, cr := range crs {
		cr.Apply(vs[i])
		if cr.Unmodelled != "" && !cr.OracleHolds && escapeOnly[cr.ID] {
			// outside the model (Mock.v leaves example texts with a backslash alone); the failure is exactly the
			// interpretation of the example as a Go string literal, computed above from the responses
			cr.Tags = []string{"z3:mock-example-go-escape"}
		}
		run.Results = append(run.Results, cr)
	}
	run.Extra["mock_calls"] = len(scenarios)
	run.Extra["calls_per_rpc"] = nCalls
	run.Extra["note"] = "value sets are the distinct values seen over calls_per_rpc calls; the selectors draw uniformly from at most 13 values, so a missing value has probability < 13*(12/13)^600 < 1e-19"
	DumpResults(run)
	run.Finish()
}

// goEscapeExplains: every singular scalar field of the response that is none of its examples holds what
// strconv.Unquote makes of one of its examples that contains a backslash; nothing else is wrong.
func goEscapeExplains(r *Request, m protoreflect.Message) bool {
	ok := true
	var walk func(m protoreflect.Message)
	walk = func(m protoreflect.Message) {
		fs := m.Descriptor().Fields()
		for i := 0; i < fs.Len(); i++ {
			fd := fs.Get(i)
			spec := findFieldSpec(r, string(m.Descriptor().FullName()), string(fd.Name()))
			var exs []string
			if spec != nil {
				exs = spec.Examples
			}
			switch {
			case fd.IsMap():
				if len(exs) > 0 {
					ok = false // examples on a map field are never used: another finding
				}
				m.Get(fd).Map().Range(func(k protoreflect.MapKey, v protoreflect.Value) bool {
					if fd.MapValue().Message() != nil {
						walk(v.Message())
					}
					return true
				})
			case fd.IsList():
				if len(exs) > 0 && fd.Message() == nil {
					ok = false
				}
			case fd.Message() != nil:
				if m.Has(fd) {
					walk(m.Get(fd).Message())
				}
			default:
				if len(exs) == 0 {
					continue
				}
				v := scalarText(fd, m.Get(fd))
				if exampleOK(fd, exs, v) {
					continue
				}
				var unq []string
				for _, e := range exs {
					if !strings.Contains(e, "\\") {
						continue
					}
					if u, err := strconv.Unquote("\"" + e + "\""); err == nil {
						unq = append(unq, u)
					}
				}
				if !exampleOK(fd, unq, v) {
					ok = false
				}
			}
		}
	}
	walk(m)
	return ok
}
