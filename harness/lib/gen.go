package lib

import "sync"

// ParallelGen runs GenAll for every request, 8 at a time.
func ParallelGen(binDir string, reqs []*Request) []*GenOutput {
	out := make([]*GenOutput, len(reqs))
	var wg sync.WaitGroup
	sem := make(chan struct{}, 8)
	for i, r := range reqs {
		wg.Add(1)
		go func(i int, r *Request) {
			defer wg.Done()
			sem <- struct{}{}
			defer func() { <-sem }()
			out[i] = GenAll(binDir, r)
		}(i, r)
	}
	wg.Wait()
	return out
}
