package lib

import (
	"fmt"
	"regexp"
	"strings"

	yaml "go.yaml.in/yaml/v4"
)

// RouteObs is the (verb, template, placement) projection of one generator's output for one RPC.
type RouteObs struct {
	Verb     string   `json:"verb"`
	Path     string   `json:"path"`
	PathVars []string `json:"pathvars"`
	Query    []string `json:"query"`
	Body     bool     `json:"body"`
}

// sameFieldName: does an accessor spelled by a generator (OrgId, orgId, org_id, Item_2Id ...) denote the
// field a URL variable is named after?  Compared without case and underscores, so that every
// spelling convention passes and only a DIFFERENT field fails.
func sameFieldName(accessor, variable string) bool {
	n := func(x string) string { return strings.ToLower(strings.ReplaceAll(x, "_", "")) }
	return n(accessor) == n(variable)
}

// boundTo renders a path variable of a projection: the bare variable name when the generator pairs it
// with the field of that name, "<variable>(bound to <accessor>)" when it reads or writes another field.
func boundTo(variable, accessor string) string {
	if accessor == "" || sameFieldName(accessor, variable) {
		return variable
	}
	return variable + "(bound to " + accessor + ")"
}

func lowerFirst(s string) string {
	if s == "" {
		return s
	}
	return strings.ToLower(s[:1]) + s[1:]
}

var (
	reGoHandle   = regexp.MustCompile(`config\.mux\.Handle\("([A-Z]+) ([^"]*)", (\w+)Handler\)`)
	reGoParamVar = regexp.MustCompile(`var (\w+)(Path|Query)Params = \[\](?:Path|Query)ParamConfig\{((?:\n\t\{[^\n]*\},)*)\n?\}`)
	reURLParam   = regexp.MustCompile(`URLParam: "([^"]*)"(?:, FieldName: "([^"]*)")?`)
	reQueryName  = regexp.MustCompile(`QueryName: "([^"]*)"`)
)

// GoServerRoutes reads the routes the emitted Go server registers: map key = lowerFirst(method GoName).
func GoServerRoutes(httpFile string) map[string]*RouteObs {
	out := map[string]*RouteObs{}
	for _, m := range reGoHandle.FindAllStringSubmatch(httpFile, -1) {
		v := m[1]
		out[m[3]] = &RouteObs{Verb: v, Path: m[2], Body: v == "POST" || v == "PUT" || v == "PATCH", PathVars: []string{}, Query: []string{}}
	}
	for _, m := range reGoParamVar.FindAllStringSubmatch(httpFile, -1) {
		r := out[m[1]]
		if r == nil {
			continue
		}
		if m[2] == "Path" {
			for _, x := range reURLParam.FindAllStringSubmatch(m[3], -1) {
				r.PathVars = append(r.PathVars, boundTo(x[1], x[2]))
			}
		} else {
			for _, x := range reQueryName.FindAllStringSubmatch(m[3], -1) {
				r.Query = append(r.Query, x[1])
			}
		}
	}
	return out
}

var (
	reGoMiddleware = regexp.MustCompile(`(?s)(\w+)Handler := BindingMiddleware\[[^\]]*\]\(\n.*?\n\t\t"([A-Z]*)", config\.errorHandler,\n\t\)`)
	reGoBodyCond   = regexp.MustCompile(`(?s)if ((?:httpMethod == "[A-Z]+"(?: \|\| )?)+) \{\n\s*err := bindDataBasedOnContentType\(r, toBind\)`)
	reGoBodyVerb   = regexp.MustCompile(`httpMethod == "([A-Z]+)"`)
)

// GoServerBodyBinding refines the Body projection of the Go server routes: an RPC's handler reads a request
// body iff the verb literal its BindingMiddleware instance receives is one of the verbs the emitted
// BindingMiddleware calls bindDataBasedOnContentType for.  When either piece cannot be read from the
// emitted code the projection is left as derived from the registered verb.
func GoServerBodyBinding(routes map[string]*RouteObs, httpFile, bindingFile string) {
	cond := reGoBodyCond.FindStringSubmatch(bindingFile)
	if cond == nil {
		return
	}
	binds := map[string]bool{}
	for _, m := range reGoBodyVerb.FindAllStringSubmatch(cond[1], -1) {
		binds[m[1]] = true
	}
	for _, m := range reGoMiddleware.FindAllStringSubmatch(httpFile, -1) {
		if r := routes[m[1]]; r != nil {
			r.Body = binds[m[2]]
		}
	}
}

var (
	reGoCliFunc  = regexp.MustCompile(`(?m)^func \(c \*(\w+)Client\) (\w+)\(ctx context\.Context, req `)
	reGoCliPath  = regexp.MustCompile(`(?m)^\s*path := "([^"]*)"`)
	reGoCliRepl  = regexp.MustCompile(`strings\.Replace\(path, "\{([^"]*)\}", url\.PathEscape(?:\(fmt\.Sprint\(req\.(\w+)\)\))?`)
	reGoCliQSet  = regexp.MustCompile(`queryParams\.Set\("([^"]*)"`)
	reGoCliNewRq = regexp.MustCompile(`http\.NewRequestWithContext\(ctx, "([A-Z]+)", reqURL, (nil|bytes\.NewReader\(body\))\)`)
)

// GoClientRoutes reads the request line each emitted Go client method builds: key = "<lowerService>.<Method>".
func GoClientRoutes(clientFile string) map[string]*RouteObs {
	out := map[string]*RouteObs{}
	locs := reGoCliFunc.FindAllStringSubmatchIndex(clientFile, -1)
	for i, loc := range locs {
		end := len(clientFile)
		if i+1 < len(locs) {
			end = locs[i+1][0]
		}
		body := clientFile[loc[0]:end]
		svc := clientFile[loc[2]:loc[3]]
		meth := clientFile[loc[4]:loc[5]]
		r := &RouteObs{PathVars: []string{}, Query: []string{}}
		if m := reGoCliPath.FindStringSubmatch(body); m != nil {
			r.Path = m[1]
		} else {
			continue // helper methods
		}
		for _, m := range reGoCliRepl.FindAllStringSubmatch(body, -1) {
			r.PathVars = append(r.PathVars, boundTo(m[1], m[2]))
		}
		for _, m := range reGoCliQSet.FindAllStringSubmatch(body, -1) {
			r.Query = append(r.Query, m[1])
		}
		if m := reGoCliNewRq.FindStringSubmatch(body); m != nil {
			r.Verb = m[1]
			r.Body = m[2] != "nil"
		}
		out[svc+"."+meth] = r
	}
	return out
}

var (
	reTsCliClass = regexp.MustCompile(`(?m)^export class (\w+)Client \{`)
	reTsCliMeth  = regexp.MustCompile(`(?m)^  async (\w+)\(req: `)
	reTsCliPath  = regexp.MustCompile(`let path = "([^"]*)";`)
	reTsCliRepl  = regexp.MustCompile(`path = path\.replace\("\{([^"]*)\}", encodeURIComponent(?:\(String\(req\.(\w+)\)\))?`)
	reTsCliQSet  = regexp.MustCompile(`params\.set\("([^"]*)"`)
	reTsMethod   = regexp.MustCompile(`method: "([A-Z]+)",`)
)

// TsClientRoutes: key = "<Service>.<lowerFirstMethod>".
func TsClientRoutes(ts string) map[string]*RouteObs {
	out := map[string]*RouteObs{}
	classes := reTsCliClass.FindAllStringSubmatchIndex(ts, -1)
	for ci, cl := range classes {
		cend := len(ts)
		if ci+1 < len(classes) {
			cend = classes[ci+1][0]
		}
		svc := ts[cl[2]:cl[3]]
		cbody := ts[cl[0]:cend]
		locs := reTsCliMeth.FindAllStringSubmatchIndex(cbody, -1)
		for i, loc := range locs {
			end := len(cbody)
			if i+1 < len(locs) {
				end = locs[i+1][0]
			}
			body := cbody[loc[0]:end]
			if j := strings.Index(body, "private async handleError"); j >= 0 {
				body = body[:j]
			}
			r := &RouteObs{PathVars: []string{}, Query: []string{}}
			if m := reTsCliPath.FindStringSubmatch(body); m != nil {
				r.Path = m[1]
			}
			for _, m := range reTsCliRepl.FindAllStringSubmatch(body, -1) {
				r.PathVars = append(r.PathVars, boundTo(m[1], m[2]))
			}
			for _, m := range reTsCliQSet.FindAllStringSubmatch(body, -1) {
				r.Query = append(r.Query, m[1])
			}
			if m := reTsMethod.FindStringSubmatch(body); m != nil {
				r.Verb = m[1]
			}
			r.Body = strings.Contains(body, "body: JSON.stringify(req)")
			out[svc+"."+cbody[loc[2]:loc[3]]] = r
		}
	}
	return out
}

var (
	reTsSrvFunc  = regexp.MustCompile(`(?m)^export function create(\w+)Routes\(`)
	reTsSrvEntry = regexp.MustCompile(`(?m)^    \{\n      method: "([A-Z]+)",\n      path: "([^"]*)",`)
	reTsSrvPP    = regexp.MustCompile(`pathParams\["([^"]*)"\] = decodeURIComponent`)
	reTsSrvMerge = regexp.MustCompile(`body\.(\w+) = pathParams\["([^"]*)"\]`)
	reTsSrvQ     = regexp.MustCompile(`params\.get\("([^"]*)"\)`)
	reTsSrvCall  = regexp.MustCompile(`await handler\.(\w+)\(ctx, body\)`)
)

// TsServerRoutes: key = "<Service>.<lowerFirstMethod>".
func TsServerRoutes(ts string) map[string]*RouteObs {
	out := map[string]*RouteObs{}
	funcs := reTsSrvFunc.FindAllStringSubmatchIndex(ts, -1)
	for fi, fl := range funcs {
		fend := len(ts)
		if fi+1 < len(funcs) {
			fend = funcs[fi+1][0]
		}
		svc := ts[fl[2]:fl[3]]
		fbody := ts[fl[0]:fend]
		locs := reTsSrvEntry.FindAllStringSubmatchIndex(fbody, -1)
		for i, loc := range locs {
			end := len(fbody)
			if i+1 < len(locs) {
				end = locs[i+1][0]
			}
			body := fbody[loc[0]:end]
			r := &RouteObs{Verb: fbody[loc[2]:loc[3]], Path: fbody[loc[4]:loc[5]], PathVars: []string{}, Query: []string{}}
			mergedInto := map[string]string{}
			for _, m := range reTsSrvMerge.FindAllStringSubmatch(body, -1) {
				mergedInto[m[2]] = m[1]
			}
			for _, m := range reTsSrvPP.FindAllStringSubmatch(body, -1) {
				r.PathVars = append(r.PathVars, boundTo(m[1], mergedInto[m[1]]))
			}
			for _, m := range reTsSrvQ.FindAllStringSubmatch(body, -1) {
				r.Query = append(r.Query, m[1])
			}
			r.Body = strings.Contains(body, "await req.json()")
			name := ""
			if m := reTsSrvCall.FindStringSubmatch(body); m != nil {
				name = m[1]
			}
			out[svc+"."+name] = r
		}
	}
	return out
}

// OpenAPIOp is one operation of a parsed document.
type OpenAPIOp struct {
	Path, Verb, OperationID string
	Route                   *RouteObs
	Raw                     map[string]any
}

// ParseYAML parses a YAML (or JSON) document into generic Go values (maps with string keys).
func ParseYAML(doc string) (map[string]any, error) {
	var v any
	if err := yaml.Unmarshal([]byte(doc), &v); err != nil {
		return nil, err
	}
	m, ok := yamlNorm(v).(map[string]any)
	if !ok {
		return nil, fmt.Errorf("document is not a mapping")
	}
	return m, nil
}

func yamlNorm(v any) any {
	switch x := v.(type) {
	case map[string]any:
		for k, e := range x {
			x[k] = yamlNorm(e)
		}
		return x
	case map[any]any:
		out := map[string]any{}
		for k, e := range x {
			out[fmt.Sprint(k)] = yamlNorm(e)
		}
		return out
	case []any:
		for i := range x {
			x[i] = yamlNorm(x[i])
		}
		return x
	}
	return v
}

// OpenAPIOps lists the operations of a parsed document in document order is not preserved by
// generic maps; order is irrelevant for the comparisons made.
func OpenAPIOps(doc map[string]any) []*OpenAPIOp {
	var out []*OpenAPIOp
	paths, _ := doc["paths"].(map[string]any)
	for p, item := range paths {
		im, _ := item.(map[string]any)
		for verb, opv := range im {
			op, ok := opv.(map[string]any)
			if !ok {
				continue
			}
			switch verb {
			case "get", "post", "put", "delete", "patch", "head", "options", "trace":
			default:
				continue
			}
			o := &OpenAPIOp{Path: p, Verb: strings.ToUpper(verb), Raw: op}
			o.OperationID, _ = op["operationId"].(string)
			r := &RouteObs{Verb: o.Verb, Path: p, PathVars: []string{}, Query: []string{}}
			if ps, ok := op["parameters"].([]any); ok {
				for _, pv := range ps {
					pm, _ := pv.(map[string]any)
					name, _ := pm["name"].(string)
					switch pm["in"] {
					case "path":
						r.PathVars = append(r.PathVars, name)
					case "query":
						r.Query = append(r.Query, name)
					}
				}
			}
			_, r.Body = op["requestBody"]
			o.Route = r
			out = append(out, o)
		}
	}
	return out
}
