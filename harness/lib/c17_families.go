package lib

import (
	"encoding/hex"
	"encoding/json"
	"fmt"
	"math/rand"
	"sort"
	"strings"

	"google.golang.org/protobuf/reflect/protoreflect"
	"google.golang.org/protobuf/types/dynamicpb"
)

// ---- C17 family "route-isolation": per-route configuration is never shared between routes ----------
//
// Every route of RouteIsolationCatalogue is called (raw requests against the emitted Go server, the
// whole service registered as an application would) with exactly its own headers, with each sibling's
// headers, with the service's only, with none, with everything, with one of its own required headers
// left out or given a value of the wrong type.  The expected verdict of a route follows from the
// service's and the route's OWN declaration; a sibling's declaration must not matter.

func c17WrongValue(h *Header) (string, bool) {
	switch h.Type {
	case "integer":
		return "true", true
	case "boolean":
		return "42", true
	case "number":
		return "abc", true
	case "array":
		return "", false
	}
	switch h.Format {
	case "uuid", "email", "date", "date-time", "time":
		return "abc", true
	}
	return "", false
}

// c17Lines: one line per distinct (case-insensitive) name, a later declaration replacing an earlier one.
func c17Lines(decls []*Header, except string) []hdrLine {
	var out []hdrLine
	idx := map[string]int{}
	for _, h := range decls {
		k := strings.ToLower(h.Name)
		if except != "" && k == strings.ToLower(except) {
			continue
		}
		l := hdrLine{h.Name, headerGoodValue(h.Type, h.Format)}
		if i, ok := idx[k]; ok {
			out[i] = l
		} else {
			idx[k] = len(out)
			out = append(out, l)
		}
	}
	return out
}

type c17RouteCase struct {
	si, mi  int
	svc     *Service
	md      *Method
	variant string
	lines   []hdrLine
}

func c17RouteCases(req *Request) []*c17RouteCase {
	var out []*c17RouteCase
	for si, svc := range req.Files[0].Services {
		if c17IsShared(svc) {
			continue // routes over shared request messages: family "shared-message" (c17_shared.go)
		}
		for mi, md := range svc.Methods {
			add := func(variant string, lines []hdrLine) {
				out = append(out, &c17RouteCase{si: si, mi: mi, svc: svc, md: md, variant: variant, lines: lines})
			}
			own := append(append([]*Header{}, svc.Headers...), md.Headers...)
			add("own", c17Lines(own, ""))
			add("own-required", c17Lines(specEffectiveRequired(svc.Headers, md.Headers), ""))
			add("none", nil)
			add("service-only", c17Lines(svc.Headers, ""))
			var all []*Header
			all = append(all, svc.Headers...)
			for k, sib := range svc.Methods {
				if k == mi {
					continue
				}
				add(fmt.Sprintf("sibling:%s", sib.Name), c17Lines(append(append([]*Header{}, svc.Headers...), sib.Headers...), ""))
				all = append(all, sib.Headers...)
			}
			all = append(all, md.Headers...)
			add("all", c17Lines(all, ""))
			for _, h := range specEffectiveRequired(svc.Headers, md.Headers) {
				add("own-minus:"+h.Name, c17Lines(own, h.Name))
				if v, ok := c17WrongValue(h); ok {
					add("own-wrong-type:"+h.Name, append(c17Lines(own, h.Name), hdrLine{h.Name, v}))
				}
			}
		}
	}
	return out
}

// c17RouteOracle: the verdict the declarations of THIS route demand, against what the server did.
func c17RouteOracle(c *c17RouteCase, o *c09Obs) (bool, string) {
	var bad []string
	for _, h := range specEffectiveRequired(c.svc.Headers, c.md.Headers) {
		v, present := requestHeader(c.lines, h.Name)
		if !present || v == "" || !specWellFormed(h.Type, h.Format, v) {
			bad = append(bad, h.Name)
		}
	}
	sort.Strings(bad)
	if len(bad) == 0 {
		if !o.Handler || o.Status != 200 {
			return false, fmt.Sprintf("route %s.%s was sent every header its own declaration requires (%s) but answered %d %v without reaching the handler",
				c.svc.Name, c.md.Name, c17LineNames(c.lines), o.Status, o.Violations)
		}
		return true, ""
	}
	if o.Handler {
		return false, fmt.Sprintf("route %s.%s dispatched although its own declaration requires %v (sent: %s)", c.svc.Name, c.md.Name, bad, c17LineNames(c.lines))
	}
	if o.Status != 400 {
		return false, fmt.Sprintf("route %s.%s: status %d, expected 400 for %v", c.svc.Name, c.md.Name, o.Status, bad)
	}
	if strings.Join(o.Violations, ",") != strings.Join(bad, ",") {
		return false, fmt.Sprintf("route %s.%s rejected for %v; its own declaration is violated by %v (sent: %s)", c.svc.Name, c.md.Name, o.Violations, bad, c17LineNames(c.lines))
	}
	return true, ""
}

func c17LineNames(ls []hdrLine) string {
	var n []string
	for _, l := range ls {
		n = append(n, l.Name+"="+l.Value)
	}
	if len(n) == 0 {
		return "no headers"
	}
	return strings.Join(n, " ")
}

func c17RouteIsolation(run *Run, s *Session, req *Request) []*CaseResult {
	cases := c17RouteCases(req)
	scen := make([]any, len(cases))
	for i, c := range cases {
		sc := map[string]any{"id": fmt.Sprint(i), "kind": "raw", "pkg": req.ID, "service": c.svc.Name, "verb": c.md.Verb, "target": svc09Path(c.svc, c.md),
			"headers": [][2]string{{"Content-Type", "application/json"}}, "script": map[string]any{}}
		var hh [][2]string
		for _, l := range c.lines {
			hh = append(hh, [2]string{l.Name, hex.EncodeToString([]byte(l.Value))})
		}
		sc["headers_hex"] = hh
		if c.md.Verb == "POST" || c.md.Verb == "PUT" || c.md.Verb == "PATCH" {
			sc["body"] = hex.EncodeToString([]byte(`{"note":"n"}`))
		}
		scen[i] = sc
	}
	raw, err := RunScenarios(s.Runner, scen, 8)
	if err != nil {
		run.Fatal("runner (route isolation): %v", err)
	}
	// model terms: the service's header list, its routes in registration order
	defs, declName := c09Defs(req)
	var db strings.Builder
	db.WriteString(defs)
	for i, svc := range req.Files[0].Services {
		var rows []string
		for _, md := range svc.Methods {
			rows = append(rows, "("+CoqStr(md.Name)+", "+declName[svc.Name+"."+md.Name]+")")
		}
		fmt.Fprintf(&db, "Definition tbl%d : list (str * list header) := [%s].\n", i, strings.Join(rows, "; "))
	}
	var ccs []CoqCase
	var results []*CaseResult
	for i, c := range cases {
		var o RunnerObsX
		if err := json.Unmarshal(raw[i], &o); err != nil {
			run.Fatal("bad observation (route isolation %d): %v", i, err)
		}
		if o.Error != "" {
			run.Fatal("runner error on route-isolation case %d: %s", i, o.Error)
		}
		obs := &c09Obs{Status: o.Status, Handler: len(o.HandlerCalls) > 0, Violations: []string{}}
		if o.Status == 400 {
			fs := violationFields(&o.RunnerObs)
			if fs == nil {
				fs = []string{"<undecodable 400 body>"}
			}
			sort.Strings(fs)
			obs.Violations = fs
		}
		holds, note := true, ""
		if o.Panic != "" {
			holds, note = false, "panic: "+firstLine(o.Panic)
		} else if o.Timeout {
			holds, note = false, "timeout"
		} else {
			holds, note = c17RouteOracle(c, obs)
		}
		var lineTerms []string
		var lineJ []any
		for _, l := range c.lines {
			lineTerms = append(lineTerms, "("+CoqStr(l.Name)+", "+CoqStr(l.Value)+")")
			lineJ = append(lineJ, []string{l.Name, l.Value})
		}
		siblings := map[string]any{}
		for _, sib := range c.svc.Methods {
			if sib != c.md {
				siblings[sib.Name] = sib.Headers
			}
		}
		bodyVerb := c.md.Verb == "POST" || c.md.Verb == "PUT" || c.md.Verb == "PATCH"
		variant := c.variant
		if k := strings.IndexByte(variant, ':'); k >= 0 {
			variant = variant[:k]
		}
		results = append(results, &CaseResult{ID: fmt.Sprintf("%s.%s#%s", c.svc.Name, c.md.Name, c.variant), Family: "route-isolation",
			Input: map[string]any{"service": c.svc.Name, "method": c.md.Name, "verb": c.md.Verb, "service_headers": c.svc.Headers, "method_headers": c.md.Headers,
				"sibling_method_headers": siblings, "request_headers": lineJ, "variant": c.variant},
			Obs: map[string]any{"status": obs.Status, "violations": obs.Violations, "handler": obs.Handler}, OracleHolds: holds, OracleNote: note,
			NonTrivial: len(c.svc.Methods) > 1, Features: []string{"route-isolation", "variant:" + variant, "verb:" + c.md.Verb,
				fmt.Sprintf("service-headers:%d", len(c.svc.Headers)), fmt.Sprintf("routes:%d", len(c.svc.Methods))}})
		ccs = append(ccs, CoqCase{Term: fmt.Sprintf("(%s, tbl%d, %s, [%s], %s)", declName[c.svc.Name], c.si, CoqStr(c.md.Name), strings.Join(lineTerms, "; "), CoqBool(bodyVerb)),
			Obs: results[len(results)-1].Obs})
	}
	vs, err := CoqRun(run.WorkDir, "c17routes", "From Sebuf Require Import Text Json Schema Headers Conc.\n", db.String(), "c17_route_case", "predict_C17_route", ccs, 8)
	if err != nil {
		run.Fatal("model evaluation (route isolation): %v", err)
	}
	for i, cr := range results {
		cr.Apply(vs[i])
	}
	return results
}

// c17RouteSequences: family "route-sequence" — ONE registration of a service serves a sequence of requests
// on its routes (then the same requests concurrently): state the server keeps between requests (caches
// keyed by service, merged header sets, ...) must not let a sibling route's declaration or an earlier request
// decide a later one.  Verdicts as in "route-isolation".
func c17RouteSequences(run *Run, s *Session, req *Request, rng *rand.Rand) []*CaseResult {
	all := c17RouteCases(req)
	bySvc := map[int][]*c17RouteCase{}
	for _, c := range all {
		bySvc[c.si] = append(bySvc[c.si], c)
	}
	steps := 18
	if run.Tier == "thorough" {
		steps = 120
	}
	type rseq struct {
		si    int
		svc   *Service
		cases []*c17RouteCase
		par   int
	}
	var seqs []*rseq
	for si, svc := range req.Files[0].Services {
		if c17IsShared(svc) {
			continue
		}
		q := &rseq{si: si, svc: svc}
		pool := bySvc[si]
		// every route once with its own headers first (random order), then anything
		var own []*c17RouteCase
		for _, c := range pool {
			if c.variant == "own" {
				own = append(own, c)
			}
		}
		rng.Shuffle(len(own), func(a, b int) { own[a], own[b] = own[b], own[a] })
		q.cases = append(q.cases, own...)
		for len(q.cases) < steps {
			q.cases = append(q.cases, pool[rng.Intn(len(pool))])
		}
		seqs = append(seqs, q)
		seqs = append(seqs, &rseq{si: si, svc: svc, cases: q.cases, par: 8})
	}
	scen := make([]any, len(seqs))
	for i, q := range seqs {
		var sts []any
		for _, c := range q.cases {
			st := map[string]any{"verb": c.md.Verb, "target": svc09Path(c.svc, c.md), "headers": [][2]string{{"Content-Type", "application/json"}}, "script": map[string]any{}}
			var hh [][2]string
			for _, l := range c.lines {
				hh = append(hh, [2]string{l.Name, hex.EncodeToString([]byte(l.Value))})
			}
			st["headers_hex"] = hh
			if c.md.Verb == "POST" || c.md.Verb == "PUT" || c.md.Verb == "PATCH" {
				st["body"] = hex.EncodeToString([]byte(`{"note":"n"}`))
			}
			sts = append(sts, st)
		}
		scen[i] = map[string]any{"id": fmt.Sprint(i), "kind": "rawseq", "pkg": req.ID, "service": q.svc.Name, "raw_steps": sts, "parallelism": q.par}
	}
	raw, err := RunScenarios(s.Runner, scen, 8)
	if err != nil {
		run.Fatal("runner (route sequences): %v", err)
	}
	defs, declName := c09Defs(req)
	var db strings.Builder
	db.WriteString(defs)
	for i, svc := range req.Files[0].Services {
		var rows []string
		for _, md := range svc.Methods {
			rows = append(rows, "("+CoqStr(md.Name)+", "+declName[svc.Name+"."+md.Name]+")")
		}
		fmt.Fprintf(&db, "Definition tbl%d : list (str * list header) := [%s].\n", i, strings.Join(rows, "; "))
	}
	var results []*CaseResult
	var ccs []CoqCase
	for i, q := range seqs {
		var o RunnerObs
		if err := json.Unmarshal(raw[i], &o); err != nil || o.Error != "" || (o.Panic == "" && len(o.Sub) != len(q.cases)) {
			run.Fatal("bad observation (route sequence %d): %v %s", i, err, o.Error)
		}
		fam := "route-sequence"
		if q.par > 1 {
			fam = "route-sequence-concurrent"
		}
		var stepObs, stepIn []any
		var terms []string
		bad, note := 0, ""
		if o.Panic != "" {
			bad, note = 1, "registration: "+firstLine(o.Panic)
		}
		for k, c := range q.cases {
			if k >= len(o.Sub) {
				break
			}
			sub := &o.Sub[k]
			obs := &c09Obs{Status: sub.Status, Handler: len(sub.HandlerCalls) > 0, Violations: []string{}}
			if sub.Status == 400 {
				fs := violationFields(sub)
				if fs == nil {
					fs = []string{"<undecodable 400 body>"}
				}
				sort.Strings(fs)
				obs.Violations = fs
			}
			holds, n := true, ""
			if sub.Panic != "" {
				holds, n = false, "panic: "+firstLine(sub.Panic)
			} else if sub.Error != "" {
				run.Fatal("runner error in route sequence %d step %d: %s", i, k, sub.Error)
			} else {
				holds, n = c17RouteOracle(c, obs)
			}
			if !holds {
				bad++
				if note == "" {
					note = fmt.Sprintf("request %d of the sequence", k)
					if q.par <= 1 && k > 0 {
						note += fmt.Sprintf(" (the one before went to %s)", q.cases[k-1].md.Name)
					}
					note += ": " + n
				}
			}
			stepObs = append(stepObs, map[string]any{"status": obs.Status, "violations": obs.Violations, "handler": obs.Handler})
			var lineTerms []string
			var lineJ []any
			for _, l := range c.lines {
				lineTerms = append(lineTerms, "("+CoqStr(l.Name)+", "+CoqStr(l.Value)+")")
				lineJ = append(lineJ, []string{l.Name, l.Value})
			}
			bodyVerb := c.md.Verb == "POST" || c.md.Verb == "PUT" || c.md.Verb == "PATCH"
			terms = append(terms, fmt.Sprintf("(%s, [%s], %s)", CoqStr(c.md.Name), strings.Join(lineTerms, "; "), CoqBool(bodyVerb)))
			stepIn = append(stepIn, map[string]any{"method": c.md.Name, "verb": c.md.Verb, "variant": c.variant, "request_headers": lineJ})
		}
		if bad > 1 {
			note = fmt.Sprintf("%s (and %d more requests)", note, bad-1)
		}
		methods := map[string]any{}
		for _, md := range q.svc.Methods {
			methods[md.Name] = md.Headers
		}
		input := map[string]any{"service": q.svc.Name, "service_headers": q.svc.Headers, "method_headers": methods, "requests": stepIn}
		if q.par > 1 {
			input["parallelism"] = q.par
		}
		obs := map[string]any{"steps": stepObs}
		results = append(results, &CaseResult{ID: fmt.Sprintf("%s/%s", q.svc.Name, map[bool]string{false: "seq", true: "par"}[q.par > 1]), Family: fam, Input: input, Obs: obs,
			OracleHolds: bad == 0, OracleNote: note, NonTrivial: true,
			Features: []string{fam, fmt.Sprintf("service-headers:%d", len(q.svc.Headers)), fmt.Sprintf("routes:%d", len(q.svc.Methods))}})
		ccs = append(ccs, CoqCase{Term: fmt.Sprintf("(%s, tbl%d,\n [%s])", declName[q.svc.Name], q.si, strings.Join(terms, ";\n  ")), Obs: obs})
	}
	vs, err := CoqRun(run.WorkDir, "c17routeseq", "From Sebuf Require Import Text Json Schema Headers Conc.\n", db.String(), "c17_route_seq_case", "predict_C17_route_seq", ccs, 8)
	if err != nil {
		run.Fatal("model evaluation (route sequences): %v", err)
	}
	for i, cr := range results {
		cr.Apply(vs[i])
	}
	// routes over SHARED request messages, every call order in a process of its own (c17_shared.go)
	results = append(results, c17SharedMessage(run, s, req, rng)...)
	return results
}

// ---- C17 family "call-sequence": no history dependence of shared clients / package-level state -------
//
// Sequences of calls on several client instances (two services; several instances of one service with
// different client-level options; one with an unusable base URL).  Calls WITH per-call options (headers,
// typed header helpers, content type) that fail at every stage — request cannot be marshalled, request
// cannot be created, transport error, 4xx, 5xx, undecodable response — or succeed, each followed by calls
// WITHOUT options.  Every request that goes on the wire must carry exactly Content-Type, its instance's
// defaults and its own call's options; every call must end as it does when issued alone.

type c17SeqClient struct {
	Service  string            `json:"service"`
	BaseURL  string            `json:"base_url,omitempty"`
	CT       string            `json:"content_type,omitempty"`
	Defaults [][2]string       `json:"default_headers,omitempty"`
	Helper   map[string]string `json:"helper_client,omitempty"`
}

type c17SeqStep struct {
	Client  int               `json:"client"`
	Method  string            `json:"method"`
	Stage   string            `json:"stage"` // marshal | create | transport | 4xx | 5xx | garbage | ok (what the environment is scripted to do)
	CallCT  string            `json:"call_content_type,omitempty"`
	CallHdr [][2]string       `json:"call_headers,omitempty"`
	Helper  map[string]string `json:"helper_call,omitempty"`
	Fault   string            `json:"fault,omitempty"`
	ReqHex  string            `json:"req"`
	script  map[string]any
}

type c17StepObs struct {
	Sent    bool              `json:"sent"`
	Headers map[string]string `json:"headers"`
	OK      bool              `json:"ok"`
}

var c17HelperHeader = map[string]string{"Trace": "X-Trace", "Idem": "X-Idem"}

func (st *c17SeqStep) plain() bool {
	return st.CallCT == "" && len(st.CallHdr) == 0 && len(st.Helper) == 0
}

func (st *c17SeqStep) describe(cl []*c17SeqClient) string {
	var o []string
	if st.CallCT != "" {
		o = append(o, "content type "+st.CallCT)
	}
	for _, kv := range st.CallHdr {
		o = append(o, kv[0]+"="+kv[1])
	}
	for _, fn := range sortedKeys(st.Helper) {
		o = append(o, c17HelperHeader[fn]+"="+st.Helper[fn]+" (helper)")
	}
	opts := "no per-call options"
	if len(o) > 0 {
		opts = "per-call " + strings.Join(o, ", ")
	}
	return fmt.Sprintf("%s.%s on client %d [%s; scripted to end at: %s]", cl[st.Client].Service, st.Method, st.Client, opts, st.Stage)
}

func sortedKeys(m map[string]string) []string {
	var ks []string
	for k := range m {
		ks = append(ks, k)
	}
	sort.Strings(ks)
	return ks
}

// c17Expected: what the step's OWN inputs demand (its instance's construction options + its own options).
func c17Expected(cl *c17SeqClient, st *c17SeqStep) *c17StepObs {
	e := &c17StepObs{Headers: map[string]string{}}
	if st.Stage == "marshal" || st.Stage == "create" {
		return e
	}
	e.Sent = true
	e.OK = st.Stage == "ok"
	ct := cl.CT
	if ct == "" {
		ct = "application/json"
	}
	if st.CallCT != "" {
		ct = st.CallCT
	}
	e.Headers["content-type"] = ct
	for _, kv := range cl.Defaults {
		e.Headers[strings.ToLower(kv[0])] = kv[1]
	}
	for _, fn := range sortedKeys(cl.Helper) {
		e.Headers[strings.ToLower(c17HelperHeader[fn])] = cl.Helper[fn]
	}
	for _, kv := range st.CallHdr {
		e.Headers[strings.ToLower(kv[0])] = kv[1]
	}
	for _, fn := range sortedKeys(st.Helper) {
		e.Headers[strings.ToLower(c17HelperHeader[fn])] = st.Helper[fn]
	}
	return e
}

func c17Observed(o *RunnerObs) *c17StepObs {
	ob := &c17StepObs{Headers: map[string]string{}, OK: o.Client != nil && o.Client.Resp != nil}
	if len(o.Requests) > 0 {
		ob.Sent = true
		for k, v := range o.Requests[0].Header {
			lk := strings.ToLower(k)
			if lk == "content-length" || lk == "user-agent" {
				continue
			}
			ob.Headers[lk] = strings.Join(v, ",")
		}
	}
	return ob
}

func c17StepDiff(want, got *c17StepObs) string {
	if want.Sent != got.Sent {
		return fmt.Sprintf("request on the wire: %v, expected %v", got.Sent, want.Sent)
	}
	var names []string
	seen := map[string]bool{}
	for k := range want.Headers {
		names = append(names, k)
		seen[k] = true
	}
	for k := range got.Headers {
		if !seen[k] {
			names = append(names, k)
		}
	}
	sort.Strings(names)
	for _, k := range names {
		w, wok := want.Headers[k]
		g, gok := got.Headers[k]
		switch {
		case wok && !gok:
			return fmt.Sprintf("header %s absent from the request, expected %q", k, w)
		case !wok && gok:
			return fmt.Sprintf("carried header %s: %q which neither its client's defaults nor its own options contain", k, g)
		case w != g:
			return fmt.Sprintf("carried %s: %q, expected %q", k, g, w)
		}
	}
	if want.OK != got.OK {
		return fmt.Sprintf("call succeeded: %v, expected %v", got.OK, want.OK)
	}
	return ""
}

type c17Seq struct {
	clients []*c17SeqClient
	steps   []*c17SeqStep
	par     int
}

func (q *c17Seq) scenario(id string, steps []*c17SeqStep, par int) map[string]any {
	var cls, sts []any
	for _, c := range q.clients {
		cls = append(cls, map[string]any{"service": c.Service, "base_url": c.BaseURL,
			"opts": map[string]any{"ContentType": c.CT, "DefaultHeaders": c.Defaults, "HelperClient": c.Helper}})
	}
	for _, st := range steps {
		sts = append(sts, map[string]any{"client": st.Client, "method": st.Method, "req": st.ReqHex, "fault": st.Fault, "script": st.script,
			"opts": map[string]any{"CallContentType": st.CallCT, "CallHeaders": st.CallHdr, "HelperCall": st.Helper}})
	}
	return map[string]any{"id": id, "kind": "seq", "pkg": "rtseq", "seq_clients": cls, "steps": sts, "parallelism": par}
}

// c17BuildSequences draws the sequences.
func c17BuildSequences(g *GenOutput, req *Request, rng *rand.Rand, n, length int) []*c17Seq {
	svcByName := map[string]*Service{}
	for _, svc := range req.Files[0].Services {
		svcByName[svc.Name] = svc
	}
	bodyVerb := func(md *Method) bool { return md.Verb == "POST" || md.Verb == "PUT" || md.Verb == "PATCH" }
	texts := []string{"t", "hello", "x y", "caf\xc3\xa9", "0"}
	mkReq := func(md *Method, bad bool, k int) string {
		m := dynamicpb.NewMessage(g.Built.MessageDesc(md.In))
		fs := m.Descriptor().Fields()
		if fd := fs.ByName("id"); fd != nil {
			m.Set(fd, protoreflect.ValueOfString(fmt.Sprintf("n%d", k)))
		}
		if fd := fs.ByName("text"); fd != nil {
			m.Set(fd, protoreflect.ValueOfString(texts[rng.Intn(len(texts))]))
		}
		if fd := fs.ByName("tag"); fd != nil && rng.Intn(2) == 0 {
			m.Set(fd, protoreflect.ValueOfString(fmt.Sprintf("g%d", k)))
		}
		if fd := fs.ByName("at"); fd != nil && (bad || rng.Intn(2) == 0) {
			ts := m.Mutable(fd).Message()
			secs, nanos := int64(1700000000+k), int64(0)
			if bad {
				// outside 0001-01-01..9999-12-31 or with nanos outside [0, 1e9): protojson refuses to marshal it
				switch rng.Intn(3) {
				case 0:
					secs = 1 << 55
				case 1:
					secs = -(1 << 50)
				default:
					nanos = -5
				}
			}
			ts.Set(ts.Descriptor().Fields().ByName("seconds"), protoreflect.ValueOfInt64(secs))
			ts.Set(ts.Descriptor().Fields().ByName("nanos"), protoreflect.ValueOfInt32(int32(nanos)))
		}
		return WireHex(m)
	}
	mkResp := func(md *Method, k int) string {
		m := dynamicpb.NewMessage(g.Built.MessageDesc(md.Out))
		fs := m.Descriptor().Fields()
		if fd := fs.ByName("id"); fd != nil {
			m.Set(fd, protoreflect.ValueOfString(fmt.Sprintf("r%d", k)))
		}
		if fd := fs.ByName("ids"); fd != nil {
			m.Mutable(fd).List().Append(protoreflect.ValueOfString(fmt.Sprintf("r%d", k)))
		}
		return WireHex(m)
	}
	const jsonCT, protoCT, octetCT = "application/json", "application/x-protobuf", "application/octet-stream"
	var out []*c17Seq
	for qi := 0; qi < n; qi++ {
		q := &c17Seq{par: []int{4, 8, 16}[rng.Intn(3)]}
		q.clients = []*c17SeqClient{
			{Service: "Notes", Defaults: [][2]string{{"X-Call-Tag", "dflt"}, {"X-Client-Tag", "c0"}}},
			{Service: "Notes", CT: protoCT},
			{Service: "Notes", BaseURL: "http://verif.test:bad", Defaults: [][2]string{{"X-Client-Tag", "c2"}}},
			{Service: "Audit", Defaults: [][2]string{{"X-Client-Tag", "a3"}}},
			{Service: "Notes", CT: jsonCT, Defaults: [][2]string{{"X-Client-Tag", "c4"}}, Helper: map[string]string{"Trace": "tr4"}},
			{Service: "Audit", CT: protoCT, Defaults: [][2]string{{"X-Call-Tag", "a5"}}},
			// client-level content type given as the binary alias
			{Service: "Notes", CT: octetCT, Defaults: [][2]string{{"X-Client-Tag", "c6"}}},
		}
		effCT := func(cl *c17SeqClient, callCT string) string {
			if callCT != "" {
				return callCT
			}
			if cl.CT != "" {
				return cl.CT
			}
			return jsonCT
		}
		forceCT := "" // systematic part: the per-call content type of the next step with options
		addStep := func(ci int, stage string, withOpts bool) {
			cl := q.clients[ci]
			svc := svcByName[cl.Service]
			k := len(q.steps)
			st := &c17SeqStep{Client: ci, Stage: stage}
			if withOpts {
				switch rng.Intn(4) {
				case 0:
					st.CallHdr = [][2]string{{"X-Call-Tag", fmt.Sprintf("t%d", k)}}
				case 1:
					st.CallHdr = [][2]string{{"X-Call-Tag", fmt.Sprintf("t%d", k)}, {"X-Call-Extra", fmt.Sprintf("e%d", k)}}
				case 2:
					st.CallHdr = [][2]string{{"X-Call-Extra", fmt.Sprintf("e%d", k)}}
					if cl.Service == "Notes" {
						st.Helper = map[string]string{"Trace": fmt.Sprintf("h%d", k)}
					}
				default:
					st.CallHdr = [][2]string{{"X-Tenant", fmt.Sprintf("tenant-%d", k)}}
					if cl.Service == "Notes" && rng.Intn(2) == 0 {
						st.Helper = map[string]string{"Idem": fmt.Sprintf("i%d", k)}
					}
				}
				// every value the per-call content-type option accepts: the two named constants, the
				// binary alias the emitted marshalRequest/unmarshalResponse also take, or no option
				switch rng.Intn(5) {
				case 0:
					st.CallCT = protoCT
				case 1:
					st.CallCT = jsonCT
				case 2, 3:
					st.CallCT = octetCT
				}
				if forceCT != "" {
					st.CallCT = forceCT
				}
			}
			// the method: a marshal failure needs a body route and a JSON content type
			var cands []*Method
			for _, md := range svc.Methods {
				if stage != "marshal" || bodyVerb(md) {
					cands = append(cands, md)
				}
			}
			md := cands[rng.Intn(len(cands))]
			st.Method = md.Name
			bad := stage == "marshal"
			if bad && effCT(cl, st.CallCT) != jsonCT {
				if withOpts {
					st.CallCT = jsonCT
				} else {
					// a plain call on a binary client marshals any value: it is sent
					bad = false
					st.Stage = "ok"
				}
			}
			st.ReqHex = mkReq(md, bad, k)
			st.script = map[string]any{"resp": mkResp(md, k)}
			switch st.Stage {
			case "create":
				st.Fault = "nil_ctx"
			case "transport":
				st.Fault = "transport"
			case "garbage":
				st.Fault = "garbage"
			case "4xx":
				st.script = map[string]any{"err": map[string]any{"kind": "validation", "violations": [][2]string{{"text", "scripted"}}}}
			case "5xx":
				st.script = map[string]any{"err": map[string]any{"kind": "plain", "msg": "scripted failure"}}
			}
			if cl.BaseURL != "" && st.Stage != "marshal" {
				// the instance's base URL does not parse: no request can be created, whatever else is scripted
				st.Stage = "create"
			}
			q.steps = append(q.steps, st)
		}
		sameService := func(ci int, same bool) int {
			var c []int
			for i, cl := range q.clients {
				if (cl.Service == q.clients[ci].Service) == same && i != ci {
					c = append(c, i)
				}
			}
			return c[rng.Intn(len(c))]
		}
		dirtyStages := []string{"marshal", "marshal", "marshal", "create", "create", "transport", "4xx", "5xx", "garbage", "ok"}
		plainStages := []string{"ok", "ok", "ok", "ok", "ok", "ok", "transport", "4xx", "5xx", "garbage", "marshal", "create"}
		if qi == n-1 {
			// systematic: on every instance every value of the per-call content-type option, each
			// followed by a plain call on the SAME instance
			for ci := range q.clients {
				for _, ct := range []string{octetCT, jsonCT, protoCT} {
					forceCT = ct
					addStep(ci, "ok", true)
					forceCT = ""
					addStep(ci, "ok", false)
				}
			}
		}
		for len(q.steps) < length {
			ci := rng.Intn(len(q.clients))
			stage := dirtyStages[(qi+len(q.steps)+rng.Intn(len(dirtyStages)))%len(dirtyStages)]
			addStep(ci, stage, true)
			for f := 1 + rng.Intn(3); f > 0; f-- {
				pc := ci
				switch rng.Intn(10) {
				case 0, 1, 2: // another instance of the same service
					pc = sameService(ci, true)
				case 3, 4: // the other service
					pc = sameService(ci, false)
				}
				addStep(pc, plainStages[rng.Intn(len(plainStages))], false)
			}
		}
		out = append(out, q)
	}
	return out
}

var c17StageCoq = map[string]string{"marshal": "StMarshal", "create": "StCreate", "transport": "StTransport", "4xx": "St4xx", "5xx": "St5xx", "garbage": "StGarbage", "ok": "StOk"}

func c17CoqPairs(kvs [][2]string) string {
	var out []string
	for _, kv := range kvs {
		out = append(out, "("+CoqStr(kv[0])+", "+CoqStr(kv[1])+")")
	}
	return "[" + strings.Join(out, "; ") + "]"
}

func (q *c17Seq) coqTerm() string {
	var cls, cs []string
	for _, c := range q.clients {
		ct := c.CT
		if ct == "" {
			ct = "application/json"
		}
		d := append([][2]string{}, c.Defaults...)
		for _, fn := range sortedKeys(c.Helper) {
			d = append(d, [2]string{c17HelperHeader[fn], c.Helper[fn]})
		}
		cls = append(cls, fmt.Sprintf("{| cl_ct := %s; cl_defaults := %s |}", CoqStr(ct), c17CoqPairs(d)))
	}
	for _, st := range q.steps {
		h := append([][2]string{}, st.CallHdr...)
		for _, fn := range sortedKeys(st.Helper) {
			h = append(h, [2]string{c17HelperHeader[fn], st.Helper[fn]})
		}
		cs = append(cs, fmt.Sprintf("{| cc_client := %d; cc_ct := %s; cc_headers := %s; cc_stage := %s |}", st.Client, CoqStr(st.CallCT), c17CoqPairs(h), c17StageCoq[st.Stage]))
	}
	return "([" + strings.Join(cls, ";\n  ") + "],\n [" + strings.Join(cs, ";\n  ") + "])"
}

// c17Sequences runs the sequences (sequentially, then the same steps concurrently), every step alone,
// and compares.  Returns the case results and the runner's stderr (race reports).
func c17Sequences(run *Run, s *Session, req *Request, g *GenOutput, rng *rand.Rand) ([]*CaseResult, string) {
	n, length := 10, 24
	if run.Tier == "thorough" {
		n, length = 100, 60
	}
	seqs := c17BuildSequences(g, req, rng, n, length)
	// ONE runner process for all sequences: package-level state of the emitted client, if there is any,
	// lives as long as the process
	var scen []any
	for qi, q := range seqs {
		scen = append(scen, q.scenario(fmt.Sprintf("seq%d", qi), q.steps, 1))
	}
	for qi, q := range seqs {
		scen = append(scen, q.scenario(fmt.Sprintf("par%d", qi), q.steps, q.par))
	}
	raws, stderr, err := runScenariosStderr(s.Runner, scen)
	crashed := strings.Contains(stderr, "fatal error:") || strings.Contains(stderr, "panic:")
	if err != nil && !strings.Contains(stderr, "DATA RACE") && !crashed {
		run.Fatal("runner (sequences): %v\n%s", err, tail(stderr, 2000))
	}
	// every step alone: a scenario of its own (fresh instances), spread over fresh processes
	var iso []any
	for qi, q := range seqs {
		for si, st := range q.steps {
			iso = append(iso, q.scenario(fmt.Sprintf("iso%d.%d", qi, si), []*c17SeqStep{st}, 1))
		}
	}
	isoRaw, err := RunScenarios(s.Runner, iso, 8)
	if err != nil {
		run.Fatal("runner (sequence steps alone): %v", err)
	}
	var results []*CaseResult
	var ccs []CoqCase
	ik := 0
	for pass, fam := range []string{"call-sequence", "call-sequence-concurrent"} {
		ik = 0
		for qi, q := range seqs {
			id := fmt.Sprintf("rtseq/%s%d", map[int]string{0: "seq", 1: "par"}[pass], qi)
			var so RunnerObs
			rawObs := raws[pass*len(seqs)+qi]
			input := map[string]any{"schema": req.ID, "clients": q.clients, "steps": q.steps}
			if pass == 1 {
				input["parallelism"] = q.par
			}
			if rawObs == nil || json.Unmarshal(rawObs, &so) != nil || so.Error != "" || len(so.Sub) != len(q.steps) {
				note := "the process running the generated code gave no observation for this sequence: " + so.Error + so.Panic
				if crashed {
					i0 := strings.Index(stderr, "fatal error:")
					if i0 < 0 {
						i0 = strings.Index(stderr, "panic:")
					}
					note = "the process running the generated code crashed: " + firstLine(stderr[i0:])
				}
				cr := &CaseResult{ID: id, Family: fam, Input: input, Obs: map[string]any{"process": "no observation"}, Pred: map[string]any{"process": "observation"},
					OracleHolds: false, OracleNote: note, NonTrivial: true}
				cr.Compare()
				results = append(results, cr)
				ccs = append(ccs, CoqCase{})
				ik += len(q.steps)
				continue
			}
			var steps []*c17StepObs
			bad, note := 0, ""
			for si, st := range q.steps {
				sub := &so.Sub[si]
				got := c17Observed(sub)
				steps = append(steps, got)
				var io RunnerObs
				json.Unmarshal(isoRaw[ik], &io)
				ik++
				where := func() string {
					w := fmt.Sprintf("step %d: %s", si, st.describe(q.clients))
					if pass == 0 && si > 0 {
						// the nearest earlier call with per-call options
						for j := si - 1; j >= 0; j-- {
							if !q.steps[j].plain() {
								w += fmt.Sprintf("; after step %d: %s", j, q.steps[j].describe(q.clients))
								break
							}
						}
					}
					return w
				}
				problem := ""
				if sub.Error != "" {
					problem = "runner: " + sub.Error
				} else if sub.Panic != "" {
					problem = "panic: " + firstLine(sub.Panic)
				} else if d := c17StepDiff(c17Expected(q.clients[st.Client], st), got); d != "" {
					problem = d
				} else if len(io.Sub) == 1 {
					// the same call as the only call made on freshly constructed instances
					if d := c17StepDiff(c17Expected(q.clients[st.Client], st), c17Observed(&io.Sub[0])); d != "" {
						problem = "the same call issued alone on fresh client instances (same process as other lone calls): " + d
					} else if a, b := clientSummary(&io.Sub[0]), clientSummary(sub); a != b {
						problem = fmt.Sprintf("result differs from the same call issued alone: alone %s, in the sequence %s", short(a), short(b))
					}
				}
				if problem != "" {
					bad++
					if note == "" {
						note = where() + ": " + problem
					}
				}
			}
			obs := map[string]any{"steps": steps}
			cr := &CaseResult{ID: id, Family: fam, Input: input, Obs: obs, OracleHolds: bad == 0, OracleNote: note, NonTrivial: true,
				Features: []string{fam, fmt.Sprintf("steps:%d", len(q.steps))}}
			if bad > 1 {
				cr.OracleNote = fmt.Sprintf("%s (and %d more steps)", note, bad-1)
			}
			for _, st := range q.steps {
				f := "stage:" + st.Stage
				if !st.plain() {
					f += "+options"
				}
				cr.Features = append(cr.Features, f)
			}
			results = append(results, cr)
			ccs = append(ccs, CoqCase{Term: q.coqTerm(), Obs: obs})
		}
	}
	// model evaluation (cases without an observation are skipped)
	var live []CoqCase
	var idx []int
	for i, c := range ccs {
		if c.Term != "" {
			live = append(live, c)
			idx = append(idx, i)
		}
	}
	vs, err := CoqRun(run.WorkDir, "c17seq", "From Sebuf Require Import Text Json Schema Headers Conc.\n", "", "c17_seq_case", "predict_C17_seq", live, 8)
	if err != nil {
		run.Fatal("model evaluation (sequences): %v", err)
	}
	for k, i := range idx {
		results[i].Apply(vs[k])
	}
	run.Extra["sequence_steps"] = len(iso)
	return results, stderr
}
